#!/usr/bin/env python3
"""Regenerates /verif/MANIFEST.json from the table below (one entry per claimed property)."""
import json, subprocess

ENV = "GOFLAGS=-mod=mod GOPROXY=off GOSUMDB=off GOTOOLCHAIN=local GOWORK=off"

# id -> (clause decided, level_note (assumed / trusted / NOT decided), technique, design_ref)
CLAIMED = {
    "C10": (
        "Structural clause decided for ALL finite trees of the module's node kinds (induction over the tree): the walker has a clause per node kind; every clause passes the address of every child slot to the recursion exactly once per path, in source order; Enter precedes the dispatch which re-reads *node; Exit once after the children; ast.Patch carries type+location and stores through the pointer; every pipeline stage walks the one tree that is compiled; library rewrites are linear (no operand reused twice). This is the whole traversal contract except the behaviour of user visitors.",
        "Trusted: go/types, the path enumerator over the walker's syntax. Assumed: trees contain only the module's node kinds. Not decided: what user visitors do. One known finding (F12: inRange shares one operand node).",
        "exhaustiveness + per-path slot-consumption analysis of the walker's type switch (AST paths, go/types), who-passes-which-tree dataflow in expr.Compile, rewrite-site linearity",
        "DESIGN.md §4 C10, §3 E1/E6"),
}

# properties not (yet) claimed: id -> reason
NOT_APPLICABLE = {
}

def main():
    props = [json.loads(l) for l in open("/verif/properties.jsonl")]
    checks = []
    for p in props:
        pid = p["id"]
        if pid not in CLAIMED:
            continue
        clause, note, tech, ref = CLAIMED[pid]
        checks.append({
            "property_id": pid,
            "quick_cmd": f"./bin/exprlint check {pid} --tier quick",
            "thorough_cmd": f"./bin/exprlint check {pid} --tier thorough",
            "evidence_file": f"/verif/evidence/{pid}.json",
            "replay_cmd_template": "./bin/exprlint replay {path}",
            "engine": "exprlint",
            "level_claimed": {"category": "other", "text": clause, "design_ref": ref},
            "level_note": note,
            "technique": "static analysis: " + tech,
        })
    na = []
    for p in props:
        pid = p["id"]
        if pid in CLAIMED:
            continue
        na.append({"property_id": pid, "reason": NOT_APPLICABLE.get(pid, "no static check is registered for this property yet (see DESIGN.md §4 for the clause that static analysis can decide); nothing is claimed")})
    fixes = subprocess.run(["git", "-C", "/repo", "log", "--format=%h %s", "--grep=^fix:"], capture_output=True, text=True).stdout.strip().splitlines()
    m = {
        "version": 1,
        "setup_cmd": f"cd /verif/tool && {ENV} go build -o /verif/bin/exprlint ./cmd/exprlint",
        "hooks": {
            "guard": "verif",
            "enable": "none needed: the checks read /repo's source (go/packages, go/types, go/ssa); no instrumentation is compiled into the repository",
            "baseline_off_cmd": "cd /repo && GOFLAGS=-mod=mod GOPROXY=off GOSUMDB=off go test -json -vet=off -count=1 -timeout 25m ./...",
            "source_commits": [],
            "add_only": True,
        },
        "engines": [{
            "name": "exprlint",
            "path": "/verif/tool",
            "serves_properties": sorted(CLAIMED),
            "kind_free_text": "repository-specific static analyser (Go, go/packages + go/types + go/ssa + go/cfg of x/tools v0.29.0): table cross-checks, per-path syntactic effect extraction, bytecode-template verification, call-graph containment; in-memory overlay mutants as positive controls",
        }],
        "checks": checks,
        "not_applicable": na,
        "notes": "All checks are static: they load and type-check /repo's current working tree on every run and never execute repository code. Level 'other' everywhere: each check decides a named structural clause that is a necessary condition of the property (DESIGN.md §4) and says what it does not decide. fix: commits in /repo: " + "; ".join(fixes),
    }
    json.dump(m, open("/verif/MANIFEST.json", "w"), indent=1)
    print("claimed", sorted(CLAIMED), "not_applicable", [x["property_id"] for x in na])

main()
