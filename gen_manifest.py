#!/usr/bin/env python3
"""Regenerates /verif/MANIFEST.json from the table below (one entry per claimed property)."""
import json, subprocess

ENV = "GOFLAGS=-mod=mod GOPROXY=off GOSUMDB=off GOTOOLCHAIN=local GOWORK=off"

# id -> (clause decided, level_note (assumed / trusted / NOT decided), technique, design_ref)
CLAIMED = {
    "C01": (
        "The clauses of the statement that are visible in the code-generation templates (one per node kind and path, extracted from the compiler's scheme methods) and in the VM's handlers, for programs of any size by induction over the tree: every template evaluates every child slot of its kind exactly once in source order (list slots by one loop, the fixed-arity builtins by the indices of the parser's arity table, optional slots skipped only under their own nil test); abstract execution of the `and`, `or` and conditional templates against the VM's jump signatures yields, for each truth value of the deciding operand, exactly the operands the definition requires to be evaluated and the right result operand; each binary/unary operator's template ends in the instruction(s) whose handler applies the Go primitive the operator denotes, every such handler applies ONE primitive on all completing paths, and (left, right) reach the primitive's (first, second) parameter — (subject, pattern) for matches; call handlers and array/map builders fill position i with the i-th pushed value and each call handler invokes its callee exactly once; no library rewrite uses an operand twice; no run-time helper compares two dynamic values with Go's ==. Each is a necessary condition of the property; the value-level conformance itself is not claimed.",
        "Trusted: go/types; the template and signature extractors shared with C05 (fail closed); the small table of what each DSL operator denotes (tool/props/c01.go, from docs/Language-Definition.md). Two known findings (F13: a slice's upper bound is evaluated before its lower bound; F12: the range rewrite shares one operand node). NOT decided: the values computed by fetch, slice, in, length, makeRange and reflective calls, nil-safe navigation, error conditions; feasibility of template paths; results of the loop builtins (C18) and numeric promotion (C14).",
        "template/handler analysis: child-coverage and order census over extracted templates, symbolic execution of short-circuit templates against VM jump signatures, operator → instruction → handler → primitive chain with composed operand order, counted-loop shape of call handlers, rewrite linearity",
        "DESIGN.md §4 C01"),
    "C02": (
        "Per rewrite site of the optimizer (every call of ast.Patch, directly or through a local wrapper), the clauses without which the rewrite cannot be meaning-preserving: a rewrite that keeps a dynamic operand of the matched node while replacing its sibling or operator (literal-array membership → map lookup, literal-range membership → two comparisons) is reached only on paths whose conditions pin the operand's STATIC TYPE to one predeclared kind (not nil, not another kind, not a named type), the kind being the lookup map's key kind; a fold that computes on integer literals in Go int under an operator through which the checker's literal retyping descends is reached only for literals whose type is nil or plain int; no replacement uses an operand twice or drops a child that the path has not established to be a literal; the only errors the optimizer creates are the constant division/modulo by zero and the recovered panic of a compile-time call, and Optimize returns nothing else; expr.Compile runs the optimizer only under the Optimize option, after the last type check, operator patch and visitors, before code generation; each fold applies the Go operator (math.Pow for **) that its case's DSL operator denotes, operands in order; constant integer division is dominated by the zero test; `x in a..b` becomes `x >= a and x <= b`, `not in` its negation. Each is a necessary condition with a concrete optimized-vs-unoptimized counterexample when broken.",
        "Trusted: go/types, the rewrite-site extractor, the path enumerator and the finite abstract evaluation of type guards (nil | kind × named/predeclared; three-valued, so a condition it cannot read excludes nothing and the site fails closed). Two known findings (F9n: an operand without static type still reaches the range rewrite; F12: the range rewrite shares one operand node). NOT decided: equality of results itself; integer overflow differences between folded and run-time arithmetic; purity of ConstExpr functions; agreement of the compile-time and run-time range builders (R2.7) and element order of literal-array folds (R2.8), not built.",
        "rewrite-site analysis: path-sensitive abstract evaluation of type guards over a finite type abstraction + linearity/drop census + error-site census + stage ordering over the paths of expr.Compile + operator agreement of folds",
        "DESIGN.md §4 C02"),
    "C04": (
        "Panic CONTAINMENT for the kinds of panic whose presence is visible in the code (not the absence of all panics): every guard frame defers its recover before any unprotected dynamic call and records an error on the recovered path (statements before the defer are analysed as unprotected); the walker, the type checker and the compiler each have a clause for every node kind, so their `default: panic` is unreachable for trees of the module's kinds, including trees rewritten by user visitors; in the unguarded region — library functions reachable from Parse, Compile, Eval, Run, vm.Run, (*VM).Run and the option closures without entering a guard frame, plus the guard frames' handlers — there is no explicit panic other than such a default and no single-value type assertion that is not dominated by a successful test of the same assertion; every return of an API function yields (zero, error) or (value, nil). Each clause is a necessary condition: breaking it gives a concrete input on which an API call panics or returns a value together with an error.",
        "Trusted: go/types, go/ssa, the VTA call graph (with the option closures added as roots, because `op(config)` is an edge no call graph resolves). NOT decided, and said so in the evidence: termination; value-dependent run-time panics in the unguarded region (index and slice bounds, nil dereference including method calls on a nil reflect.Type — DESIGN K3 was not built —, reflect argument ranges, stack exhaustion); panics raised by user visitors; that every recorded first error is returned (R4.5 not built).",
        "guard-frame recognition + dispatcher exhaustiveness + unguarded-region census of explicit panics and hard type assertions over the call graph + syntactic result discipline",
        "DESIGN.md §4 C04, §3 E5 (K1, K2, K4; not K3)"),
    "C05": (
        "Structural clauses decided for EVERY program the compiler can emit from a tree of the module's node kinds (structural induction over the tree, one template per path through each kind's code-generation scheme): opcode table = VM handlers = disassembler cases, with agreeing operand width and jump direction; every emitted instruction carries the operand kind and width its handler decodes; every forward placeholder is patched exactly once, every backward jump targets a label captured earlier; writer and reader offset arithmetic agree (affine evaluation of emit, patchJump, calcBackwardJump, VM.arg, the fetch step and the jump handlers: landing = patch point resp. label) and byte order agrees between encode, VM.arg and the disassembler; no instruction pops below its template's entry depth, all paths agree on depth at joins, each template leaves exactly its kind's effect; Begin/End scopes balanced on all paths, scope variables stored before read; conversions to the 16-bit operand are dominated by a range check; makeConstant returns the index of the element it appended or found. This is the whole well-formedness/balance statement except path feasibility and operand values.",
        "Trusted: go/types; the template extractor (path enumeration of the scheme methods with closure inlining) and the instruction-signature extractor, both of which fail closed (an unrecognised construct is an undecided obligation = failure). Assumed: trees contain only the module's node kinds; all template paths are taken as feasible (over-approximation). Not decided: that an operand designates the intended constant.",
        "bytecode-verifier-style typestate analysis of extracted emitter templates against extracted VM instruction signatures; affine evaluation of offset arithmetic; table cross-checks",
        "DESIGN.md §4 C05, §3 E2/E3"),
    "C06": (
        "The accounting discipline, for every dispatch handler and every path through it: each freshly created collection that reaches the evaluation stack is accompanied unconditionally by a counter update by exactly its length and by a comparison of the counter including that amount with the limit using >=, panicking on failure; the amount is provably non-negative; the counter is written only by these updates and the prologue reset; the limit comes from the package variable in the prologue; compile-time allocations in the optimizer are capped by a constant. These are necessary conditions of the property: breaking any of them yields a concrete program whose run escapes or is wrongly refused by the budget.",
        "Trusted: go/types, affine evaluation of the handlers' straight-line top level. Assumed: programs come from Compile (the non-negativity of OpArray/OpMap's popped count rests on the C05 verifier's origin analysis). Not decided: that the count equals a reference evaluator's notion of elements an evaluation must create; allocations inside environment functions.",
        "per-handler allocation → accounting → limit-check analysis with sign obligations (AST + go/types + affine forms)",
        "DESIGN.md §4 C06"),
    "C07": (
        "The re-initialisation discipline: the set of VM fields that any *VM method assigns is computed, and each is assigned on every path through (*VM).Run before the dispatch loop (or the path crosses the false edge of `field != nil`) with a value that mentions no VM state except a zero-length reslice of the field itself. With C08's no-shared-write rules a run is then a function of (program, environment, budget) only — the complete argument for the property under the stated assumptions.",
        "Trusted: go/types; the structured must-assign analysis of Run's prologue (if/else and one level of *VM method inlining). Assumed: environment functions keep no state. Not decided: state in the debug channels of vm.Debug() (Run closes them, such VMs are single-use).",
        "computed mutable-field set + must-assign analysis of the Run prologue + history-independence of the assigned values",
        "DESIGN.md §4 C07"),
    "C08": (
        "Freedom from unsynchronised writes to shared state as an effect property over the SSA form of every library function: no function other than a package initialiser writes (store, map update, append, copy, delete, send, close, sort, reflect setter) an object rooted at a package-level variable; every write effect of every function reachable from vm.Run / (*VM).Run is rooted at a fresh object or at per-run receiver state, never at a parameter (program, env), never behind a field borrowed from the program, never behind a dynamic value taken from the stack; fields of vm.Program are stored only into a Program allocated in the same function; foreign pointer-receiver methods called on shared objects are in a reasoned allow-list.",
        "Trusted: go/ssa, the VTA call graph for run-side reachability (closures of reachable functions and Error/String methods added), the root classification (fails closed: an unclassified target is an undecided obligation). Assumed: a vm.VM value is used by one goroutine at a time. Not decided: races inside environment functions, user visitors or reflect-invoked methods; result equality under concurrency (follows from C07's argument).",
        "SSA effect analysis with address-root classification and call-result summaries; who-writes over the module",
        "DESIGN.md §4 C08, §3 E4"),
    "C09": (
        "Absence of nondeterminism sources and of input writes over every library function in the import closure of the root package: no go statement, select, time, math/rand, crypto/rand or process-environment access; every iteration over a map's entries on the compile side has an order-insensitive body (stores keyed by the entry's key, body-local definitions, error returns) and none exists in functions reachable from Run; no reflect.Value setter anywhere in the library; run-side writes touch only fresh or per-run objects (shared with C08).",
        "Trusted: go/ssa, go/types, the order-insensitivity rules for loop bodies (a statement form they do not know is a violation). Not decided: byte-for-byte equality itself; environment functions and user visitors; which of several configuration errors is reported first.",
        "source census over SSA + syntactic order-insensitivity analysis of every map loop",
        "DESIGN.md §4 C09, §3 E4"),
    "C10": (
        "Structural clause decided for ALL finite trees of the module's node kinds (induction over the tree): the walker has a clause per node kind; every clause passes the address of every child slot to the recursion exactly once per path, in source order; Enter precedes the dispatch which re-reads *node; Exit once after the children; ast.Patch carries type+location and stores through the pointer; every pipeline stage walks the one tree that is compiled; library rewrites are linear (no operand reused twice). This is the whole traversal contract except the behaviour of user visitors.",
        "Trusted: go/types, the path enumerator over the walker's syntax. Assumed: trees contain only the module's node kinds. Not decided: what user visitors do. One known finding (F12: inRange shares one operand node).",
        "exhaustiveness + per-path slot-consumption analysis of the walker's type switch (AST paths, go/types), who-passes-which-tree dataflow in expr.Compile, rewrite-site linearity",
        "DESIGN.md §4 C10, §3 E1/E6"),
    "C11": (
        "The BINDING RELATION of the operator-precedence parser, for all operator pairs (finite, fully enumerated): the two operator tables are read as constants; for each entry the climbing function's continuation test and the minimum precedence handed to the recursive parse of the right operand (and of a unary operator's operand) are obtained by constant propagation along the function's syntactic paths; the relation `b is absorbed into a's right operand` (23x23) and `b is absorbed into u's operand` (4x23) computed from them equals the reference relation stated as binding classes plus associativity (numbers are free); synonyms bind alike; every operator is accepted at the outermost level; every bracketed, argument, branch and top-level context restarts at that one level; the conditional form is attached only there and never inside an operator's operand; the climbing loop and the unary rule build their node from the looked-up token and the operands in source order; the conditional's three children are filled in source order. Each clause is a necessary condition: a pair whose relation differs is a two-operator expression that parses to a different tree.",
        "Trusted: go/types; the path enumerator and the small constant propagator (fail closed: an entry whose recursive minimum does not evaluate to a constant, or paths that disagree, are undecided obligations). The reference relation is a table in the checker (tool/props/c11.go) confirmed against docs/Language-Definition.md and the operator families; a new operator is reported as undecided until the reference is extended. NOT decided: print/parse round-tripping and agreement with a reference grammar on arbitrary token sequences; postfix forms, array/map/closure syntax, error recovery; that the lexer produces exactly the tables' operator tokens.",
        "table extraction + per-entry constant propagation through the climbing function (AST paths, go/types) + exhaustive comparison of the induced binding relation with a class/associativity reference",
        "DESIGN.md §4 C11"),
    "C12": (
        "ONE necessary condition, thin and said so: the routing of number spellings. From the scanner's digit alphabets (default, and the one installed after each accepted radix prefix) and the parser's ordered classification predicates, every spelling class the property names — decimal integers, and hexadecimal integers for every prefix letter the scanner accepts — is routed, uniformly for all its members, to an integer parse whose base fits: a predicate whose character set meets the class's alphabet may be reached only if an earlier predicate already matches every member of the class. Breaking it makes some literal of the class be rejected or mis-valued (the property's own example `0x1e`). Value round-tripping itself is not decided.",
        "Trusted: go/types; the two small extractors (scanner alphabets, parser classification chain), which fail closed: a chain test that is not strings.Contains/ContainsAny of a constant is an undecided obligation. NOT decided: that strconv returns exactly the written number; string scanning and unescaping (R12.2 not built); token line/column (R12.3 not built); octal and binary prefixes (outside the property).",
        "cross-check of the scanner's alphabets against the parser's ordered classification predicates (set reasoning over finite character sets)",
        "DESIGN.md §4 C12 (R12.1 only)"),
    "C13": (
        "That every node, error and instruction CARRIES a location taken from the construct it describes — a necessary condition of reporting the right position: every node literal the parser builds has SetLocation called on it with a non-empty location before it is returned, stored or reassigned; of the nodes the optimizer passes and the operator patcher build, the root of a replacement goes through ast.Patch (which copies the location, C10 R10.4) and every nested fresh node is given a location explicitly or is of a kind whose code cannot fail (templates of constant pushes whose handlers only call the push/constant primitives); every file.Error literal takes its Location from a node, a token, the lexer position or the program's location table; the emitter files the location of the node on top of its node stack under the offset of the opcode it appends, the node stack is pushed and popped around every dispatch, and the VM's recover handler looks the table up with the saved offset of the opcode being executed.",
        "Trusted: go/types, the template and signature extractors (shared with C05), the rewrite-site extractor (shared with C10). NOT decided: that the location a node carries is the right one (map keys and pairs inherit the brace's position); column arithmetic for multi-line and non-ASCII sources; the snippet rendering; that every *file.Error leaving the API passed through Bind with the right source (R13.5 not built).",
        "who-locates-what census over node and error literals + affine agreement of the location table key with the VM's lookup",
        "DESIGN.md §4 C13"),
    "C14": (
        "Exhaustive table check (finite instance space, exhaustive: true): one total rank of the twelve numeric kinds is shared by the checker's weight function, the generator's kind list and the direction of every conversion in the generated helpers; every (kind, kind) case of every helper converts exactly the lower-ranked operand to the higher-ranked kind, operands in order; each case applies the helper's operator, which is the DSL operator whose compilation reaches that helper (template → opcode → handler → helper); the static type of each arithmetic case is the kind the checker predicts by weight, comparisons yield bool; all pairs present (modulo: integers only); negate/toInt/toInt64/toFloat64 cover all kinds in the plain Go form; generated file = generator table. Each case is a one-line Go expression whose meaning is Go's, so this decides the property up to Go's semantics of conversions and operators.",
        "Trusted: go/types and the Go specification. Not decided: the position of the platform-sized uint/int inside their groups (taken from the repository's two tables, which must agree); integer division by zero is Go's panic, contained by Run's recover (C04, not claimed here).",
        "exhaustive cross-check of the generated type-switch table against the checker's weight function and the generator (AST + go/types)",
        "DESIGN.md §4 C14, §3 E7"),
    "C17": (
        "The structural clauses on which `a op b` = `fn(a, b)` rests for EVERY occurrence: the type checker and the operator patcher call one resolver with the functions registered for the node's own operator, the configuration's types table and the static types of (left, right) in that order, and neither makes a test before the resolver call that the other does not make (typed-as-overloaded = rewritten); the replacement is a call of the function the resolver returned with [left, right], each once; expr.Compile validates the mapping and returns its error before the first type check, and the validation establishes what the resolver relies on (exists, unambiguous non-nil type, is a function, exactly the parameter count the resolver indexes incl. a method's receiver, exactly one result); on every path from a type check to code generation an operator patch follows that check; the walk that applies the patch reaches every child slot of every node kind through its address (C10's walker rules); ast.Patch keeps type and location. Each clause is a necessary condition: breaking it yields an occurrence that is type-checked as overloaded and executed as built-in (or the reverse), a call with swapped operands, or a mapping that panics instead of being rejected.",
        "Trusted: go/types, the path enumerator, the rewrite-site and walker analyses shared with C10. NOT decided: that the call evaluates to the function applied to the operands (C01's call rule); the resolver's choice among several candidates for given operand types (first match by identity or interface implementation — a value-level question); the retyping of integer-literal arguments inside call arguments (checker.checkFunc), which can change the operand types an inner operator is resolved with.",
        "resolver call-site agreement (arguments and guards, path-sensitive) + rewrite-site shape + must-precede / must-follow over the paths of expr.Compile + validation-vs-resolver precondition agreement + walker completeness",
        "DESIGN.md §4 C17"),
}

# properties not claimed: id -> reason
_NOT_BUILT = "DESIGN.md §4 names the structural clause static analysis could decide, but the checker for it was not built in the time available; nothing is claimed. The behavioural statement itself quantifies over run-time values (results of evaluation for every input and environment) and no sound static argument in reach bounds those"
NOT_APPLICABLE = {
    "C03": "type soundness over all environment values of a type needs an abstract interpretation of checker and VM over reflect types that is out of reach; the agreement rules of DESIGN.md §4 C03 were not built. " + _NOT_BUILT,
    "C15": "equality of results between typed and untyped compilation for every environment value is a run-time equivalence; the instruction-selection guard rules of DESIGN.md §4 C15 were not built. " + _NOT_BUILT,
    "C16": "agreement of the checker's name table with reflection-based lookup for every environment type quantifies over all Go types; the member-class agreement rules of DESIGN.md §4 C16 were not built. " + _NOT_BUILT,
    "C18": "the builtin identities quantify over all arrays and predicates (run-time values); the loop-skeleton clause is partly covered by C05's template verification (scopes, counters, stack balance), but the identities themselves are not decided and nothing is claimed. " + _NOT_BUILT,
}

def main():
    props = [json.loads(l) for l in open("/verif/properties.jsonl")]
    checks = []
    for p in props:
        pid = p["id"]
        if pid not in CLAIMED:
            continue
        clause, note, tech, ref = CLAIMED[pid]
        checks.append({
            "property_id": pid,
            "quick_cmd": f"./bin/exprlint check {pid} --tier quick",
            "thorough_cmd": f"./bin/exprlint check {pid} --tier thorough",
            "evidence_file": f"/verif/evidence/{pid}.json",
            "replay_cmd_template": "./bin/exprlint replay {path}",
            "engine": "exprlint",
            "level_claimed": {"category": "other", "text": clause, "design_ref": ref},
            "level_note": note,
            "technique": "static analysis: " + tech,
        })
    na = []
    for p in props:
        pid = p["id"]
        if pid in CLAIMED:
            continue
        na.append({"property_id": pid, "reason": NOT_APPLICABLE[pid]})
    fixes = subprocess.run(["git", "-C", "/repo", "log", "--format=%h %s", "--grep=^fix:"], capture_output=True, text=True).stdout.strip().splitlines()
    m = {
        "version": 1,
        "setup_cmd": f"cd /verif/tool && {ENV} go build -o /verif/bin/exprlint ./cmd/exprlint",
        "hooks": {
            "guard": "verif",
            "enable": "none needed: the checks read /repo's source (go/packages, go/types, go/ssa); no instrumentation is compiled into the repository",
            "baseline_off_cmd": "cd /repo && GOFLAGS=-mod=mod GOPROXY=off GOSUMDB=off go test -json -vet=off -count=1 -timeout 25m ./...",
            "source_commits": [],
            "add_only": True,
        },
        "engines": [{
            "name": "exprlint",
            "path": "/verif/tool",
            "serves_properties": sorted(CLAIMED),
            "kind_free_text": "repository-specific static analyser (Go, go/packages + go/types + go/ssa + go/cfg of x/tools v0.29.0): table cross-checks, per-path syntactic effect extraction, bytecode-template verification, call-graph containment; in-memory overlay mutants as positive controls",
        }],
        "checks": checks,
        "not_applicable": na,
        "notes": "All checks are static: they load and type-check /repo's current working tree on every run and never execute repository code. Level 'other' everywhere: each check decides a named structural clause that is a necessary condition of the property (DESIGN.md §4) and says what it does not decide. fix: commits in /repo: " + "; ".join(fixes),
    }
    json.dump(m, open("/verif/MANIFEST.json", "w"), indent=1)
    print("claimed", sorted(CLAIMED), "not_applicable", [x["property_id"] for x in na])

main()
