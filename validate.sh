#!/bin/sh
# validates MANIFEST.json and every evidence file against the harness schemas
python3-vt - <<'PY'
import json,glob,jsonschema
jsonschema.validate(json.load(open('/verif/MANIFEST.json')),json.load(open('/root/.vp/MANIFEST.schema.json')))
s=json.load(open('/root/.vp/EVIDENCE.schema.json'))
for f in sorted(glob.glob('/verif/evidence/*.json')):
    jsonschema.validate(json.load(open(f)),s)
print('manifest and evidence valid')
PY
