// exprlint: static checks of the 18 properties of antonmedv/expr (see /verif/DESIGN.md).
package main

import (
	"encoding/json"
	"fmt"
	"os"
	"sort"

	"verif/exprlint/core"
	"verif/exprlint/props"
)

func usage() {
	fmt.Fprintln(os.Stderr, "usage: exprlint check <Cxx> [--tier quick|thorough] | replay <file> | list | mutants <Cxx>")
	os.Exit(2)
}

func main() {
	if len(os.Args) < 2 {
		usage()
	}
	switch os.Args[1] {
	case "list":
		ids := []string{}
		for id := range props.Registry {
			ids = append(ids, id)
		}
		sort.Strings(ids)
		for _, id := range ids {
			fmt.Println(id)
		}
	case "check":
		if len(os.Args) < 3 {
			usage()
		}
		tier := os.Getenv("VERIF_TIER")
		for i := 3; i < len(os.Args); i++ {
			if os.Args[i] == "--tier" && i+1 < len(os.Args) {
				tier = os.Args[i+1]
			}
		}
		if tier != "thorough" {
			tier = "quick"
		}
		os.Exit(props.RunCheck(os.Args[2], tier))
	case "replay":
		if len(os.Args) < 3 {
			usage()
		}
		b, err := os.ReadFile(os.Args[2])
		if err != nil {
			fmt.Println(err)
			os.Exit(2)
		}
		var rp struct{ Property, Rule, Construct, Tier string }
		if err := json.Unmarshal(b, &rp); err != nil {
			fmt.Println(err)
			os.Exit(2)
		}
		os.Exit(props.Replay(rp.Property, rp.Rule, rp.Construct))
	case "mutants":
		if len(os.Args) < 3 {
			usage()
		}
		os.Exit(props.RunMutants(os.Args[2], core.NewReport(os.Args[2], "thorough"), true))
	case "dump":
		if len(os.Args) < 3 {
			usage()
		}
		os.Exit(props.Dump(os.Args[2]))
	default:
		usage()
	}
}
