package props

import (
	"fmt"
	"go/ast"
	"go/constant"
	"go/token"
	"go/types"
	"strings"

	"verif/exprlint/core"
	"verif/exprlint/eng"
)

// ---- shared helpers -------------------------------------------------------------------

// primDecl returns the declaration of the compiler primitive playing the given role.
func primDecl(p *core.Program, e *engines, role string) *ast.FuncDecl {
	for fn, r := range e.em.Prims {
		if r == role {
			if _, fd := p.DeclOf(fn); fd != nil {
				return fd
			}
		}
	}
	return nil
}

func vmPrimDecl(p *core.Program, e *engines, role string) *ast.FuncDecl {
	for fn, r := range e.vm.Prims {
		if r == role {
			if _, fd := p.DeclOf(fn); fd != nil {
				return fd
			}
		}
	}
	return nil
}

// isByteSliceField: e selects a struct field of type []byte (the code buffer).
func isByteSliceField(info *types.Info, e ast.Expr) bool {
	sel, ok := eng.Unparen(e).(*ast.SelectorExpr)
	if !ok {
		return false
	}
	s := info.Selections[sel]
	if s == nil {
		return false
	}
	v, ok := s.Obj().(*types.Var)
	if !ok || !v.IsField() {
		return false
	}
	sl, ok := v.Type().(*types.Slice)
	if !ok {
		return false
	}
	b, ok := sl.Elem().(*types.Basic)
	return ok && b.Kind() == types.Uint8
}

// isNamedField: e selects the struct field with the given name.
func isNamedField(info *types.Info, e ast.Expr, name string) bool {
	sel, ok := eng.Unparen(e).(*ast.SelectorExpr)
	if !ok {
		return false
	}
	s := info.Selections[sel]
	if s == nil {
		return false
	}
	v, ok := s.Obj().(*types.Var)
	return ok && v.IsField() && v.Name() == name
}

func isLenOf(info *types.Info, e ast.Expr, pred func(ast.Expr) bool) bool {
	c, ok := eng.Unparen(e).(*ast.CallExpr)
	if !ok || len(c.Args) != 1 {
		return false
	}
	id, ok := c.Fun.(*ast.Ident)
	if !ok || id.Name != "len" {
		return false
	}
	if _, isBuiltin := info.Uses[id].(*types.Builtin); !isBuiltin {
		return false
	}
	return pred(c.Args[0])
}

func substAff(a eng.Aff, sym string, by eng.Aff) eng.Aff {
	k, ok := a.T[sym]
	if !ok {
		return a
	}
	out := eng.Aff{C: a.C, T: map[string]int64{}}
	for s, v := range a.T {
		if s != sym {
			out.T[s] = v
		}
	}
	for i := int64(0); i < abs64(k); i++ {
		if k > 0 {
			out = out.Add(by, 1)
		} else {
			out = out.Add(by, -1)
		}
	}
	return out
}

func abs64(x int64) int64 {
	if x < 0 {
		return -x
	}
	return x
}

// codeEnv evaluates expressions of a compiler primitive: len(<code buffer>) is the symbol LEN.
func codeEnv(info *types.Info) *eng.AffEnv {
	env := &eng.AffEnv{Info: info, Vars: map[types.Object]eng.Aff{}}
	env.Sym = func(x ast.Expr) (string, bool) {
		if isLenOf(info, x, func(a ast.Expr) bool { return isByteSliceField(info, a) }) {
			return "LEN", true
		}
		return "", false
	}
	return env
}

// byteOrderOfWriter: how a func(uint16) []byte lays the value out: "little", "big" or "".
func byteOrderOfWriter(info *types.Info, fd *ast.FuncDecl) (order string, width int64) {
	width = -1
	ast.Inspect(fd.Body, func(n ast.Node) bool {
		switch x := n.(type) {
		case *ast.CallExpr:
			if id, ok := x.Fun.(*ast.Ident); ok && id.Name == "make" && len(x.Args) >= 2 {
				if tv, ok := info.Types[x.Args[1]]; ok && tv.Value != nil {
					if v, ok := constant.Int64Val(tv.Value); ok {
						width = v
					}
				}
			}
			if fn := eng.CalleeOf(info, x); fn != nil && fn.Pkg() != nil && fn.Pkg().Path() == "encoding/binary" && fn.Name() == "PutUint16" {
				if sel, ok := x.Fun.(*ast.SelectorExpr); ok {
					switch eng.ExprStr(sel.X) {
					case "binary.LittleEndian":
						order = "little"
					case "binary.BigEndian":
						order = "big"
					}
				}
			}
		case *ast.CompositeLit:
			// []byte{byte(i), byte(i >> 8)}
			if len(x.Elts) == 2 {
				width = 2
				sh := func(e ast.Expr) bool {
					found := false
					ast.Inspect(e, func(m ast.Node) bool {
						if b, ok := m.(*ast.BinaryExpr); ok && b.Op == token.SHR {
							found = true
						}
						return true
					})
					return found
				}
				if !sh(x.Elts[0]) && sh(x.Elts[1]) {
					order = "little"
				} else if sh(x.Elts[0]) && !sh(x.Elts[1]) {
					order = "big"
				}
			}
		}
		return true
	})
	return
}

// readerModel describes a function that reads a 16-bit operand from code[ip].
type readerModel struct {
	order   string // little | big
	advance int64  // how far ip moves
	ok      bool
	why     string
	narrow  bool // the high byte is shifted in 8-bit arithmetic
}

// readerOf analyses a body that reads code[ipExpr] and code[ipExpr+1], combines them and
// advances ip. ipIs tells whether an expression is the instruction pointer.
func readerOf(info *types.Info, body *ast.BlockStmt, ipIs func(ast.Expr) bool) readerModel {
	rm := readerModel{advance: -1}
	// variables bound to code[ip+k]
	off := map[types.Object]int64{}
	bind := func(lhs ast.Expr, rhs ast.Expr) {
		id, ok := lhs.(*ast.Ident)
		if !ok {
			return
		}
		if k, ok := codeIndexOffset(info, rhs, ipIs); ok {
			off[objOf(info, id)] = k
		}
	}
	ast.Inspect(body, func(n ast.Node) bool {
		switch s := n.(type) {
		case *ast.AssignStmt:
			if len(s.Lhs) == len(s.Rhs) {
				for i := range s.Lhs {
					bind(s.Lhs[i], s.Rhs[i])
				}
			}
			if len(s.Lhs) == 1 && ipIs(s.Lhs[0]) && s.Tok == token.ADD_ASSIGN {
				if tv, ok := info.Types[s.Rhs[0]]; ok && tv.Value != nil {
					if v, ok := constant.Int64Val(tv.Value); ok {
						if rm.advance >= 0 {
							rm.advance += v
						} else {
							rm.advance = v
						}
					}
				}
			}
		case *ast.CallExpr:
			if fn := eng.CalleeOf(info, s); fn != nil && fn.Pkg() != nil && fn.Pkg().Path() == "encoding/binary" && fn.Name() == "Uint16" {
				if sel, ok := s.Fun.(*ast.SelectorExpr); ok {
					switch eng.ExprStr(sel.X) {
					case "binary.LittleEndian":
						rm.order = "little"
					case "binary.BigEndian":
						rm.order = "big"
					}
				}
			}
		case *ast.BinaryExpr:
			if s.Op != token.OR && s.Op != token.ADD {
				return true
			}
			// uint16(lo) | uint16(hi)<<8
			shifted := func(e ast.Expr) (ast.Expr, bool) {
				b, ok := eng.Unparen(e).(*ast.BinaryExpr)
				if ok && b.Op == token.SHL {
					if tv, ok := info.Types[b.Y]; ok && tv.Value != nil && tv.Value.ExactString() == "8" {
						return b.X, true
					}
				}
				return e, false
			}
			which := func(e ast.Expr) (int64, bool) {
				e = eng.Unparen(e)
				for {
					c, ok := e.(*ast.CallExpr)
					if !ok || len(c.Args) != 1 {
						break
					}
					if tv, ok := info.Types[c.Fun]; !ok || !tv.IsType() {
						break
					}
					e = eng.Unparen(c.Args[0])
				}
				if id, ok := e.(*ast.Ident); ok {
					k, ok := off[info.Uses[id]]
					return k, ok
				}
				return codeIndexOffset(info, e, ipIs)
			}
			xs, xsh := shifted(s.X)
			ys, ysh := shifted(s.Y)
			if xsh == ysh {
				return true
			}
			lo, hi := xs, ys
			if xsh {
				lo, hi = ys, xs
			}
			lk, ok1 := which(lo)
			hk, ok2 := which(hi)
			// the shifted operand must be at least 16 bits wide: a byte shifted by 8 is 0
			wide := false
			if t := info.TypeOf(hi); t != nil {
				if b, ok := t.Underlying().(*types.Basic); ok {
					switch b.Kind() {
					case types.Uint16, types.Int16, types.Uint32, types.Int32, types.Uint64, types.Int64, types.Uint, types.Int, types.UntypedInt:
						wide = true
					}
				}
			}
			if ok1 && ok2 && !wide {
				rm.order = ""
				rm.narrow = true
				return true
			}
			if ok1 && ok2 {
				switch {
				case lk == 0 && hk == 1:
					rm.order = "little"
				case lk == 1 && hk == 0:
					rm.order = "big"
				}
			}
		}
		return true
	})
	switch {
	case rm.narrow:
		rm.why = "the high operand byte is shifted in 8-bit arithmetic (`b<<8` on a byte is 0): the reader drops the high byte of every operand"
	case rm.order == "":
		rm.why = "the way the two operand bytes are combined is not recognised"
	case rm.advance < 0:
		rm.why = "no constant advance of the instruction pointer found"
	default:
		rm.ok = true
	}
	return rm
}

// readerOfDelegating: readerOf, or — when the body hands the decoding to a function of the
// same package that takes the instruction pointer and returns the new one
// (`a, ip = program.operand(ip)`) — the analysis of that function with its parameter standing
// for the instruction pointer; the advance is the constant its returned offset adds.
func readerOfDelegating(p *core.Program, info *types.Info, body *ast.BlockStmt, ipIs func(ast.Expr) bool) readerModel {
	rm := readerOf(info, body, ipIs)
	if rm.ok || rm.narrow {
		return rm
	}
	var out *readerModel
	ast.Inspect(body, func(n ast.Node) bool {
		as, ok := n.(*ast.AssignStmt)
		if !ok || len(as.Rhs) != 1 || out != nil {
			return true
		}
		call, ok := eng.Unparen(as.Rhs[0]).(*ast.CallExpr)
		if !ok {
			return true
		}
		fn := eng.CalleeOf(info, call)
		if fn == nil {
			return true
		}
		_, hfd := p.DeclOf(fn)
		if hfd == nil || hfd.Body == nil || hfd.Type.Params == nil {
			return true
		}
		argK, resJ := -1, -1
		for i, a := range call.Args {
			if ipIs(a) {
				argK = i
			}
		}
		for j, l := range as.Lhs {
			if ipIs(l) {
				resJ = j
			}
		}
		if argK < 0 || resJ < 0 {
			return true
		}
		var param types.Object
		k := 0
		for _, f := range hfd.Type.Params.List {
			for _, nm := range f.Names {
				if k == argK {
					param = info.Defs[nm]
				}
				k++
			}
		}
		if param == nil {
			return true
		}
		isParam := func(x ast.Expr) bool {
			id, ok := eng.Unparen(x).(*ast.Ident)
			return ok && info.Uses[id] == param
		}
		sub := readerOf(info, hfd.Body, isParam)
		if sub.narrow {
			out = &sub
			return true
		}
		if sub.order == "" {
			return true
		}
		// the new offset: param + c on the decoding return (a return of the bare parameter is
		// the truncated case, which consumes nothing)
		adv := int64(-1)
		okRet := true
		ast.Inspect(hfd.Body, func(m ast.Node) bool {
			if _, isLit := m.(*ast.FuncLit); isLit {
				return false
			}
			rs, ok := m.(*ast.ReturnStmt)
			if !ok || resJ >= len(rs.Results) {
				return true
			}
			e := eng.Unparen(rs.Results[resJ])
			if isParam(e) {
				return true
			}
			if b, ok := e.(*ast.BinaryExpr); ok && b.Op == token.ADD && isParam(b.X) {
				if tv, ok := info.Types[b.Y]; ok && tv.Value != nil {
					if v, ok := constant.Int64Val(tv.Value); ok && (adv < 0 || adv == v) {
						adv = v
						return true
					}
				}
			}
			okRet = false
			return true
		})
		if okRet && adv >= 0 {
			sub.advance, sub.ok, sub.why = adv, true, ""
			out = &sub
		}
		return true
	})
	if out != nil {
		return *out
	}
	return rm
}

// codeIndexOffset: e is code[ip+k] (k constant ≥ 0).
func codeIndexOffset(info *types.Info, e ast.Expr, ipIs func(ast.Expr) bool) (int64, bool) {
	ix, ok := eng.Unparen(e).(*ast.IndexExpr)
	if !ok {
		return 0, false
	}
	t := info.TypeOf(ix.X)
	if t == nil {
		return 0, false
	}
	sl, ok := t.Underlying().(*types.Slice)
	if !ok {
		return 0, false
	}
	if b, ok := sl.Elem().(*types.Basic); !ok || b.Kind() != types.Uint8 {
		return 0, false
	}
	idx := eng.Unparen(ix.Index)
	if ipIs(idx) {
		return 0, true
	}
	if b, ok := idx.(*ast.BinaryExpr); ok && b.Op == token.ADD && ipIs(b.X) {
		if tv, ok := info.Types[b.Y]; ok && tv.Value != nil {
			if v, ok := constant.Int64Val(tv.Value); ok {
				return v, true
			}
		}
	}
	return 0, false
}

// ---- R5.3: writer / reader offset arithmetic and byte order -----------------------------

type emitModel struct {
	ret   eng.Aff // returned position, in terms of L0 = len(code) at entry
	final eng.Aff // len(code) at exit, in terms of L0 and W (operand width)
}

// analyseEmit abstractly executes emit's straight-line body.
func analyseEmit(info *types.Info, fd *ast.FuncDecl) (*emitModel, string) {
	env := codeEnv(info)
	lenB := eng.AffSym("L0")
	var ret *eng.Aff
	for _, st := range fd.Body.List {
		switch s := st.(type) {
		case *ast.AssignStmt:
			if len(s.Lhs) == 1 && len(s.Rhs) == 1 && isByteSliceField(info, s.Lhs[0]) {
				c, ok := s.Rhs[0].(*ast.CallExpr)
				if !ok {
					return nil, "the code buffer is assigned from something other than append"
				}
				id, ok := c.Fun.(*ast.Ident)
				if !ok || id.Name != "append" || len(c.Args) < 1 || !isByteSliceField(info, c.Args[0]) {
					return nil, "the code buffer is assigned from something other than append(buffer, …)"
				}
				if c.Ellipsis.IsValid() {
					lenB = lenB.Add(eng.AffSym("W"), 1)
				} else {
					lenB = lenB.Add(eng.AffConst(int64(len(c.Args)-1)), 1)
				}
				continue
			}
			if len(s.Lhs) == 1 && len(s.Rhs) == 1 {
				if id, ok := s.Lhs[0].(*ast.Ident); ok {
					if a, ok := env.Eval(s.Rhs[0]); ok {
						env.Vars[objOf(info, id)] = substAff(a, "LEN", lenB)
					}
				}
			}
		case *ast.ReturnStmt:
			if len(s.Results) != 1 {
				return nil, "emit does not return one value"
			}
			a, ok := env.Eval(s.Results[0])
			if !ok {
				return nil, "the returned position is not an affine expression of the buffer length"
			}
			a = substAff(a, "LEN", lenB)
			ret = &a
		case *ast.IfStmt, *ast.DeclStmt, *ast.ExprStmt:
			// must not touch the code buffer
			bad := false
			ast.Inspect(s, func(n ast.Node) bool {
				if as, ok := n.(*ast.AssignStmt); ok {
					for _, l := range as.Lhs {
						if isByteSliceField(info, l) {
							bad = true
						}
					}
				}
				return true
			})
			if bad {
				return nil, "the code buffer is written inside a nested statement of emit"
			}
		default:
			return nil, fmt.Sprintf("statement form %T in emit not understood", st)
		}
	}
	if ret == nil {
		return nil, "emit has no return statement at top level"
	}
	return &emitModel{ret: *ret, final: lenB}, ""
}

func offsetRules(p *core.Program, r *core.Report, e *engines) {
	cinfo := p.Pkg("compiler").TypesInfo
	vinfo := p.Pkg("vm").TypesInfo
	rule := "R5.3"
	und := func(construct, pos, msg string) { r.Unk(rule, construct, pos, msg) }

	// --- writer side
	emitFd := primDecl(p, e, "emit")
	patchFd := primDecl(p, e, "patch")
	backFd := primDecl(p, e, "calcback")
	phFd := primDecl(p, e, "placeholder")
	var encFd *ast.FuncDecl
	if e.em.Encode != nil {
		_, encFd = p.DeclOf(e.em.Encode)
	}
	if emitFd == nil || patchFd == nil || backFd == nil || phFd == nil || encFd == nil {
		und("compiler/jump primitives", "", "emit / patchJump / calcBackwardJump / placeholder / encode not all found")
		return
	}
	em, msg := analyseEmit(cinfo, emitFd)
	if em == nil {
		und("compiler.(compiler).emit/returned position", p.Pos(emitFd.Pos()), msg)
		return
	}
	// operand position: exactly one byte (the opcode) precedes it, operand bytes follow
	okEmit := em.ret.Equal(eng.AffSym("L0").Add(eng.AffConst(1), 1)) && em.final.Equal(eng.AffSym("L0").Add(eng.AffConst(1), 1).Add(eng.AffSym("W"), 1))
	r.Check(okEmit, rule, "compiler.(compiler).emit/returned position", p.Pos(emitFd.Pos()),
		"emit appends the opcode, returns the position of the first operand byte ("+em.ret.String()+") and then appends the operand (final length "+em.final.String()+")",
		"emit returns "+em.ret.String()+" and leaves the buffer at "+em.final.String()+" (expected L0+1 and L0+1+W): patchJump overwrites bytes that are not the jump's operand")

	encOrder, encWidth := byteOrderOfWriter(cinfo, encFd)
	if encOrder == "" || encWidth < 0 {
		und("compiler.encode/layout", p.Pos(encFd.Pos()), "byte layout of encode not recognised")
		return
	}
	// placeholder width
	phWidth := int64(-1)
	ast.Inspect(phFd.Body, func(n ast.Node) bool {
		switch x := n.(type) {
		case *ast.CompositeLit:
			phWidth = int64(len(x.Elts))
		case *ast.CallExpr:
			// a placeholder produced by the encoder itself is as wide as an operand
			if eng.CalleeOf(cinfo, x) == e.em.Encode {
				phWidth = encWidth
			}
		}
		return true
	})

	// --- reader side
	argFd := vmPrimDecl(p, e, "arg")
	if argFd == nil {
		und("vm.(VM).arg", "", "operand reader not found")
		return
	}
	vmIP := func(x ast.Expr) bool { return isNamedField(vinfo, x, "ip") }
	rd := readerOfDelegating(p, vinfo, argFd.Body, vmIP)
	if !rd.ok {
		und("vm.(VM).arg/layout", p.Pos(argFd.Pos()), rd.why)
		return
	}
	r.Check(rd.order == encOrder && rd.advance == encWidth, rule, "vm.(VM).arg/layout agrees with compiler.encode", p.Pos(argFd.Pos()),
		fmt.Sprintf("both %s-endian, %d bytes", encOrder, encWidth),
		fmt.Sprintf("encode writes %d bytes %s-endian, the VM reads %d bytes %s-endian: every operand ≥ 256 is decoded as another number", encWidth, encOrder, rd.advance, rd.order))
	r.Check(phWidth == encWidth, rule, "compiler.(compiler).placeholder/width", p.Pos(phFd.Pos()),
		fmt.Sprintf("placeholder is %d bytes, as wide as an encoded operand", phWidth),
		fmt.Sprintf("placeholder is %d bytes but operands are %d bytes wide", phWidth, encWidth))

	// disassembler's reader: the closure that advances ip by a constant and returns uint16
	if dfd := p.FuncDecl("vm", "Program", "Disassemble"); dfd != nil && dfd.Body != nil {
		var lit *ast.FuncLit
		ast.Inspect(dfd.Body, func(n ast.Node) bool {
			fl, ok := n.(*ast.FuncLit)
			if !ok || lit != nil {
				return true
			}
			if fl.Type.Results != nil && fl.Type.Results.NumFields() == 1 {
				if b, ok := vinfo.TypeOf(fl.Type.Results.List[0].Type).(*types.Basic); ok && b.Kind() == types.Uint16 {
					lit = fl
				}
			}
			return true
		})
		if lit == nil {
			und("vm.(Program).Disassemble/operand reader", p.Pos(dfd.Pos()), "operand reader closure not found")
		} else {
			dIP := func(x ast.Expr) bool {
				id, ok := eng.Unparen(x).(*ast.Ident)
				return ok && id.Name == "ip"
			}
			dr := readerOfDelegating(p, vinfo, lit.Body, dIP)
			if !dr.ok {
				und("vm.(Program).Disassemble/operand reader", p.Pos(lit.Pos()), dr.why)
			} else {
				r.Check(dr.order == rd.order && dr.advance == rd.advance, rule, "vm.(Program).Disassemble/operand reader", p.Pos(lit.Pos()),
					"same width and byte order as the VM's reader", fmt.Sprintf("disassembler reads %d bytes %s-endian, the VM %d bytes %s-endian", dr.advance, dr.order, rd.advance, rd.order))
			}
		}
	}

	// fetch: how far ip is beyond the opcode when a handler starts
	fetchAdv, fmsg := fetchAdvance(vinfo, e.vm)
	if fetchAdv < 0 {
		und("vm.(VM).Run/fetch", p.Pos(e.vm.Run.Pos()), fmsg)
		return
	}
	r.Check(fetchAdv == 1, rule, "vm.(VM).Run/fetch", p.Pos(e.vm.Switch.Pos()), "the opcode is read at ip and ip advances by one before the handler runs", fmt.Sprintf("ip advances by %d at fetch", fetchAdv))

	// --- forward: landing = P + advance + offset must be LEN at patch time
	env := codeEnv(cinfo)
	var pparam types.Object
	if ps := patchFd.Type.Params; ps != nil && len(ps.List) == 1 && len(ps.List[0].Names) == 1 {
		pparam = cinfo.Defs[ps.List[0].Names[0]]
		env.Vars[pparam] = eng.AffSym("P")
	}
	var offset *eng.Aff
	var writeIdx []eng.Aff
	type directWrite struct {
		idx, val eng.Aff
		shift    int64
	}
	var directWrites []directWrite
	var encodedArg ast.Expr
	bvars := map[types.Object]bool{}
	for _, st := range patchFd.Body.List {
		switch s := st.(type) {
		case *ast.AssignStmt:
			if len(s.Lhs) != 1 || len(s.Rhs) != 1 {
				continue
			}
			if ix, ok := s.Lhs[0].(*ast.IndexExpr); ok && isByteSliceField(cinfo, ix.X) {
				if a, ok := env.Eval(ix.Index); ok {
					writeIdx = append(writeIdx, a)
					// the byte written without going through the encoder: byte(X >> 8k)
					if x, shift, ok := shiftedByte(cinfo, s.Rhs[0]); ok {
						if v, ok := env.Eval(x); ok {
							directWrites = append(directWrites, directWrite{idx: a, val: v, shift: shift})
						}
					}
				}
				continue
			}
			id, ok := s.Lhs[0].(*ast.Ident)
			if !ok {
				continue
			}
			if c, ok := s.Rhs[0].(*ast.CallExpr); ok && eng.CalleeOf(cinfo, c) == e.em.Encode && len(c.Args) == 1 {
				encodedArg = c.Args[0]
				bvars[objOf(cinfo, id)] = true
				continue
			}
			if a, ok := env.Eval(s.Rhs[0]); ok {
				env.Vars[objOf(cinfo, id)] = a
			}
		case *ast.IfStmt:
			// range guard (R5.4) — no effect on the arithmetic
		}
	}
	_ = encodedArg
	offset = encodedOffset(p, e, cinfo, patchFd.Body.List, env, 0)
	directOrderOK := true
	if offset == nil && len(directWrites) == int(encWidth) && encWidth > 0 {
		// every operand byte is written as byte(X >> 8k) of one X; position P+j must carry the
		// significance the reader gives byte j (little-endian: 8j, big-endian: 8(width-1-j))
		same := true
		for _, w := range directWrites {
			if !w.val.Equal(directWrites[0].val) {
				same = false
			}
		}
		if same {
			v := directWrites[0].val
			offset = &v
			for _, w := range directWrites {
				j := w.idx.Add(eng.AffSym("P"), -1)
				want := int64(-1)
				if j.IsConst() {
					want = 8 * j.C
					if rd.order == "big" {
						want = 8 * (encWidth - 1 - j.C)
					}
				}
				if w.shift != want {
					directOrderOK = false
				}
			}
		}
	}
	if offset == nil || pparam == nil {
		und("compiler.(compiler).patchJump/offset", p.Pos(patchFd.Pos()), "the encoded offset is not an affine expression of the buffer length and the placeholder position")
	} else {
		land := eng.AffSym("P").Add(eng.AffConst(rd.advance), 1).Add(*offset, 1)
		okW := len(writeIdx) == int(encWidth)
		for k, w := range writeIdx {
			if !w.Equal(eng.AffSym("P").Add(eng.AffConst(int64(k)), 1)) {
				okW = false
			}
		}
		r.Check(land.Equal(eng.AffSym("LEN")), rule, "compiler.(compiler).patchJump/landing = patch point", p.Pos(patchFd.Pos()),
			"reader lands at P+"+fmt.Sprint(rd.advance)+"+("+offset.String()+") = LEN, the next instruction emitted after the patch",
			"a forward jump patched here lands at "+land.String()+" instead of LEN (the instruction boundary at the patch point): the VM continues in the middle of an instruction")
		r.Check(directOrderOK, rule, "compiler.(compiler).patchJump/byte order of a directly written operand", p.Pos(patchFd.Pos()), "the bytes written in place have the reader's byte order ("+rd.order+"-endian), or the operand goes through the encoder", "patchJump writes the offset's bytes in place in another order than the VM reads them ("+rd.order+"-endian): every patched offset ≥ 256 is decoded as another number")
		r.Check(okW, rule, "compiler.(compiler).patchJump/writes the operand bytes", p.Pos(patchFd.Pos()),
			"writes exactly the bytes P … P+"+fmt.Sprint(encWidth-1), "patchJump does not write exactly the operand bytes at P, P+1")
	}
	// every forward-jump handler adds the operand to ip, every backward one subtracts it
	for _, o := range e.vm.Opcodes {
		s := e.sigs[o.Name]
		if s == nil || s.Jump == "" {
			continue
		}
		h := e.vm.Handlers[o.Name]
		dirs := map[string]int{}
		for _, st := range h.Clause.Body {
			ast.Inspect(st, func(n ast.Node) bool {
				as, ok := n.(*ast.AssignStmt)
				if !ok || len(as.Lhs) != 1 || !vmIP(as.Lhs[0]) {
					return true
				}
				switch as.Tok {
				case token.ADD_ASSIGN:
					dirs["fwd"]++
				case token.SUB_ASSIGN:
					dirs["back"]++
				default:
					dirs["other"]++
				}
				// the added quantity must be the operand itself
				src := eng.Unparen(as.Rhs[0])
				for {
					c, ok := src.(*ast.CallExpr)
					if !ok || len(c.Args) != 1 {
						break
					}
					if tv, ok := vinfo.Types[c.Fun]; !ok || !tv.IsType() {
						break
					}
					src = eng.Unparen(c.Args[0])
				}
				isArg := false
				switch x := src.(type) {
				case *ast.Ident:
					isArg = argBound(vinfo, e, h.Clause, vinfo.Uses[x])
				case *ast.CallExpr:
					if fn := eng.CalleeOf(vinfo, x); fn != nil && e.vm.Prims[fn] == "arg" {
						isArg = true
					}
				}
				if !isArg {
					dirs["other"]++
				}
				return true
			})
		}
		want := "fwd"
		if s.Jump == "back" {
			want = "back"
		}
		r.Check(dirs[want] == 1 && len(dirs) == 1, rule, "vm.(VM).Run/case "+o.Name+"/ip update", p.Pos(h.Clause.Pos()),
			"ip moves by exactly the decoded operand, direction "+want, fmt.Sprintf("ip updates in this handler: %v (expected one %s update by the decoded operand)", dirs, want))
	}

	// --- backward: landing = LEN + fetch + advance − offset must be the captured label T
	benv := codeEnv(cinfo)
	if ps := backFd.Type.Params; ps != nil && len(ps.List) == 1 && len(ps.List[0].Names) == 1 {
		benv.Vars[cinfo.Defs[ps.List[0].Names[0]]] = eng.AffSym("T")
	}
	boff := encodedOffset(p, e, cinfo, backFd.Body.List, benv, 0)
	if boff == nil {
		und("compiler.(compiler).calcBackwardJump/offset", p.Pos(backFd.Pos()), "the encoded offset is not an affine expression of the buffer length and the label")
	} else {
		land := eng.AffSym("LEN").Add(eng.AffConst(fetchAdv+rd.advance), 1).Add(*boff, -1)
		r.Check(land.Equal(eng.AffSym("T")), rule, "compiler.(compiler).calcBackwardJump/landing = label", p.Pos(backFd.Pos()),
			"reader lands at LEN+"+fmt.Sprint(fetchAdv+rd.advance)+"−("+boff.String()+") = T, the captured loop head",
			"a backward jump lands at "+land.String()+" instead of the captured label T: the loop re-enters in the middle of an instruction or skips the head")
	}
	// labels are captured as len(code): every capture event's site is `x := len(c.bytecode)`
	nCap, okCap := 0, true
	for _, t := range e.em.AllTemplates() {
		for _, x := range t.Events {
			if x.Kind != "capture" {
				continue
			}
			nCap++
			as, ok := x.Site.(*ast.AssignStmt)
			if !ok || len(as.Rhs) != 1 || !isLenOf(cinfo, as.Rhs[0], func(a ast.Expr) bool { return isByteSliceField(cinfo, a) }) {
				okCap = false
			}
		}
	}
	r.Check(okCap && nCap > 0, rule, "compiler/loop labels are len(code)", "", fmt.Sprintf("%d label captures, each the current length of the code buffer (an instruction boundary)", nCap), "a label is captured from something other than the current length of the code buffer")
}

// shiftedByte: e is byte(X) / uint8(X) or byte(X >> k) with k a constant: X and k.
func shiftedByte(info *types.Info, e ast.Expr) (ast.Expr, int64, bool) {
	c, ok := eng.Unparen(e).(*ast.CallExpr)
	if !ok || len(c.Args) != 1 {
		return nil, 0, false
	}
	tv, ok := info.Types[c.Fun]
	if !ok || !tv.IsType() {
		return nil, 0, false
	}
	if b, ok := tv.Type.Underlying().(*types.Basic); !ok || b.Kind() != types.Uint8 {
		return nil, 0, false
	}
	arg := eng.Unparen(c.Args[0])
	if be, ok := arg.(*ast.BinaryExpr); ok && be.Op == token.SHR {
		if k, ok := info.Types[be.Y]; ok && k.Value != nil {
			if v, ok := constant.Int64Val(k.Value); ok {
				return be.X, v, true
			}
		}
		return nil, 0, false
	}
	if be, ok := arg.(*ast.BinaryExpr); ok && be.Op == token.AND {
		// X & 0xFF
		if k, ok := info.Types[be.Y]; ok && k.Value != nil && k.Value.ExactString() == "255" {
			return shiftedInner(info, be.X)
		}
	}
	return arg, 0, true
}

func shiftedInner(info *types.Info, e ast.Expr) (ast.Expr, int64, bool) {
	e = eng.Unparen(e)
	if be, ok := e.(*ast.BinaryExpr); ok && be.Op == token.SHR {
		if k, ok := info.Types[be.Y]; ok && k.Value != nil {
			if v, ok := constant.Int64Val(k.Value); ok {
				return be.X, v, true
			}
		}
		return nil, 0, false
	}
	return e, 0, true
}

// encodedOffset: the affine value handed to the operand encoder by a statement list, in the
// symbols of env; top-level definitions are followed, and a call of a plain function of the
// package (an extracted "check and encode" helper) is entered with its parameters bound to the
// affine values of the arguments (depth ≤ 2).
func encodedOffset(p *core.Program, e *engines, info *types.Info, list []ast.Stmt, env *eng.AffEnv, depth int) *eng.Aff {
	var out *eng.Aff
	var visit func(n ast.Node) bool
	visit = func(n ast.Node) bool {
		c, ok := n.(*ast.CallExpr)
		if !ok || out != nil {
			return out == nil
		}
		fn := eng.CalleeOf(info, c)
		if fn == nil {
			return true
		}
		if fn == e.em.Encode && len(c.Args) == 1 {
			if a, ok := env.Eval(c.Args[0]); ok {
				out = &a
			}
			return false
		}
		if depth < 2 && e.em.Prims[fn] == "" && fn.Pkg() == p.Pkg("compiler").Types {
			if _, fd := p.DeclOf(fn); fd != nil && fd.Body != nil && fd.Type.Params != nil {
				sub := &eng.AffEnv{Info: info, Vars: map[types.Object]eng.Aff{}, Sym: env.Sym}
				for k, v := range env.Vars {
					sub.Vars[k] = v
				}
				i, okAll := 0, true
				for _, f := range fd.Type.Params.List {
					for _, nm := range f.Names {
						if i < len(c.Args) {
							if a, ok := env.Eval(c.Args[i]); ok {
								sub.Vars[info.Defs[nm]] = a
							} else {
								okAll = false
							}
						}
						i++
					}
				}
				if okAll {
					if a := encodedOffset(p, e, info, fd.Body.List, sub, depth+1); a != nil {
						out = a
						return false
					}
				}
			}
		}
		return true
	}
	for _, st := range list {
		if out != nil {
			break
		}
		if as, ok := st.(*ast.AssignStmt); ok && len(as.Lhs) == 1 && len(as.Rhs) == 1 {
			if id, ok := as.Lhs[0].(*ast.Ident); ok {
				if _, isCall := eng.Unparen(as.Rhs[0]).(*ast.CallExpr); !isCall {
					if a, ok := env.Eval(as.Rhs[0]); ok {
						env.Vars[objOf(info, id)] = a
						continue
					}
				}
			}
		}
		ast.Inspect(st, visit)
	}
	return out
}

// argBound: obj is a local assigned (only) from the operand reader inside the clause.
func argBound(info *types.Info, e *engines, cc *ast.CaseClause, obj types.Object) bool {
	if obj == nil {
		return false
	}
	n, good := 0, 0
	for _, st := range cc.Body {
		ast.Inspect(st, func(nd ast.Node) bool {
			as, ok := nd.(*ast.AssignStmt)
			if !ok {
				return true
			}
			for i, l := range as.Lhs {
				id, ok := l.(*ast.Ident)
				if !ok || objOf(info, id) != obj {
					continue
				}
				n++
				if len(as.Lhs) == len(as.Rhs) {
					rhs := eng.Unparen(as.Rhs[i])
					for { // integer conversions of the operand are the operand
						c, ok := rhs.(*ast.CallExpr)
						if !ok || len(c.Args) != 1 {
							break
						}
						if tv, ok := info.Types[c.Fun]; !ok || !tv.IsType() {
							break
						}
						rhs = eng.Unparen(c.Args[0])
					}
					if c, ok := rhs.(*ast.CallExpr); ok {
						if fn := eng.CalleeOf(info, c); fn != nil && e.vm.Prims[fn] == "arg" {
							good++
						}
					}
				}
			}
			return true
		})
	}
	return n == 1 && good == 1
}

// fetchAdvance: in the dispatch loop, the statements before the switch read code[ip₀] as the
// opcode and advance ip; returns the advance.
func fetchAdvance(info *types.Info, vm *eng.VMModel) (int64, string) {
	adv, _, msg := fetchInfoFull(info, vm)
	return adv, msg
}

// fetchInfo: the advance and, per saved copy of ip (field or variable text), its offset from the
// opcode's position.
// savedKey names a place independently of what the receiver variable is called: a field of
// a struct is "<Type>.<field>".
func savedKey(info *types.Info, e ast.Expr) string {
	if sel, ok := eng.Unparen(e).(*ast.SelectorExpr); ok {
		if s := info.Selections[sel]; s != nil && s.Kind() == types.FieldVal {
			t := s.Recv()
			if pt, ok := t.(*types.Pointer); ok {
				t = pt.Elem()
			}
			if n, ok := t.(*types.Named); ok {
				return n.Obj().Name() + "." + sel.Sel.Name
			}
		}
	}
	return eng.ExprStr(e)
}

func fetchInfo(info *types.Info, vm *eng.VMModel) (int64, map[string]int64) {
	adv, saved, _ := fetchInfoFull(info, vm)
	return adv, saved
}

func fetchInfoFull(info *types.Info, vm *eng.VMModel) (int64, map[string]int64, string) {
	var loop *ast.ForStmt
	ast.Inspect(vm.Run.Body, func(n ast.Node) bool {
		if f, ok := n.(*ast.ForStmt); ok && loop == nil {
			for _, st := range f.Body.List {
				if st == ast.Stmt(vm.Switch) {
					loop = f
				}
			}
		}
		return true
	})
	if loop == nil {
		return -1, nil, "the dispatch switch is not a direct statement of a for loop"
	}
	ipIs := func(x ast.Expr) bool { return isNamedField(info, x, "ip") }
	adv := int64(0)
	saved := map[string]int64{} // field or variable name -> value of ip (relative to ip₀) it holds
	opAt := int64(-1)
	tagID, _ := eng.Unparen(vm.Switch.Tag).(*ast.Ident)
	for _, st := range loop.Body.List {
		if st == ast.Stmt(vm.Switch) {
			break
		}
		switch s := st.(type) {
		case *ast.IncDecStmt:
			if ipIs(s.X) && s.Tok == token.INC {
				adv++
			} else if ipIs(s.X) {
				return -1, nil, "ip decremented at fetch"
			}
		case *ast.AssignStmt:
			if len(s.Lhs) != 1 || len(s.Rhs) != 1 {
				continue
			}
			if ipIs(s.Lhs[0]) {
				if s.Tok == token.ADD_ASSIGN {
					if tv, ok := info.Types[s.Rhs[0]]; ok && tv.Value != nil {
						if v, ok := constant.Int64Val(tv.Value); ok {
							adv += v
							continue
						}
					}
				}
				return -1, nil, "ip assigned at fetch in a form not understood"
			}
			if ipIs(s.Rhs[0]) {
				saved[savedKey(info, s.Lhs[0])] = adv
				continue
			}
			if id, ok := s.Lhs[0].(*ast.Ident); ok && tagID != nil && objOf(info, id) == info.Uses[tagID] {
				ix, ok := eng.Unparen(s.Rhs[0]).(*ast.IndexExpr)
				if !ok {
					return -1, nil, "the opcode is not read from the code buffer"
				}
				if ipIs(ix.Index) {
					opAt = adv
				} else if v, ok := saved[savedKey(info, ix.Index)]; ok {
					opAt = v
				} else {
					return -1, nil, "the opcode is read at an index that is not the instruction pointer"
				}
			}
		}
	}
	if opAt != 0 {
		return -1, nil, "the opcode is not read at the instruction pointer's value at the top of the loop"
	}
	return adv, saved, ""
}

// ---- R5.4: narrowing conversions that feed operands are range-checked --------------------

// narrowingRules: in the packages that write operands, every conversion of a non-constant
// wider integer to a 16-bit (or narrower) integer that reaches encode must be guarded: on
// every path to it, a comparison of an affinely equal expression against a bound ≤ the
// target's maximum whose failing branch panics or returns.
func narrowingRules(p *core.Program, r *core.Report, e *engines) {
	info := p.Pkg("compiler").TypesInfo
	rule := "R5.4"
	ord := map[string]int{}
	for _, fd := range p.FuncDecls("compiler") {
		if fd.Body == nil {
			continue
		}
		fname := core.FuncName("compiler", fd)
		var convs []*ast.CallExpr
		ast.Inspect(fd.Body, func(n ast.Node) bool {
			c, ok := n.(*ast.CallExpr)
			if !ok || len(c.Args) != 1 {
				return true
			}
			tv, ok := info.Types[c.Fun]
			if !ok || !tv.IsType() {
				return true
			}
			tb, ok := tv.Type.Underlying().(*types.Basic)
			if !ok || tb.Info()&types.IsInteger == 0 {
				return true
			}
			at := info.Types[c.Args[0]]
			if at.Value != nil { // constant conversions are checked by the compiler
				return true
			}
			ab, ok := at.Type.Underlying().(*types.Basic)
			if !ok || ab.Info()&types.IsInteger == 0 {
				return true
			}
			if intBits(tb) >= intBits(ab) {
				return true
			}
			if !feedsEncode(info, fd, c, e.em.Encode) {
				return true
			}
			convs = append(convs, c)
			return true
		})
		for _, c := range convs {
			ord[fname]++
			key := fmt.Sprintf("%s/narrowing %s#%d", fname, eng.ExprStr(c.Fun), ord[fname])
			ok, why := guardedNarrowing(info, fd, c)
			r.Check(ok, rule, key, p.Pos(c.Pos()),
				"the converted value is range-checked on every path to the conversion: "+why,
				"`"+eng.ExprStr(c)+"` truncates silently: "+why+" — a jump longer than 65535 bytes or a 65537th constant is encoded modulo 65536 and the program jumps to / loads the wrong place")
		}
	}
}

// feedsEncode: the conversion is the argument of a call of the operand encoder, or is assigned
// to a local that is.
func feedsEncode(info *types.Info, fd *ast.FuncDecl, conv *ast.CallExpr, enc *types.Func) bool {
	holders := map[types.Object]bool{}
	ast.Inspect(fd.Body, func(n ast.Node) bool {
		if as, ok := n.(*ast.AssignStmt); ok && len(as.Lhs) == len(as.Rhs) {
			for i := range as.Rhs {
				if eng.Unparen(as.Rhs[i]) == ast.Expr(conv) {
					if id, ok := as.Lhs[i].(*ast.Ident); ok {
						holders[objOf(info, id)] = true
					}
				}
			}
		}
		return true
	})
	found := false
	ast.Inspect(fd.Body, func(n ast.Node) bool {
		c, ok := n.(*ast.CallExpr)
		if !ok || eng.CalleeOf(info, c) != enc || len(c.Args) != 1 {
			return true
		}
		a := eng.Unparen(c.Args[0])
		if a == ast.Expr(conv) {
			found = true
		}
		if id, ok := a.(*ast.Ident); ok && holders[info.Uses[id]] {
			found = true
		}
		return true
	})
	return found
}

func intBits(b *types.Basic) int {
	switch b.Kind() {
	case types.Int8, types.Uint8:
		return 8
	case types.Int16, types.Uint16:
		return 16
	case types.Int32, types.Uint32:
		return 32
	}
	return 64
}

// guardedNarrowing looks, among the statements of fd that precede the conversion at the top
// level of the body, for `if X > B { panic/return }` (or >=, or the mirrored forms) with
// X − arg a constant d ≥ 0 … such that arg ≤ max follows, and — when the value may be
// negative — nothing (lengths and their differences are handled by the offset rules).
func guardedNarrowing(info *types.Info, fd *ast.FuncDecl, conv *ast.CallExpr) (bool, string) {
	env := codeEnv(info)
	// constants: len(c.constants) is its own symbol through ExprStr
	baseSym := env.Sym
	env.Sym = func(x ast.Expr) (string, bool) {
		if s, ok := baseSym(x); ok {
			return s, ok
		}
		if c, ok := eng.Unparen(x).(*ast.CallExpr); ok {
			if id, ok := c.Fun.(*ast.Ident); ok && id.Name == "len" && len(c.Args) == 1 {
				return "len(" + eng.ExprStr(c.Args[0]) + ")", true
			}
		}
		return "", false
	}
	tb := info.Types[conv.Fun].Type.Underlying().(*types.Basic)
	max := int64(1)<<uint(intBits(tb)) - 1
	if tb.Info()&types.IsUnsigned == 0 {
		max = int64(1)<<uint(intBits(tb)-1) - 1
	}
	// bind locals assigned before the conversion; collect guards
	type guard struct {
		x     eng.Aff
		bound int64 // guarantees x ≤ bound after the guard
	}
	var guards []guard
	done := false
	mutated := false // a symbol of the guard changes between guard and conversion
	for _, st := range fd.Body.List {
		if done {
			break
		}
		if st.Pos() <= conv.Pos() && conv.End() <= st.End() {
			done = true
			if _, isIf := st.(*ast.IfStmt); isIf {
				return false, "the conversion sits inside a conditional statement; guard not recognised"
			}
			break
		}
		switch s := st.(type) {
		case *ast.AssignStmt:
			if len(s.Lhs) == 1 && len(s.Rhs) == 1 {
				if id, ok := s.Lhs[0].(*ast.Ident); ok {
					if a, ok := env.Eval(s.Rhs[0]); ok {
						env.Vars[objOf(info, id)] = a
						continue
					}
				}
				// a write to a buffer whose length a guard mentions invalidates the guard
				for _, g := range guards {
					for sym := range g.x.T {
						if strings.Contains(sym, eng.ExprStr(s.Lhs[0])) || (sym == "LEN" && isByteSliceField(info, s.Lhs[0])) {
							if _, isIdx := s.Lhs[0].(*ast.IndexExpr); !isIdx {
								mutated = true
							}
						}
					}
				}
			}
		case *ast.IfStmt:
			if s.Init != nil || s.Else != nil || !blockLeaves(s.Body) {
				continue
			}
			b, ok := eng.Unparen(s.Cond).(*ast.BinaryExpr)
			if !ok {
				continue
			}
			l, ok1 := env.Eval(b.X)
			rr, ok2 := env.Eval(b.Y)
			if !ok1 || !ok2 {
				continue
			}
			switch {
			case b.Op == token.GTR && rr.IsConst(): // x > B leaves ⇒ x ≤ B
				guards = append(guards, guard{l, rr.C})
			case b.Op == token.GEQ && rr.IsConst():
				guards = append(guards, guard{l, rr.C - 1})
			case b.Op == token.LSS && l.IsConst(): // B < x leaves
				guards = append(guards, guard{rr, l.C})
			case b.Op == token.LEQ && l.IsConst():
				guards = append(guards, guard{rr, l.C + 1 - 2})
			}
		}
	}
	arg, ok := env.Eval(conv.Args[0])
	if !ok {
		return false, "the converted expression is not affine in lengths and locals"
	}
	if mutated {
		return false, "the guarded quantity is modified between the range check and the conversion"
	}
	for _, g := range guards {
		d := arg.Add(g.x, -1)
		if d.IsConst() && g.bound+d.C <= max {
			return true, fmt.Sprintf("guard `%s ≤ %d` implies `%s ≤ %d`", g.x.String(), g.bound, arg.String(), max)
		}
	}
	return false, fmt.Sprintf("no dominating check bounds `%s` by %d", arg.String(), max)
}

// blockLeaves: the block ends in panic(...) or return.
func blockLeaves(b *ast.BlockStmt) bool {
	if len(b.List) == 0 {
		return false
	}
	switch s := b.List[len(b.List)-1].(type) {
	case *ast.ReturnStmt:
		return true
	case *ast.ExprStmt:
		if c, ok := s.X.(*ast.CallExpr); ok {
			if id, ok := c.Fun.(*ast.Ident); ok && id.Name == "panic" {
				return true
			}
		}
	}
	return false
}

// ---- R5.8: constant pool --------------------------------------------------------------

// constPoolRules: makeConstant returns either the index stored earlier for an equal key or the
// index of the element it has just appended; the index map is only written with that index.
func constPoolRules(p *core.Program, r *core.Report, e *engines) {
	info := p.Pkg("compiler").TypesInfo
	rule := "R5.8"
	fd := primDecl(p, e, "makeconst")
	if fd == nil {
		r.Unk(rule, "compiler.(compiler).makeConstant", "", "constant-pool primitive not found")
		return
	}
	pos := p.Pos(fd.Pos())
	isPool := func(x ast.Expr) bool {
		sel, ok := eng.Unparen(x).(*ast.SelectorExpr)
		if !ok {
			return false
		}
		s := info.Selections[sel]
		if s == nil {
			return false
		}
		sl, ok := s.Obj().Type().(*types.Slice)
		if !ok {
			return false
		}
		it, ok := sl.Elem().Underlying().(*types.Interface)
		return ok && it.NumMethods() == 0
	}
	isIndexMap := func(x ast.Expr) bool {
		sel, ok := eng.Unparen(x).(*ast.SelectorExpr)
		if !ok {
			return false
		}
		s := info.Selections[sel]
		if s == nil {
			return false
		}
		_, ok = s.Obj().Type().Underlying().(*types.Map)
		return ok
	}
	var param types.Object
	if ps := fd.Type.Params; ps != nil && len(ps.List) == 1 && len(ps.List[0].Names) == 1 {
		param = info.Defs[ps.List[0].Names[0]]
	}
	// every path through the primitive, the compiler's own helpers read as part of it (the
	// miss path may be delegated: `p := c.appendConstant(value)`), is interpreted over the
	// pool length N0 + (appends so far): a path either returns the index found in the map
	// before any append (hit), or appends the value exactly once and returns N0, the index of
	// the element just appended (miss); the map is written only with (value ↦ N0).
	w := &eng.Walker{Info: info, MaxDepth: 2, MaxPaths: 4000}
	w.Inline = func(call *ast.CallExpr, depth int) (*ast.BlockStmt, *ast.FuncDecl) {
		fn := eng.CalleeOf(info, call)
		if fn == nil || fn.Pkg() != p.Pkg("compiler").Types || fn == e.em.Encode || e.em.Prims[fn] != "" {
			return nil, nil
		}
		if _, hfd := p.DeclOf(fn); hfd != nil && hfd.Body != nil {
			return hfd.Body, hfd
		}
		return nil, nil
	}
	paths := w.Func(fd.Body)
	if w.Overflow {
		r.Unk(rule, "compiler.(compiler).makeConstant", pos, "too many paths through the constant-pool primitive")
		return
	}
	okAppend, okFresh, okStore, okHit := true, true, true, false
	detail := ""
	nMiss := 0
	for _, path := range flattenPaths(paths, 4000) {
		if len(path) > 0 && path[len(path)-1].Kind == "panic" {
			continue
		}
		env := &eng.AffEnv{Info: info, Vars: map[types.Object]eng.Aff{}}
		env.Sym = func(x ast.Expr) (string, bool) {
			if isLenOf(info, x, isPool) {
				return "N", true
			}
			return "", false
		}
		n := eng.AffSym("N0")
		appended := 0
		isValue := map[types.Object]bool{param: true}
		hitVar := map[types.Object]types.Object{} // p -> ok of `p, ok := index[value]`
		okTaken := map[types.Object]bool{}
		callVal := map[*ast.CallExpr]eng.Aff{}
		var frames []*ast.CallExpr
		isVal := func(x ast.Expr) bool {
			id, ok := eng.Unparen(x).(*ast.Ident)
			return ok && isValue[info.Uses[id]]
		}
		var eval func(x ast.Expr) (eng.Aff, bool)
		eval = func(x ast.Expr) (eng.Aff, bool) {
			x = eng.Unparen(x)
			if c, ok := x.(*ast.CallExpr); ok {
				if v, ok := callVal[c]; ok {
					return v, true
				}
				if tv, ok := info.Types[c.Fun]; ok && tv.IsType() && len(c.Args) == 1 {
					return eval(c.Args[0])
				}
			}
			a, ok := env.Eval(x)
			if !ok {
				return a, false
			}
			return substAff(a, "N", n), true
		}
		panicked, returned := false, false
		for _, a := range path {
			switch a.Kind {
			case "panic":
				panicked = true
			case "enter":
				frames = append(frames, a.Call)
				if a.Callee != nil && a.Callee.Type.Params != nil {
					i := 0
					for _, f := range a.Callee.Type.Params.List {
						for _, nm := range f.Names {
							if i < len(a.Call.Args) {
								if isVal(a.Call.Args[i]) {
									isValue[info.Defs[nm]] = true
								} else if v, ok := eval(a.Call.Args[i]); ok {
									env.Vars[info.Defs[nm]] = v
								}
							}
							i++
						}
					}
				}
			case "leave":
				if len(frames) > 0 {
					frames = frames[:len(frames)-1]
				}
			case "cond":
				c := eng.Unparen(a.Node.(ast.Expr))
				neg := false
				if u, ok := c.(*ast.UnaryExpr); ok && u.Op == token.NOT {
					c, neg = eng.Unparen(u.X), true
				}
				if id, ok := c.(*ast.Ident); ok {
					if a.Taken != neg {
						okTaken[info.Uses[id]] = true
					}
				}
			case "assign":
				as := a.Node.(*ast.AssignStmt)
				if len(as.Lhs) == 2 && len(as.Rhs) == 1 {
					if ix, ok := eng.Unparen(as.Rhs[0]).(*ast.IndexExpr); ok && isIndexMap(ix.X) {
						pid, ok1 := as.Lhs[0].(*ast.Ident)
						oid, ok2 := as.Lhs[1].(*ast.Ident)
						if ok1 && ok2 && isVal(ix.Index) && appended == 0 {
							hitVar[objOf(info, pid)] = objOf(info, oid)
							okHit = true
						} else {
							okStore, detail = false, "the index map is looked up with something other than the value, or after the append"
						}
					}
					continue
				}
				if len(as.Lhs) != 1 || len(as.Rhs) != 1 {
					continue
				}
				if isPool(as.Lhs[0]) {
					c, ok := as.Rhs[0].(*ast.CallExpr)
					if ok {
						if id, ok := c.Fun.(*ast.Ident); ok && id.Name == "append" && len(c.Args) == 2 && isPool(c.Args[0]) && !c.Ellipsis.IsValid() && isVal(c.Args[1]) {
							appended++
							n = n.Add(eng.AffConst(1), 1)
							continue
						}
					}
					okAppend, detail = false, "the pool is assigned from something other than append(pool, value)"
					continue
				}
				if ix, ok := as.Lhs[0].(*ast.IndexExpr); ok && isIndexMap(ix.X) {
					v, okv := eval(as.Rhs[0])
					if !(isVal(ix.Index) && okv && appended == 1 && v.Equal(eng.AffSym("N0"))) {
						okStore, detail = false, "the index map is written with something other than (value ↦ index of the element just appended)"
					}
					continue
				}
				if id, ok := as.Lhs[0].(*ast.Ident); ok {
					if v, ok := eval(as.Rhs[0]); ok {
						env.Vars[objOf(info, id)] = v
					} else {
						delete(env.Vars, objOf(info, id))
					}
				}
			case "return":
				rs, _ := a.Node.(*ast.ReturnStmt)
				if rs == nil || len(rs.Results) != 1 {
					continue
				}
				if a.Depth > 0 {
					if len(frames) > 0 {
						if v, ok := eval(rs.Results[0]); ok {
							callVal[frames[len(frames)-1]] = v
						}
					}
					continue
				}
				returned = true
				c, ok := eng.Unparen(rs.Results[0]).(*ast.CallExpr)
				if !ok || eng.CalleeOf(info, c) != e.em.Encode || len(c.Args) != 1 {
					okFresh = false
					continue
				}
				if id, ok := eng.Unparen(c.Args[0]).(*ast.Ident); ok {
					if okv, isHit := hitVar[info.Uses[id]]; isHit && okTaken[okv] && appended == 0 {
						continue // hit: the stored index
					}
				}
				nMiss++
				if appended != 1 {
					okAppend = false
					if detail == "" {
						detail = fmt.Sprintf("a completing path appends %d times", appended)
					}
				}
				if v, ok := eval(c.Args[0]); !ok || appended != 1 || !v.Equal(eng.AffSym("N0")) {
					okFresh = false
				}
			}
		}
		_ = panicked
		_ = returned
	}
	r.Check(okAppend && nMiss > 0, rule, "compiler.(compiler).makeConstant/appends the value once", pos, "one append of the argument to the pool on every miss path", "makeConstant does not append its argument exactly once on the miss path ("+detail+")")
	r.Check(okFresh && nMiss > 0, rule, "compiler.(compiler).makeConstant/returns the index of the appended element", pos, "every miss path returns encode(len(pool)−1) taken after the append", "the miss path does not return the index of the element just appended: the operand designates another constant")
	r.Check(okStore && okHit, rule, "compiler.(compiler).makeConstant/index map", pos, "the de-duplication map is looked up by the value before the append and written only with the fresh index", "index map discipline broken: "+detail)
}

// emptyAtStartRule (R5.9): "no run pops an empty stack / no scope is left open" is proved per
// template relative to the depth at the template's entry; the base case is that a run STARTS
// with an empty evaluation stack and no open scope — also on a VM value that an earlier run
// (possibly one that failed inside a loop) left non-empty. Every path of Run's prologue must
// assign the field an empty value: a zero-length reslice of itself, nil, a fresh make of length
// 0 or an empty literal; the false edge of `field != nil` counts (nil is empty).
func emptyAtStartRule(p *core.Program, r *core.Report, e *engines) {
	vm := e.vm
	info := p.Pkg("vm").TypesInfo
	prologue, loop := vmPrologue(vm)
	if loop == nil {
		r.Unk("R5.9", "vm.(VM).Run/dispatch loop", p.Pos(vm.Run.Pos()), "the dispatch loop is not a top-level statement of Run")
		return
	}
	for _, role := range []string{"stack", "scopes"} {
		f := vm.Fields[role]
		key := "vm.(VM).Run/" + role + " empty before the dispatch loop"
		if f == nil {
			r.Unk("R5.9", key, p.Pos(vm.Run.Pos()), "VM field with the role `"+role+"` not found")
			continue
		}
		res := mustReset(info, p, vm, prologue, f, 0)
		if !res.must {
			r.Bad("R5.9", key, p.Pos(vm.Run.Pos()), "the "+role+" is not emptied on every path from Run's entry to the dispatch loop: on a reused VM a run that failed midway leaves entries behind, and the next successful run ends with more than its result on the stack or with a loop scope still open")
			continue
		}
		bad := ""
		for _, v := range res.values {
			if !isEmptyValue(info, vm, f, v) {
				bad = eng.ExprStr(v)
			}
		}
		r.Check(bad == "", "R5.9", key, p.Pos(vm.Run.Pos()), "assigned an empty value on every path", "assigned `"+bad+"`, which is not known to be empty")
	}
	r.Floor("R5.9", 2)
}

func isEmptyValue(info *types.Info, vm *eng.VMModel, f *types.Var, v ast.Expr) bool {
	v = eng.Unparen(v)
	zero := func(e ast.Expr) bool {
		if e == nil {
			return true
		}
		tv, ok := info.Types[e]
		return ok && tv.Value != nil && tv.Value.ExactString() == "0"
	}
	switch x := v.(type) {
	case *ast.SliceExpr:
		return vmFieldOf(info, vm.VMType, x.X) == f && zero(x.Low) && x.High != nil && zero(x.High)
	case *ast.Ident:
		return isNilIdent(info, x)
	case *ast.CompositeLit:
		return len(x.Elts) == 0
	case *ast.CallExpr:
		if isBuiltinCall(info, x, "make") && len(x.Args) >= 2 {
			return zero(x.Args[1])
		}
	}
	return false
}
