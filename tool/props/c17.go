package props

import (
	"fmt"
	"go/ast"
	"go/token"
	"go/types"
	"strings"

	"verif/exprlint/core"
	"verif/exprlint/eng"
)

// C17 — operator overloading is a rewrite `a op b` → `fn(a, b)` that must (1) be decided by the
// resolver the type checker used, on the same inputs and under the same guards, (2) build the
// call with the operands in order, (3) be preceded by the validation of the mapping, (4) be
// applied after every type check that can type an occurrence as overloaded, (5) reach every
// position (= the walker's completeness), (6) keep type and location.

func init() {
	register(&Prop{ID: "C17", Run: runC17, Controls: c17Controls})
}

// resolverSites: calls of one exported conf function from both the checker and the compiler
// package whose results are (reflect.Type, string, bool).
type resolverSite struct {
	rel  string
	fd   *ast.FuncDecl
	call *ast.CallExpr
}

func findResolver(p *core.Program) (*types.Func, []resolverSite, string) {
	byFn := map[*types.Func][]resolverSite{}
	for _, rel := range []string{"checker", "compiler"} {
		info := p.Pkg(rel).TypesInfo
		for _, fd := range p.FuncDecls(rel) {
			if fd.Body == nil {
				continue
			}
			queryOnly := map[*ast.CallExpr]bool{}
			ast.Inspect(fd.Body, func(n ast.Node) bool {
				if as, ok := n.(*ast.AssignStmt); ok && len(as.Lhs) == 3 && len(as.Rhs) == 1 {
					if c, ok := eng.Unparen(as.Rhs[0]).(*ast.CallExpr); ok {
						b0, ok0 := as.Lhs[0].(*ast.Ident)
						b1, ok1 := as.Lhs[1].(*ast.Ident)
						if ok0 && ok1 && b0.Name == "_" && b1.Name == "_" {
							queryOnly[c] = true
						}
					}
				}
				return true
			})
			ast.Inspect(fd.Body, func(n ast.Node) bool {
				c, ok := n.(*ast.CallExpr)
				if !ok {
					return true
				}
				fn := eng.CalleeOf(info, c)
				if fn == nil || fn.Pkg() == nil || fn.Pkg() != p.Pkg("conf").Types {
					return true
				}
				sig := fn.Type().(*types.Signature)
				if sig.Recv() != nil || sig.Results().Len() != 3 || sig.Params().Len() != 4 {
					return true
				}
				// a pure query (`_, _, ok := resolve(…)`: neither the type nor the function name is
				// used) types and rewrites nothing: it is not a site of R17.1
				if queryOnly[c] && rel == "checker" {
					return true
				}
				byFn[fn] = append(byFn[fn], resolverSite{rel, fd, c})
				return true
			})
		}
	}
	var best *types.Func
	for fn, ss := range byFn {
		rels := map[string]bool{}
		for _, s := range ss {
			rels[s.rel] = true
		}
		if rels["checker"] && rels["compiler"] {
			if best != nil {
				return nil, nil, "two candidate resolvers"
			}
			best = fn
		}
	}
	if best == nil {
		return nil, nil, "no function of package conf with four parameters and three results is called from both the checker and the compiler package (the overload resolver)"
	}
	return best, byFn[best], ""
}

func runC17(p *core.Program, r *core.Report) {
	r.Explanation = "Decides the structural clauses on which `a op b` = `fn(a, b)` rests for every occurrence: (R17.1) the type checker and the operator patcher call ONE resolver, with the functions registered for the node's own operator, the configuration's types table, and the static types of the left and right operand in that order, and neither puts any test between the lookup of the operator and the resolver call that the other does not have (an occurrence the checker types as overloaded is exactly an occurrence the patcher rewrites); (R17.2) the replacement is a call of the function the resolver returned with [left, right] as arguments, each once; (R17.3) expr.Compile validates the mapping (Config.Check) and returns its error before the first type check, and the validation establishes everything the resolver relies on: the name exists, is unambiguous (non-nil type), is a function, has exactly the parameter count the resolver indexes (receiver included for methods) and exactly one result; (R17.4) on every path of expr.Compile from a type check to code generation an operator patch follows that check; (R17.5) the walk that applies the patch visits every child slot of every node kind through its address (= C10); (R17.6) ast.Patch keeps type and location; (R17.7) the checker retypes the integer literals of a call argument only when no operator inside the argument resolves to an overload (the overload was chosen for the operand types as written)."
	r.NotDecided = []string{"that the call then evaluates to the function applied to the operands (C01's call rule)", "the resolver's choice among several candidates for given operand types (first match, by identity or interface implementation): a value-level question"}
	resolver, sites, msg := findResolver(p)
	if resolver == nil {
		r.Unk("R17.1", "resolver", "", msg)
		return
	}
	r.Analysed["resolver"] = "conf." + resolver.Name()
	r.Analysed["resolver_call_sites"] = len(sites)
	nk, nmsg := eng.FindNodeKinds(p)
	if nk == nil {
		r.Unk("R17.1", "node kinds", "", nmsg)
		return
	}
	bin := nk.ByName["BinaryNode"]
	for _, s := range sites {
		c17Site(p, r, nk, bin, resolver, s)
	}
	if len(sites) != 2 {
		r.Unk("R17.1", "resolver call sites", "", fmt.Sprintf("expected one call in the checker and one in the patcher, found %d", len(sites)))
	}
	c17Replacement(p, r, nk, resolver, sites)
	c17Validation(p, r, resolver)
	c17RetypeVsOverload(p, r, resolver, nk)
	c17AmbiguousTags(p, r)
	c17ResolverFit(p, r, resolver)
	c17Pipeline(p, r)
	walkerRules(p, r, "R17.5")
	patchRules(p, r, "R17.6")
	r.Floor("R17.1", 8)
	r.Floor("R17.2", 2)
	r.Floor("R17.3", 6)
	r.Floor("R17.4", 2)
	r.Floor("R17.7", 1)
	r.Floor("R17.5.2", 23)
	r.Floor("R17.6", 3)
}

// c17Site: one resolver call. Its four arguments and the guards on the way to it.
func c17Site(p *core.Program, r *core.Report, nk *eng.NodeKinds, bin *eng.Kind, resolver *types.Func, s resolverSite) {
	info := p.Pkg(s.rel).TypesInfo
	fname := core.FuncName(s.rel, s.fd)
	pos := p.Pos(s.call.Pos())
	al := eng.BuildAliases(info, s.fd.Body)
	def := func(e ast.Expr) ast.Expr { // follow a local to its single definition
		for i := 0; i < 4; i++ {
			id, ok := eng.Unparen(e).(*ast.Ident)
			if !ok {
				return e
			}
			d := al.Def(id)
			if d == nil {
				return e
			}
			e = d
		}
		return e
	}
	// the binary node variable: a variable/parameter of type *BinaryNode
	isBinExpr := func(e ast.Expr) bool {
		t := info.TypeOf(e)
		return t != nil && nk.KindOfType(t) != nil && nk.KindOfType(t).Name == "BinaryNode"
	}
	fieldOfNode := func(e ast.Expr, field string) bool {
		sel, ok := eng.Unparen(e).(*ast.SelectorExpr)
		return ok && sel.Sel.Name == field && isBinExpr(sel.X)
	}
	// arg 0: M[node.Operator] with M a map[string][]string reached from a field
	a0 := def(s.call.Args[0])
	okA0 := false
	if ix, ok := eng.Unparen(a0).(*ast.IndexExpr); ok {
		okA0 = fieldOfNode(ix.Index, "Operator")
	}
	r.Check(okA0, "R17.1", fname+"/functions are those registered for the node's operator", pos, "fns = operators[node.Operator]",
		"the candidate functions handed to the resolver are `"+eng.ExprStr(a0)+"`, not the ones registered under the operator of the node being examined")
	// arg 2, 3: types of Left and Right, in order
	operand := func(e ast.Expr) string {
		e = def(e)
		c, ok := eng.Unparen(e).(*ast.CallExpr)
		if !ok {
			return "?"
		}
		// v.visit(node.Left)  or  node.Left.Type()
		if len(c.Args) == 1 {
			for _, f := range []string{"Left", "Right"} {
				if fieldOfNode(c.Args[0], f) {
					return f
				}
			}
		}
		if sel, ok := c.Fun.(*ast.SelectorExpr); ok && len(c.Args) == 0 && sel.Sel.Name == "Type" {
			for _, f := range []string{"Left", "Right"} {
				if fieldOfNode(sel.X, f) {
					return f
				}
			}
		}
		return "?"
	}
	l, rr := operand(s.call.Args[2]), operand(s.call.Args[3])
	r.Check(l == "Left" && rr == "Right", "R17.1", fname+"/operand types in order", pos, "(type of Left, type of Right)",
		fmt.Sprintf("the resolver receives the static types of (%s, %s) instead of (Left, Right): checker and patcher can select different functions, or none, for the same occurrence", l, rr))
	// arg 1: the types table field
	a1 := def(s.call.Args[1])
	_, isSel := eng.Unparen(a1).(*ast.SelectorExpr)
	r.Check(isSel, "R17.1", fname+"/types table", pos, "types table taken from the configuration ("+eng.ExprStr(a1)+")", "the types table argument `"+eng.ExprStr(a1)+"` is not a field filled from the configuration")

	// guards: on every path to the call, each condition is a comma-ok of the node-kind
	// assertion or of the operator lookup
	w := &eng.Walker{Info: info, MaxPaths: 4000}
	paths := flattenPaths(w.Func(s.fd.Body), 20000)
	var extra []string
	reached := 0
	for _, atoms := range paths {
		idx := -1
		for i, a := range atoms {
			if a.Kind == "call" && a.Call == s.call {
				idx = i
				break
			}
		}
		if idx < 0 {
			continue
		}
		reached++
		lastKind := map[types.Object]string{} // flow-sensitive: what the identifier was last bound to on this path
		for _, a := range atoms[:idx] {
			if a.Kind == "assign" {
				as := a.Node.(*ast.AssignStmt)
				if len(as.Lhs) >= 2 && len(as.Rhs) == 1 {
					if last, ok := as.Lhs[len(as.Lhs)-1].(*ast.Ident); ok {
						k := "other"
						switch x := eng.Unparen(as.Rhs[0]).(type) {
						case *ast.TypeAssertExpr:
							k = "assert"
						case *ast.IndexExpr:
							if _, isMap := info.TypeOf(x.X).Underlying().(*types.Map); isMap {
								k = "lookup"
							}
						}
						lastKind[objOf(info, last)] = k
					}
				}
				continue
			}
			if a.Kind != "cond" {
				continue
			}
			c := eng.Unparen(a.Node.(ast.Expr))
			if u, ok := c.(*ast.UnaryExpr); ok && u.Op == token.NOT {
				c = eng.Unparen(u.X)
			}
			if id, ok := c.(*ast.Ident); ok {
				if k := lastKind[objOf(info, id)]; k == "assert" || k == "lookup" {
					continue
				}
			}
			d := eng.ExprStr(a.Node) + " at " + p.Pos(a.Node.Pos())
			dup := false
			for _, e := range extra {
				if e == d {
					dup = true
				}
			}
			if !dup {
				extra = append(extra, d)
			}
		}
	}
	if reached == 0 {
		r.Unk("R17.1", fname+"/no further guard before the resolver", pos, "no path reaches the resolver call")
	} else {
		r.Check(len(extra) == 0, "R17.1", fname+"/no further guard before the resolver", pos, "only the node-kind test and the operator lookup precede the resolver",
			"on the way to the resolver this function also tests "+strings.Join(extra, "; ")+" — a test the other caller of the resolver does not make: an occurrence is typed as overloaded by the checker but left as the built-in operator by the patcher (or the reverse)")
	}
}

// c17Replacement (R17.2): Name = the resolver's second result, Arguments = [Left, Right].
func c17Replacement(p *core.Program, r *core.Report, nk *eng.NodeKinds, resolver *types.Func, sites []resolverSite) {
	rs := eng.FindRewriteSites(p, nk, "compiler")
	if len(rs) == 0 {
		r.Unk("R17.2", "patcher rewrite site", "", "no ast.Patch call in package compiler")
		return
	}
	for _, s := range rs {
		info := p.Pkg("compiler").TypesInfo
		key := s.Key
		pos := p.Pos(s.Call.Pos())
		if s.ReplKind != "FunctionNode" {
			r.Bad("R17.2", key+"/replacement is a function call", pos, "the patcher replaces the operator by a "+s.ReplKind+", not by a function call node")
			continue
		}
		var ops []string
		for _, o := range s.Operands {
			ops = append(ops, o.Path+"@"+o.Slot)
		}
		okOps := len(s.Operands) == 2 && s.Operands[0].Path == "*node.Left" && s.Operands[0].Slot == "Arguments[0]" && s.Operands[1].Path == "*node.Right" && s.Operands[1].Slot == "Arguments[1]"
		r.Check(okOps, "R17.2", key+"/arguments are [left, right]", pos, "Arguments = [Left, Right], each once", "the call's arguments are "+strings.Join(ops, ", ")+" — not exactly the left operand followed by the right operand")
		// Name: the resolver's 2nd result in the same function
		var fnVar types.Object
		ast.Inspect(s.Func.Body, func(n ast.Node) bool {
			as, ok := n.(*ast.AssignStmt)
			if !ok || len(as.Lhs) != 3 || len(as.Rhs) != 1 {
				return true
			}
			if c, ok := as.Rhs[0].(*ast.CallExpr); ok && eng.CalleeOf(info, c) == resolver {
				if id, ok := as.Lhs[1].(*ast.Ident); ok {
					fnVar = objOf(info, id)
				}
			}
			return true
		})
		lit := s.Aliases.Literal(s.Repl)
		okName := false
		nameExpr := "?"
		if lit != nil {
			for _, el := range lit.Elts {
				if kv, ok := el.(*ast.KeyValueExpr); ok && eng.ExprStr(kv.Key) == "Name" {
					nameExpr = eng.ExprStr(kv.Value)
					if id, ok := eng.Unparen(kv.Value).(*ast.Ident); ok && fnVar != nil && objOf(info, id) == fnVar {
						okName = true
					}
				}
			}
		}
		r.Check(okName, "R17.2", key+"/calls the function the resolver returned", pos, "Name = the resolver's answer", "the call's function name is `"+nameExpr+"`, not the name the resolver returned for these operand types")
	}
}

// c17Validation (R17.3).
func c17Validation(p *core.Program, r *core.Report, resolver *types.Func) {
	// what the resolver relies on: In(i), In(i+1), Out(0) with i = 0, or 1 for methods
	cinfo := p.Pkg("conf").TypesInfo
	_, rfd := p.DeclOf(resolver)
	check := p.FuncDecl("conf", "Config", "Check")
	if rfd == nil || check == nil || check.Body == nil {
		r.Unk("R17.3", "conf.(Config).Check", "", "resolver declaration or Config.Check not found")
		return
	}
	pos := p.Pos(check.Pos())
	// conditions of Check whose true branch returns an error, inside the loop over the operators
	type cnd struct {
		e   ast.Expr
		pos token.Pos
	}
	var conds []cnd
	// Check's body and the unexported helpers it delegates to (a validation split into parts)
	bodies := []*ast.BlockStmt{check.Body}
	ast.Inspect(check.Body, func(n ast.Node) bool {
		if c, ok := n.(*ast.CallExpr); ok {
			if fn := eng.CalleeOf(cinfo, c); fn != nil && !fn.Exported() && fn.Pkg() == p.Pkg("conf").Types {
				if _, hfd := p.DeclOf(fn); hfd != nil && hfd.Body != nil && hfd != check {
					bodies = append(bodies, hfd.Body)
				}
			}
		}
		return true
	})
	eng.InspectInlined(p, cinfo, p.Pkg("conf").Types, check.Body, 1, func(fn *types.Func, _ *ast.FuncDecl) bool { return !fn.Exported() }, func(n ast.Node, _ *eng.InlineCtx, _ int) bool {
		is, ok := n.(*ast.IfStmt)
		if !ok || len(is.Body.List) == 0 {
			return true
		}
		if rs, ok := is.Body.List[len(is.Body.List)-1].(*ast.ReturnStmt); ok && len(rs.Results) == 1 && !isNilIdent(cinfo, rs.Results[0]) {
			// the atoms one of which rejects, however the test is written (a || b, !(a' && b'))
			for _, d := range eng.Disjuncts(is.Cond, false) {
				conds = append(conds, cnd{d, is.Cond.Pos()})
			}
		}
		return true
	})
	has := func(pred func(e ast.Expr) bool) (bool, int) {
		for i, c := range conds {
			if pred(c.e) {
				return true, i
			}
		}
		return false, -1
	}
	isTypeMethodCmp := func(e ast.Expr, method string, op token.Token) (ast.Expr, ast.Expr, bool) {
		b, ok := e.(*ast.BinaryExpr)
		if !ok || b.Op != op {
			return nil, nil, false
		}
		c, ok := eng.Unparen(b.X).(*ast.CallExpr)
		if !ok {
			return nil, nil, false
		}
		sel, ok := c.Fun.(*ast.SelectorExpr)
		if !ok || sel.Sel.Name != method {
			return nil, nil, false
		}
		return sel.X, b.Y, true
	}
	okExists, iExists := has(func(e ast.Expr) bool {
		u, ok := e.(*ast.UnaryExpr)
		if !ok || u.Op != token.NOT {
			return false
		}
		_, isID := eng.Unparen(u.X).(*ast.Ident)
		return isID
	})
	r.Check(okExists, "R17.3", "conf.(Config).Check/mapped function exists", pos, "rejects a name that is not in the types table", "Config.Check does not reject an operator function that is missing from the environment")
	okNil, iNil := has(func(e ast.Expr) bool {
		b, ok := e.(*ast.BinaryExpr)
		return ok && b.Op == token.EQL && isNilIdent(cinfo, b.Y) && strings.HasSuffix(eng.ExprStr(b.X), ".Type")
	})
	okKind, iKind := has(func(e ast.Expr) bool {
		_, y, ok := isTypeMethodCmp(e, "Kind", token.NEQ)
		return ok && eng.ExprStr(y) == "reflect.Func"
	})
	r.Check(okKind, "R17.3", "conf.(Config).Check/mapped member is a function", pos, "rejects a member whose kind is not Func", "Config.Check does not reject an operator mapping that names a non-function member: the resolver then calls In/Out on a non-function type and panics")
	r.Check(okNil && (!okKind || iNil < iKind) && (!okExists || iExists < iNil), "R17.3", "conf.(Config).Check/mapped member is unambiguous (non-nil type)", pos, "a nil type (ambiguous member) is rejected before its kind is read",
		"Config.Check reads the Kind of the mapped member's type without first rejecting a nil type: the types table gives an AMBIGUOUS member (same name at the same depth in two embedded structs) a nil type, so `Operator(\"+\", \"Y\")` with an ambiguous Y is not rejected at compile time but dereferences nil")
	okOut, _ := has(func(e ast.Expr) bool {
		_, y, ok := isTypeMethodCmp(e, "NumOut", token.NEQ)
		return ok && eng.ExprStr(y) == "1"
	})
	r.Check(okOut, "R17.3", "conf.(Config).Check/exactly one result", pos, "rejects NumOut() != 1", "Config.Check does not require exactly one result: the resolver's Out(0) panics for a function without results")
	// NumIn: required = base, or base+1 under the Method flag; the resolver indexes first, first+1
	// the count test is read, under each value of the Method flag, as an affine equation in
	// N = NumIn(): whichever way it is written (a required count that depends on the flag, or
	// the receiver subtracted from the count), it pins N to one value per flag
	requiredN := func(method bool) (int64, bool) {
		env := &eng.AffEnv{Info: cinfo, Vars: map[types.Object]eng.Aff{}}
		env.Sym = func(e ast.Expr) (string, bool) {
			if c, ok := eng.Unparen(e).(*ast.CallExpr); ok && len(c.Args) == 0 {
				if sel, ok := c.Fun.(*ast.SelectorExpr); ok && sel.Sel.Name == "NumIn" {
					return "N", true
				}
			}
			return "", false
		}
		exec := func(st ast.Stmt) {
			switch x := st.(type) {
			case *ast.AssignStmt:
				if len(x.Lhs) == 1 && len(x.Rhs) == 1 {
					if id, ok := x.Lhs[0].(*ast.Ident); ok {
						obj := objOf(cinfo, id)
						switch x.Tok {
						case token.DEFINE, token.ASSIGN:
							if a, ok := env.Eval(x.Rhs[0]); ok {
								if _, isCall := eng.Unparen(x.Rhs[0]).(*ast.CallExpr); !isCall || len(a.T) > 0 {
									env.Vars[obj] = a
								}
							}
						case token.ADD_ASSIGN, token.SUB_ASSIGN:
							if cur, ok := env.Vars[obj]; ok {
								if d, ok := env.Eval(x.Rhs[0]); ok {
									sign := int64(1)
									if x.Tok == token.SUB_ASSIGN {
										sign = -1
									}
									env.Vars[obj] = cur.Add(d, sign)
								}
							}
						}
					}
				}
			case *ast.IncDecStmt:
				if id, ok := eng.Unparen(x.X).(*ast.Ident); ok {
					if cur, ok := env.Vars[objOf(cinfo, id)]; ok {
						d := int64(1)
						if x.Tok == token.DEC {
							d = -1
						}
						env.Vars[objOf(cinfo, id)] = cur.Add(eng.AffConst(d), 1)
					}
				}
			}
		}
		var found *int64
		var walk func(list []ast.Stmt)
		walk = func(list []ast.Stmt) {
			for _, st := range list {
				if found != nil {
					return
				}
				switch x := st.(type) {
				case *ast.IfStmt:
					cs := eng.ExprStr(x.Cond)
					isFlag := strings.HasSuffix(cs, ".Method")
					neg := strings.HasPrefix(cs, "!")
					if isFlag {
						if method != neg {
							walk(x.Body.List)
						} else if eb, ok := x.Else.(*ast.BlockStmt); ok {
							walk(eb.List)
						}
						continue
					}
					// is this the count test?
					split := func(e ast.Expr) {
						for _, d := range eng.Disjuncts(e, false) {
							if b, ok := d.(*ast.BinaryExpr); ok && b.Op == token.NEQ && found == nil {
								l, ok1 := env.Eval(b.X)
								rr, ok2 := env.Eval(b.Y)
								if ok1 && ok2 {
									dd := l.Add(rr, -1) // dd = 0 is what passes
									if c := dd.T["N"]; (c == 1 || c == -1) && len(dd.T) == 1 {
										v := -dd.C * c
										found = &v
									}
								}
							}
						}
					}
					if len(x.Body.List) > 0 {
						if rs, ok := x.Body.List[len(x.Body.List)-1].(*ast.ReturnStmt); ok && len(rs.Results) == 1 && !isNilIdent(cinfo, rs.Results[0]) {
							split(x.Cond)
						}
					}
					if found == nil {
						walk(x.Body.List)
					}
				case *ast.BlockStmt:
					walk(x.List)
				case *ast.ForStmt:
					walk(x.Body.List)
				case *ast.RangeStmt:
					walk(x.Body.List)
				default:
					exec(st)
				}
			}
		}
		for _, body := range bodies {
			if found == nil {
				walk(body.List)
			}
		}
		if found == nil {
			return 0, false
		}
		return *found, true
	}
	cb, okB := requiredN(false)
	cm, okM := requiredN(true)
	if okB && okM {
		rb, rm, ok2 := resolverFirstIndex(cinfo, rfd)
		if !ok2 {
			r.Unk("R17.3", "conf.(Config).Check/parameter count fits the resolver's indexing", pos, "cannot evaluate the resolver's first index under the Method flag")
		} else {
			r.Check(cb == rb+2 && cm == rm+2, "R17.3", "conf.(Config).Check/parameter count fits the resolver's indexing", pos, fmt.Sprintf("required NumIn %d (method: %d) = resolver's first index %d (method: %d) + 2", cb, cm, rb, rm),
				fmt.Sprintf("Config.Check requires %d parameters (%d for methods) while the resolver reads parameters %d and %d (%d and %d for methods): an accepted mapping makes the resolver index out of range, or a valid one is rejected", cb, cm, rb, rb+1, rm, rm+1))
		}
	} else {
		r.Bad("R17.3", "conf.(Config).Check/parameter count fits the resolver's indexing", pos, "Config.Check does not test the parameter count of the mapped function (no `… != …` test that pins NumIn() to one value, leaving with an error)")
	}

	// must-precede in expr.Compile
	compile := p.FuncDecl("", "", "Compile")
	if compile == nil {
		r.Unk("R17.3", "expr.Compile/validation precedes the first type check", "", "expr.Compile not found")
		return
	}
	info := p.Pkg("").TypesInfo
	checkFn, _ := p.Pkg("conf").TypesInfo.Defs[check.Name].(*types.Func)
	tcheck := p.Pkg("checker").Types.Scope().Lookup("Check")
	w := &eng.Walker{Info: info, MaxPaths: 4000, Inline: inlineUnexported(p, ""), MaxDepth: 2}
	paths := flattenPaths(w.Func(compile.Body), 20000)
	bad := ""
	n := 0
	for _, atoms := range paths {
		if !errFlowFeasible(info, atoms) {
			continue
		}
		validated, errReturned := false, false
		var errVar types.Object
		for i, a := range atoms {
			if a.Kind == "call" && a.Call != nil {
				fn := eng.CalleeOf(info, a.Call)
				if fn == checkFn {
					validated = true
					// `if err := config.Check(); err != nil { return nil, err }`
					for _, b := range atoms[i+1:] {
						if b.Kind == "assign" {
							as := b.Node.(*ast.AssignStmt)
							if len(as.Rhs) == 1 && as.Rhs[0] == ast.Expr(a.Call) && len(as.Lhs) == 1 {
								if id, ok := as.Lhs[0].(*ast.Ident); ok {
									errVar = objOf(info, id)
								}
							}
						}
						if b.Kind == "cond" && errVar != nil {
							if be, ok := eng.Unparen(b.Node.(ast.Expr)).(*ast.BinaryExpr); ok && be.Op == token.NEQ && isNilIdent(info, be.Y) {
								if id, ok := eng.Unparen(be.X).(*ast.Ident); ok && objOf(info, id) == errVar {
									errReturned = true
								}
							}
							break
						}
					}
				}
				if fn != nil && types.Object(fn) == tcheck {
					n++
					if !validated || !errReturned {
						bad = p.Pos(a.Call.Pos())
					}
				}
			}
		}
	}
	r.Check(bad == "" && n > 0, "R17.3", "expr.Compile/validation precedes the first type check", p.Pos(compile.Pos()), "Config.Check is called and its error tested before every checker.Check",
		"a path of expr.Compile reaches checker.Check (at "+bad+") without having called Config.Check and tested its error: an ill-shaped operator mapping reaches the resolver unvalidated")
}

// methodDependentConst: e is a local assigned a constant and re-assigned another constant under
// `if X.Method {…}`; returns (plain, underMethod).
func methodDependentConst(info *types.Info, fd *ast.FuncDecl, e ast.Expr) (int64, int64, bool) {
	if tv, ok := info.Types[e]; ok && tv.Value != nil {
		if v, ok := constInt(tv); ok {
			return v, v, true
		}
	}
	id, ok := eng.Unparen(e).(*ast.Ident)
	if !ok {
		return 0, 0, false
	}
	obj := objOf(info, id)
	var base, meth int64
	gotB, gotM := false, false
	var stack []ast.Node
	ast.Inspect(fd.Body, func(n ast.Node) bool {
		if n == nil {
			stack = stack[:len(stack)-1]
			return true
		}
		stack = append(stack, n)
		as, ok := n.(*ast.AssignStmt)
		if !ok || len(as.Lhs) != 1 || len(as.Rhs) != 1 {
			return true
		}
		lid, ok := as.Lhs[0].(*ast.Ident)
		if !ok || objOf(info, lid) != obj {
			return true
		}
		tv, ok := info.Types[as.Rhs[0]]
		if !ok || tv.Value == nil {
			return true
		}
		v, ok := constInt(tv)
		if !ok {
			return true
		}
		underMethod := false
		for _, anc := range stack {
			if is, ok := anc.(*ast.IfStmt); ok && strings.HasSuffix(eng.ExprStr(is.Cond), ".Method") {
				underMethod = true
			}
		}
		if underMethod {
			meth, gotM = v, true
		} else {
			base, gotB = v, true
		}
		return true
	})
	if !gotB {
		return 0, 0, false
	}
	if !gotM {
		meth = base
	}
	return base, meth, true
}

func constInt(tv types.TypeAndValue) (int64, bool) {
	if tv.Value == nil {
		return 0, false
	}
	s := tv.Value.ExactString()
	var v int64
	if _, err := fmt.Sscanf(s, "%d", &v); err != nil {
		return 0, false
	}
	return v, true
}

// resolverFirstIndex: the resolver reads In(i) and In(i+1); i is a local with a plain value and
// a value under the Method flag.
func resolverFirstIndex(info *types.Info, fd *ast.FuncDecl) (int64, int64, bool) {
	var idx []ast.Expr
	ast.Inspect(fd.Body, func(n ast.Node) bool {
		c, ok := n.(*ast.CallExpr)
		if !ok || len(c.Args) != 1 {
			return true
		}
		if sel, ok := c.Fun.(*ast.SelectorExpr); ok && sel.Sel.Name == "In" {
			idx = append(idx, c.Args[0])
		}
		return true
	})
	if len(idx) != 2 {
		return 0, 0, false
	}
	b0, m0, ok := methodDependentConst(info, fd, idx[0])
	if !ok {
		return 0, 0, false
	}
	// second index must be first + 1
	be, ok := eng.Unparen(idx[1]).(*ast.BinaryExpr)
	if !ok || be.Op != token.ADD || eng.ExprStr(be.X) != eng.ExprStr(idx[0]) || eng.ExprStr(be.Y) != "1" {
		return 0, 0, false
	}
	return b0, m0, true
}

// c17Pipeline (R17.4): on every path of expr.Compile, after the last checker.Check and before
// compiler.Compile there is a PatchOperators call.
func c17Pipeline(p *core.Program, r *core.Report) {
	compile := p.FuncDecl("", "", "Compile")
	if compile == nil {
		r.Unk("R17.4", "expr.Compile", "", "not found")
		return
	}
	info := p.Pkg("").TypesInfo
	tcheck := p.Pkg("checker").Types.Scope().Lookup("Check")
	cgen := p.Pkg("compiler").Types.Scope().Lookup("Compile")
	// the patch entry point: the function of package compiler that walks with the patcher
	var patchFn types.Object
	for _, fd := range p.FuncDecls("compiler") {
		if fd.Body == nil || fd.Recv != nil {
			continue
		}
		found := false
		ast.Inspect(fd.Body, func(n ast.Node) bool {
			if cl, ok := n.(*ast.CompositeLit); ok {
				if t := p.Pkg("compiler").TypesInfo.TypeOf(cl); t != nil && strings.HasSuffix(t.String(), "operatorPatcher") {
					found = true
				}
			}
			return true
		})
		if found {
			patchFn = p.Pkg("compiler").TypesInfo.Defs[fd.Name]
		}
	}
	if tcheck == nil || cgen == nil || patchFn == nil {
		r.Unk("R17.4", "expr.Compile/stages", p.Pos(compile.Pos()), "checker.Check, compiler.Compile or the operator-patch entry point not found")
		return
	}
	w := &eng.Walker{Info: info, MaxPaths: 4000, Inline: inlineUnexported(p, ""), MaxDepth: 2}
	paths := flattenPaths(w.Func(compile.Body), 20000)
	nGen := 0
	badCheck := map[string]bool{}
	okCheck := map[string]bool{}
	for _, atoms := range paths {
		if !errFlowFeasible(info, atoms) {
			continue
		}
		var pending []string // checks not yet followed by a patch
		for _, a := range atoms {
			if a.Kind != "call" || a.Call == nil {
				continue
			}
			fn := eng.CalleeOf(info, a.Call)
			switch {
			case fn != nil && types.Object(fn) == tcheck:
				pending = append(pending, p.Pos(a.Call.Pos()))
			case fn != nil && types.Object(fn) == patchFn:
				for _, c := range pending {
					okCheck[c] = true
				}
				pending = nil
			case fn != nil && types.Object(fn) == cgen:
				nGen++
				for _, c := range pending {
					badCheck[c] = true
				}
			}
		}
	}
	if nGen == 0 {
		r.Unk("R17.4", "expr.Compile/stages", p.Pos(compile.Pos()), "no path reaches compiler.Compile")
		return
	}
	i := 0
	seen := map[string]bool{}
	for _, m := range []map[string]bool{badCheck, okCheck} {
		for c := range m {
			if seen[c] {
				continue
			}
			seen[c] = true
		}
	}
	// stable order by position string
	var all []string
	for c := range seen {
		all = append(all, c)
	}
	sortStrings(all)
	for _, c := range all {
		i++
		r.Check(!badCheck[c], "R17.4", fmt.Sprintf("expr.Compile/type check#%d is followed by an operator patch", i), c, "every path from this check to code generation passes the operator patcher",
			"a path from this type check to compiler.Compile does not pass the operator patcher: a binary operator that exists only after the user's visitors ran (or whose operand types changed) is typed by this check as a call of the overload function but compiled as the built-in operator")
	}
}

func sortStrings(s []string) {
	for i := 1; i < len(s); i++ {
		for j := i; j > 0 && s[j] < s[j-1]; j-- {
			s[j], s[j-1] = s[j-1], s[j]
		}
	}
}

// c17ResolverFit (R17.1): the resolver accepts an operand for a parameter only if the operand's
// static type IS the parameter's type, or the parameter is an interface. Evaluated over type
// shapes by the reflect.Type evaluator: for a non-interface parameter and an operand of another
// shape the success return must be infeasible (decided false, not merely unknown).
func c17ResolverFit(p *core.Program, r *core.Report, resolver *types.Func) {
	_, fd := p.DeclOf(resolver)
	if fd == nil || fd.Body == nil || fd.Type.Params == nil {
		r.Unk("R17.1", "conf resolver/operand fits only its own type or an interface", "", "resolver declaration not found")
		return
	}
	info := p.Pkg("conf").TypesInfo
	var params []types.Object
	for _, f := range fd.Type.Params.List {
		for _, nm := range f.Names {
			params = append(params, info.Defs[nm])
		}
	}
	if len(params) != 4 {
		r.Unk("R17.1", "conf resolver/operand fits only its own type or an interface", p.Pos(fd.Pos()), "unexpected parameter list")
		return
	}
	lObj, rObj := params[2], params[3]
	paths := pathsTo(info, fd, func(a eng.Atom) bool {
		if a.Kind != "return" {
			return false
		}
		rs := a.Node.(*ast.ReturnStmt)
		if len(rs.Results) != 3 {
			return false
		}
		tv, ok := info.Types[rs.Results[2]]
		return ok && tv.Value != nil && tv.Value.ExactString() == "true"
	})
	if len(paths) == 0 {
		r.Unk("R17.1", "conf resolver/operand fits only its own type or an interface", p.Pos(fd.Pos()), "no success return")
		return
	}
	named := func(t *eng.MT) *eng.MT { c := *t; c.Named = true; return &c }
	strs := &eng.MT{Kind: "Slice", Elem: eng.MTString}
	shapes := []*eng.MT{eng.MTInt, named(eng.MTInt), eng.MTString, strs, named(strs), {Kind: "Struct", Named: true}, {Kind: "Map", Key: eng.MTString, Elem: eng.MTInt}, named(&eng.MT{Kind: "Map", Key: eng.MTString, Elem: eng.MTInt})}
	var bad []string
	n := 0
	for _, P := range shapes {
		for _, L := range shapes {
			if L.Same(P) && !(L.Named && L != P) {
				continue
			}
			fn := &eng.MT{Kind: "Func", In: []*eng.MT{P, P}, Out: []*eng.MT{eng.MTBool}}
			in := eng.NewInterp(p, "conf")
			in.Hook = func(x ast.Expr) (eng.RV, bool) {
				switch y := x.(type) {
				case *ast.Ident:
					switch objOf(info, y) {
					case lObj:
						return eng.RV{K: "type", T: L}, true
					case rObj:
						return eng.RV{K: "type", T: P}, true
					}
				case *ast.SelectorExpr:
					if t := info.TypeOf(y.X); t != nil && strings.HasSuffix(t.String(), "conf.Tag") {
						switch y.Sel.Name {
						case "Type":
							return eng.RV{K: "type", T: fn}, true
						case "Method":
							return eng.RV{K: "bool", B: false}, true
						}
					}
				}
				return eng.RV{}, false
			}
			n++
			for _, atoms := range paths {
				if feasibleUnder(in, atoms) {
					bad = append(bad, "operand "+L.String()+" for parameter "+P.String())
					break
				}
			}
		}
	}
	if len(bad) > 5 {
		bad = append(bad[:5], fmt.Sprintf("… %d more", len(bad)-5))
	}
	r.Check(len(bad) == 0 && n > 0, "R17.1", "conf resolver/operand fits only its own type or an interface", p.Pos(fd.Pos()), fmt.Sprintf("%d (operand, parameter) shape pairs of different non-interface types: none can select the function", n),
		"the resolver can select an overload for "+strings.Join(bad, "; ")+" — the test that an operand fits a parameter is wider than identity (or interface implementation): an occurrence whose operand types do NOT match the function's parameters is rewritten into a call and loses its built-in meaning")
}

// c17AmbiguousTags (R17.3): Config.Check rejects an operator function that names an ambiguous
// member because such a tag has no type (nil); every place that marks a tag ambiguous must
// therefore build it without a type.
func c17AmbiguousTags(p *core.Program, r *core.Report) {
	info := p.Pkg("conf").TypesInfo
	n := 0
	for _, fd := range p.FuncDecls("conf") {
		if fd.Body == nil {
			continue
		}
		ast.Inspect(fd.Body, func(nd ast.Node) bool {
			switch x := nd.(type) {
			case *ast.CompositeLit:
				if t := info.TypeOf(x); t == nil || !strings.HasSuffix(t.String(), "conf.Tag") {
					return true
				}
				amb, typed := false, false
				for _, el := range x.Elts {
					if kv, ok := el.(*ast.KeyValueExpr); ok {
						switch eng.ExprStr(kv.Key) {
						case "Ambiguous":
							amb = eng.ExprStr(kv.Value) == "true"
						case "Type":
							typed = true
						}
					}
				}
				if amb {
					n++
					r.Check(!typed, "R17.3", fmt.Sprintf("%s/ambiguous tag#%d carries no type", core.FuncName("conf", fd), n), p.Pos(x.Pos()), "Tag{Ambiguous: true}", "a tag is marked ambiguous and keeps a type: Config.Check and the checker's call rule recognise an ambiguous member only by its nil type, so an operator mapped to an ambiguous function passes validation and fails at run time")
				}
			case *ast.AssignStmt:
				for _, l := range x.Lhs {
					if sel, ok := l.(*ast.SelectorExpr); ok && sel.Sel.Name == "Ambiguous" {
						if t := info.TypeOf(sel.X); t != nil && strings.HasSuffix(t.String(), "conf.Tag") {
							n++
							r.Bad("R17.3", fmt.Sprintf("%s/ambiguous tag#%d carries no type", core.FuncName("conf", fd), n), p.Pos(x.Pos()), "an existing tag is marked ambiguous in place (it keeps its type): Config.Check and the checker's call rule recognise an ambiguous member only by its nil type, so `Operator(\"+\", \"Add\")` with Add promoted from two embedded structs passes validation, is typed as overloaded, and fails at run time with `cannot get \"Add\"`")
						}
					}
				}
			}
			return true
		})
	}
	if n == 0 {
		r.Unk("R17.3", "conf/ambiguous tags", "", "no place marks a tag ambiguous")
	}
}

func c17Controls() []core.Mutant {
	return []core.Mutant{
		{Name: "literal retyping does not ask about overloads", File: "checker/checker.go", Old: "if isIntegerOrArithmeticOperation(arg) && isNumber(in) && !v.hasOverloadedOperator(arg) {", New: "if isIntegerOrArithmeticOperation(arg) && isNumber(in) {", Rule: "R17.7", Construct: "spares overloaded operators"},
		{Name: "refactor: existence test restated by De Morgan", File: "conf/config.go", Old: "if !ok || fnType.Type == nil || fnType.Type.Kind() != reflect.Func {", New: "if !(ok && fnType.Type != nil && fnType.Type.Kind() == reflect.Func) {", Silent: true},
		{Name: "patcher skips operands without static type", File: "compiler/patcher.go", Old: "\trightType := binaryNode.Right.Type()\n", New: "\trightType := binaryNode.Right.Type()\n\tif leftType == nil || rightType == nil {\n\t\treturn\n\t}\n", Rule: "R17.1", Construct: "no further guard"},
		{Name: "resolver accepts every assignable operand", File: "conf/operators_table.go", Old: "firstArgumentFit := l == firstArgType || (", New: "firstArgumentFit := (l != nil && l.AssignableTo(firstArgType)) || (", Rule: "R17.1", Construct: "operand fits only its own type"},
		{Name: "ambiguous tag keeps its type", File: "conf/types_table.go", Old: "\t\t\t\t\t\ttypes[name] = Tag{Ambiguous: true}", New: "\t\t\t\t\t\tprev := types[name]\n\t\t\t\t\t\tprev.Ambiguous = true\n\t\t\t\t\t\ttypes[name] = prev", Rule: "R17.3", Construct: "ambiguous tag"},
		{Name: "arguments swapped in the replacement", File: "compiler/patcher.go", Old: "[]ast.Node{binaryNode.Left, binaryNode.Right}", New: "[]ast.Node{binaryNode.Right, binaryNode.Left}", Rule: "R17.2", Construct: "arguments are [left, right]"},
		{Name: "patcher resolves with the right type twice", File: "compiler/patcher.go", Old: "leftType := binaryNode.Left.Type()", New: "leftType := binaryNode.Right.Type()", Rule: "R17.1", Construct: "operand types in order"},
		{Name: "first registered function instead of the resolver's answer", File: "compiler/patcher.go", Old: "\t\t\tName:      fn,\n", New: "\t\t\tName:      fns[0],\n", Edits: [][2]string{{"\t_, fn, ok := conf.Find", "\t_, _, ok = conf.Find"}}, Rule: "R17.2", Construct: "calls the function the resolver returned"},
		{Name: "Config.Check no longer called", File: "expr.go", Old: "\tif err := config.Check(); err != nil {\n\t\treturn nil, err\n\t}\n", New: "", Rule: "R17.3", Construct: "validation precedes"},
		{Name: "result count no longer validated", File: "conf/config.go", Old: "if fnType.Type.NumIn() != requiredNumIn || fnType.Type.NumOut() != 1 {", New: "if fnType.Type.NumIn() != requiredNumIn {", Rule: "R17.3", Construct: "exactly one result"},
		{Name: "method receiver not counted", File: "conf/config.go", Old: "\t\t\t\trequiredNumIn = 3 // As first argument of method is receiver.\n", New: "\t\t\t\trequiredNumIn = 2\n", Rule: "R17.3", Construct: "parameter count fits"},
		{Name: "ambiguous member not rejected", File: "conf/config.go", Old: "!ok || fnType.Type == nil || fnType.Type.Kind()", New: "!ok || fnType.Type.Kind()", Rule: "R17.3", Construct: "unambiguous"},
		{Name: "second patch removed", File: "expr.go", Old: "\t\t// Visitors may have introduced operators that are now typed as overloaded.\n\t\tcompiler.PatchOperators(&tree.Node, config)\n", New: "", Rule: "R17.4", Construct: "type check#2"},
		{Name: "checker resolves before visiting the right operand's type", File: "checker/checker.go", Old: "\t\tt, _, ok := conf.FindSuitableOperatorOverload(fns, v.types, l, r)", New: "\t\tt, _, ok := conf.FindSuitableOperatorOverload(fns, v.types, l, l)", Rule: "R17.1", Construct: "operand types in order"},
		{Name: "walker hands a copy of the slice bound to the visitor", File: "ast/visitor.go", Old: "\t\tif n.To != nil {\n\t\t\tw.walk(&n.To)\n\t\t}", New: "\t\tif n.To != nil {\n\t\t\tto := n.To\n\t\t\tw.walk(&to)\n\t\t}", Rule: "R17.5.2", Construct: "SliceNode"},
		{Name: "REFACTORING: operand types read inline", File: "compiler/patcher.go", Silent: true,
			Old: "\t_, fn, ok := conf.FindSuitableOperatorOverload(fns, p.types, leftType, rightType)", New: "\t_, fn, ok := conf.FindSuitableOperatorOverload(fns, p.types, binaryNode.Left.Type(), binaryNode.Right.Type())",
			Edits: [][2]string{{"\tleftType := binaryNode.Left.Type()\n\trightType := binaryNode.Right.Type()\n", ""}}},
	}
}

// c17RetypeVsOverload (R17.7): the checker retypes the integer literals of a call argument to
// the parameter's type, descending through arithmetic operators. An operator on the way that
// resolves to an overload was resolved FOR THE OPERAND TYPES AS WRITTEN; retyping a literal
// operand afterwards makes the patcher look the overload up with another type, not find it,
// and compile the built-in operator: `Pay(M * 2)` no longer equals `Pay(Mul(M, 2))`. Rule:
// every call of the retyping function from outside itself is reached only when a predicate
// that consults the overload resolver has answered false for that argument.
func c17RetypeVsOverload(p *core.Program, r *core.Report, resolver *types.Func, nk *eng.NodeKinds) {
	info := p.Pkg("checker").TypesInfo
	_, where := retypableOperators(p, nk)
	var retyper *ast.FuncDecl
	for _, fd := range p.FuncDecls("checker") {
		if core.FuncName("checker", fd) == where {
			retyper = fd
		}
	}
	if retyper == nil {
		r.Unk("R17.7", "checker/literal retyping vs overloads", "", "the function that retypes integer literals was not found")
		return
	}
	retObj := info.Defs[retyper.Name]
	// functions of the checker that (transitively, depth 2) call the resolver
	reaches := map[types.Object]bool{}
	for round := 0; round < 3; round++ {
		for _, fd := range p.FuncDecls("checker") {
			if fd.Body == nil || reaches[info.Defs[fd.Name]] {
				continue
			}
			ast.Inspect(fd.Body, func(n ast.Node) bool {
				if c, ok := n.(*ast.CallExpr); ok {
					if fn := eng.CalleeOf(info, c); fn != nil && (fn == resolver || reaches[fn]) {
						reaches[info.Defs[fd.Name]] = true
					}
				}
				return true
			})
		}
	}
	n := 0
	for _, fd := range p.FuncDecls("checker") {
		if fd.Body == nil || fd == retyper {
			continue
		}
		ast.Inspect(fd.Body, func(nd ast.Node) bool {
			c, ok := nd.(*ast.CallExpr)
			if !ok || eng.CalleeOf(info, c) == nil || types.Object(eng.CalleeOf(info, c)) != retObj || len(c.Args) < 1 {
				return true
			}
			n++
			arg := eng.ExprStr(c.Args[0])
			guarded := false
			for _, f := range eng.FactsAt(fd.Body, c) {
				u, ok := eng.Unparen(f).(*ast.UnaryExpr)
				if !ok || u.Op != token.NOT {
					continue
				}
				gc, ok := eng.Unparen(u.X).(*ast.CallExpr)
				if !ok {
					continue
				}
				if g := eng.CalleeOf(info, gc); g != nil && reaches[g] {
					for _, a := range gc.Args {
						if eng.ExprStr(a) == arg {
							guarded = true
						}
					}
				}
			}
			r.Check(guarded, "R17.7", fmt.Sprintf("%s/literal retyping site#%d spares overloaded operators", core.FuncName("checker", fd), n), p.Pos(c.Pos()),
				"reached only when a predicate that consults the overload resolver answered false for the argument",
				"the literals of the argument `"+arg+"` are retyped to the parameter's type without asking whether an operator inside it resolves to an overload: with Mul(Money, int) mapped to `*`, `Pay(M * 2)` retypes 2 to Money, the patcher then finds no overload for (Money, Money) and the run fails with `invalid operation`, while `Pay(Mul(M, 2))` succeeds")
			return true
		})
	}
	if n == 0 {
		r.Unk("R17.7", "checker/literal retyping vs overloads", "", "no call of the retyping function found")
	}
}
