package props

import (
	"fmt"
	"go/ast"
	"go/token"
	"go/types"
	"sort"
	"strings"

	"golang.org/x/tools/go/callgraph/cha"
	"golang.org/x/tools/go/callgraph/vta"
	"golang.org/x/tools/go/ssa"
	"golang.org/x/tools/go/ssa/ssautil"

	"verif/exprlint/core"
	"verif/exprlint/eng"
)

func init() {
	register(&Prop{ID: "C04", Run: runC04, Controls: c04Controls})
}

// guardFrame: a function whose first statement defers a closure that calls recover() and, when
// it returns non-nil, records an error (named error result, error-typed field, or a call of a
// method that stores one).
type guardFrame struct {
	rel     string
	fd      *ast.FuncDecl
	handler *ast.FuncLit // the deferred closure, or nil when a named function is deferred
	hfn     *types.Func  // the deferred named function (its own body calls recover)
	hbody   *ast.BlockStmt
	hinfo   *types.Info
	hargs   map[types.Object]ast.Expr // named handler: parameter -> argument of the defer statement
	records string                    // what the handler records into
	prefix  []ast.Stmt                // statements before the defer: they run unprotected
	why     string                    // "" if intact
}

func errorLike(t types.Type) bool {
	if t == nil {
		return false
	}
	if types.Identical(t, types.Universe.Lookup("error").Type()) {
		return true
	}
	// *file.Error and friends: a pointer to a named type with an Error() string method
	ms := types.NewMethodSet(t)
	for i := 0; i < ms.Len(); i++ {
		if ms.At(i).Obj().Name() == "Error" {
			return true
		}
	}
	return false
}

func findGuardFrames(p *core.Program) []*guardFrame {
	var out []*guardFrame
	for _, rel := range core.LibPkgs {
		info := p.Pkg(rel).TypesInfo
		for _, fd := range p.FuncDecls(rel) {
			if fd.Body == nil {
				continue
			}
			// any deferred closure calling recover
			var ds *ast.DeferStmt
			pos := -1
			g := &guardFrame{rel: rel, fd: fd}
			for i, st := range fd.Body.List {
				d, ok := st.(*ast.DeferStmt)
				if !ok {
					continue
				}
				if fl, ok := d.Call.Fun.(*ast.FuncLit); ok && callsRecover(info, fl) {
					ds, pos = d, i
					g.handler, g.hbody, g.hinfo = fl, fl.Body, info
					break
				}
				// a named function or method of the module is deferred and calls recover itself
				if fn := eng.CalleeOf(info, d.Call); fn != nil {
					if hrel, hfd := p.DeclOf(fn); hfd != nil && hfd.Body != nil && callsRecoverDirectly(p.Pkg(hrel).TypesInfo, hfd.Body) {
						ds, pos = d, i
						g.hfn, g.hbody, g.hinfo = fn, hfd.Body, p.Pkg(hrel).TypesInfo
						g.hargs = map[types.Object]ast.Expr{}
						k := 0
						if hfd.Type.Params != nil {
							for _, f := range hfd.Type.Params.List {
								for _, nm := range f.Names {
									if k < len(d.Call.Args) {
										g.hargs[g.hinfo.Defs[nm]] = d.Call.Args[k]
									}
									k++
								}
							}
						}
						break
					}
				}
			}
			if ds == nil {
				continue
			}
			// statements before the defer run unprotected: they are examined as part of the
			// unguarded region (their static callees join U); a dynamic call there cannot be followed
			g.prefix = fd.Body.List[:pos]
			for _, st := range g.prefix {
				ast.Inspect(st, func(n ast.Node) bool {
					if c, ok := n.(*ast.CallExpr); ok {
						if tv, isT := info.Types[c.Fun]; isT && tv.IsType() {
							return true
						}
						if id, ok := c.Fun.(*ast.Ident); ok {
							if _, isB := info.Uses[id].(*types.Builtin); isB {
								return true
							}
						}
						fn := eng.CalleeOf(info, c)
						dyn := fn == nil
						if fn != nil {
							if rv := fn.Type().(*types.Signature).Recv(); rv != nil && types.IsInterface(rv.Type()) {
								dyn = true
							}
						}
						if dyn {
							g.why = "a dynamic call precedes the deferred recover: a panic in it escapes, and it cannot be followed statically"
						}
					}
					return true
				})
			}
			callerInfo := info
			info := g.hinfo
			// the statements that run when the recovered value is non-nil:
			//   if r := recover(); r != nil {B}   |   r := recover(); if r != nil {B}
			//   r := recover(); if r == nil { return }; B…
			var branch *ast.BlockStmt
			var recVar types.Object
			hasRecover := func(n ast.Node) bool {
				found := false
				if n != nil {
					ast.Inspect(n, func(m ast.Node) bool {
						if c, ok := m.(*ast.CallExpr); ok && isBuiltinCall(info, c, "recover") {
							found = true
						}
						return true
					})
				}
				return found
			}
			bindRec := func(st ast.Stmt) {
				if as, ok := st.(*ast.AssignStmt); ok && len(as.Lhs) == 1 && len(as.Rhs) == 1 && hasRecover(as.Rhs[0]) {
					if id, ok := as.Lhs[0].(*ast.Ident); ok {
						recVar = objOf(info, id)
					}
				}
			}
			nilTest := func(c ast.Expr) (isTest, nonNil bool) {
				b, ok := eng.Unparen(c).(*ast.BinaryExpr)
				if !ok || (b.Op != token.NEQ && b.Op != token.EQL) {
					return false, false
				}
				x, y := b.X, b.Y
				if isNilIdent(info, x) {
					x, y = y, x
				}
				if !isNilIdent(info, y) {
					return false, false
				}
				id, ok := eng.Unparen(x).(*ast.Ident)
				if ok && recVar != nil && objOf(info, id) == recVar {
					return true, b.Op == token.NEQ
				}
				if hasRecover(x) {
					return true, b.Op == token.NEQ
				}
				return false, false
			}
			for i, st := range g.hbody.List {
				bindRec(st)
				is, ok := st.(*ast.IfStmt)
				if !ok {
					continue
				}
				if is.Init != nil {
					bindRec(is.Init)
				}
				if isTest, nonNil := nilTest(is.Cond); isTest && branch == nil {
					if nonNil {
						branch = is.Body
					} else if blockLeaves(is.Body) && is.Else == nil {
						branch = &ast.BlockStmt{List: g.hbody.List[i+1:]}
					} else if eb, ok := is.Else.(*ast.BlockStmt); ok {
						branch = eb
					}
				}
			}
			if branch == nil {
				if g.why == "" {
					g.why = "the handler has no test of the recovered value against nil whose non-nil side records an error"
				}
				out = append(out, g)
				continue
			}
			ast.Inspect(branch, func(n ast.Node) bool {
				switch s := n.(type) {
				case *ast.AssignStmt:
					for _, l := range s.Lhs {
						if errorLike(info.TypeOf(l)) {
							if id, ok := l.(*ast.Ident); ok {
								// must be a named result of the enclosing function
								if v, ok := objOf(info, id).(*types.Var); ok && isNamedResult(info, fd, v) {
									g.records = "named result " + id.Name
								}
							} else if _, ok := l.(*ast.SelectorExpr); ok {
								g.records = "field " + eng.ExprStr(l)
							} else if st, ok := l.(*ast.StarExpr); ok && g.hargs != nil {
								// *p = … where the defer statement passes &<named result> for p
								if pid, ok := eng.Unparen(st.X).(*ast.Ident); ok {
									if arg, ok := g.hargs[info.Uses[pid]]; ok {
										if u, ok := eng.Unparen(arg).(*ast.UnaryExpr); ok && u.Op == token.AND {
											if rid, ok := eng.Unparen(u.X).(*ast.Ident); ok {
												if v, ok := objOf(callerInfo, rid).(*types.Var); ok && isNamedResult(callerInfo, fd, v) {
													g.records = "named result " + rid.Name + " (through *" + pid.Name + " of " + g.hfn.Name() + ")"
												}
											}
										}
									}
								}
							}
						}
					}
				case *ast.CallExpr:
					if fn := eng.CalleeOf(info, s); fn != nil && g.records == "" {
						if _, cfd := p.DeclOf(fn); cfd != nil && cfd.Body != nil && cfd.Recv != nil {
							// a recorder method: stores an error-typed field of its receiver
							ri := p.Pkg(relOfFunc(p, fn)).TypesInfo
							ast.Inspect(cfd.Body, func(m ast.Node) bool {
								if as, ok := m.(*ast.AssignStmt); ok {
									for _, l := range as.Lhs {
										if _, ok := l.(*ast.SelectorExpr); ok && errorLike(ri.TypeOf(l)) {
											g.records = "recorder " + fn.Name() + " → field " + eng.ExprStr(l)
										}
									}
								}
								return true
							})
						}
					}
				}
				return true
			})
			if g.records == "" && g.why == "" {
				g.why = "the recovered branch records no error (no assignment to a named error result or an error field): the panic is swallowed and the caller sees success"
			}
			out = append(out, g)
		}
	}
	return out
}

func relOfFunc(p *core.Program, fn *types.Func) string {
	rel, _ := p.RelOf(fn.Pkg())
	return rel
}

func isNamedResult(info *types.Info, fd *ast.FuncDecl, v *types.Var) bool {
	if fd.Type.Results == nil {
		return false
	}
	for _, f := range fd.Type.Results.List {
		for _, n := range f.Names {
			if info.Defs[n] == types.Object(v) {
				return true
			}
		}
	}
	return false
}

func isBuiltinCall(info *types.Info, c *ast.CallExpr, name string) bool {
	id, ok := c.Fun.(*ast.Ident)
	if !ok || id.Name != name {
		return false
	}
	_, isB := info.Uses[id].(*types.Builtin)
	return isB
}

// callsRecoverDirectly: recover() is called by the function itself (not by a nested closure):
// only then does deferring the function stop a panic.
func callsRecoverDirectly(info *types.Info, body *ast.BlockStmt) bool {
	found := false
	ast.Inspect(body, func(n ast.Node) bool {
		if _, ok := n.(*ast.FuncLit); ok {
			return false
		}
		if c, ok := n.(*ast.CallExpr); ok && isBuiltinCall(info, c, "recover") {
			found = true
		}
		return true
	})
	return found
}

func callsRecover(info *types.Info, fl *ast.FuncLit) bool {
	found := false
	ast.Inspect(fl.Body, func(n ast.Node) bool {
		if c, ok := n.(*ast.CallExpr); ok && isBuiltinCall(info, c, "recover") {
			found = true
		}
		return true
	})
	return found
}

// unguarded computes U: library functions reachable from the API entry points (and the option
// closures) without passing through a guard frame; the handlers of guard frames belong to U.
func unguarded(p *core.Program, guards []*guardFrame) (map[*ssa.Function]string, []string, map[*ssa.Function]bool) {
	prog, pkgs := p.SSA()
	cg := vta.CallGraph(ssautil.AllFunctions(prog), cha.CallGraph(prog))
	guardDecl := map[token.Pos]*guardFrame{}
	for _, g := range guards {
		if g.why == "" {
			guardDecl[g.fd.Pos()] = g
		}
	}
	isGuard := func(f *ssa.Function) bool {
		if fd, ok := f.Syntax().(*ast.FuncDecl); ok {
			return guardDecl[fd.Pos()] != nil
		}
		return false
	}
	var roots []*ssa.Function
	var names []string
	add := func(f *ssa.Function, why string) {
		if f != nil {
			roots = append(roots, f)
			names = append(names, why)
		}
	}
	if rp := pkgs[""]; rp != nil {
		for _, n := range []string{"Compile", "Eval", "Run"} {
			add(rp.Func(n), "expr."+n)
		}
		// option constructors: Compile calls their closures through op(config)
		for name, m := range rp.Members {
			if f, ok := m.(*ssa.Function); ok && ast.IsExported(name) {
				for _, an := range f.AnonFuncs {
					add(an, "closure of expr."+name)
				}
			}
		}
	}
	if pp := pkgs["parser"]; pp != nil {
		add(pp.Func("Parse"), "parser.Parse")
	}
	if vp := pkgs["vm"]; vp != nil {
		add(vp.Func("Run"), "vm.Run")
		if t := vp.Type("VM"); t != nil {
			add(prog.LookupMethod(typesPointer(t), vp.Pkg, "Run"), "(*vm.VM).Run")
		}
	}
	sort.Strings(names)
	u := map[*ssa.Function]string{}
	guarded := map[*ssa.Function]bool{}
	type item struct {
		f   *ssa.Function
		via string
	}
	var work []item
	var push func(f *ssa.Function, via string)
	push = func(f *ssa.Function, via string) {
		if f == nil || f.Blocks == nil || f.Package() == nil {
			return
		}
		if rel, ok := p.RelOf(f.Package().Pkg); !ok || !core.IsLib(rel) {
			return
		}
		if _, seen := u[f]; seen {
			return
		}
		if isGuard(f) {
			// the frame itself is entered; its body is guarded, its handler is not
			guarded[f] = true
			if g := guardDecl[f.Syntax().(*ast.FuncDecl).Pos()]; g != nil {
				info := p.Pkg(g.rel).TypesInfo
				for _, st := range g.prefix {
					ast.Inspect(st, func(n ast.Node) bool {
						if c, ok := n.(*ast.CallExpr); ok {
							if fn := eng.CalleeOf(info, c); fn != nil {
								push(prog.FuncValue(fn), via+" → before the recover of "+f.Name())
							}
						}
						return true
					})
				}
			}
			for _, an := range f.AnonFuncs {
				if fl, ok := an.Syntax().(*ast.FuncLit); ok {
					if g := guardDecl[f.Syntax().(*ast.FuncDecl).Pos()]; g != nil && g.handler != nil && g.handler == fl {
						push(an, via+" → handler of "+f.Name())
					}
				}
			}
			if g := guardDecl[f.Syntax().(*ast.FuncDecl).Pos()]; g != nil && g.hfn != nil {
				push(prog.FuncValue(g.hfn), via+" → handler of "+f.Name())
			}
			return
		}
		u[f] = via
		work = append(work, item{f, via})
	}
	for i, r := range roots {
		_ = i
		push(r, "entry")
	}
	for len(work) > 0 {
		it := work[len(work)-1]
		work = work[:len(work)-1]
		for _, an := range it.f.AnonFuncs {
			push(an, it.via)
		}
		if n := cg.Nodes[it.f]; n != nil {
			for _, ed := range n.Out {
				push(ed.Callee.Func, it.f.Name())
			}
		}
	}
	return u, names, guarded
}

func runC04(p *core.Program, r *core.Report) {
	r.Explanation = "Decides panic CONTAINMENT for the kinds of panic whose presence is visible in the code, not the absence of all panics: (R4.1) every guard frame — a function that defers a recover — defers it as its first statement and records an error on the recovered path; (R4.2) the three dispatchers over the node kinds (walker, type checker, compiler) have a clause for every kind, so their `default: panic` is unreachable for trees of the module's kinds, including trees rewritten by visitors; (R4.3) in the unguarded region U — library functions reachable from Parse, Compile, Eval, Run, vm.Run, (*VM).Run and from the closures of the option constructors without entering a guard frame, plus the guard frames' own handlers — there is no explicit panic other than such a default, no single-value type assertion that is not dominated by a successful test of the same assertion, and (K3/K5) no operation on a reflect.Type that panics on the model — a method call on the nil type, an In/Out index outside the parameters/results, a kind-specific method on another kind, a nil type handed to reflect.FuncOf/SliceOf — for any binding of the function's type origins (results of the checker's recursion, static types of nodes, Type fields of table entries) to a universe of model types, along any path whose conditions are consistent with the binding; (R4.4) every return of an API function yields (zero, error) or (value, nil)."
	r.NotDecided = []string{"termination (never hang)", "value-dependent run-time panics in the unguarded region other than reflect.Type preconditions: index and slice bounds of Go slices, nil dereference of other pointers, stack exhaustion on deep nesting; reflect.Type operations inside loops of helpers (the evaluator gives up on loops)", "panics raised by user visitors"}
	nk, msg := eng.FindNodeKinds(p)
	if nk == nil {
		r.Unk("R4.2", "node kinds", "", msg)
		return
	}
	// R4.2
	exhaustive := map[*ast.CaseClause]bool{} // default clauses of exhaustive dispatchers
	nd := 0
	for _, rel := range []string{"ast", "checker", "compiler"} {
		ds := eng.FindDispatchers(p, nk, rel)
		for _, d := range ds {
			// only dispatchers that switch over (nearly) all kinds: the three tree walkers
			if len(d.Clauses) < len(nk.Kinds)/2 {
				continue
			}
			nd++
			fname := core.FuncName(rel, d.Func)
			all := true
			for _, k := range nk.Kinds {
				_, ok := d.Clauses[k.Name]
				if !ok {
					all = false
				}
				r.Check(ok, "R4.2", fname+"/case *"+k.Name, p.Pos(d.Switch.Pos()), "clause exists", "the dispatcher has no clause for node kind "+k.Name+": a tree containing one (the parser, the optimizer or a user's Patch visitor can produce it) reaches `default: panic` outside any recover")
			}
			if all {
				exhaustive[d.Default] = true
			}
		}
	}
	r.Analysed["dispatchers"] = nd
	if nd < 3 {
		r.Unk("R4.2", "dispatchers", "", fmt.Sprintf("expected the walker, the checker and the compiler dispatchers, found %d", nd))
	}

	// R4.1
	guards := findGuardFrames(p)
	for _, g := range guards {
		key := core.FuncName(g.rel, g.fd) + "/guard frame"
		r.Check(g.why == "", "R4.1", key, p.Pos(g.fd.Pos()), "defers recover first and records into "+g.records, g.why)
	}
	r.Analysed["guard_frames"] = len(guards)

	// R4.3
	u, roots, guarded := unguarded(p, guards)
	r.Analysed["entry_points"] = roots
	r.Analysed["unguarded_functions"] = len(u)
	var gl []string
	for f := range guarded {
		gl = append(gl, f.Name())
	}
	sort.Strings(gl)
	r.Analysed["guard_frames_entered"] = gl
	var fs []*ssa.Function
	for f := range u {
		fs = append(fs, f)
	}
	ef := eng.BuildEffects(p)
	sort.Slice(fs, func(i, j int) bool { return ef.FuncKey(fs[i]) < ef.FuncKey(fs[j]) })
	nK1, nK2 := 0, 0
	type region struct {
		syn  ast.Node
		body *ast.BlockStmt
		scan []ast.Stmt // nil: the whole body
		rel  string
		key  string
		via  string
	}
	var regions []region
	for _, f := range fs {
		syn := f.Syntax()
		var body *ast.BlockStmt
		switch s := syn.(type) {
		case *ast.FuncDecl:
			body = s.Body
		case *ast.FuncLit:
			body = s.Body
		}
		if body == nil {
			continue
		}
		regions = append(regions, region{syn, body, nil, ef.Rel(f), ef.FuncKey(f), u[f]})
	}
	for _, g := range guards {
		if g.why == "" && len(g.prefix) > 0 {
			regions = append(regions, region{g.fd, g.fd.Body, g.prefix, g.rel, core.FuncName(g.rel, g.fd) + "/before the recover", "prefix of a guard frame"})
		}
	}
	for _, rg := range regions {
		syn, body := rg.syn, rg.body
		info := p.Pkg(rg.rel).TypesInfo
		key := rg.key
		via := rg.via
		k1, k2 := 0, 0
		var path []ast.Node
		var scanRoot ast.Node = body
		if rg.scan != nil {
			scanRoot = &ast.BlockStmt{List: rg.scan}
		}
		ast.Inspect(scanRoot, func(n ast.Node) bool {
			if n == nil {
				path = path[:len(path)-1]
				return true
			}
			path = append(path, n)
			if fl, ok := n.(*ast.FuncLit); ok && ast.Node(fl) != syn {
				// nested closures are functions of their own (in U iff reachable)
				path = path[:len(path)-1]
				return false
			}
			switch x := n.(type) {
			case *ast.CallExpr:
				if !isBuiltinCall(info, x, "panic") {
					return true
				}
				k1++
				nK1++
				ckey := fmt.Sprintf("%s/panic#%d", key, k1)
				ok := false
				for _, anc := range path {
					if cc, isCC := anc.(*ast.CaseClause); isCC && exhaustive[cc] {
						ok = true
					}
				}
				r.Check(ok, "R4.3", ckey, p.Pos(x.Pos()), "default clause of a dispatcher that has a clause for every node kind: unreachable for trees of the module's kinds",
					"explicit panic reachable from an API entry point ("+via+") outside every recover: the caller's goroutine dies instead of receiving an error")
			case *ast.TypeAssertExpr:
				if x.Type == nil {
					return true
				}
				// comma-ok forms are not sites
				if len(path) >= 2 {
					switch par := path[len(path)-2].(type) {
					case *ast.AssignStmt:
						if len(par.Lhs) == 2 && len(par.Rhs) == 1 && par.Rhs[0] == ast.Expr(x) {
							return true
						}
					case *ast.ValueSpec:
						if len(par.Names) == 2 && len(par.Values) == 1 && par.Values[0] == ast.Expr(x) {
							return true
						}
					}
				}
				// assertion to an interface the static type already implements cannot fail for non-nil… skip: still a site
				k2++
				nK2++
				ckey := fmt.Sprintf("%s/assert .(%s)#%d", key, eng.ExprStr(x.Type), k2)
				ok, why := assertDischarged(info, body, path, x)
				r.Check(ok, "R4.3", ckey, p.Pos(x.Pos()), why, "single-value type assertion `"+eng.ExprStr(x)+"` in the unguarded region ("+via+") is not dominated by a successful test of the same assertion: "+why+" — a value of another type panics outside every recover")
			}
			return true
		})
	}
	// K3/K5: reflect.Type preconditions, by abstract interpretation over model types
	regionNames := map[string]bool{}
	for _, f := range fs {
		if fd, ok := f.Syntax().(*ast.FuncDecl); ok {
			regionNames[core.FuncName(ef.Rel(f), fd)] = true
		}
	}
	reflectPreconditionRule(p, r, regionNames)
	staleLengthRule(p, r, regionNames)
	makeLengthRule(p, r, regionNames)
	subtractiveIndexRule(p, r, regionNames)
	lexerProgressRule(p, r)
	r.Analysed["K1_explicit_panics_in_U"] = nK1
	r.Analysed["K2_hard_assertions_in_U"] = nK2

	// R4.4 result discipline of the API functions
	for _, api := range [][3]string{{"", "", "Compile"}, {"", "", "Eval"}, {"", "", "Run"}, {"parser", "", "Parse"}, {"vm", "", "Run"}, {"vm", "VM", "Run"}} {
		fd := p.FuncDecl(api[0], api[1], api[2])
		if fd == nil || fd.Body == nil {
			r.Unk("R4.4", "api "+api[0]+"."+api[2], "", "function not found")
			continue
		}
		info := p.Pkg(api[0]).TypesInfo
		n := 0
		ast.Inspect(fd.Body, func(nd ast.Node) bool {
			if _, ok := nd.(*ast.FuncLit); ok {
				return false
			}
			rs, ok := nd.(*ast.ReturnStmt)
			if !ok {
				return true
			}
			n++
			key := fmt.Sprintf("%s/return#%d", core.FuncName(api[0], fd), n)
			switch len(rs.Results) {
			case 1:
				// single error result, or forwarding a two-result call
				if c, ok := rs.Results[0].(*ast.CallExpr); ok {
					r.OK("R4.4", key, p.Pos(rs.Pos()), "forwards the results of "+eng.ExprStr(c.Fun))
				} else {
					r.OK("R4.4", key, p.Pos(rs.Pos()), "single result")
				}
			case 2:
				v, e := eng.Unparen(rs.Results[0]), eng.Unparen(rs.Results[1])
				switch {
				case isNilIdent(info, e):
					r.OK("R4.4", key, p.Pos(rs.Pos()), "(value, nil)")
				case isNilIdent(info, v) || isZeroLit(info, v):
					r.OK("R4.4", key, p.Pos(rs.Pos()), "(zero, error)")
				default:
					// (t, err) is admissible when err is known nil here or t is known zero: not decided syntactically
					r.Bad("R4.4", key, p.Pos(rs.Pos()), "returns `"+eng.ExprStr(rs.Results[0])+", "+eng.ExprStr(rs.Results[1])+"`: neither the value is a literal zero nor the error a literal nil — a caller can receive a value together with an error")
				}
			default:
				r.OK("R4.4", key, p.Pos(rs.Pos()), "bare or other return")
			}
			return true
		})
	}
	recorderRules(p, r, "R4.5", "")
	r.Floor("R4.5", 4)
	r.Floor("R4.1", 3)
	r.Floor("R4.2", 3*20)
	r.Floor("R4.3", 3)
	r.Floor("R4.4", 12)
}

func isZeroLit(info *types.Info, e ast.Expr) bool {
	tv, ok := info.Types[e]
	if !ok || tv.Value == nil {
		return false
	}
	s := tv.Value.ExactString()
	return s == "0" || s == "false" || s == `""`
}

// assertDischarged: the hard assertion x.(T) is dominated by a successful test of the same
// assertion: (a) an enclosing `if _, ok := x.(T); ok {` / `if v, ok := …; ok`; (b) an earlier
// `if _, ok := x.(T); !ok { leave }` in an enclosing block; (c) the all-elements pre-check: x is
// the value variable of a range loop over S, and an earlier range loop over S in the same
// function leaves when an element fails the same assertion.
func assertDischarged(info *types.Info, body *ast.BlockStmt, path []ast.Node, ta *ast.TypeAssertExpr) (bool, string) {
	xs := eng.ExprStr(ta.X)
	ts := eng.ExprStr(ta.Type)
	isTest := func(st ast.Stmt, on string) (okName types.Object, found bool) {
		as, ok := st.(*ast.AssignStmt)
		if !ok || len(as.Lhs) != 2 || len(as.Rhs) != 1 {
			return nil, false
		}
		t, ok := eng.Unparen(as.Rhs[0]).(*ast.TypeAssertExpr)
		if !ok || t.Type == nil || eng.ExprStr(t.X) != on || eng.ExprStr(t.Type) != ts {
			return nil, false
		}
		if id, ok := as.Lhs[1].(*ast.Ident); ok {
			return objOf(info, id), true
		}
		return nil, false
	}
	leaves := func(b *ast.BlockStmt) bool {
		if len(b.List) == 0 {
			return false
		}
		switch s := b.List[len(b.List)-1].(type) {
		case *ast.ReturnStmt:
			return true
		case *ast.BranchStmt:
			return s.Tok == token.GOTO || s.Tok == token.CONTINUE || s.Tok == token.BREAK
		case *ast.ExprStmt:
			if c, ok := s.X.(*ast.CallExpr); ok {
				if id, ok := c.Fun.(*ast.Ident); ok && id.Name == "panic" {
					return true
				}
			}
		}
		return false
	}
	condIs := func(c ast.Expr, okObj types.Object, neg bool) bool {
		c = eng.Unparen(c)
		if neg {
			u, ok := c.(*ast.UnaryExpr)
			if !ok || u.Op != token.NOT {
				return false
			}
			c = eng.Unparen(u.X)
		}
		id, ok := c.(*ast.Ident)
		return ok && info.Uses[id] == okObj
	}
	// (a) enclosing if with the test as Init and cond ok, site in the body
	for i, anc := range path {
		is, ok := anc.(*ast.IfStmt)
		if !ok || is.Init == nil || i+1 >= len(path) {
			continue
		}
		if okObj, found := isTest(is.Init, xs); found && condIs(is.Cond, okObj, false) && path[i+1] == ast.Node(is.Body) {
			return true, "inside `if _, ok := " + xs + ".(" + ts + "); ok`"
		}
	}
	// (b) earlier leaving test in an enclosing block
	for i, anc := range path {
		var list []ast.Stmt
		switch b := anc.(type) {
		case *ast.BlockStmt:
			list = b.List
		case *ast.CaseClause:
			list = b.Body
		default:
			continue
		}
		if i+1 >= len(path) {
			continue
		}
		for _, st := range list {
			if st.End() > ta.Pos() {
				break
			}
			if is, ok := st.(*ast.IfStmt); ok && is.Init != nil && is.Else == nil {
				if okObj, found := isTest(is.Init, xs); found && condIs(is.Cond, okObj, true) && leaves(is.Body) {
					return true, "an earlier `if _, ok := " + xs + ".(" + ts + "); !ok { leave }` dominates it"
				}
			}
		}
	}
	// (c) all-elements pre-check
	var myLoop *ast.RangeStmt
	for _, anc := range path {
		if rs, ok := anc.(*ast.RangeStmt); ok {
			if id, ok := rs.Value.(*ast.Ident); ok && id.Name == xs {
				myLoop = rs
			}
		}
	}
	if myLoop != nil {
		over := eng.ExprStr(myLoop.X)
		found := false
		ast.Inspect(body, func(n ast.Node) bool {
			rs, ok := n.(*ast.RangeStmt)
			if !ok || rs == myLoop || rs.End() > myLoop.Pos() || eng.ExprStr(rs.X) != over {
				return true
			}
			vid, ok := rs.Value.(*ast.Ident)
			if !ok {
				return true
			}
			for _, st := range rs.Body.List {
				if is, ok := st.(*ast.IfStmt); ok && is.Init != nil && is.Else == nil {
					if okObj, f := isTest(is.Init, vid.Name); f && condIs(is.Cond, okObj, true) && leaves(is.Body) {
						// the pre-check loop's exit must leave the region containing the site:
						// goto / return do; break or continue would fall through to the site
						if br, ok := is.Body.List[len(is.Body.List)-1].(*ast.BranchStmt); ok && br.Tok != token.GOTO {
							continue
						}
						found = true
					}
				}
			}
			return true
		})
		if found {
			return true, "an earlier loop over " + over + " leaves when any element fails the same assertion"
		}
	}
	// type switch clause on the same expression
	for i, anc := range path {
		cc, ok := anc.(*ast.CaseClause)
		if !ok || i == 0 {
			continue
		}
		for _, te := range cc.List {
			if eng.ExprStr(te) == ts {
				// the enclosing switch must be a type switch on xs
				for _, a2 := range path[:i] {
					if tsw, ok := a2.(*ast.TypeSwitchStmt); ok && strings.Contains(eng.ExprStr(tsw.Assign), xs+".(type)") {
						return true, "inside the case " + ts + " of a type switch on " + xs
					}
				}
			}
		}
	}
	return false, "no dominating comma-ok test, type-switch clause or all-elements pre-check of `" + xs + ".(" + ts + ")` found"
}

func c04Controls() []core.Mutant {
	return []core.Mutant{
		{Name: "refactor: recover handler with a guard clause", File: "vm/vm.go", Old: "\t\tif r := recover(); r != nil {\n\t\t\tf := &file.Error{\n\t\t\t\tLocation: program.Locations[vm.pp],\n\t\t\t\tMessage:  fmt.Sprintf(\"%v\", r),\n\t\t\t}\n\t\t\terr = f.Bind(program.Source)\n\t\t}\n", New: "\t\tr := recover()\n\t\tif r == nil {\n\t\t\treturn\n\t\t}\n\t\tf := &file.Error{\n\t\t\tLocation: program.Locations[vm.pp],\n\t\t\tMessage:  fmt.Sprintf(\"%v\", r),\n\t\t}\n\t\terr = f.Bind(program.Source)\n", Silent: true},
		{Name: "Parse reports success without looking at the recorded error", File: "parser/parser.go", Old: "\tif p.err != nil {\n\t\treturn nil, p.err.Bind(source)\n\t}\n", New: "", Rule: "R4.5", Construct: "parser.Parse"},
		{Name: "Optimize ignores the error a fold recorded", File: "optimizer/optimizer.go", Old: "\t\tif fold.err != nil {\n\t\t\treturn fold.err\n\t\t}\n", New: "", Rule: "R4.5", Construct: "optimizer.Optimize"},
		{Name: "length of the literal taken before the newline normalisation", File: "parser/lexer/utils.go", Old: "\tvalue = newlineNormalizer.Replace(value)\n\tn := len(value)\n", New: "\tn := len(value)\n\tvalue = newlineNormalizer.Replace(value)\n", Rule: "R4.3", Construct: "unescape/no index by a stale length"},
		{Name: "nil test before the result-kind comparison removed", File: "checker/checker.go", Old: "if t == nil || t.Kind() != v.expect {", New: "if t.Kind() != v.expect {", Rule: "R4.3", Construct: "checker.Check/reflect.Type operations"},
		{Name: "closure body without static type handed to reflect.FuncOf", File: "checker/checker.go", Old: "\tif t == nil {\n\t\tt = interfaceType // a closure may yield nil\n\t}\n", New: "", Rule: "R4.3", Construct: "ClosureNode/reflect.Type operations"},
		{Name: "result count no longer tested before Out(0)", File: "checker/checker.go", Old: "\t\t\t\tfn.NumOut() == 1 &&\n", New: "", Rule: "R4.3", Construct: "FunctionNode/reflect.Type operations"},
		{Name: "ambiguous operator function dereferenced", File: "conf/config.go", Old: "!ok || fnType.Type == nil || fnType.Type.Kind()", New: "!ok || fnType.Type.Kind()", Rule: "R4.3", Construct: "conf.(Config).Check/reflect.Type operations"},
		{Name: "REFACTORING: nil test as an early return", File: "checker/checker.go", Silent: true, Old: "\t\tdefault:\n\t\t\tif t == nil || t.Kind() != v.expect {\n\t\t\t\treturn nil, fmt.Errorf(\"expected %v, but got %v\", v.expect, t)\n\t\t\t}", New: "\t\tdefault:\n\t\t\tif t == nil {\n\t\t\t\treturn nil, fmt.Errorf(\"expected %v, but got %v\", v.expect, t)\n\t\t\t}\n\t\t\tif t.Kind() != v.expect {\n\t\t\t\treturn nil, fmt.Errorf(\"expected %v, but got %v\", v.expect, t)\n\t\t\t}"},
		{Name: "checker loses the ConstantNode clause", File: "checker/checker.go", Old: "\tcase *ast.ConstantNode:\n\t\tt = v.ConstantNode(n)\n", New: "", Rule: "R4.2", Construct: "ConstantNode"},
		{Name: "compile-time range guarded by the bounds instead of the size", File: "optimizer/const_range.go", Old: "\t\t\t\t\tif size < 1 {", New: "\t\t\t\t\tif max.Value < min.Value {", Rule: "R4.3", Construct: "make#"},
		{Name: "compiler recover removed", File: "compiler/compiler.go", Old: "\tdefer func() {\n\t\tif r := recover(); r != nil {\n\t\t\terr = fmt.Errorf(\"%v\", r)\n\t\t}\n\t}()\n", New: "", Rule: "R4.3", Construct: "panic"},
		{Name: "VM handler swallows the panic", File: "vm/vm.go", Old: "\t\t\terr = f.Bind(program.Source)\n", New: "\t\t\t_ = f.Bind(program.Source)\n", Rule: "R4.1", Construct: "vm.(VM).Run"},
		{Name: "explicit panic in the parser", File: "parser/parser.go", Old: "func (p *parser) error(format string, args ...interface{}) {\n", New: "func (p *parser) error(format string, args ...interface{}) {\n\tif len(args) > 8 {\n\t\tpanic(\"too many arguments\")\n\t}\n", Rule: "R4.3", Construct: "parser"},
		{Name: "hard assertion in an optimizer pass", File: "optimizer/in_range.go", Old: "func (*inRange) Exit(node *Node) {\n", New: "func (*inRange) Exit(node *Node) {\n\tif (*node).(*BinaryNode).Operator == \"never\" {\n\t\treturn\n\t}\n", Rule: "R4.3", Construct: "assert"},
		{Name: "Compile returns the program with the error", File: "expr.go", Old: "\tprogram, err := compiler.Compile(tree, config)\n\tif err != nil {\n\t\treturn nil, err\n\t}\n", New: "\tprogram, err := compiler.Compile(tree, config)\n\tif err != nil {\n\t\treturn program, err\n\t}\n", Rule: "R4.4", Construct: "expr.Compile"},
		{Name: "dynamic call before the recover is deferred", File: "compiler/compiler.go", Old: "func Compile(tree *parser.Tree, config *conf.Config) (program *Program, err error) {\n\tdefer func() {", New: "func Compile(tree *parser.Tree, config *conf.Config) (program *Program, err error) {\n\t_ = tree.Node.Location()\n\tdefer func() {", Rule: "R4.1", Construct: "compiler.Compile"},
		{Name: "hard assertion before the recover is deferred", File: "compiler/compiler.go", Old: "func Compile(tree *parser.Tree, config *conf.Config) (program *Program, err error) {\n\tdefer func() {", New: "func Compile(tree *parser.Tree, config *conf.Config) (program *Program, err error) {\n\t_ = tree.Node.(*ast.NilNode)\n\tdefer func() {", Rule: "R4.3", Construct: "before the recover"},
		{Name: "refactor: ConstExpr defers first", File: "conf/config.go", Old: "\tif c.Env == nil {\n\t\tc.Error(fmt.Errorf(\"no environment for const expression: %v\", name))\n\t\treturn\n\t}\n\tdefer func() {\n\t\tif r := recover(); r != nil {\n\t\t\t// FetchFn panics when the environment has no such member.\n\t\t\tc.Error(fmt.Errorf(\"const expression %q: %v\", name, r))\n\t\t}\n\t}()\n", New: "\tdefer func() {\n\t\tif r := recover(); r != nil {\n\t\t\tc.Error(fmt.Errorf(\"const expression %q: %v\", name, r))\n\t\t}\n\t}()\n\tif c.Env == nil {\n\t\tc.Error(fmt.Errorf(\"no environment for const expression: %v\", name))\n\t\treturn\n\t}\n", Silent: true},
		{Name: "line-offset lookup without the lower bound", File: "file/source.go", Old: "} else if line > 1 && line <= len(s.lineOffsets) {", New: "} else if line <= len(s.lineOffsets) {", Rule: "R4.3", Construct: "is not negative"},
		{Name: "identifier state absorbs by another predicate than the dispatcher", File: "parser/lexer/state.go", Old: "\t\tcase IsAlphaNumeric(r):\n\t\t\t// absorb", New: "\t\tcase IsAlphabetic(r) || ('0' <= r && r <= '9'):\n\t\t\t// absorb", Rule: "R4.3", Construct: "the un-read rune is consumed"},
	}
}
