package props

import (
	"fmt"
	"go/ast"
	"go/token"
	"go/types"
	"sort"
	"strings"

	"verif/exprlint/core"
	"verif/exprlint/eng"
)

// C01 — conformance of compiled evaluation with the language definition is a statement about
// run-time values and is not decided. Decided are the clauses of the statement that are visible
// in the code-generation templates and the VM handlers: which children are evaluated, in which
// order and under which condition; which primitive each operator reaches and with which operand
// order; that calls happen once with arguments in order.

func init() {
	register(&Prop{ID: "C01", Run: runC01, Controls: c01Controls})
}

// templateOps: the operator strings a template is specialised for (case labels of a switch
// over node.Operator / node.Name).
func templateLabels(p *core.Program, t *eng.Template, field string) []string {
	var ops []string
	info := p.Pkg("compiler").TypesInfo
	for _, c := range t.Conds {
		if c.Case != nil && c.Case.Clause != nil && strings.HasSuffix(eng.ExprStr(c.Case.Tag), "."+field) {
			for _, e := range c.Case.Clause.List {
				if v, ok := constStringOf(info, e); ok {
					ops = append(ops, v)
				}
			}
		}
	}
	// a clause shared by several labels may distinguish them again by an equality test on the
	// same field (`case "count", "one": … if node.Name == "one" {…}`): keep the labels the
	// path's tests are consistent with
	for _, c := range t.Conds {
		if c.Case != nil || c.Expr == nil {
			continue
		}
		b, ok := eng.Unparen(c.Expr).(*ast.BinaryExpr)
		if !ok || (b.Op != token.EQL && b.Op != token.NEQ) {
			continue
		}
		var lit string
		var isField bool
		for _, side := range [][2]ast.Expr{{b.X, b.Y}, {b.Y, b.X}} {
			if v, ok := constStringOf(info, side[1]); ok && strings.HasSuffix(eng.ExprStr(side[0]), "."+field) {
				lit, isField = v, true
			}
		}
		if !isField {
			continue
		}
		var kept []string
		for _, o := range ops {
			if (o == lit) == ((b.Op == token.EQL) == c.Taken) {
				kept = append(kept, o)
			}
		}
		ops = kept
	}
	return ops
}

// condFalse: the template was extracted under `expr` evaluating to false.
func condHolds(t *eng.Template, text string, taken bool) bool {
	for _, c := range t.Conds {
		if c.Expr != nil && eng.ExprStr(c.Expr) == text && c.Taken == taken && c.Case == nil {
			return true
		}
	}
	return false
}

// parserBuiltinArity reads the parser's builtins table (name -> arity).
func parserBuiltinArity(p *core.Program) map[string]int64 {
	out := map[string]int64{}
	pk := p.Pkg("parser")
	info := pk.TypesInfo
	for _, f := range pk.Syntax {
		for _, d := range f.Decls {
			gd, ok := d.(*ast.GenDecl)
			if !ok || gd.Tok != token.VAR {
				continue
			}
			for _, sp := range gd.Specs {
				vs := sp.(*ast.ValueSpec)
				if len(vs.Values) != 1 {
					continue
				}
				cl, ok := eng.Unparen(vs.Values[0]).(*ast.CompositeLit)
				if !ok {
					continue
				}
				mt, ok := info.TypeOf(cl).Underlying().(*types.Map)
				if !ok {
					continue
				}
				if kb, ok := mt.Key().Underlying().(*types.Basic); !ok || kb.Kind() != types.String {
					continue
				}
				// the entry is the arity itself (map[string]int) or a one-field record of it
				plain := false
				if b, ok := mt.Elem().Underlying().(*types.Basic); ok && b.Info()&types.IsInteger != 0 {
					plain = true
				} else if st, ok := mt.Elem().Underlying().(*types.Struct); !ok || st.NumFields() != 1 {
					continue
				}
				for _, el := range cl.Elts {
					kv, ok := el.(*ast.KeyValueExpr)
					if !ok {
						continue
					}
					name, ok := constStringOf(info, kv.Key)
					if !ok {
						continue
					}
					e := kv.Value
					if !plain {
						vl, ok2 := kv.Value.(*ast.CompositeLit)
						if !ok2 || len(vl.Elts) != 1 {
							continue
						}
						e = vl.Elts[0]
						if kv2, ok := e.(*ast.KeyValueExpr); ok {
							e = kv2.Value
						}
					}
					if tv, ok := info.Types[e]; ok && tv.Value != nil {
						if n, ok := constInt(tv); ok {
							out[name] = n
						}
					}
				}
			}
		}
	}
	return out
}

func runC01(p *core.Program, r *core.Report) {
	r.Explanation = "Decides the clauses of the statement that are visible in the code-generation templates (one per node kind and path, extracted from the compiler's scheme methods) and in the VM's handlers, for programs of any size by induction over the tree: (R1.1) every template evaluates every child slot of its node kind exactly once, in source (= declaration) order; list slots by one loop over the slot or, for the fixed-arity builtins, by the indices 0 … arity-1 of the parser's table; an optional slot may be skipped only under its own nil test; (R1.2) abstract execution of the `and`, `or` and conditional templates against the VM's jump signatures shows for each truth value of the deciding operand exactly the operands the definition requires to be evaluated and the operand whose value is the result; (R1.3) each binary/unary operator's template ends in the instruction(s) whose handler applies the Go primitive the operator denotes (comparison and arithmetic tokens through the generated helpers, strings.Contains/HasPrefix/HasSuffix, math.Pow, unary minus and not; `!=` and `not in` as the positive instruction followed by the negation), every handler applies ONE primitive on all its non-panicking paths, and the operand compiled first reaches the primitive's first parameter (the handler pops in reverse); (R1.4) the four call handlers and the array/map builders fill position i with the i-th pushed value (descending loop over the popped count, index = loop variable) and each call handler invokes the callee exactly once on every non-panicking path that resolved it; (R1.5) no rewrite of the optimizer or the operator patcher uses an operand twice; (R1.6) no run-time helper compares two dynamic values with Go's == (which panics for slices and maps instead of answering)."
	r.NotDecided = []string{"the values computed by fetch, slice, in, length, makeRange and reflection calls; nil-safe navigation; error conditions (value-level semantics)", "which template paths are feasible at run time", "loop builtins' result semantics (C18) and numeric promotion (C14)"}
	e := loadEngines(p, r, "R1.1")
	if e == nil {
		return
	}
	c01Children(p, r, e)
	c01ShortCircuit(p, r, e)
	c01Chain(p, r, e)
	c01Calls(p, r, e)
	c01OperandScope(p, r, e)
	loopAliasRule(p, r, "R1.4", "vm")
	linearityRules(p, r, "R1.5")
	c01DynamicCompare(p, r)
	r.Floor("R1.1", 70)
	r.Floor("R1.2", 5)
	r.Floor("R1.3", 40)
	r.Floor("R1.4", 8)
	r.Floor("R1.5", 15)
	r.Floor("R1.6", 1)
}

func tplPos(p *core.Program, e *engines, t *eng.Template) string {
	if t.Method != nil {
		return p.Pos(t.Method.Pos())
	}
	if e.em.Dispatcher != nil && e.em.Dispatcher.Clauses[t.Kind] != nil {
		return p.Pos(e.em.Dispatcher.Clauses[t.Kind].Pos())
	}
	return ""
}

// ---- R1.1 -----------------------------------------------------------------------------------

func c01Children(p *core.Program, r *core.Report, e *engines) {
	arity := parserBuiltinArity(p)
	r.Analysed["builtin_arities"] = fmt.Sprint(arity)
	for _, t := range e.em.AllTemplates() {
		if t.Term == "panic" {
			continue
		}
		k := e.nk.ByName[t.Kind]
		if k == nil {
			continue
		}
		key := t.Key() + "/children once, in source order"
		pos := tplPos(p, e, t)
		// observed
		var got []string
		for _, ev := range t.Events {
			switch ev.Kind {
			case "child":
				if ev.Index != "" {
					got = append(got, ev.Slot+"["+ev.Index+"]")
				} else {
					got = append(got, ev.Slot)
				}
			case "childlist":
				got = append(got, ev.Slot+"…")
			}
		}
		// expected
		var want []string
		var notes []string
		for _, sl := range k.Slots {
			if sl.List {
				if t.Kind == "BuiltinNode" {
					names := templateLabels(p, t, "Name")
					n := int64(-1)
					for _, nm := range names {
						a, ok := arity[nm]
						if !ok {
							n = -2
						} else if n == -1 || n == a {
							n = a
						} else {
							n = -2
						}
					}
					if n < 0 {
						want = append(want, sl.Name+"[arity unknown]")
						continue
					}
					for i := int64(0); i < n; i++ {
						want = append(want, fmt.Sprintf("%s[%d]", sl.Name, i))
					}
					continue
				}
				want = append(want, sl.Name+"…")
				continue
			}
			// optional slot skipped under its own nil test
			if condHolds(t, "node."+sl.Name+" != nil", false) || condHolds(t, "node."+sl.Name+" == nil", true) {
				notes = append(notes, sl.Name+" is nil on this path")
				continue
			}
			// frozen exception, with its reason
			if t.Kind == "MatchesNode" && sl.Name == "Right" && condHolds(t, "node.Regexp != nil", true) {
				notes = append(notes, "Right is the string literal the parser compiled node.Regexp from: a constant, evaluated at parse time")
				continue
			}
			want = append(want, sl.Name)
		}
		same := len(got) == len(want)
		if same {
			for i := range got {
				if got[i] != want[i] {
					same = false
				}
			}
		}
		detail := "evaluates " + strings.Join(got, ", ")
		if len(notes) > 0 {
			detail += " (" + strings.Join(notes, "; ") + ")"
		}
		if same {
			r.OK("R1.1", key, pos, detail)
			continue
		}
		// classify: same multiset, different order → order violation
		gs, ws := append([]string{}, got...), append([]string{}, want...)
		sort.Strings(gs)
		sort.Strings(ws)
		if strings.Join(gs, ",") == strings.Join(ws, ",") {
			r.Bad("R1.1", t.Kind+"/children in source order", pos, fmt.Sprintf("template [%s] evaluates its children in the order %s; the source order is %s: operand side effects (calls of environment functions) happen right-to-left", t.CondText(), strings.Join(got, ", "), strings.Join(want, ", ")))
			continue
		}
		r.Bad("R1.1", key, pos, fmt.Sprintf("template evaluates %s; the node kind's children in source order are %s: a child is evaluated twice, not at all, or one that should be", strings.Join(got, ", "), strings.Join(want, ", ")))
	}
}

// ---- R1.2 -----------------------------------------------------------------------------------

type symRun struct {
	assume    map[string]bool
	evaluated []string
	stack     []string
	problem   string
}

// execTemplate runs a loop-free template symbolically: children push their slot name,
// conditional forward jumps on a child's value fork on its truth.
func execTemplate(e *engines, t *eng.Template) []symRun {
	labelAt := map[int]int{} // instr index -> index of its label event
	for i, ev := range t.Events {
		if ev.Kind == "label" {
			labelAt[ev.PatchOf] = i
		}
	}
	var out []symRun
	var run func(pc int, st symRun, fuel int)
	run = func(pc int, st symRun, fuel int) {
		for pc < len(t.Events) {
			if fuel--; fuel < 0 {
				st.problem = "no progress (loop)"
				out = append(out, st)
				return
			}
			ev := t.Events[pc]
			switch ev.Kind {
			case "child":
				name := ev.Slot
				if ev.Index != "" {
					name += "[" + ev.Index + "]"
				}
				st.evaluated = append(append([]string{}, st.evaluated...), name)
				st.stack = append(append([]string{}, st.stack...), name)
			case "childlist":
				st.problem = "list child in a short-circuit template"
			case "instr":
				sig := e.vm.Signature(ev.Op)
				if sig == nil {
					st.problem = "no signature for " + ev.Op
					out = append(out, st)
					return
				}
				switch {
				case sig.Jump == "fwd":
					tgt, ok := labelAt[pc]
					if !ok {
						st.problem = "forward jump without label"
						out = append(out, st)
						return
					}
					pc = tgt
					continue
				case strings.HasPrefix(sig.Jump, "fwd-if-"):
					tgt, ok := labelAt[pc]
					if !ok || len(st.stack) == 0 {
						st.problem = "conditional jump without label or on an empty stack"
						out = append(out, st)
						return
					}
					top := st.stack[len(st.stack)-1]
					jumpOn := strings.HasSuffix(sig.Jump, "true")
					val, known := st.assume[top]
					if !known {
						for _, v := range []bool{true, false} {
							ns := st
							ns.assume = map[string]bool{}
							for k, x := range st.assume {
								ns.assume[k] = x
							}
							ns.assume[top] = v
							ns.stack = append([]string{}, st.stack...)
							if v == jumpOn {
								run(tgt, ns, fuel)
							} else {
								run(pc+1, ns, fuel)
							}
						}
						return
					}
					if val == jumpOn {
						pc = tgt
						continue
					}
				case sig.Jump != "":
					st.problem = "backward jump in a short-circuit template"
				default:
					if len(st.stack) < sig.Pop {
						st.problem = fmt.Sprintf("%s pops %d of %d", ev.Op, sig.Pop, len(st.stack))
						out = append(out, st)
						return
					}
					args := st.stack[len(st.stack)-sig.Pop:]
					st.stack = append([]string{}, st.stack[:len(st.stack)-sig.Pop]...)
					for i := 0; i < sig.Push; i++ {
						st.stack = append(st.stack, strings.TrimPrefix(ev.Op, "Op")+"("+strings.Join(args, ",")+")")
					}
				}
			}
			pc++
		}
		out = append(out, st)
	}
	run(0, symRun{assume: map[string]bool{}}, 400)
	return out
}

func c01ShortCircuit(p *core.Program, r *core.Report, e *engines) {
	type want struct {
		decider string
		onTrue  []string // evaluated, result last
		onFalse []string
	}
	check := func(t *eng.Template, name string, w want) {
		key := "compiler/" + t.Kind + "[" + name + "]/evaluates only the operand it needs"
		pos := tplPos(p, e, t)
		runs := execTemplate(e, t)
		seen := map[bool]bool{}
		for _, rn := range runs {
			if rn.problem != "" {
				r.Unk("R1.2", key, pos, "template "+t.String()+": "+rn.problem)
				return
			}
			v, ok := rn.assume[w.decider]
			if !ok || len(rn.assume) != 1 {
				r.Bad("R1.2", key, pos, fmt.Sprintf("template %s: the evaluation does not branch exactly on the value of %s (branches on %v)", t.String(), w.decider, rn.assume))
				return
			}
			seen[v] = true
			exp := w.onFalse
			if v {
				exp = w.onTrue
			}
			gotEval := strings.Join(rn.evaluated, ",")
			wantEval := strings.Join(exp, ",")
			res := ""
			if len(rn.stack) > 0 {
				res = rn.stack[len(rn.stack)-1]
			}
			if gotEval != wantEval || len(rn.stack) != 1 || res != exp[len(exp)-1] {
				r.Bad("R1.2", key, pos, fmt.Sprintf("template %s: when %s is %v it evaluates [%s] and leaves %v on the stack; the definition requires evaluating [%s] with the value of %s as the result", t.String(), w.decider, v, gotEval, rn.stack, wantEval, exp[len(exp)-1]))
				return
			}
		}
		if !seen[true] || !seen[false] {
			r.Bad("R1.2", key, pos, "template "+t.String()+": the evaluation does not depend on the value of "+w.decider+" (both operands are always evaluated, or one never)")
			return
		}
		r.OK("R1.2", key, pos, t.String())
	}
	n := 0
	for _, t := range e.em.AllTemplates() {
		if t.Term == "panic" {
			continue
		}
		switch t.Kind {
		case "BinaryNode":
			for _, op := range templateLabels(p, t, "Operator") {
				switch op {
				case "or", "||":
					n++
					check(t, op, want{"Left", []string{"Left"}, []string{"Left", "Right"}})
				case "and", "&&":
					n++
					check(t, op, want{"Left", []string{"Left", "Right"}, []string{"Left"}})
				}
			}
		case "ConditionalNode":
			n++
			check(t, "?:", want{"Cond", []string{"Cond", "Exp1"}, []string{"Cond", "Exp2"}})
		}
	}
	if n < 5 {
		r.Unk("R1.2", "short-circuit templates", "", fmt.Sprintf("expected templates for or, ||, and, && and the conditional, found %d", n))
	}
}

// ---- R1.3 -----------------------------------------------------------------------------------

// handlerPrimitives analyses a handler of the shape "pop operands, push the application of a
// primitive": for every pushed value the primitive applied and, per operand of the primitive (in
// the primitive's own parameter order), which popped value it is built from (1 = popped first =
// top of stack = compiled last; 0 = not a popped value, e.g. the instruction's constant).
type primInfo struct {
	name     string // "token <", "func strings.Contains", "helper less", "unary -", …
	operands []int
	mixed    bool // an operand is built from several popped values
	pos      token.Pos
}

// opcodeTableFunc: e is TABLE[k] with TABLE a package-level map of package vm initialised by a
// literal whose keys are opcode constants and whose values name functions, and never written
// afterwards: the function stored under the opcode named op. The key k must be a plain variable
// (the dispatch variable: a clause shared by several opcodes is read once per opcode).
func opcodeTableFunc(p *core.Program, info *types.Info, e ast.Expr, op string) *types.Func {
	ix, ok := eng.Unparen(e).(*ast.IndexExpr)
	if !ok {
		return nil
	}
	tid, ok := eng.Unparen(ix.X).(*ast.Ident)
	if !ok {
		return nil
	}
	if _, isVar := eng.Unparen(ix.Index).(*ast.Ident); !isVar {
		return nil
	}
	tv, ok := info.Uses[tid].(*types.Var)
	if !ok || tv.Pkg() == nil || tv.Parent() != tv.Pkg().Scope() {
		return nil
	}
	pk := p.Pkg("vm")
	// never written
	for _, fd := range p.FuncDecls("vm") {
		if fd.Body == nil {
			continue
		}
		written := false
		ast.Inspect(fd.Body, func(n ast.Node) bool {
			switch x := n.(type) {
			case *ast.AssignStmt:
				for _, l := range x.Lhs {
					base := eng.Unparen(l)
					if ixl, ok := base.(*ast.IndexExpr); ok {
						base = eng.Unparen(ixl.X)
					}
					if id, ok := base.(*ast.Ident); ok && info.Uses[id] == types.Object(tv) {
						written = true
					}
				}
			case *ast.CallExpr:
				if isBuiltinCall(info, x, "delete") && len(x.Args) > 0 {
					if id, ok := eng.Unparen(x.Args[0]).(*ast.Ident); ok && info.Uses[id] == types.Object(tv) {
						written = true
					}
				}
			case *ast.UnaryExpr:
				if x.Op == token.AND {
					if id, ok := eng.Unparen(x.X).(*ast.Ident); ok && info.Uses[id] == types.Object(tv) {
						written = true
					}
				}
			}
			return true
		})
		if written {
			return nil
		}
	}
	for _, f := range pk.Syntax {
		for _, d := range f.Decls {
			gd, ok := d.(*ast.GenDecl)
			if !ok {
				continue
			}
			for _, sp := range gd.Specs {
				vs, ok := sp.(*ast.ValueSpec)
				if !ok || len(vs.Names) != 1 || len(vs.Values) != 1 || info.Defs[vs.Names[0]] != types.Object(tv) {
					continue
				}
				cl, ok := eng.Unparen(vs.Values[0]).(*ast.CompositeLit)
				if !ok {
					return nil
				}
				var hit *types.Func
				nHit := 0
				for _, el := range cl.Elts {
					kv, ok := el.(*ast.KeyValueExpr)
					if !ok {
						return nil
					}
					kid, ok := eng.Unparen(kv.Key).(*ast.Ident)
					if !ok || kid.Name != op {
						continue
					}
					if _, isConst := info.Uses[kid].(*types.Const); !isConst {
						continue
					}
					nHit++
					switch v := eng.Unparen(kv.Value).(type) {
					case *ast.Ident:
						hit, _ = info.Uses[v].(*types.Func)
					case *ast.SelectorExpr:
						hit, _ = info.Uses[v.Sel].(*types.Func)
					}
				}
				if nHit == 1 {
					return hit
				}
				return nil
			}
		}
	}
	return nil
}

func handlerPrimitives(p *core.Program, e *engines, op string) ([]primInfo, string) {
	h := e.vm.Handlers[op]
	if h == nil {
		return nil, "no handler"
	}
	info := p.Pkg("vm").TypesInfo
	isPrim := func(c *ast.CallExpr, kind string) bool {
		fn := eng.CalleeOf(info, c)
		return fn != nil && e.vm.Prims[fn] == kind
	}
	popIdx := map[ast.Node]int{}        // the pop call expressions, numbered in evaluation order
	defs := map[types.Object]ast.Expr{} // locals of the clause with one definition
	ndef := map[types.Object]int{}
	var pushes []*ast.CallExpr
	n := 0
	for _, st := range h.Clause.Body {
		ast.Inspect(st, func(nd ast.Node) bool {
			switch x := nd.(type) {
			case *ast.AssignStmt:
				for i, l := range x.Lhs {
					id, ok := l.(*ast.Ident)
					if !ok || id.Name == "_" {
						continue
					}
					o := objOf(info, id)
					ndef[o]++
					if len(x.Rhs) == len(x.Lhs) {
						defs[o] = x.Rhs[i]
					} else if len(x.Rhs) == 1 && i == 0 {
						defs[o] = x.Rhs[0]
					} else {
						ndef[o] += 2
					}
				}
			case *ast.IncDecStmt:
				if id, ok := x.X.(*ast.Ident); ok {
					ndef[objOf(info, id)] += 2
				}
			case *ast.CallExpr:
				if isPrim(x, "push") && len(x.Args) == 1 {
					pushes = append(pushes, x)
				}
			}
			return true
		})
		// pops in evaluation order: post-order over call arguments
		var walk func(nd ast.Node)
		walk = func(nd ast.Node) {
			ast.Inspect(nd, func(m ast.Node) bool {
				c, ok := m.(*ast.CallExpr)
				if !ok {
					return true
				}
				for _, a := range c.Args {
					walk(a)
				}
				if sel, ok := c.Fun.(*ast.SelectorExpr); ok {
					walk(sel.X)
				}
				if isPrim(c, "pop") {
					n++
					popIdx[c] = n
				}
				return false
			})
		}
		walk(st)
	}
	if len(pushes) == 0 {
		return nil, "handler pushes nothing"
	}
	var resolve func(x ast.Expr, depth int) ast.Expr
	resolve = func(x ast.Expr, depth int) ast.Expr {
		x = eng.Unparen(x)
		if id, ok := x.(*ast.Ident); ok && depth < 6 {
			if o := objOf(info, id); o != nil && ndef[o] == 1 && defs[o] != nil {
				return resolve(defs[o], depth+1)
			}
		}
		return x
	}
	// pops an expression is built from (through single-definition locals)
	var popsOf func(x ast.Node, depth int, acc map[int]bool)
	popsOf = func(x ast.Node, depth int, acc map[int]bool) {
		ast.Inspect(x, func(m ast.Node) bool {
			switch y := m.(type) {
			case *ast.CallExpr:
				if i, ok := popIdx[y]; ok {
					acc[i] = true
				}
			case *ast.Ident:
				if o := objOf(info, y); o != nil && ndef[o] == 1 && defs[o] != nil && depth < 6 {
					popsOf(defs[o], depth+1, acc)
				}
			}
			return true
		})
	}
	var out []primInfo
	bad := ""
	for _, pc := range pushes {
		arg := resolve(pc.Args[0], 0)
		pi := primInfo{pos: pc.Pos()}
		var operands []ast.Expr
		switch x := arg.(type) {
		case *ast.CallExpr:
			fn := eng.CalleeOf(info, x)
			if fn == nil {
				// the primitive looked up in a constant table by the opcode being dispatched
				// (`test := stringTests[op]` … `test(a, b)`)
				fn = opcodeTableFunc(p, info, resolve(x.Fun, 0), op)
			}
			switch {
			case fn == nil:
				pi.name = "dynamic call " + eng.ExprStr(x.Fun)
			case fn.Pkg() == p.Pkg("vm").Types:
				pi.name = "helper " + fn.Name()
			default:
				pi.name = "func " + fn.Pkg().Name() + "." + fn.Name()
				if sig, ok := fn.Type().(*types.Signature); ok && sig.Recv() != nil {
					pi.name = "method " + fn.Name()
				}
			}
			operands = x.Args
			if sel, ok := x.Fun.(*ast.SelectorExpr); ok && strings.HasPrefix(pi.name, "method") {
				operands = append([]ast.Expr{sel.X}, x.Args...)
			}
		case *ast.BinaryExpr:
			pi.name = "token " + x.Op.String()
			operands = []ast.Expr{x.X, x.Y}
		case *ast.UnaryExpr:
			pi.name = "unary " + x.Op.String()
			operands = []ast.Expr{x.X}
		default:
			pi.name = "value " + eng.ExprStr(arg)
			bad = "pushed value is not the application of a primitive"
		}
		for _, opnd := range operands {
			acc := map[int]bool{}
			popsOf(opnd, 0, acc)
			switch len(acc) {
			case 0:
				pi.operands = append(pi.operands, 0)
			case 1:
				for i := range acc {
					pi.operands = append(pi.operands, i)
				}
			default:
				pi.mixed = true
				pi.operands = append(pi.operands, -1)
			}
		}
		out = append(out, pi)
	}
	return out, bad
}

// helperToken: the single Go token a generated two-level helper applies in all its cases.
func helperTokens(p *core.Program) map[string]string {
	out := map[string]string{}
	for _, h := range findBinaryHelpers(p) {
		toks := map[string]bool{}
		for _, cc := range h.cases {
			if len(cc.Body) != 1 {
				continue
			}
			if rs, ok := cc.Body[0].(*ast.ReturnStmt); ok && len(rs.Results) == 1 {
				if be, ok := eng.Unparen(rs.Results[0]).(*ast.BinaryExpr); ok {
					toks[be.Op.String()] = true
				}
			}
		}
		if len(toks) == 1 {
			for t := range toks {
				out[h.fd.Name.Name] = t
			}
		} else {
			out[h.fd.Name.Name] = "mixed"
		}
	}
	return out
}

// what each DSL operator denotes (docs/Language-Definition.md): a Go token applied through a
// generated helper, or a library function.
var c01Denotes = map[string]string{
	"==": "tok ==", "<": "tok <", ">": "tok >", "<=": "tok <=", ">=": "tok >=",
	"+": "tok +", "-": "tok -", "*": "tok *", "/": "tok /", "%": "tok %",
	"**": "pow", "contains": "func strings.Contains", "startsWith": "func strings.HasPrefix", "endsWith": "func strings.HasSuffix",
	"in": "member", "..": "range",
	"unary -": "neg", "unary !": "unary !", "unary not": "unary !",
}

func c01Chain(p *core.Program, r *core.Report, e *engines) {
	toks := helperTokens(p)
	vinfo := p.Pkg("vm").TypesInfo
	// classify a primitive name to the vocabulary of c01Denotes
	classify := func(pi primInfo) string {
		switch {
		case strings.HasPrefix(pi.name, "helper "):
			h := strings.TrimPrefix(pi.name, "helper ")
			if t, ok := toks[h]; ok {
				return "tok " + t
			}
			// semantic roles of the non-generated helpers, by their bodies
			if fd := p.FuncDecl("vm", "", h); fd != nil && fd.Body != nil {
				callsPow, negates := false, false
				ast.Inspect(fd.Body, func(n ast.Node) bool {
					if c, ok := n.(*ast.CallExpr); ok {
						if fn := eng.CalleeOf(vinfo, c); fn != nil && fn.Pkg() != nil && fn.Pkg().Path() == "math" && fn.Name() == "Pow" {
							callsPow = true
						}
					}
					if u, ok := n.(*ast.UnaryExpr); ok && u.Op == token.SUB {
						negates = true
					}
					return true
				})
				sig := vinfo.Defs[fd.Name].Type().(*types.Signature)
				switch {
				case callsPow:
					return "pow"
				case negates && sig.Params().Len() == 1:
					return "neg"
				case sig.Params().Len() == 2 && sig.Results().Len() == 1:
					if b, ok := sig.Results().At(0).Type().(*types.Basic); ok && b.Kind() == types.Bool {
						return "member (" + h + ")"
					}
					if _, ok := sig.Results().At(0).Type().(*types.Slice); ok {
						return "range (" + h + ")"
					}
				}
			}
			return pi.name
		case strings.HasPrefix(pi.name, "token "):
			return "tok " + strings.TrimPrefix(pi.name, "token ")
		}
		return pi.name
	}
	// per handler: one primitive, operands in order
	handlerClass := map[string]string{}
	handlerOperands := map[string][]int{} // per primitive operand: which popped value (1 = top)
	for _, name := range e.vm.SortedNames() {
		sig := e.vm.Signature(name)
		if sig == nil || sig.Pop == 0 || sig.Push != 1 || sig.Jump != "" || sig.Scope != "" || sig.SymPop != "" {
			continue
		}
		if sig.Operand == "u16" {
			continue // OpCast: selected by operand (C03)
		}
		pis, bad := handlerPrimitives(p, e, name)
		key := "vm.(VM).Run/case " + name
		pos := p.Pos(e.vm.Handlers[name].Clause.Pos())
		if pis == nil {
			r.Unk("R1.3", key+"/applies one primitive", pos, bad)
			continue
		}
		classes := map[string]bool{}
		for _, pi := range pis {
			classes[classify(pi)] = true
		}
		var cl []string
		for c := range classes {
			cl = append(cl, c)
		}
		sort.Strings(cl)
		// fetch-like handlers (property / index / slice / method) call run-time helpers with flags: one helper each
		if len(cl) != 1 {
			r.Bad("R1.3", key+"/applies one primitive", pos, "the handler pushes the results of different primitives on different paths ("+strings.Join(cl, " | ")+"): which one answers depends on a run-time test of the operands, so the operator no longer has one meaning (a fast path must be shown equivalent, which this analysis cannot do)")
			continue
		}
		r.OK("R1.3", key+"/applies one primitive", pos, cl[0])
		handlerClass[name] = cl[0]
		handlerOperands[name] = pis[0].operands
		for _, pi := range pis {
			if pi.mixed || fmt.Sprint(pi.operands) != fmt.Sprint(pis[0].operands) {
				handlerOperands[name] = nil
			}
		}
	}
	// per operator template: the instruction sequence after the children
	for _, t := range e.em.AllTemplates() {
		if t.Term == "panic" || (t.Kind != "BinaryNode" && t.Kind != "UnaryNode") {
			continue
		}
		ops := templateLabels(p, t, "Operator")
		var instrs []string
		for _, ev := range t.Events {
			if ev.Kind == "instr" {
				instrs = append(instrs, ev.Op)
			}
		}
		for _, op := range ops {
			dsl := op
			if t.Kind == "UnaryNode" {
				dsl = "unary " + op
			}
			key := fmt.Sprintf("compiler/%s operator %s [%s]/reaches the primitive it denotes", t.Kind, op, t.CondText())
			pos := tplPos(p, e, t)
			switch dsl {
			case "or", "||", "and", "&&":
				continue // R1.2
			case "unary +":
				r.Check(len(instrs) == 0, "R1.3", key, pos, "identity: no instruction", "unary plus emits "+strings.Join(instrs, " "))
				continue
			}
			positive, negated := dsl, false
			switch dsl {
			case "!=":
				positive, negated = "==", true
			case "not in":
				positive, negated = "in", true
			}
			want, known := c01Denotes[positive]
			if !known {
				r.Unk("R1.3", key, pos, "operator "+dsl+" is not in the checker's table of what operators denote (tool/props/c01.go)")
				continue
			}
			if len(instrs) == 0 {
				r.Bad("R1.3", key, pos, "the template emits no instruction for the operator")
				continue
			}
			first := handlerClass[instrs[0]]
			okNeg := true
			rest := instrs[1:]
			if negated {
				okNeg = len(rest) == 1 && handlerClass[rest[0]] == "unary !"
			} else {
				okNeg = len(rest) == 0
			}
			// operand order: child i of n is popped (n-i+1)-th; the primitive's operands, in its
			// own parameter order, must be (Left, Right) — for `matches` (pattern, subject) = (Right, Left)
			if t.Kind == "BinaryNode" {
				opnds := handlerOperands[instrs[0]]
				wantOrder := []int{2, 1} // Left was compiled first = popped second
				jointOK := false
				if want == "range" && len(opnds) == 2 && (opnds[0] != wantOrder[0] || opnds[1] != wantOrder[1]) {
					// the range builder fed a quantity computed from both operands (the size):
					// which operand is which is then a question about values, decided for handler
					// and builder as one unit by the range-builder analysis (C02 R2.7)
					if used, ok := jointRangeVerdict(p); used && ok {
						jointOK = true
					}
				}
				if jointOK {
					r.OK("R1.3", fmt.Sprintf("compiler/%s operator %s/operands reach the primitive in source order", t.Kind, op), pos, "the builder receives a size computed from both operands; handler and builder together deliver min … max (range-builder analysis)")
				} else if len(opnds) != 2 || opnds[0] != wantOrder[0] || opnds[1] != wantOrder[1] {
					r.Bad("R1.3", fmt.Sprintf("compiler/%s operator %s/operands reach the primitive in source order", t.Kind, op), pos,
						fmt.Sprintf("the handler of %s applies its primitive to the popped values %v (1 = popped first = the RIGHT operand); (left, right) is [2 1]: `a %s b` is computed as `b %s a`", instrs[0], opnds, op, op))
				} else {
					r.OK("R1.3", fmt.Sprintf("compiler/%s operator %s/operands reach the primitive in source order", t.Kind, op), pos, "primitive(left, right)")
				}
			}
			// specialised equality instructions apply the same token on asserted operands
			if i := strings.Index(first, " ("); i > 0 && (want == "member" || want == "range") {
				first = first[:i]
			}
			r.Check(first == want && okNeg, "R1.3", key, pos, fmt.Sprintf("%s → %s → %s", dsl, strings.Join(instrs, " "), first),
				fmt.Sprintf("operator `%s` compiles to %s, whose handler applies `%s`%s; the operator denotes `%s`%s", op, strings.Join(instrs, " "), first, map[bool]string{true: "", false: " (and the instruction sequence has an unexpected tail)"}[okNeg], want, map[bool]string{true: " followed by the negation", false: ""}[negated]))
		}
	}
	// MatchesNode: a regexp match with the LEFT operand as the subject; the pattern is the right
	// operand (run-time pattern) or the instruction's constant (pattern compiled by the parser)
	for _, t := range e.em.Templates["MatchesNode"] {
		var instrs []string
		for _, ev := range t.Events {
			if ev.Kind == "instr" {
				instrs = append(instrs, ev.Op)
			}
		}
		key := "compiler/MatchesNode [" + t.CondText() + "]/reaches a regular-expression match of the left operand"
		pos := tplPos(p, e, t)
		if len(instrs) != 1 {
			r.Bad("R1.3", key, pos, "the matches template emits "+strings.Join(instrs, " "))
			continue
		}
		cls, opnds := handlerClass[instrs[0]], handlerOperands[instrs[0]]
		nChildren := 0
		for _, ev := range t.Events {
			if ev.Kind == "child" {
				nChildren++
			}
		}
		ok := strings.HasSuffix(cls, "MatchString")
		// (pattern, subject): subject must be the Left operand = popped last of nChildren
		want := []int{1, 2}
		if nChildren == 1 {
			want = []int{0, 1}
		}
		ok = ok && fmt.Sprint(opnds) == fmt.Sprint(want)
		r.Check(ok, "R1.3", key, pos, instrs[0]+" → "+cls+fmt.Sprint(opnds), fmt.Sprintf("the handler of %s applies `%s` to the popped values %v; a match of the left operand against the pattern is MatchString(pattern, subject) with %v", instrs[0], cls, opnds, want))
	}
}

// ---- R1.4 -----------------------------------------------------------------------------------

// descendingFills: every loop of the handler that pops values runs once per counted value,
// and a store of the popped value into a slice made by the handler goes to position
// count-1-T in iteration T (T = 0, 1, …): the values were pushed in order, so the T-th popped
// one is the (count-1-T)-th pushed. The loop's idiom (counting down from count-1, down from
// len, up with a mirrored index, range) does not matter: header and index are read as affine
// forms of the iteration number.
func descendingFills(info *types.Info, e *engines, clause *ast.CaseClause) (loops int, ok bool, why string) {
	ok = true
	env := &eng.AffEnv{Info: info, Vars: map[types.Object]eng.Aff{}}
	env.Sym = func(x ast.Expr) (string, bool) {
		if sel, isSel := eng.Unparen(x).(*ast.SelectorExpr); isSel {
			if s := info.Selections[sel]; s != nil && s.Kind() == types.FieldVal {
				return eng.ExprStr(sel), true
			}
		}
		return "", false
	}
	var analyse func(body []ast.Stmt, env *eng.AffEnv, depth int)
	analyse = func(body []ast.Stmt, env *eng.AffEnv, depth int) {
		lenOf := eng.MadeLengths(info, env, body)
		for _, st := range body {
			switch st.(type) {
			case *ast.ForStmt, *ast.RangeStmt:
			default:
				// the popping loop may live in a helper of the machine (`in := vm.popArgs(call.Size)`):
				// its body is analysed with its parameters bound to the arguments
				if depth < 2 {
					ast.Inspect(st, func(n ast.Node) bool {
						c, ok := n.(*ast.CallExpr)
						if !ok {
							return true
						}
						fn := eng.CalleeOf(info, c)
						if fn == nil || e.vm.Prims[fn] != "" {
							return true
						}
						_, hfd := e.vm.Prog.DeclOf(fn)
						if hfd == nil || hfd.Body == nil || hfd.Recv == nil || hfd == e.vm.Run || fn.Pkg() != e.vm.Prog.Pkg("vm").Types {
							return true
						}
						if _, isPtr := hfd.Recv.List[0].Type.(*ast.StarExpr); !isPtr {
							return true
						}
						sub := &eng.AffEnv{Info: info, Vars: map[types.Object]eng.Aff{}, Sym: env.Sym}
						i := 0
						if hfd.Type.Params != nil {
							for _, f := range hfd.Type.Params.List {
								for _, nm := range f.Names {
									if i < len(c.Args) {
										if a, ok := env.Eval(c.Args[i]); ok {
											sub.Vars[info.Defs[nm]] = a
										}
									}
									i++
								}
							}
						}
						analyse(hfd.Body.List, sub, depth+1)
						return true
					})
				}
				continue
			}
			pops := 0
			ast.Inspect(st, func(n ast.Node) bool {
				if c, isC := n.(*ast.CallExpr); isC {
					if fn := eng.CalleeOf(info, c); fn != nil && e.vm.Prims[fn] == "pop" {
						pops++
					}
				}
				return true
			})
			if pops == 0 {
				continue
			}
			loops++
			cl := eng.AnalyseCountedLoop(info, env, st, lenOf)
			if !cl.OK {
				ok, why = false, "the popping loop is not a counted loop: "+cl.Why
				continue
			}
			// stores into an indexed collection
			benv := &eng.AffEnv{Info: info, Vars: map[types.Object]eng.Aff{}, Sym: env.Sym}
			benv.Val = func(x ast.Expr) (eng.Aff, bool) {
				if c, ok := x.(*ast.CallExpr); ok && isBuiltinCall(info, c, "len") && len(c.Args) == 1 {
					return lenOf(c.Args[0])
				}
				return eng.Aff{}, false
			}
			if cl.Var != nil {
				benv.Vars[cl.Var] = cl.Val
			}
			ast.Inspect(cl.Body, func(n ast.Node) bool {
				as, isAs := n.(*ast.AssignStmt)
				if !isAs {
					return true
				}
				for _, l := range as.Lhs {
					ix, isIx := l.(*ast.IndexExpr)
					if !isIx {
						continue
					}
					if _, isSlice := info.TypeOf(ix.X).Underlying().(*types.Slice); !isSlice {
						continue
					}
					// the collection that receives the values is a fresh make of this handler
					if _, fresh := lenOf(ix.X); !fresh {
						ok, why = false, "the values are collected into `"+eng.ExprStr(ix.X)+"`, which is not a slice made in this handler"
					}
					idx, isAff := benv.Eval(ix.Index)
					want := cl.Trips.Add(eng.AffConst(1), -1).Add(eng.AffSym("T"), -1)
					if !isAff || !idx.Equal(want) {
						got := eng.ExprStr(ix.Index)
						if isAff {
							got = idx.String()
						}
						ok, why = false, "iteration T (the T-th popped value) fills position `"+got+"`, not count-1-T = "+want.String()+": arguments/elements arrive in another order than written"
					}
				}
				return true
			})
		}
	}
	analyse(clause.Body, env, 0)
	return
}

func c01Calls(p *core.Program, r *core.Report, e *engines) {
	info := p.Pkg("vm").TypesInfo
	for _, name := range e.vm.SortedNames() {
		sig := e.vm.Signature(name)
		h := e.vm.Handlers[name]
		if sig == nil || h == nil {
			continue
		}
		isCall := sig.ConstType != nil && strings.HasSuffix(sig.ConstType.String(), "vm.Call")
		if sig.SymPop == "" && !isCall {
			continue
		}
		key := "vm.(VM).Run/case " + name
		pos := p.Pos(h.Clause.Pos())
		loops, ok, why := descendingFills(info, e, h.Clause)
		if loops == 0 {
			r.Unk("R1.4", key+"/position i receives the i-th pushed value", pos, "the handler pops a counted number of values but not in a recognisable counted loop")
		} else {
			r.Check(ok, "R1.4", key+"/position i receives the i-th pushed value", pos, "the T-th popped value goes to position count-1-T", why)
		}
		if !isCall {
			continue
		}
		// exactly one invocation per non-panicking path that has a callee
		bad := ""
		for _, hp := range h.Paths {
			if hp.Term == "panic" {
				continue
			}
			n := 0
			for _, ev := range hp.Events {
				if ev.Kind != "call" || ev.Node == nil {
					continue
				}
				if c, ok := ev.Node.(*ast.CallExpr); ok {
					if sel, ok := c.Fun.(*ast.SelectorExpr); ok && sel.Sel.Name == "Call" {
						if t := info.TypeOf(sel.X); t != nil && strings.HasSuffix(t.String(), "reflect.Value") {
							n++
						}
					}
					// the fast call: a call of a type-asserted function value (possibly named first)
					if _, ok := e.vm.Defs.Resolve(c.Fun).(*ast.TypeAssertExpr); ok {
						n++
					}
				}
			}
			pushesNil := false
			for _, ev := range hp.Events {
				if ev.Kind == "push" && ev.Expr != nil && isNilIdent(info, ev.Expr) {
					pushesNil = true
				}
				// a result variable of interface type still holding its zero value on this path
				if ev.Kind == "push" && ev.Val != nil && ev.Val.Kind == "zero" && ev.Expr != nil {
					if t := info.TypeOf(ev.Expr); t != nil && types.IsInterface(t) {
						pushesNil = true
					}
				}
			}
			if n > 1 || (n == 0 && !pushesNil) {
				bad = fmt.Sprintf("a completing path invokes the callee %d times", n)
			}
		}
		r.Check(bad == "", "R1.4", key+"/callee invoked exactly once", pos, "one invocation on every completing path (the nil-safe path that pushes nil has none)", bad+": an evaluated call of an environment function must happen exactly once")
	}
}

// ---- R1.6 -----------------------------------------------------------------------------------

func c01DynamicCompare(p *core.Program, r *core.Report) {
	info := p.Pkg("vm").TypesInfo
	n := 0
	for _, fd := range p.FuncDecls("vm") {
		if fd.Body == nil {
			continue
		}
		bad := []string{}
		pos := p.Pos(fd.Pos())
		ast.Inspect(fd.Body, func(nd ast.Node) bool {
			b, ok := nd.(*ast.BinaryExpr)
			if !ok || (b.Op != token.EQL && b.Op != token.NEQ) {
				return true
			}
			tx, ty := info.TypeOf(b.X), info.TypeOf(b.Y)
			if tx == nil || ty == nil || !types.IsInterface(tx) || !types.IsInterface(ty) {
				return true
			}
			if isNilIdent(info, b.X) || isNilIdent(info, b.Y) {
				return true
			}
			// comparisons of reflect.Type values (pointer-shaped, always comparable) are fine
			if strings.HasSuffix(tx.String(), "reflect.Type") && strings.HasSuffix(ty.String(), "reflect.Type") {
				return true
			}
			if types.Identical(tx, types.Universe.Lookup("error").Type()) {
				return true
			}
			bad = append(bad, "`"+eng.ExprStr(b)+"` at "+p.Pos(b.Pos()))
			pos = p.Pos(b.Pos())
			return true
		})
		n++
		r.Check(len(bad) == 0, "R1.6", core.FuncName("vm", fd)+"/no == on two dynamic values", pos, "none",
			strings.Join(bad, "; ")+": Go's == on two interface values panics when both hold the same uncomparable type (slice, map, struct containing one); the VM turns the panic into an error, so `[1,2] in [[1,2]]` fails instead of answering by deep equality")
	}
	r.Analysed["vm_functions_scanned_for_dynamic_compare"] = n
}

func c01Controls() []core.Mutant {
	C := "compiler/compiler.go"
	V := "vm/vm.go"
	return []core.Mutant{
		{Name: "refactor: jump-if handlers share one clause", File: "vm/vm.go", Old: "\t\tcase OpJumpIfTrue:\n\t\t\toffset := vm.arg()\n\t\t\tif vm.current().(bool) {\n\t\t\t\tvm.ip += int(offset)\n\t\t\t}\n\n\t\tcase OpJumpIfFalse:\n\t\t\toffset := vm.arg()\n\t\t\tif !vm.current().(bool) {\n\t\t\t\tvm.ip += int(offset)\n\t\t\t}\n", New: "\t\tcase OpJumpIfTrue, OpJumpIfFalse:\n\t\t\tdistance := int(vm.arg())\n\t\t\twanted := op == OpJumpIfTrue\n\t\t\tif vm.current().(bool) == wanted {\n\t\t\t\tvm.ip += distance\n\t\t\t}\n", Silent: true},
		{Name: "right operand compiled before the left in the comparison `<`", File: C, Old: "\tcase \"<\":\n\t\tc.compile(node.Left)\n\t\tc.compile(node.Right)\n", New: "\tcase \"<\":\n\t\tc.compile(node.Right)\n\t\tc.compile(node.Left)\n", Rule: "R1.1", Construct: "BinaryNode/children in source order"},
		{Name: "method arguments compiled before the receiver", File: C, Old: "func (c *compiler) MethodNode(node *ast.MethodNode) {\n\tc.compile(node.Node)\n\tfor _, arg := range node.Arguments {\n\t\tc.compile(arg)\n\t}\n", New: "func (c *compiler) MethodNode(node *ast.MethodNode) {\n\tfor _, arg := range node.Arguments {\n\t\tc.compile(arg)\n\t}\n\tc.compile(node.Node)\n", Rule: "R1.1", Construct: "MethodNode"},
		{Name: "subtraction handler pops in source order", File: V, Old: "\t\tcase OpSubtract:\n\t\t\tb := vm.pop()\n\t\t\ta := vm.pop()", New: "\t\tcase OpSubtract:\n\t\t\ta := vm.pop()\n\t\t\tb := vm.pop()", Rule: "R1.3", Construct: "operator -/operands reach"},
		{Name: "OpLess emitted for <=", File: C, Old: "\tcase \"<=\":\n\t\tc.compile(node.Left)\n\t\tc.compile(node.Right)\n\t\tc.emit(OpLessOrEqual)", New: "\tcase \"<=\":\n\t\tc.compile(node.Left)\n\t\tc.compile(node.Right)\n\t\tc.emit(OpLess)", Rule: "R1.3", Construct: "operator <="},
		{Name: "OpMore handler calls less", File: V, Old: "vm.push(more(a, b))", New: "vm.push(less(a, b))", Rule: "R1.3", Construct: "operator >"},
		{Name: "or skips its right operand on false", File: C, Old: "\tcase \"or\", \"||\":\n\t\tc.compile(node.Left)\n\t\tend := c.emit(OpJumpIfTrue, c.placeholder()...)", New: "\tcase \"or\", \"||\":\n\t\tc.compile(node.Left)\n\t\tend := c.emit(OpJumpIfFalse, c.placeholder()...)", Rule: "R1.2", Construct: "BinaryNode[or]"},
		{Name: "conditional's first jump patched after the else branch", File: C, Old: "\tc.patchJump(otherwise)\n\tc.emit(OpPop)\n\tc.compile(node.Exp2)\n\n\tc.patchJump(end)", New: "\tc.emit(OpPop)\n\tc.compile(node.Exp2)\n\tc.patchJump(otherwise)\n\n\tc.patchJump(end)", Rule: "R1.2", Construct: "ConditionalNode"},
		{Name: "callee invoked twice in OpCall", File: V, Old: "\t\t\tout := FetchFn(env, call.Name).Call(in)\n\t\t\tvm.push(out[0].Interface())\n\n\t\tcase OpCallFast:", New: "\t\t\tFetchFn(env, call.Name).Call(in)\n\t\t\tout := FetchFn(env, call.Name).Call(in)\n\t\t\tvm.push(out[0].Interface())\n\n\t\tcase OpCallFast:", Rule: "R1.4", Construct: "OpCall/callee invoked"},
		{Name: "fast call fills its arguments back to front", File: V, Old: "\t\t\t\tin[i] = vm.pop()\n", New: "\t\t\t\tin[call.Size-1-i] = vm.pop()\n", Rule: "R1.4", Construct: "OpCallFast/position"},
		{Name: "fast call hands the stack's own backing array to the callee", File: V, Old: "\t\t\tin := make([]interface{}, call.Size)\n\t\t\tfor i := call.Size - 1; i >= 0; i-- {\n\t\t\t\tin[i] = vm.pop()\n\t\t\t}\n", New: "\t\t\tbase := len(vm.stack) - call.Size\n\t\t\tin := vm.stack[base:]\n\t\t\tvm.stack = vm.stack[:base]\n", Rule: "R1.4", Construct: "OpCallFast"},
		{Name: "patcher replacement uses the left operand twice", File: "compiler/patcher.go", Old: "[]ast.Node{binaryNode.Left, binaryNode.Right}", New: "[]ast.Node{binaryNode.Left, binaryNode.Left}", Rule: "R1.5", Construct: "operatorPatcher"},
		{Name: "membership compares elements with == first", File: "vm/runtime.go", Old: "\t\t\t\tif equal(value.Interface(), needle).(bool) {", New: "\t\t\t\tif elem := value.Interface(); elem == needle || equal(elem, needle).(bool) {", Rule: "R1.6", Construct: "vm.in"},
		{Name: "range membership fast path in the OpIn handler", File: V, Old: "\t\tcase OpIn:\n\t\t\tb := vm.pop()\n\t\t\ta := vm.pop()\n\t\t\tvm.push(in(a, b))", New: "\t\tcase OpIn:\n\t\t\tb := vm.pop()\n\t\t\ta := vm.pop()\n\t\t\tif xs, ok := b.([]int); ok {\n\t\t\t\tvm.push(len(xs) > 0 && a == xs[0])\n\t\t\t} else {\n\t\t\t\tvm.push(in(a, b))\n\t\t\t}", Rule: "R1.3", Construct: "OpIn/applies one primitive"},
		{Name: "REFACTORING: comparison templates through an extracted helper", File: C, Silent: true, Old: "\tcase \"<\":\n\t\tc.compile(node.Left)\n\t\tc.compile(node.Right)\n\t\tc.emit(OpLess)\n", New: "\tcase \"<\":\n\t\tc.emitBinary(node, OpLess)\n", Edits: [][2]string{{"func (c *compiler) MatchesNode(", "func (c *compiler) emitBinary(node *ast.BinaryNode, op byte) {\n\tc.compile(node.Left)\n\tc.compile(node.Right)\n\tc.emit(op)\n}\n\nfunc (c *compiler) MatchesNode("}}},
	}
}

// c01OperandScope (R1.1, scope clause): an operand of a builtin that is not its closure is an
// expression of the ENCLOSING scope — in every template that opens a scope, the operands
// compiled before the closure are compiled before the scope is opened (the closure, and only
// it, sees the builtin's own variables).
func c01OperandScope(p *core.Program, r *core.Report, e *engines) {
	n := 0
	for _, t := range e.em.AllTemplates() {
		if t.Term == "panic" {
			continue
		}
		open := -1
		first := -1
		for i, ev := range t.Events {
			if ev.Kind == "instr" && open < 0 {
				if s := e.sigs[ev.Op]; s != nil && s.Scope == "open" {
					open = i
				}
			}
			if ev.Kind == "child" && first < 0 {
				first = i
			}
		}
		if open < 0 {
			continue
		}
		n++
		r.Check(first >= 0 && first < open, "R1.1", t.Key()+"/first operand is evaluated in the enclosing scope", tplPos(p, e, t), "the first operand is compiled before the scope is opened",
			"the template opens its scope before compiling its first operand: that operand is part of the enclosing expression (inside another builtin's closure it may be the outer element) and is now evaluated against the new, empty scope")
	}
	r.Analysed["scope_opening_templates"] = n
}
