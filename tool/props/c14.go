package props

import (
	"fmt"
	"go/ast"
	"go/constant"
	"go/token"
	"go/types"
	"sort"
	"strconv"
	"strings"

	"verif/exprlint/core"
	"verif/exprlint/eng"
)

func init() {
	register(&Prop{ID: "C14", Run: runC14, Controls: c14Controls})
}

var numericKinds = []string{"uint", "uint8", "uint16", "uint32", "uint64", "int", "int8", "int16", "int32", "int64", "float32", "float64"}

func isNumericKind(s string) bool {
	for _, k := range numericKinds {
		if k == s {
			return true
		}
	}
	return false
}

// weightTable reads checker.typeWeight: reflect kind -> weight.
func weightTable(p *core.Program) (map[string]int, *ast.FuncDecl, string) {
	info := p.Pkg("checker").TypesInfo
	// the function that switches on t.Kind() and returns integer constants, most cases wins
	var best *ast.FuncDecl
	var bestTab map[string]int
	for _, fd := range p.FuncDecls("checker") {
		if fd.Body == nil || fd.Recv != nil {
			continue
		}
		fn, _ := info.Defs[fd.Name].(*types.Func)
		if fn == nil {
			continue
		}
		sig := fn.Type().(*types.Signature)
		if sig.Params().Len() != 1 || sig.Results().Len() != 1 || sig.Params().At(0).Type().String() != "reflect.Type" {
			continue
		}
		if b, ok := sig.Results().At(0).Type().(*types.Basic); !ok || b.Kind() != types.Int {
			continue
		}
		tab := map[string]int{}
		ast.Inspect(fd.Body, func(n ast.Node) bool {
			cc, ok := n.(*ast.CaseClause)
			if !ok || len(cc.Body) != 1 {
				return true
			}
			rs, ok := cc.Body[0].(*ast.ReturnStmt)
			if !ok || len(rs.Results) != 1 {
				return true
			}
			tv, ok := info.Types[rs.Results[0]]
			if !ok || tv.Value == nil {
				return true
			}
			w, _ := constant.Int64Val(tv.Value)
			for _, e := range cc.List {
				if sel, ok := eng.Unparen(e).(*ast.SelectorExpr); ok {
					if c, ok := info.Uses[sel.Sel].(*types.Const); ok && c.Pkg() != nil && c.Pkg().Path() == "reflect" {
						tab[strings.ToLower(c.Name())] = int(w)
					}
				}
			}
			return true
		})
		if len(tab) > len(bestTab) {
			best, bestTab = fd, tab
		}
	}
	if best == nil || len(bestTab) < 2 {
		return nil, nil, "no function of package checker maps reflect kinds to integer weights"
	}
	return bestTab, best, ""
}

// generatorModel reads vm/generate/main.go: the kind list and the helper table.
type genHelper struct {
	name, op     string
	noFloat, str bool
}

func generatorModel(p *core.Program) ([]string, []genHelper, string) {
	pk := p.Pkg("vm/generate")
	info := pk.TypesInfo
	var kinds []string
	var helpers []genHelper
	for _, f := range pk.Syntax {
		ast.Inspect(f, func(n ast.Node) bool {
			cl, ok := n.(*ast.CompositeLit)
			if !ok {
				return true
			}
			t := info.TypeOf(cl)
			if t == nil {
				return true
			}
			sl, ok := t.Underlying().(*types.Slice)
			if !ok {
				return true
			}
			if b, ok := sl.Elem().(*types.Basic); ok && b.Kind() == types.String {
				var ks []string
				for _, e := range cl.Elts {
					if tv, ok := info.Types[e]; ok && tv.Value != nil && tv.Value.Kind() == constant.String {
						ks = append(ks, constant.StringVal(tv.Value))
					}
				}
				all := len(ks) > 0
				for _, k := range ks {
					if !isNumericKind(k) {
						all = false
					}
				}
				if all && len(ks) > len(kinds) {
					kinds = ks
				}
				return true
			}
			if st, ok := sl.Elem().Underlying().(*types.Struct); ok && st.NumFields() == 4 {
				for _, e := range cl.Elts {
					el, ok := e.(*ast.CompositeLit)
					if !ok {
						continue
					}
					var h genHelper
					for _, kv := range el.Elts {
						kvp, ok := kv.(*ast.KeyValueExpr)
						if !ok {
							continue
						}
						tv := info.Types[kvp.Value]
						if tv.Value == nil {
							continue
						}
						switch eng.ExprStr(kvp.Key) {
						case "name":
							h.name = constant.StringVal(tv.Value)
						case "op":
							h.op = constant.StringVal(tv.Value)
						case "noFloat":
							h.noFloat = constant.BoolVal(tv.Value)
						case "string":
							h.str = constant.BoolVal(tv.Value)
						}
					}
					helpers = append(helpers, h)
				}
			}
			return true
		})
	}
	if len(kinds) == 0 || len(helpers) == 0 {
		return nil, nil, "kind list / helper table not found in vm/generate/main.go"
	}
	return kinds, helpers, ""
}

// binaryHelper: a func(a, b interface{}) interface{} of package vm made of a two-level type switch.
type binaryHelper struct {
	fd    *ast.FuncDecl
	cases map[[2]string]*ast.CaseClause // (outer type, inner type) -> inner clause
	xObj  map[string]types.Object       // outer type -> the x bound in that clause
	yObj  map[[2]string]types.Object
}

func findBinaryHelpers(p *core.Program) []*binaryHelper {
	info := p.Pkg("vm").TypesInfo
	var out []*binaryHelper
	for _, fd := range p.FuncDecls("vm") {
		if fd.Body == nil || fd.Recv != nil || fd.Type.Params.NumFields() != 2 {
			continue
		}
		var outer *ast.TypeSwitchStmt
		for _, st := range fd.Body.List {
			if ts, ok := st.(*ast.TypeSwitchStmt); ok {
				outer = ts
				break
			}
		}
		if outer == nil {
			continue
		}
		h := &binaryHelper{fd: fd, cases: map[[2]string]*ast.CaseClause{}, xObj: map[string]types.Object{}, yObj: map[[2]string]types.Object{}}
		nested := 0
		for _, c := range outer.Body.List {
			cc := c.(*ast.CaseClause)
			if len(cc.List) != 1 || len(cc.Body) != 1 {
				continue
			}
			inner, ok := cc.Body[0].(*ast.TypeSwitchStmt)
			if !ok {
				// a one-case inner switch written as a comma-ok assertion:
				// `if y, ok := b.(T); ok { return x op y }`
				if is, isIf := cc.Body[0].(*ast.IfStmt); isIf && is.Else == nil {
					if as, isAs := is.Init.(*ast.AssignStmt); isAs && len(as.Lhs) == 2 && len(as.Rhs) == 1 {
						ta, isTA := eng.Unparen(as.Rhs[0]).(*ast.TypeAssertExpr)
						yid, isY := as.Lhs[0].(*ast.Ident)
						okid, isOK := as.Lhs[1].(*ast.Ident)
						cid, isC := eng.Unparen(is.Cond).(*ast.Ident)
						if isTA && ta.Type != nil && isY && isOK && isC && info.Uses[cid] == info.Defs[okid] {
							ti := types.ExprString(cc.List[0])
							tj := types.ExprString(ta.Type)
							h.xObj[ti] = info.Implicits[cc]
							h.cases[[2]string{ti, tj}] = &ast.CaseClause{Case: is.Pos(), List: []ast.Expr{ta.Type}, Colon: is.Body.Lbrace, Body: is.Body.List}
							h.yObj[[2]string{ti, tj}] = info.Defs[yid]
						}
					}
				}
				continue
			}
			nested++
			ti := types.ExprString(cc.List[0])
			h.xObj[ti] = info.Implicits[cc]
			for _, c2 := range inner.Body.List {
				cc2 := c2.(*ast.CaseClause)
				if len(cc2.List) != 1 {
					continue
				}
				tj := types.ExprString(cc2.List[0])
				h.cases[[2]string{ti, tj}] = cc2
				h.yObj[[2]string{ti, tj}] = info.Implicits[cc2]
			}
		}
		if nested >= 4 {
			out = append(out, h)
		}
	}
	return out
}

// operand: e is `v` or `T(v)` for the given object; returns the conversion type name ("" if bare).
func operandOf(info *types.Info, e ast.Expr, obj types.Object) (conv string, ok bool) {
	e = eng.Unparen(e)
	if id, isID := e.(*ast.Ident); isID {
		return "", info.Uses[id] == obj
	}
	c, isCall := e.(*ast.CallExpr)
	if !isCall || len(c.Args) != 1 {
		return "", false
	}
	tv, isT := info.Types[c.Fun]
	if !isT || !tv.IsType() {
		return "", false
	}
	id, isID := eng.Unparen(c.Args[0]).(*ast.Ident)
	if !isID || info.Uses[id] != obj {
		return "", false
	}
	return tv.Type.String(), true
}

func runC14(p *core.Program, r *core.Report) {
	r.Explanation = "Decides, exhaustively over the finite case table, the promotion discipline of the VM's arithmetic and comparison helpers: one total rank of the twelve numeric kinds is shared by the checker's weight function, the generator's kind list and the direction of every conversion in the generated file; every (kind, kind) case of every helper is `x op y` with exactly the lower-ranked operand converted to the higher-ranked operand's kind (never the other, never both, never a third type, operands not swapped); the Go operator of every case is the helper's operator, which is the DSL operator whose compilation reaches that helper (compiler template → opcode → VM handler → helper); the static type of an arithmetic case is the higher-ranked kind, which is what the checker's weight comparison predicts, and comparisons yield bool; every helper has every pair (modulo: integer kinds only); negation and the three conversion helpers cover all twelve kinds with the plain Go form; the generated file matches the generator's table. Each case is a one-line Go expression whose meaning is Go's, so the table check decides the property up to Go's own semantics of conversions and operators."
	r.NotDecided = []string{"where the platform-sized kinds uint and int sit inside their group: taken from the repository's two tables, which must agree", "integer division by zero (Go's run-time panic, contained by Run's recover: C04)"}
	r.Exhaustive = true
	vinfo := p.Pkg("vm").TypesInfo

	weights, wfd, msg := weightTable(p)
	if weights == nil {
		r.Unk("R14.1", "checker weight function", "", msg)
		return
	}
	kinds, gen, msg := generatorModel(p)
	if kinds == nil {
		r.Unk("R14.1", "vm/generate/main.go", "", msg)
		return
	}
	// R14.1 one rank
	rank := map[string]int{}
	for i, k := range kinds {
		rank[k] = i
	}
	okOrder := len(kinds) == len(numericKinds)
	var byW []string
	for _, k := range numericKinds {
		if weights[k] == 0 {
			okOrder = false
		}
		byW = append(byW, k)
	}
	sort.SliceStable(byW, func(i, j int) bool { return weights[byW[i]] < weights[byW[j]] })
	for i := range byW {
		if i < len(kinds) && byW[i] != kinds[i] {
			okOrder = false
		}
		if i > 0 && weights[byW[i]] == weights[byW[i-1]] {
			okOrder = false
		}
	}
	r.Check(okOrder, "R14.1", "checker."+wfd.Name.Name+" order = generator kind list", p.Pos(wfd.Pos()), "both: "+strings.Join(kinds, " < "),
		"the checker ranks "+strings.Join(byW, " < ")+" but the generator lists "+strings.Join(kinds, " < ")+": the static result kind and the run-time result kind differ for some pair")
	// group principle: unsigned < signed < float32 < float64, sized kinds by width within a group
	grp := func(k string) int {
		switch {
		case strings.HasPrefix(k, "uint"):
			return 0
		case strings.HasPrefix(k, "int"):
			return 1
		case k == "float32":
			return 2
		}
		return 3
	}
	width := func(k string) int {
		n, _ := strconv.Atoi(strings.TrimLeft(k, "uintfloa"))
		return n
	}
	okGroups := true
	for i := 1; i < len(kinds); i++ {
		a, b := kinds[i-1], kinds[i]
		if grp(a) > grp(b) {
			okGroups = false
		}
		if grp(a) == grp(b) && width(a) != 0 && width(b) != 0 && width(a) >= width(b) {
			okGroups = false
		}
	}
	r.Check(okGroups, "R14.1", "rank principle: unsigned < signed < float32 < float64, sized kinds by width", "", strings.Join(kinds, " < "), "the kind list "+strings.Join(kinds, " < ")+" does not follow the documented principle")
	// every weight use: the combining function returns the argument with the larger weight
	cinfo := p.Pkg("checker").TypesInfo
	okComb, combWhy := false, "no function comparing two weights found"
	for _, fd := range p.FuncDecls("checker") {
		if fd.Body == nil || fd.Type.Params == nil || fd.Type.Results == nil || fd.Type.Results.NumFields() != 1 {
			continue
		}
		var params []types.Object
		for _, f := range fd.Type.Params.List {
			for _, nm := range f.Names {
				params = append(params, cinfo.Defs[nm])
			}
		}
		if len(params) != 2 {
			continue
		}
		// the function compares the weights of its two parameters: every path is read as
		// (relation between w(p0) and w(p1) that holds on it, parameter returned); names given
		// to the two weights are looked through
		ld := eng.SingleDefs(cinfo, fd.Body)
		weightOf := func(e ast.Expr) int { // 0 / 1: which parameter's weight, -1: neither
			c, ok := ld.Resolve(e).(*ast.CallExpr)
			if !ok || len(c.Args) != 1 || eng.CalleeOf(cinfo, c) == nil || eng.CalleeOf(cinfo, c) != cinfo.Defs[wfd.Name] {
				return -1
			}
			id, ok := ld.Resolve(c.Args[0]).(*ast.Ident)
			if !ok {
				return -1
			}
			for i, pobj := range params {
				if cinfo.Uses[id] == pobj {
					return i
				}
			}
			return -1
		}
		compares := false
		ast.Inspect(fd.Body, func(n ast.Node) bool {
			if b, ok := n.(*ast.BinaryExpr); ok && weightOf(b.X) >= 0 && weightOf(b.Y) >= 0 && weightOf(b.X) != weightOf(b.Y) {
				compares = true
			}
			return true
		})
		if !compares {
			continue
		}
		w := &eng.Walker{Info: cinfo}
		okAll, nRet := true, 0
		var desc []string
		for _, path := range w.Func(fd.Body) {
			// relation between w(p0) and w(p1) on this path: a subset of {<,=,>}
			lt, eq, gt := true, true, true
			var ret ast.Expr
			for _, at := range path.Atoms {
				switch at.Kind {
				case "cond":
					b, ok := eng.Unparen(at.Node.(ast.Expr)).(*ast.BinaryExpr)
					if !ok {
						continue
					}
					x, y := weightOf(b.X), weightOf(b.Y)
					if x < 0 || y < 0 || x == y {
						continue
					}
					op := b.Op
					if x == 1 { // w(p1) OP w(p0)  ≡  w(p0) OP' w(p1)
						op = map[token.Token]token.Token{token.LSS: token.GTR, token.GTR: token.LSS, token.LEQ: token.GEQ, token.GEQ: token.LEQ, token.EQL: token.EQL, token.NEQ: token.NEQ}[op]
					}
					var l, e, g bool
					switch op {
					case token.LSS:
						l = true
					case token.LEQ:
						l, e = true, true
					case token.GTR:
						g = true
					case token.GEQ:
						g, e = true, true
					case token.EQL:
						e = true
					case token.NEQ:
						l, g = true, true
					default:
						continue
					}
					if !at.Taken {
						l, e, g = !l, !e, !g
					}
					lt, eq, gt = lt && l, eq && e, gt && g
				case "return":
					if rs := at.Node.(*ast.ReturnStmt); len(rs.Results) == 1 {
						ret = rs.Results[0]
					}
				}
			}
			if path.Term != "return" || ret == nil || (!lt && !eq && !gt) {
				continue // not a completing path, or an infeasible one
			}
			nRet++
			which := -1
			if id, ok := ld.Resolve(ret).(*ast.Ident); ok {
				for i, pobj := range params {
					if cinfo.Uses[id] == pobj {
						which = i
					}
				}
			}
			rel := ""
			for _, t := range []struct {
				on bool
				s  string
			}{{lt, "<"}, {eq, "="}, {gt, ">"}} {
				if t.on {
					rel += t.s
				}
			}
			desc = append(desc, fmt.Sprintf("w(%s) {%s} w(%s) → %s", params[0].Name(), rel, params[1].Name(), eng.ExprStr(ret)))
			// returning p0 needs w(p0) >= w(p1) on the whole path; p1 the converse
			switch which {
			case 0:
				if lt {
					okAll = false
				}
			case 1:
				if gt {
					okAll = false
				}
			default:
				okAll = false
			}
		}
		sort.Strings(desc)
		okComb = okAll && nRet >= 2
		combWhy = fd.Name.Name + ": " + strings.Join(desc, "; ")
		r.Check(okComb, "R14.4", "checker."+fd.Name.Name+" returns the higher-weighted type", p.Pos(fd.Pos()), combWhy, combWhy+": the checker predicts the LOWER-ranked kind")
	}
	// the checker's typing rule of every arithmetic operator returns the combining function's result
	var combFn types.Object
	for _, fd := range p.FuncDecls("checker") {
		if fd.Body != nil && strings.HasPrefix(combWhy, fd.Name.Name+":") {
			combFn = cinfo.Defs[fd.Name]
		}
	}
	if combFn != nil {
		seenOps := map[string]bool{}
		for _, fd := range p.FuncDecls("checker") {
			if fd.Body == nil || fd.Name.Name != "BinaryNode" {
				continue
			}
			ast.Inspect(fd.Body, func(n ast.Node) bool {
				cc, ok := n.(*ast.CaseClause)
				if !ok {
					return true
				}
				var ops []string
				for _, e := range cc.List {
					if tv, ok := cinfo.Types[e]; ok && tv.Value != nil && tv.Value.Kind() == constant.String {
						if o := constant.StringVal(tv.Value); map[string]bool{"+": true, "-": true, "*": true, "/": true, "%": true}[o] {
							ops = append(ops, o)
						}
					}
				}
				if len(ops) == 0 {
					return true
				}
				uses := false
				// in the clause or in an unexported helper it delegates the typing to
				eng.InspectInlined(p, cinfo, p.Pkg("checker").Types, cc, 2, func(fn *types.Func, _ *ast.FuncDecl) bool {
					return !fn.Exported() && fn != combFn && fn.Name() != "visit"
				}, func(m ast.Node, _ *eng.InlineCtx, _ int) bool {
					if rs, ok := m.(*ast.ReturnStmt); ok && len(rs.Results) >= 1 {
						if c, ok := eng.Unparen(rs.Results[0]).(*ast.CallExpr); ok && eng.CalleeOf(cinfo, c) == combFn {
							uses = true
						}
					}
					return true
				})
				for _, o := range ops {
					seenOps[o] = true
					r.Check(uses, "R14.4", "checker.(visitor).BinaryNode/operator "+o+" is typed by weight", p.Pos(cc.Pos()), "numeric operands yield the higher-weighted operand type", "the typing rule of `"+o+"` does not return the higher-weighted operand type: the static kind differs from the run-time kind")
				}
				return true
			})
		}
		for _, o := range []string{"+", "-", "*", "/", "%"} {
			if !seenOps[o] {
				r.Unk("R14.4", "checker.(visitor).BinaryNode/operator "+o+" is typed by weight", "", "no typing clause for this operator found")
			}
		}
	}
	if !okComb && combWhy == "no function comparing two weights found" {
		r.Unk("R14.4", "checker weight comparison", "", combWhy)
	}

	// R14.3 operator chain: DSL operator -> opcode (compiler templates) -> helper (VM handler)
	opOfHelper := map[string][]string{} // helper name -> DSL operators reaching it
	if nk, vm, em, emsg := buildEngines(p); em == nil {
		r.Unk("R14.3", "engines", "", emsg)
	} else {
		_ = nk
		helperOfOpcode := map[string][]string{}
		for _, name := range vm.SortedNames() {
			h := vm.Handlers[name]
			if h == nil {
				continue
			}
			for _, st := range h.Clause.Body {
				ast.Inspect(st, func(n ast.Node) bool {
					if c, ok := n.(*ast.CallExpr); ok {
						if fn := eng.CalleeOf(vinfo, c); fn != nil && fn.Pkg() == p.Pkg("vm").Types && fn.Type().(*types.Signature).Recv() == nil {
							helperOfOpcode[name] = append(helperOfOpcode[name], fn.Name())
						}
					}
					return true
				})
			}
		}
		for _, t := range em.AllTemplates() {
			if t.Kind != "BinaryNode" && t.Kind != "UnaryNode" {
				continue
			}
			var ops []string
			for _, c := range t.Conds {
				if c.Case != nil && c.Case.Clause != nil && strings.Contains(eng.ExprStr(c.Case.Tag), "Operator") {
					for _, e := range c.Case.Clause.List {
						if tv, ok := p.Pkg("compiler").TypesInfo.Types[e]; ok && tv.Value != nil && tv.Value.Kind() == constant.String {
							ops = append(ops, constant.StringVal(tv.Value))
						}
					}
				}
			}
			negated := false
			for _, x := range t.Events {
				if x.Kind == "instr" && x.Op == "OpNot" {
					negated = true
				}
			}
			for _, x := range t.Events {
				if x.Kind != "instr" {
					continue
				}
				for _, hn := range helperOfOpcode[x.Op] {
					for _, o := range ops {
						if t.Kind == "UnaryNode" {
							o = "unary " + o
						} else if negated {
							o = "not " + o
						}
						opOfHelper[hn] = append(opOfHelper[hn], o)
					}
				}
			}
		}
	}

	// the helpers
	helpers := findBinaryHelpers(p)
	byName := map[string]*binaryHelper{}
	for _, h := range helpers {
		byName[h.fd.Name.Name] = h
	}
	r.Analysed["binary_helpers"] = len(helpers)
	nCases := 0
	for _, g := range gen {
		h := byName[g.name]
		if h == nil {
			r.Bad("R14.6", "vm."+g.name+"/exists", "", "the generator lists helper "+g.name+" but vm/helpers.go has no such two-level type switch")
			continue
		}
		delete(byName, g.name)
		hpos := p.Pos(h.fd.Pos())
		ks := kinds
		if g.noFloat {
			ks = nil
			for _, k := range kinds {
				if !strings.HasPrefix(k, "float") {
					ks = append(ks, k)
				}
			}
		}
		arith := map[string]bool{"+": true, "-": true, "*": true, "/": true, "%": true}[g.op]
		missing, extra := []string{}, []string{}
		seen := map[[2]string]bool{}
		for _, ti := range ks {
			for _, tj := range ks {
				key := [2]string{ti, tj}
				seen[key] = true
				cc := h.cases[key]
				ckey := fmt.Sprintf("vm.%s/case (%s, %s)", g.name, ti, tj)
				if cc == nil {
					missing = append(missing, "("+ti+", "+tj+")")
					continue
				}
				nCases++
				pos := p.Pos(cc.Pos())
				if len(cc.Body) != 1 {
					r.Bad("R14.2", ckey, pos, "the case is not a single return statement")
					continue
				}
				rs, ok := cc.Body[0].(*ast.ReturnStmt)
				if !ok || len(rs.Results) != 1 {
					r.Bad("R14.2", ckey, pos, "the case is not a single return of one value")
					continue
				}
				be, ok := eng.Unparen(rs.Results[0]).(*ast.BinaryExpr)
				if !ok {
					r.Bad("R14.2", ckey, pos, "the case does not return a binary expression: "+eng.ExprStr(rs.Results[0]))
					continue
				}
				target := ti
				if rank[tj] > rank[ti] {
					target = tj
				}
				lc, lok := operandOf(vinfo, be.X, h.xObj[ti])
				rc, rok := operandOf(vinfo, be.Y, h.yObj[key])
				wantL, wantR := "", ""
				if ti != target {
					wantL = target
				}
				if tj != target {
					wantR = target
				}
				switch {
				case !lok || !rok:
					r.Bad("R14.2", ckey, pos, "operands are not (a conversion of) the first and the second argument, in this order: "+eng.ExprStr(be))
				case lc != wantL || rc != wantR:
					r.Bad("R14.2", ckey, pos, fmt.Sprintf("`%s` converts towards the wrong kind: the lower-ranked operand must be converted to %s (expected `%s %s %s`) — the result differs from Go's result after promotion (truncation, sign loss or a different result kind)", eng.ExprStr(be), target, convStr(wantL, "x"), g.op, convStr(wantR, "y")))
				default:
					r.OK("R14.2", ckey, pos, eng.ExprStr(be))
				}
				if be.Op.String() != g.op {
					r.Bad("R14.3", ckey+"/operator", pos, "the case applies `"+be.Op.String()+"` in the helper for `"+g.op+"`")
				}
				// R14.4 static type of the case
				rt := vinfo.TypeOf(be)
				want := target
				if !arith {
					want = "bool"
				}
				if rt == nil || (types.Default(rt).String() != want) {
					r.Bad("R14.4", ckey+"/result kind", pos, fmt.Sprintf("the case yields %v, the checker predicts %s", rt, want))
				}
			}
		}
		for key := range h.cases {
			if !seen[key] && !(g.str && key == [2]string{"string", "string"}) {
				extra = append(extra, "("+key[0]+", "+key[1]+")")
			}
		}
		sort.Strings(extra)
		r.Check(len(missing) == 0 && len(extra) == 0, "R14.5", "vm."+g.name+"/all kind pairs present", hpos, fmt.Sprintf("%d × %d pairs", len(ks), len(ks)), fmt.Sprintf("missing pairs %v, unexpected pairs %v: a missing pair makes the operation fail (or fall to DeepEqual) for operands the checker accepts", missing, extra))
		r.OK("R14.3", "vm."+g.name+"/every case applies "+g.op, hpos, "checked per case")
		r.OK("R14.4", "vm."+g.name+"/result kinds", hpos, "checked per case")
		// operator chain
		dsl := opOfHelper[g.name]
		sort.Strings(dsl)
		okChain := len(dsl) > 0
		for _, o := range dsl {
			o2 := strings.TrimPrefix(o, "not ")
			if o2 != g.op && !(o == "not !=" && g.op == "==") {
				okChain = false
			}
			if strings.HasPrefix(o, "not ") && o != "not !=" {
				okChain = false
			}
		}
		r.Check(okChain, "R14.3", "vm."+g.name+"/reached from DSL operator "+g.op, hpos, fmt.Sprintf("DSL operators compiled to this helper: %v", dsl), fmt.Sprintf("DSL operators compiled to the helper for `%s`: %v", g.op, dsl))
		r.OK("R14.6", "vm."+g.name+"/exists", hpos, "listed by the generator with operator "+g.op)
	}
	for name, h := range byName {
		r.Bad("R14.6", "vm."+name+"/exists", p.Pos(h.fd.Pos()), "vm/helpers.go contains helper "+name+" that the generator does not produce (hand edit?)")
	}
	r.Analysed["cases"] = nCases

	// R14.5 unary helpers: negate, toInt, toInt64, toFloat64
	type unary struct {
		fd  *ast.FuncDecl
		res string // result type ("" = interface: negate)
	}
	for _, fd := range p.FuncDecls("vm") {
		if fd.Body == nil || fd.Recv != nil || fd.Type.Params.NumFields() != 1 || fd.Type.Results.NumFields() != 1 {
			continue
		}
		var ts *ast.TypeSwitchStmt
		for _, st := range fd.Body.List {
			if t, ok := st.(*ast.TypeSwitchStmt); ok {
				ts = t
			}
		}
		if ts == nil {
			continue
		}
		resT := vinfo.TypeOf(fd.Type.Results.List[0].Type)
		resName := ""
		if b, ok := resT.(*types.Basic); ok {
			resName = b.Name()
		}
		cases := map[string]*ast.CaseClause{}
		for _, c := range ts.Body.List {
			cc := c.(*ast.CaseClause)
			for _, e := range cc.List {
				cases[types.ExprString(e)] = cc
			}
		}
		nNum := 0
		for _, k := range numericKinds {
			if cases[k] != nil {
				nNum++
			}
		}
		if nNum < 6 {
			continue
		}
		name := "vm." + fd.Name.Name
		var missing []string
		for _, k := range numericKinds {
			cc := cases[k]
			if cc == nil {
				missing = append(missing, k)
				continue
			}
			ckey := name + "/case " + k
			obj := vinfo.Implicits[cc]
			if len(cc.List) != 1 || len(cc.Body) != 1 {
				r.Bad("R14.5", ckey, p.Pos(cc.Pos()), "not a single-type case with a single return")
				continue
			}
			rs, ok := cc.Body[0].(*ast.ReturnStmt)
			if !ok || len(rs.Results) != 1 {
				r.Bad("R14.5", ckey, p.Pos(cc.Pos()), "not a single return")
				continue
			}
			e := eng.Unparen(rs.Results[0])
			if resName == "" {
				// negate: -v
				u, ok := e.(*ast.UnaryExpr)
				_, ok2 := "", false
				if ok && u.Op == token.SUB {
					_, ok2 = operandOf(vinfo, u.X, obj)
					if c, _ := operandOf(vinfo, u.X, obj); c != "" {
						ok2 = false
					}
				}
				r.Check(ok && ok2, "R14.5", ckey, p.Pos(cc.Pos()), eng.ExprStr(e), "negation of "+k+" is `"+eng.ExprStr(e)+"`, not unary minus of the value itself (same kind)")
				continue
			}
			conv, ok := operandOf(vinfo, e, obj)
			want := resName
			if k == resName {
				r.Check(ok && (conv == "" || conv == want), "R14.5", ckey, p.Pos(cc.Pos()), eng.ExprStr(e), "`"+eng.ExprStr(e)+"` is not the value itself")
			} else {
				r.Check(ok && conv == want, "R14.5", ckey, p.Pos(cc.Pos()), eng.ExprStr(e), "`"+eng.ExprStr(e)+"` is not the plain conversion "+want+"(value)")
			}
		}
		r.Check(len(missing) == 0, "R14.5", name+"/all twelve kinds", p.Pos(fd.Pos()), "12 kinds", fmt.Sprintf("kinds without a case: %v", missing))
	}
	// R14.5 exponentiation: every function of package vm that reaches math.Pow is exactly
	// `return math.Pow(F(a), F(b))` with F a float64-valued conversion helper checked above and
	// a, b the parameters in order — no path computes a power any other way (a fast path that
	// multiplies in the operand's own kind wraps where float64 does not).
	nPow := 0
	for _, fd := range p.FuncDecls("vm") {
		if fd.Body == nil {
			continue
		}
		var pow *ast.CallExpr
		ast.Inspect(fd.Body, func(n ast.Node) bool {
			if c, ok := n.(*ast.CallExpr); ok {
				if fn := eng.CalleeOf(vinfo, c); fn != nil && fn.Pkg() != nil && fn.Pkg().Path() == "math" && fn.Name() == "Pow" {
					pow = c
				}
			}
			return true
		})
		if pow == nil {
			continue
		}
		nPow++
		key := "vm." + fd.Name.Name + "/power is math.Pow of the float64 conversions"
		var params []types.Object
		for _, f := range fd.Type.Params.List {
			for _, nm := range f.Names {
				params = append(params, vinfo.Defs[nm])
			}
		}
		// straight-line body: definitions of names (looked through) and one return of the power
		ld := eng.SingleDefs(vinfo, fd.Body)
		ok := len(fd.Body.List) >= 1 && len(params) == 2 && len(pow.Args) == 2
		why := "the body is not the straight-line `return math.Pow(toFloat64(a), toFloat64(b))`"
		for i, st := range fd.Body.List {
			if !ok {
				break
			}
			if i == len(fd.Body.List)-1 {
				rs, isRet := st.(*ast.ReturnStmt)
				ok = isRet && len(rs.Results) == 1 && ld.Resolve(rs.Results[0]) == ast.Expr(pow)
				continue
			}
			as, isDef := st.(*ast.AssignStmt)
			ok = isDef && as.Tok == token.DEFINE
			if ok {
				for _, l := range as.Lhs {
					if id, isID := l.(*ast.Ident); !isID || (id.Name != "_" && ld.Def(vinfo.Defs[id]) == nil) {
						ok = false
					}
				}
			}
		}
		if ok {
			for i, a := range pow.Args {
				c, isCall := ld.Resolve(a).(*ast.CallExpr)
				if !isCall || len(c.Args) != 1 {
					ok, why = false, "argument "+fmt.Sprint(i+1)+" of math.Pow is not a conversion-helper call"
					break
				}
				fn := eng.CalleeOf(vinfo, c)
				id, isID := ld.Resolve(c.Args[0]).(*ast.Ident)
				conv := fn != nil && fn.Pkg() == p.Pkg("vm").Types
				if conv {
					sig := fn.Type().(*types.Signature)
					b, isB := sig.Results().At(0).Type().(*types.Basic)
					conv = sig.Results().Len() == 1 && isB && b.Kind() == types.Float64
				}
				if !conv || !isID || vinfo.Uses[id] != params[i] {
					ok, why = false, "argument "+fmt.Sprint(i+1)+" of math.Pow is `"+eng.ExprStr(a)+"`, not the float64 conversion of parameter "+fmt.Sprint(i+1)
					break
				}
			}
		}
		r.Check(ok, "R14.5", key, p.Pos(fd.Pos()), "return math.Pow(F(a), F(b))", why+": some operand kinds or values take another route to the result than float64 exponentiation")
	}
	if nPow == 0 {
		r.Unk("R14.5", "vm/exponentiation helper", "", "no function of package vm calls math.Pow")
	}
	r.Floor("R14.2", 1300)
	r.Floor("R14.5", 11+4*12)
	r.Floor("R14.3", 20)
	r.Floor("R14.1", 2)
}

func convStr(t, v string) string {
	if t == "" {
		return v
	}
	return t + "(" + v + ")"
}

func c14Controls() []core.Mutant {
	return []core.Mutant{
		{Name: "one transposed conversion in add", File: "vm/helpers.go", Old: "func add(a, b interface{}) interface{} {\n\tswitch x := a.(type) {\n\tcase uint:\n\t\tswitch y := b.(type) {\n\t\tcase uint:\n\t\t\treturn x + y\n\t\tcase uint8:\n\t\t\treturn uint8(x) + y\n", New: "func add(a, b interface{}) interface{} {\n\tswitch x := a.(type) {\n\tcase uint:\n\t\tswitch y := b.(type) {\n\t\tcase uint:\n\t\t\treturn x + y\n\t\tcase uint8:\n\t\t\treturn x + uint(y)\n", Rule: "R14.2", Construct: "vm.add/case (uint, uint8)"},
		{Name: "wrong operator token in one case of less", File: "vm/helpers.go", Old: "func less(a, b interface{}) interface{} {\n\tswitch x := a.(type) {\n\tcase uint:\n\t\tswitch y := b.(type) {\n\t\tcase uint:\n\t\t\treturn x < y\n", New: "func less(a, b interface{}) interface{} {\n\tswitch x := a.(type) {\n\tcase uint:\n\t\tswitch y := b.(type) {\n\t\tcase uint:\n\t\t\treturn x <= y\n", Rule: "R14.3", Construct: "vm.less/case (uint, uint)"},
		{Name: "typeWeight swaps int64 and float32", File: "checker/types.go", Old: "\tcase reflect.Int64:\n\t\treturn 10\n\tcase reflect.Float32:\n\t\treturn 11\n", New: "\tcase reflect.Int64:\n\t\treturn 11\n\tcase reflect.Float32:\n\t\treturn 10\n", Rule: "R14.1", Construct: "order"},
		{Name: "combined returns the lower-weighted type", File: "checker/types.go", Old: "\tif typeWeight(a) > typeWeight(b) {", New: "\tif typeWeight(a) < typeWeight(b) {", Rule: "R14.4", Construct: "combined"},
		{Name: "operands swapped in subtract", File: "vm/helpers.go", Old: "func subtract(a, b interface{}) interface{} {\n\tswitch x := a.(type) {\n\tcase uint:\n\t\tswitch y := b.(type) {\n\t\tcase uint:\n\t\t\treturn x - y\n", New: "func subtract(a, b interface{}) interface{} {\n\tswitch x := a.(type) {\n\tcase uint:\n\t\tswitch y := b.(type) {\n\t\tcase uint:\n\t\t\treturn y - x\n", Rule: "R14.2", Construct: "vm.subtract/case (uint, uint)"},
		{Name: "a pair removed from modulo", File: "vm/helpers.go", Old: "func modulo(a, b interface{}) interface{} {\n\tswitch x := a.(type) {\n\tcase uint:\n\t\tswitch y := b.(type) {\n\t\tcase uint:\n\t\t\treturn x % y\n", New: "func modulo(a, b interface{}) interface{} {\n\tswitch x := a.(type) {\n\tcase uint:\n\t\tswitch y := b.(type) {\n", Rule: "R14.5", Construct: "vm.modulo"},
		{Name: "OpSubtract handler calls add", File: "vm/vm.go", Old: "\t\t\tvm.push(subtract(a, b))", New: "\t\t\tvm.push(add(a, b))", Rule: "R14.3", Construct: "vm.add"},
		{Name: "squaring fast path in the operand's own kind", File: "vm/runtime.go", Old: "func exponent(a, b interface{}) float64 {\n", New: "func exponent(a, b interface{}) float64 {\n\tif n, ok := b.(int); ok && n == 2 {\n\t\treturn toFloat64(multiply(a, a))\n\t}\n", Rule: "R14.5", Construct: "vm.exponent"},
		{Name: "toInt64 of int32 goes through int16", File: "vm/runtime.go", Old: "\tcase int32:\n\t\treturn int64(x)\n", New: "\tcase int32:\n\t\treturn int64(int16(x))\n", Rule: "R14.5", Construct: "vm.toInt64/case int32"},
	}
}
