package props

import (
	"fmt"
	"go/ast"
	"go/token"
	"go/types"
	"sort"
	"strings"

	"verif/exprlint/core"
	"verif/exprlint/eng"
)

// C18 — the defining identities of the collection builtins relate results of different programs
// on all arrays and predicates and are not decided as such. What is decided is the LOOP SCHEME of
// each builtin, as a transition system extracted from its code-generation template by abstract
// execution (no repository code runs): what one iteration does as a function of the
// predicate's value, what the loop leaves when the collection is exhausted, and which
// element the closure's accessor denotes. The identities follow from these per-iteration
// equations by induction over the array — and a scheme that deviates from its equation breaks
// the identity for some array.

func init() {
	register(&Prop{ID: "C18", Run: runC18, Controls: c18Controls})
}

// opRoles classifies the opcodes the loop schemes use by what their handler does.
func opRoles(p *core.Program, e *engines) map[string]string {
	info := p.Pkg("vm").TypesInfo
	roles := map[string]string{}
	for _, name := range e.vm.SortedNames() {
		sig := e.vm.Signature(name)
		h := e.vm.Handlers[name]
		if sig == nil || h == nil {
			continue
		}
		switch {
		case sig.Jump == "fwd":
			roles[name] = "jump"
		case sig.Jump == "fwd-if-true":
			roles[name] = "jump-if-true"
		case sig.Jump == "fwd-if-false":
			roles[name] = "jump-if-false"
		case sig.Jump == "back":
			roles[name] = "jump-back"
		case sig.Scope == "open":
			roles[name] = "begin"
		case sig.Scope == "close":
			roles[name] = "end"
		case sig.Scope == "store":
			roles[name] = "store"
		case sig.Scope == "load":
			roles[name] = "load"
		case sig.Scope == "inc":
			roles[name] = "inc"
		case sig.SymPop == "top" && sig.SymFactor == 1:
			roles[name] = "array"
		case sig.Pop == 1 && sig.Push == 0 && sig.Operand == "none":
			roles[name] = "pop"
		case sig.Pop == 0 && sig.Push == 1:
			// what is pushed
			var pushed ast.Expr
			for _, st := range h.Clause.Body {
				ast.Inspect(st, func(n ast.Node) bool {
					if c, ok := n.(*ast.CallExpr); ok {
						if fn := eng.CalleeOf(info, c); fn != nil && e.vm.Prims[fn] == "push" && len(c.Args) == 1 {
							pushed = c.Args[0]
						}
					}
					return true
				})
			}
			if pushed == nil {
				continue
			}
			if tv, ok := info.Types[pushed]; ok && tv.Value != nil {
				roles[name] = "lit:" + tv.Value.ExactString()
				continue
			}
			if c, ok := eng.Unparen(pushed).(*ast.CallExpr); ok {
				if fn := eng.CalleeOf(info, c); fn != nil {
					switch {
					case e.vm.Prims[fn] == "const" && sig.Operand == "const":
						roles[name] = "push-const"
					case len(c.Args) == 1 && sig.Peek:
						if ic, ok := c.Args[0].(*ast.CallExpr); ok {
							if ifn := eng.CalleeOf(info, ic); ifn != nil && e.vm.Prims[ifn] == "peek" {
								roles[name] = "peek:" + fn.Name()
							}
						}
					}
				}
			}
		}
	}
	return roles
}

type loopState struct {
	stack   []string
	scopes  []map[string]string
	assume  map[string]bool
	term    string // "back" (iteration completed), "end" (template end), problem text
	problem string
	headSP  int // stack height when the loop head was passed
	sawHead bool
}

func (s loopState) clone() loopState {
	n := loopState{term: s.term, problem: s.problem, headSP: s.headSP, sawHead: s.sawHead}
	n.stack = append([]string{}, s.stack...)
	for _, sc := range s.scopes {
		m := map[string]string{}
		for k, v := range sc {
			m[k] = v
		}
		n.scopes = append(n.scopes, m)
	}
	n.assume = map[string]bool{}
	for k, v := range s.assume {
		n.assume[k] = v
	}
	return n
}

func notSym(s string) string {
	switch s {
	case "true":
		return "false"
	case "false":
		return "true"
	}
	if strings.HasPrefix(s, "!") {
		return s[1:]
	}
	return "!" + s
}

// loopExec abstractly executes a loop template. At the loop head (the captured label) every
// scope variable that the loop body increments is replaced by a symbol (its upper-case name):
// the state at the head of an arbitrary iteration. `iterate` decides the loop guard (the first
// conditional jump after the head): true = run one iteration up to the backward jump, false =
// leave the loop. Conditional jumps on the closure's value fork on it.
func loopExec(e *engines, roles map[string]string, hc map[string]string, t *eng.Template, iterate bool) []loopState {
	labelAt := map[int]int{}
	captureAt := map[int]int{}
	for i, ev := range t.Events {
		if ev.Kind == "label" {
			labelAt[ev.PatchOf] = i
		}
		if ev.Kind == "capture" {
			captureAt[ev.CapID] = i
		}
	}
	// variables incremented anywhere
	incd := map[string]bool{}
	for _, ev := range t.Events {
		if ev.Kind == "instr" && roles[ev.Op] == "inc" {
			incd[constStr(ev.Operand)] = true
		}
	}
	var out []loopState
	var run func(pc int, st loopState, fuel int, guardDone bool)
	fail := func(st loopState, msg string) {
		st.problem = msg
		out = append(out, st)
	}
	run = func(pc int, st loopState, fuel int, guardDone bool) {
		for pc < len(t.Events) {
			if fuel--; fuel < 0 {
				fail(st, "no progress")
				return
			}
			ev := t.Events[pc]
			top := func() string {
				if len(st.stack) == 0 {
					return "<empty>"
				}
				return st.stack[len(st.stack)-1]
			}
			pop := func() string {
				if len(st.stack) == 0 {
					st.problem = "pop of an empty abstract stack at " + ev.Op
					return "<empty>"
				}
				v := st.stack[len(st.stack)-1]
				st.stack = st.stack[:len(st.stack)-1]
				return v
			}
			cur := func() map[string]string {
				if len(st.scopes) == 0 {
					st.problem = "scope access outside Begin/End at " + ev.Op
					return map[string]string{}
				}
				return st.scopes[len(st.scopes)-1]
			}
			switch ev.Kind {
			case "child":
				name := ev.Slot
				if ev.Index != "" {
					name += "[" + ev.Index + "]"
				}
				if ev.Index == "1" {
					name = "P" // the closure's value for the current element
				} else if ev.Index == "0" {
					name = "A" // the collection
				}
				st.stack = append(st.stack, name)
			case "capture":
				if !st.sawHead {
					st.sawHead = true
					st.headSP = len(st.stack)
					if len(st.scopes) > 0 {
						sc := cur()
						for k := range incd {
							if _, ok := sc[k]; ok {
								sc[k] = strings.ToUpper(k)
							}
						}
					}
				}
			case "instr":
				role := roles[ev.Op]
				switch {
				case role == "jump":
					pc = labelAt[pc]
					continue
				case role == "jump-back":
					st.term = "back"
					out = append(out, st)
					return
				case role == "jump-if-true" || role == "jump-if-false":
					tgt, ok := labelAt[pc]
					if !ok {
						fail(st, "conditional jump without label")
						return
					}
					jumpOn := role == "jump-if-true"
					v := top()
					var val, known bool
					switch {
					case v == "true" || v == "false":
						val, known = v == "true", true
					case !guardDone && st.sawHead && strings.HasPrefix(v, "lt("):
						val, known = iterate, true
						guardDone = true
						st.assume["guard:"+v] = iterate
					default:
						base := strings.TrimPrefix(v, "!")
						neg := strings.HasPrefix(v, "!")
						if a, ok := st.assume[base]; ok {
							val, known = a != neg, true
						} else if base == "P" {
							for _, b := range []bool{true, false} {
								ns := st.clone()
								ns.assume["P"] = b
								if (b != neg) == jumpOn {
									run(tgt, ns, fuel, guardDone)
								} else {
									run(pc+1, ns, fuel, guardDone)
								}
							}
							return
						} else {
							fail(st, "conditional jump on `"+v+"`, a value this analysis cannot decide")
							return
						}
					}
					if known && val == jumpOn {
						pc = tgt
						continue
					}
				case role == "begin":
					st.scopes = append(st.scopes, map[string]string{})
				case role == "end":
					if len(st.scopes) == 0 {
						fail(st, "End without Begin")
						return
					}
					st.scopes = st.scopes[:len(st.scopes)-1]
				case role == "store":
					cur()[constStr(ev.Operand)] = pop()
				case role == "load":
					v, ok := cur()[constStr(ev.Operand)]
					if !ok {
						v = "undefined:" + constStr(ev.Operand)
					}
					st.stack = append(st.stack, v)
				case role == "inc":
					k := constStr(ev.Operand)
					v, ok := cur()[k]
					if !ok {
						v = "undefined:" + k
					}
					cur()[k] = v + "+1"
				case role == "pop":
					pop()
				case role == "array":
					n := pop()
					st.stack = append(st.stack[:min(len(st.stack), st.headSP)], "array("+n+")")
				case role == "push-const":
					c := "const"
					if ev.Operand.ConstVal != nil {
						c = ev.Operand.ConstVal.ExactString()
					}
					st.stack = append(st.stack, c)
				case strings.HasPrefix(role, "lit:"):
					st.stack = append(st.stack, strings.TrimPrefix(role, "lit:"))
				case strings.HasPrefix(role, "peek:"):
					st.stack = append(st.stack, strings.TrimPrefix(role, "peek:")+"("+top()+")")
				default:
					// a value operator: by the class of its handler's primitive
					sig := e.vm.Signature(ev.Op)
					cls := hc[ev.Op]
					if sig == nil || sig.Push != 1 || cls == "" {
						fail(st, "instruction "+ev.Op+" has no role in the loop schemes")
						return
					}
					args := make([]string, sig.Pop)
					for i := sig.Pop - 1; i >= 0; i-- {
						args[i] = pop()
					}
					switch {
					case cls == "unary !":
						st.stack = append(st.stack, notSym(args[0]))
					case cls == "tok <":
						st.stack = append(st.stack, "lt("+strings.Join(args, ",")+")")
					case cls == "tok ==":
						st.stack = append(st.stack, "eq("+strings.Join(args, ",")+")")
					case strings.HasPrefix(cls, "helper fetch"):
						st.stack = append(st.stack, "elem("+strings.Join(args, ",")+")")
					default:
						st.stack = append(st.stack, cls+"("+strings.Join(args, ",")+")")
					}
				}
				if st.problem != "" {
					out = append(out, st)
					return
				}
			}
			pc++
		}
		st.term = "end"
		out = append(out, st)
	}
	run(0, loopState{assume: map[string]bool{}}, 2000, false)
	return out
}

func min(a, b int) int {
	if a < b {
		return a
	}
	return b
}

// handlerClasses: op -> class of the single primitive its handler applies (as in C01 R1.3).
func handlerClasses(p *core.Program, e *engines) map[string]string {
	out := map[string]string{}
	for _, name := range e.vm.SortedNames() {
		sig := e.vm.Signature(name)
		if sig == nil || sig.Pop == 0 || sig.Push != 1 || sig.Jump != "" || sig.Scope != "" || sig.SymPop != "" {
			continue
		}
		pis, _ := handlerPrimitives(p, e, name)
		if len(pis) != 1 {
			continue
		}
		n := pis[0].name
		if strings.HasPrefix(n, "token ") {
			n = "tok " + strings.TrimPrefix(n, "token ")
		}
		if strings.HasPrefix(n, "helper ") {
			toks := helperTokens(p)
			if t, ok := toks[strings.TrimPrefix(n, "helper ")]; ok {
				n = "tok " + t
			}
		}
		out[name] = n
	}
	return out
}

// the defining per-iteration equations. For each truth value of the predicate: does the loop
// go on or leave with a value; how the counter moves; what is pushed. And what remains when the
// collection is exhausted.
type loopSpec struct {
	forks     bool
	onTrue    iterSpec
	onFalse   iterSpec
	exhausted string // result when the guard fails
}
type iterSpec struct {
	exit   string // "" = continue; else the boolean value the builtin returns
	count  int    // counter delta
	pushes string // "" | "elem" | "P"
}

var c18Specs = map[string]loopSpec{
	"all":    {true, iterSpec{}, iterSpec{exit: "false"}, "true"},
	"any":    {true, iterSpec{exit: "true"}, iterSpec{}, "false"},
	"none":   {true, iterSpec{exit: "false"}, iterSpec{}, "true"},
	"one":    {true, iterSpec{count: 1}, iterSpec{}, "eq(COUNT,1)"},
	"count":  {true, iterSpec{count: 1}, iterSpec{}, "COUNT"},
	"filter": {true, iterSpec{count: 1, pushes: "elem"}, iterSpec{}, "array(COUNT)"},
	"map":    {false, iterSpec{pushes: "P"}, iterSpec{pushes: "P"}, "array(SIZE)"},
}

func runC18(p *core.Program, r *core.Report) {
	r.Explanation = "Decides the LOOP SCHEME of each collection builtin as a transition system obtained by abstract execution of its code-generation template against the VM's instruction roles (jump kinds, scope store/load/increment, and the primitive each value instruction applies): (R18.1) each scheme opens exactly one scope and closes it on every path, early exits included, and the template verifies against the instruction signatures (stack and scope typing, shared with C05); (R18.2) before the loop head the scheme stores the collection, its length, the index 0 and (where used) the counter 0 in the scope it opened, and every iteration that continues increments the index exactly once and leaves the stack as it found it apart from what the builtin collects; the guard is index < length; (R18.3) the closure's element accessor compiles to `collection[index]` of the innermost open scope — the variables the enclosing builtin stored — and the parser admits it only inside a closure; (R18.4/R18.6) one iteration, as a function of the predicate's value, does what the builtin's defining equation says — all: continue on true, leave with false on false, true when exhausted; any: leave with true on true, false when exhausted; none: leave with false on true, true when exhausted; one/count: counter+1 on true, result counter==1 / counter; filter: counter+1 and collect the element on true, result an array of counter elements; map: collect the closure's value every iteration, result an array of length elements; (R18.5) membership in a literal integer range is rewritten to the two-sided comparison only under the type guard and with the bounds in place (C02 R2.1/R2.10). The identities of the statement follow from these equations by induction over the array."
	r.NotDecided = []string{"the identities as equalities of results for all arrays and predicates (they follow from the equations by an induction this check does not mechanise)", "that slicing at i partitions a sequence (the value-level behaviour of the slice helper)", "run-time membership in a non-literal range versus the comparison (the value-level behaviour of the in helper)"}
	e := loadEngines(p, r, "R18.1")
	if e == nil {
		return
	}
	roles := opRoles(p, e)
	// the increment instruction adds exactly one to the variable it names (every scheme's
	// "index + 1" and "counter + 1" rest on it)
	for _, name := range e.vm.SortedNames() {
		if roles[name] != "inc" {
			continue
		}
		sig := e.vm.Signature(name)
		r.Check(sig.IncOK, "R18.2", "vm.(VM).Run/case "+name+"/adds exactly one to the named variable", p.Pos(e.vm.Handlers[name].Clause.Pos()), sig.IncWhy,
			"the increment instruction does not store (value of the same variable) + 1: "+sig.IncWhy+" — every loop scheme counts its index and its counter with it")
	}
	hc := handlerClasses(p, e)
	r.Analysed["instruction_roles"] = len(roles)
	idx, size, cnt := e.conf.IndexVar, e.conf.SizeVar, e.conf.CountVar
	arrayVar := ""
	n := 0
	for _, t := range e.em.Templates["BuiltinNode"] {
		if t.Term == "panic" {
			continue
		}
		names := templateLabels(p, t, "Name")
		hasLoop := false
		begins, ends := 0, 0
		for _, ev := range t.Events {
			if ev.Kind == "capture" {
				hasLoop = true
			}
			if ev.Kind == "instr" && roles[ev.Op] == "begin" {
				begins++
			}
			if ev.Kind == "instr" && roles[ev.Op] == "end" {
				ends++
			}
		}
		if !hasLoop {
			continue
		}
		for _, name := range names {
			n++
			c18Scheme(p, r, e, roles, hc, t, name, begins, ends, idx, size, cnt, &arrayVar)
		}
	}
	if n < 7 {
		r.Unk("R18.1", "loop builtins", "", fmt.Sprintf("expected seven loop schemes, found %d", n))
	}
	c18Tail(p, r, e, roles, hc, arrayVar, idx)
}

func c18Scheme(p *core.Program, r *core.Report, e *engines, roles, hc map[string]string, t *eng.Template, name string, begins, ends int, idx, size, cnt string, arrayVarOut *string) {
	arrayVar := *arrayVarOut
	defer func() { *arrayVarOut = arrayVar }()
	for once := true; once; once = false {
		key := "compiler/BuiltinNode[" + name + "]"
		pos := tplPos(p, e, t)
		// R18.1
		var vf []string
		if res := e.res[t]; res != nil {
			for _, f := range res.Findings {
				vf = append(vf, f.Rule+": "+f.Detail)
			}
		}
		r.Check(begins == 1 && ends == 1 && len(vf) == 0, "R18.1", key+"/one scope, closed on every path; template verifies", pos, "one Begin, one End, stack and scope typing hold on all paths",
			fmt.Sprintf("%d Begin, %d End; verifier: %s — an early exit that skips End leaves the scope open: a builtin nested in another's closure then makes the outer loop read the inner loop's variables", begins, ends, strings.Join(vf, "; ")))
		spec, known := c18Specs[name]
		if !known {
			r.Unk("R18.4", key+"/defining equation", pos, "builtin `"+name+"` has a loop scheme but no defining equation in the checker's table (tool/props/c18.go)")
			continue
		}
		iter := loopExec(e, roles, hc, t, true)
		exit := loopExec(e, roles, hc, t, false)
		prob := ""
		for _, s := range append(append([]loopState{}, iter...), exit...) {
			if s.problem != "" {
				prob = s.problem
			}
		}
		if prob != "" {
			r.Unk("R18.4", key+"/defining equation", pos, "abstract execution of "+t.String()+" failed: "+prob)
			continue
		}
		// R18.2 prologue and per-iteration discipline
		okPro, whyPro := true, ""
		for _, s := range iter {
			if s.term != "back" {
				continue
			}
			sc := map[string]string{}
			if len(s.scopes) > 0 {
				sc = s.scopes[len(s.scopes)-1]
			}
			if len(s.scopes) != 1 {
				okPro, whyPro = false, fmt.Sprintf("an iteration ends with %d open scopes", len(s.scopes))
			}
			if sc[idx] != strings.ToUpper(idx)+"+1" {
				okPro, whyPro = false, "the index after one iteration is `"+sc[idx]+"`, not index+1"
			}
			if sc[size] != "length(A)" {
				okPro, whyPro = false, "the scope's `"+size+"` is `"+sc[size]+"`, not the length of the collection argument"
			}
			for k, v := range sc {
				if v == "A" {
					arrayVar = k
				}
			}
			guard := ""
			for a := range s.assume {
				if strings.HasPrefix(a, "guard:") {
					guard = strings.TrimPrefix(a, "guard:")
				}
			}
			if guard != "lt("+strings.ToUpper(idx)+",length(A))" {
				okPro, whyPro = false, "the loop guard is `"+guard+"`, not index < length of the collection"
			}
		}
		r.Check(okPro, "R18.2", key+"/loop variables and guard", pos, "scope holds the collection, its length, the index (0, +1 per iteration); guard index < length", whyPro)
		// the collection operand belongs to the ENCLOSING scope: it is evaluated before the
		// builtin opens its own (inside a closure it may read the outer element)
		firstChild, firstBegin := -1, -1
		for i, ev := range t.Events {
			if ev.Kind == "child" && firstChild < 0 {
				firstChild = i
			}
			if ev.Kind == "instr" && roles[ev.Op] == "begin" && firstBegin < 0 {
				firstBegin = i
			}
		}
		r.Check(firstChild >= 0 && firstBegin > firstChild, "R18.2", key+"/collection is evaluated before the scope is opened", pos, "the first operand is compiled, then Begin",
			"the builtin opens its scope before its collection operand is evaluated: a collection computed from the enclosing closure's element (`map(xs, {count(#, …)})`) is then looked up in the new, empty scope and the run fails")
		// initial values: run the prologue concretely: before the head, index = 0, counter = 0
		pre := loopPrologue(e, roles, hc, t)
		okInit := pre[idx] == "0" && (cnt == "" || pre[cnt] == "" || pre[cnt] == "0")
		r.Check(okInit, "R18.2", key+"/index and counter start at 0", pos, fmt.Sprintf("%s=0, %s=%s", idx, cnt, pre[cnt]), fmt.Sprintf("before the first iteration the scope holds %s=%q, %s=%q", idx, pre[idx], cnt, pre[cnt]))

		// R18.4 / R18.6 per-iteration equation
		c18Equation(p, r, key, pos, t, spec, iter, exit, cnt, idx, size)
	}
}

func c18Tail(p *core.Program, r *core.Report, e *engines, roles, hc map[string]string, arrayVar, idx string) {
	// R18.3 the element accessor
	c18Accessor(p, r, e, roles, hc, arrayVar, idx)
	// R18.5
	nk := e.nk
	for _, s := range eng.FindRewriteSites(p, nk, "optimizer") {
		has := false
		for _, o := range s.Operands {
			if o.Path == "*node.Right.Left" {
				has = true
			}
		}
		if !has {
			continue
		}
		adm, np := admitted(p, s, "*node.Left")
		kinds := map[string]bool{}
		named := false
		for _, a := range adm {
			if !a.Nil {
				kinds[a.Kind] = true
				named = named || a.Named
			}
		}
		r.Check(np > 0 && len(kinds) == 1 && kinds["Int"] && !named, "R18.5", s.Key+"/range membership rewritten only for plain integers", p.Pos(s.Call.Pos()), "operand pinned to predeclared int: "+eng.AbsTypesString(adm),
			"membership in a literal range is rewritten to comparisons for operands of static type "+eng.AbsTypesString(adm)+": for a float 1.5 the comparison form is true where membership in 1..3 is false")
	}
	c18Length(p, r, e, roles)
	c02RangeShapeAs(p, r, nk, "R18.5")
	// membership has ONE run-time meaning: the instruction the `in` operator compiles to applies
	// a single primitive on all completing paths (a fast path for ranges that compares machine
	// integers answers differently from the general test for unsigned or float needles)
	for _, t := range e.em.Templates["BinaryNode"] {
		for _, op := range templateLabels(p, t, "Operator") {
			if op != "in" {
				continue
			}
			for _, ev := range t.Events {
				if ev.Kind != "instr" {
					continue
				}
				pis, _ := handlerPrimitives(p, e, ev.Op)
				names := map[string]bool{}
				for _, pi := range pis {
					names[pi.name] = true
				}
				var ns []string
				for k := range names {
					ns = append(ns, k)
				}
				sort.Strings(ns)
				r.Check(len(ns) == 1, "R18.5", "vm.(VM).Run/case "+ev.Op+"/membership has one meaning", p.Pos(e.vm.Handlers[ev.Op].Clause.Pos()), strings.Join(ns, ""),
					"the handler of "+ev.Op+" answers through different primitives on different paths ("+strings.Join(ns, " | ")+"): membership in a range then differs from the two-sided comparison (and from membership in an equal array) for the operand types only one of them handles")
			}
		}
	}
	r.Floor("R18.1", 7)
	r.Floor("R18.2", 18)
	r.Floor("R18.3", 3)
	r.Floor("R18.4", 7*3)
	r.Floor("R18.5", 4)
	r.Floor("R18.7", 1)
}

// c02RangeShapeAs re-reports C02's R2.10 obligations under another rule name.
func c02RangeShapeAs(p *core.Program, r *core.Report, nk *eng.NodeKinds, rule string) {
	tmp := core.NewReport(r.Property, "sub")
	c02RangeShape(p, tmp, nk, eng.FindRewriteSites(p, nk, "optimizer"))
	for _, o := range tmp.Obs {
		r.Add(rule, o.Construct, o.Verdict, o.Pos, o.Detail)
	}
}

// loopPrologue: the scope contents when the loop head is first reached (no havoc).
func loopPrologue(e *engines, roles map[string]string, hc map[string]string, t *eng.Template) map[string]string {
	// truncate the template at the capture and execute
	cut := len(t.Events)
	for i, ev := range t.Events {
		if ev.Kind == "capture" {
			cut = i
			break
		}
	}
	tt := *t
	tt.Events = t.Events[:cut]
	sts := loopExec(e, roles, hc, &tt, true)
	if len(sts) != 1 || len(sts[0].scopes) == 0 {
		return map[string]string{}
	}
	return sts[0].scopes[len(sts[0].scopes)-1]
}

func c18Equation(p *core.Program, r *core.Report, key, pos string, t *eng.Template, spec loopSpec, iter, exit []loopState, cnt, idx, size string) {
	CNT, SIZE := strings.ToUpper(cnt), "length(A)"
	_ = size
	describe := func(s loopState) string {
		return fmt.Sprintf("[%s: stack above the loop base %v, scope %v]", s.term, s.stack[min(len(s.stack), s.headSP):], s.scopes)
	}
	check := func(v bool, want iterSpec) (bool, string) {
		found := false
		for _, s := range iter {
			pv, forked := s.assume["P"]
			if forked && pv != v {
				continue
			}
			found = true
			above := s.stack[min(len(s.stack), s.headSP):]
			if want.exit != "" {
				if s.term != "end" {
					return false, fmt.Sprintf("when the predicate is %v the loop goes on; the builtin must leave with %s %s", v, want.exit, describe(s))
				}
				if len(s.scopes) != 0 {
					return false, fmt.Sprintf("when the predicate is %v the builtin leaves with its scope still open", v)
				}
				if len(s.stack) == 0 {
					return false, "early exit leaves nothing on the stack"
				}
				res := s.stack[len(s.stack)-1]
				val := res
				base := strings.TrimPrefix(res, "!")
				if base == "P" {
					b := v
					if strings.HasPrefix(res, "!") {
						b = !b
					}
					val = fmt.Sprint(b)
				}
				if val != want.exit || len(s.stack) != s.headSP-0 && len(s.stack) != 1 {
					return false, fmt.Sprintf("when the predicate is %v the builtin leaves with `%s` (= %s); its defining equation gives %s", v, res, val, want.exit)
				}
				continue
			}
			if s.term != "back" {
				return false, fmt.Sprintf("when the predicate is %v the builtin leaves the loop %s; its defining equation says the loop goes on", v, describe(s))
			}
			sc := s.scopes[len(s.scopes)-1]
			if cnt != "" {
				if got, has := sc[cnt]; has {
					wantC := CNT
					if want.count == 1 {
						wantC = CNT + "+1"
					}
					if got != wantC {
						return false, fmt.Sprintf("when the predicate is %v the counter becomes `%s`; its defining equation gives `%s`", v, got, wantC)
					}
				} else if want.count != 0 {
					return false, "the scheme has no counter"
				}
			}
			wantPush := []string{}
			switch want.pushes {
			case "elem":
				wantPush = []string{"elem(A," + strings.ToUpper(idx) + ")"}
			case "P":
				wantPush = []string{"P"}
			}
			if strings.Join(above, "|") != strings.Join(wantPush, "|") {
				return false, fmt.Sprintf("when the predicate is %v one iteration leaves %v on the stack; its defining equation collects %v", v, above, wantPush)
			}
		}
		if !found {
			return false, fmt.Sprintf("no path for predicate = %v", v)
		}
		return true, ""
	}
	for _, v := range []bool{true, false} {
		want := spec.onFalse
		if v {
			want = spec.onTrue
		}
		ok, why := check(v, want)
		wd := "continue"
		if want.exit != "" {
			wd = "leave with " + want.exit
		}
		if want.count == 1 {
			wd += ", counter+1"
		}
		if want.pushes != "" {
			wd += ", collect " + want.pushes
		}
		r.Check(ok, "R18.4", fmt.Sprintf("%s/one iteration when the predicate is %v", key, v), pos, wd, "template "+t.String()+": "+why)
	}
	// forks on the predicate iff the equation depends on it
	forked := false
	for _, s := range iter {
		if _, f := s.assume["P"]; f {
			forked = true
		}
	}
	if forked != spec.forks {
		r.Bad("R18.4", key+"/exhausted collection", pos, fmt.Sprintf("the scheme branches on the predicate's value: %v; its defining equation: %v", forked, spec.forks))
		return
	}
	// exhausted
	okE, whyE := false, "no path leaves the loop through its guard"
	for _, s := range exit {
		if s.term != "end" {
			continue
		}
		res := "<nothing>"
		if len(s.stack) > 0 {
			res = s.stack[len(s.stack)-1]
		}
		want := strings.ReplaceAll(strings.ReplaceAll(spec.exhausted, "COUNT", CNT), "SIZE", SIZE)
		okE = res == want && len(s.scopes) == 0
		whyE = fmt.Sprintf("when the collection is exhausted the builtin returns `%s` with %d scope(s) open; its defining equation gives `%s`", res, len(s.scopes), want)
	}
	r.Check(okE, "R18.4", key+"/exhausted collection", pos, "returns "+spec.exhausted, "template "+t.String()+": "+whyE)
}

// c18Accessor (R18.3).
func c18Accessor(p *core.Program, r *core.Report, e *engines, roles, hc map[string]string, arrayVar, idx string) {
	ts := e.em.Templates["PointerNode"]
	if len(ts) != 1 {
		r.Unk("R18.3", "compiler/PointerNode", "", fmt.Sprintf("expected one template for the element accessor, found %d", len(ts)))
		return
	}
	t := ts[0]
	pos := tplPos(p, e, t)
	var seq []string
	for _, ev := range t.Events {
		if ev.Kind != "instr" {
			continue
		}
		switch {
		case roles[ev.Op] == "load":
			seq = append(seq, "load "+constStr(ev.Operand))
		case strings.HasPrefix(hc[ev.Op], "helper fetch"):
			seq = append(seq, "elem")
		default:
			seq = append(seq, ev.Op)
		}
	}
	want := []string{"load " + arrayVar, "load " + idx, "elem"}
	r.Check(strings.Join(seq, ";") == strings.Join(want, ";"), "R18.3", "compiler/PointerNode/denotes collection[index] of the innermost scope", pos, strings.Join(seq, "; "),
		fmt.Sprintf("the element accessor compiles to [%s]; the element of the closure's own collection is [%s] — the variables the enclosing builtin stored in the scope it opened", strings.Join(seq, "; "), strings.Join(want, "; ")))
	// the scope variables it reads are required from an enclosing scope (C05's verifier): depth 0 requirement
	if res := e.res[t]; res != nil {
		req := append([]string{}, res.ScopeReq...)
		sort.Strings(req)
		w := []string{arrayVar, idx}
		sort.Strings(w)
		r.Check(strings.Join(req, ",") == strings.Join(w, ","), "R18.3", "compiler/PointerNode/reads only the enclosing builtin's collection and index", pos, "requires "+strings.Join(req, ","), "the accessor requires the scope variables "+strings.Join(req, ",")+" from its context")
	}
	// the parser admits the accessor only inside a closure (depth > 0)
	pinfo := p.Pkg("parser").TypesInfo
	guarded, sites := true, 0
	for _, fd := range p.FuncDecls("parser") {
		if fd.Body == nil {
			continue
		}
		var stack []ast.Node
		ast.Inspect(fd.Body, func(n ast.Node) bool {
			if n == nil {
				stack = stack[:len(stack)-1]
				return true
			}
			stack = append(stack, n)
			cl, ok := n.(*ast.CompositeLit)
			if !ok {
				return true
			}
			if k := e.nk.KindOfType(types.NewPointer(pinfo.TypeOf(cl))); k == nil || k.Name != "PointerNode" {
				return true
			}
			sites++
			// what holds at the construction site (enclosing tests, else branches, earlier guard
			// clauses) includes: depth > 0 — in any spelling
			under := false
			isDepth := func(x ast.Expr) bool {
				sel, ok := x.(*ast.SelectorExpr)
				return ok && sel.Sel.Name == "depth"
			}
			for _, f := range eng.FactsAt(fd.Body, cl) {
				if _, other, op, ok := eng.CmpOn(f, isDepth); ok {
					if tv, ok := pinfo.Types[other]; ok && tv.Value != nil {
						c := tv.Value.ExactString()
						if (c == "0" && (op == token.GTR || op == token.NEQ)) || (c == "1" && op == token.GEQ) {
							under = true
						}
					}
				}
			}
			if !under {
				guarded = false
			}
			return true
		})
	}
	r.Check(sites > 0 && guarded, "R18.3", "parser/element accessor only inside a closure", "", fmt.Sprintf("%d construction site(s), all under the closure-depth test", sites), "the parser builds an element accessor outside the closure-depth test: outside a builtin's closure there is no scope to read the element from")
}

// c18Length (R18.7): "slicing at i partitions a sequence" needs the open bound of `xs[i:]` and
// `xs[:]` — which the code generator obtains with the length instruction — to be in the unit the
// slice helper indexes by. Both are reflect's: the length helper returns Value.Len() for every
// kind it accepts, and the slice helper cuts with Value.Slice. A length in another unit (runes of
// a string) makes `S[:i] + S[i:]` lose the tail of a non-ASCII string.
func c18Length(p *core.Program, r *core.Report, e *engines, roles map[string]string) {
	info := p.Pkg("vm").TypesInfo
	helper := ""
	for _, role := range roles {
		if strings.HasPrefix(role, "peek:") {
			helper = strings.TrimPrefix(role, "peek:")
		}
	}
	fd := p.FuncDecl("vm", "", helper)
	if helper == "" || fd == nil || fd.Body == nil {
		r.Unk("R18.7", "vm/length helper", "", "the helper of the length instruction was not found")
		return
	}
	// the open-bound scheme uses that instruction: a SliceNode template contains it
	used := false
	for _, t := range e.em.Templates["SliceNode"] {
		for _, ev := range t.Events {
			if ev.Kind == "instr" && strings.HasPrefix(roles[ev.Op], "peek:") {
				used = true
			}
		}
	}
	bad := ""
	n := 0
	ast.Inspect(fd.Body, func(nd ast.Node) bool {
		rs, ok := nd.(*ast.ReturnStmt)
		if !ok || len(rs.Results) != 1 {
			return true
		}
		n++
		c, ok := eng.Unparen(rs.Results[0]).(*ast.CallExpr)
		okLen := false
		if ok {
			if sel, ok := c.Fun.(*ast.SelectorExpr); ok && sel.Sel.Name == "Len" && len(c.Args) == 0 {
				if t := info.TypeOf(sel.X); t != nil && strings.HasSuffix(t.String(), "reflect.Value") {
					okLen = true
				}
			}
		}
		if !okLen {
			bad = "`" + eng.ExprStr(rs.Results[0]) + "` at " + p.Pos(rs.Pos())
		}
		return true
	})
	// the slice helper cuts with reflect's Slice
	cuts := false
	if sfd := p.FuncDecl("vm", "", "slice"); sfd != nil && sfd.Body != nil {
		ast.Inspect(sfd.Body, func(nd ast.Node) bool {
			if c, ok := nd.(*ast.CallExpr); ok {
				if sel, ok := c.Fun.(*ast.SelectorExpr); ok && sel.Sel.Name == "Slice" {
					if t := info.TypeOf(sel.X); t != nil && strings.HasSuffix(t.String(), "reflect.Value") {
						cuts = true
					}
				}
			}
			return true
		})
	}
	r.Check(bad == "" && n > 0 && used && cuts, "R18.7", "vm."+helper+"/the open slice bound is reflect's length, the unit the slice helper cuts by", p.Pos(fd.Pos()), "every return is Value.Len(); slice uses Value.Slice",
		"the length helper returns "+bad+fmt.Sprintf(" (open-bound scheme uses it: %v; slice helper cuts with reflect.Value.Slice: %v)", used, cuts)+": the bound that `xs[i:]` receives is then in another unit than the one `slice` indexes by, and `S[:i] + S[i:]` is no longer S for a string with multi-byte characters")
}

func c18Controls() []core.Mutant {
	C := "compiler/compiler.go"
	return []core.Mutant{
		{Name: "increment instruction adds two", File: "vm/vm.go", Old: "\t\t\ti := scope[key].(int)\n\t\t\ti++\n", New: "\t\t\ti := scope[key].(int)\n\t\t\ti += 2\n", Rule: "R18.2", Construct: "adds exactly one"},
		{Name: "refactor: scope instructions without temporaries", File: "vm/vm.go", Old: "\t\t\ti := scope[key].(int)\n\t\t\ti++\n\t\t\tscope[key] = i\n", New: "\t\t\tscope[key] = scope[key].(int) + 1\n", Edits: [][2]string{{"\t\t\tvalue := vm.pop()\n\t\t\tscope[key] = value\n", "\t\t\tscope[key] = vm.pop()\n"}, {"\t\t\tscope := make(Scope)\n\t\t\tvm.scopes = append(vm.scopes, scope)\n", "\t\t\tvm.scopes = append(vm.scopes, make(Scope))\n"}}, Silent: true},
		{Name: "any returns true when the collection is exhausted", File: C, Old: "\tcase \"any\":\n\t\tc.compile(node.Arguments[0])\n\t\tc.emit(OpBegin)\n\t\tvar loopBreak int\n\t\tc.emitLoop(func() {\n\t\t\tc.compile(node.Arguments[1])\n\t\t\tloopBreak = c.emit(OpJumpIfTrue, c.placeholder()...)\n\t\t\tc.emit(OpPop)\n\t\t})\n\t\tc.emit(OpFalse)", New: "\tcase \"any\":\n\t\tc.compile(node.Arguments[0])\n\t\tc.emit(OpBegin)\n\t\tvar loopBreak int\n\t\tc.emitLoop(func() {\n\t\t\tc.compile(node.Arguments[1])\n\t\t\tloopBreak = c.emit(OpJumpIfTrue, c.placeholder()...)\n\t\t\tc.emit(OpPop)\n\t\t})\n\t\tc.emit(OpTrue)", Rule: "R18.4", Construct: "BuiltinNode[any]/exhausted"},
		{Name: "none leaves its scope open on the early exit", File: C, Old: "\tcase \"none\":\n\t\tc.compile(node.Arguments[0])\n\t\tc.emit(OpBegin)\n\t\tvar loopBreak int\n\t\tc.emitLoop(func() {\n\t\t\tc.compile(node.Arguments[1])\n\t\t\tc.emit(OpNot)\n\t\t\tloopBreak = c.emit(OpJumpIfFalse, c.placeholder()...)\n\t\t\tc.emit(OpPop)\n\t\t})\n\t\tc.emit(OpTrue)\n\t\tc.patchJump(loopBreak)\n\t\tc.emit(OpEnd)", New: "\tcase \"none\":\n\t\tc.compile(node.Arguments[0])\n\t\tc.emit(OpBegin)\n\t\tvar loopBreak int\n\t\tc.emitLoop(func() {\n\t\t\tc.compile(node.Arguments[1])\n\t\t\tc.emit(OpNot)\n\t\t\tloopBreak = c.emit(OpJumpIfFalse, c.placeholder()...)\n\t\t\tc.emit(OpPop)\n\t\t})\n\t\tc.emit(OpTrue)\n\t\tc.emit(OpEnd)\n\t\tc.patchJump(loopBreak)", Rule: "R18.1", Construct: "BuiltinNode[none]"},
		{Name: "all leaves on a true predicate", File: C, Old: "\tcase \"all\":\n\t\tc.compile(node.Arguments[0])\n\t\tc.emit(OpBegin)\n\t\tvar loopBreak int\n\t\tc.emitLoop(func() {\n\t\t\tc.compile(node.Arguments[1])\n\t\t\tloopBreak = c.emit(OpJumpIfFalse, c.placeholder()...)", New: "\tcase \"all\":\n\t\tc.compile(node.Arguments[0])\n\t\tc.emit(OpBegin)\n\t\tvar loopBreak int\n\t\tc.emitLoop(func() {\n\t\t\tc.compile(node.Arguments[1])\n\t\t\tloopBreak = c.emit(OpJumpIfTrue, c.placeholder()...)", Rule: "R18.4", Construct: "BuiltinNode[all]/one iteration"},
		{Name: "filter sizes its result with the collection's length", File: C, Old: "\t\t\t\tc.emit(OpIndex)\n\t\t\t})\n\t\t})\n\t\tc.emit(OpLoad, count...)\n\t\tc.emit(OpEnd)\n\t\tc.emit(OpArray)", New: "\t\t\t\tc.emit(OpIndex)\n\t\t\t})\n\t\t})\n\t\tc.emit(OpLoad, c.makeConstant(\"size\")...)\n\t\tc.emit(OpEnd)\n\t\tc.emit(OpArray)", Rule: "", Construct: "BuiltinNode[filter]"},
		{Name: "one counts the elements that fail the predicate", File: C, Old: "\tcase \"one\":\n\t\tcount := c.makeConstant(\"count\")\n\t\tc.compile(node.Arguments[0])\n\t\tc.emit(OpBegin)\n\t\tc.emitPush(0)\n\t\tc.emit(OpStore, count...)\n\t\tc.emitLoop(func() {\n\t\t\tc.compile(node.Arguments[1])\n", New: "\tcase \"one\":\n\t\tcount := c.makeConstant(\"count\")\n\t\tc.compile(node.Arguments[0])\n\t\tc.emit(OpBegin)\n\t\tc.emitPush(0)\n\t\tc.emit(OpStore, count...)\n\t\tc.emitLoop(func() {\n\t\t\tc.compile(node.Arguments[1])\n\t\t\tc.emit(OpNot)\n", Rule: "R18.4", Construct: "BuiltinNode[one]/one iteration"},
		{Name: "element accessor reads the size instead of the index", File: C, Old: "func (c *compiler) PointerNode(node *ast.PointerNode) {\n\tc.emit(OpLoad, c.makeConstant(\"array\")...)\n\tc.emit(OpLoad, c.makeConstant(\"i\")...)", New: "func (c *compiler) PointerNode(node *ast.PointerNode) {\n\tc.emit(OpLoad, c.makeConstant(\"array\")...)\n\tc.emit(OpLoad, c.makeConstant(\"size\")...)", Rule: "R18.3", Construct: "PointerNode/denotes"},
		{Name: "loop index starts at 1", File: C, Old: "\tc.emit(OpStore, array...)\n\tc.emitPush(0)\n\tc.emit(OpStore, i...)", New: "\tc.emit(OpStore, array...)\n\tc.emitPush(1)\n\tc.emit(OpStore, i...)", Rule: "R18.2", Construct: "index and counter start at 0"},
		{Name: "loop index advanced twice per iteration", File: C, Old: "\tbody()\n\n\tc.emit(OpInc, i...)\n", New: "\tbody()\n\n\tc.emit(OpInc, i...)\n\tc.emit(OpInc, i...)\n", Rule: "R18.2", Construct: "loop variables and guard"},
		{Name: "loop guard compares with the collection instead of its length", File: C, Old: "\tc.emit(OpLen)\n\tc.emit(OpStore, size...)\n\tc.emit(OpStore, array...)", New: "\tc.emit(OpLen)\n\tc.emit(OpStore, array...)\n\tc.emit(OpStore, size...)", Rule: "R18.2", Construct: "loop variables and guard"},
		{Name: "integer fast path for membership in a range", File: "vm/vm.go", Old: "\t\tcase OpIn:\n\t\t\tb := vm.pop()\n\t\t\ta := vm.pop()\n\t\t\tvm.push(in(a, b))", New: "\t\tcase OpIn:\n\t\t\tb := vm.pop()\n\t\t\ta := vm.pop()\n\t\t\tif xs, ok := b.([]int); ok {\n\t\t\t\tn, isInt := a.(int)\n\t\t\t\tvm.push(isInt && len(xs) > 0 && n >= xs[0] && n <= xs[len(xs)-1])\n\t\t\t\tbreak\n\t\t\t}\n\t\t\tvm.push(in(a, b))", Rule: "R18.5", Construct: "membership has one meaning"},
		{Name: "length of a string counted in runes", File: "vm/runtime.go", Old: "\tcase reflect.Array, reflect.Slice, reflect.Map, reflect.String:\n\t\treturn v.Len()", New: "\tcase reflect.String:\n\t\treturn len([]rune(v.String()))\n\tcase reflect.Array, reflect.Slice, reflect.Map:\n\t\treturn v.Len()", Rule: "R18.7", Construct: "open slice bound"},
		{Name: "range membership rewritten for every operand type", File: "optimizer/in_range.go", Old: "t != nil && (t.Kind() != reflect.Int || t.PkgPath() != \"\")", New: "t != nil && t.Kind() == reflect.Invalid", Rule: "R18.5", Construct: "inRange"},
		{Name: "count opens its scope before its collection is evaluated", File: "compiler/compiler.go", Old: "\tcase \"count\":\n\t\tcount := c.makeConstant(\"count\")\n\t\tc.compile(node.Arguments[0])\n\t\tc.emit(OpBegin)\n", New: "\tcase \"count\":\n\t\tcount := c.makeConstant(\"count\")\n\t\tc.emit(OpBegin)\n\t\tc.compile(node.Arguments[0])\n", Rule: "R18.2", Construct: "collection is evaluated before the scope is opened"},
	}
}
