package props

import (
	"bytes"
	"fmt"
	"go/ast"
	"go/printer"
	"go/token"
	"go/types"
	"strings"

	"verif/exprlint/core"
	"verif/exprlint/eng"
)

// R12.3 — lock-step positions. A token's line and column are right for every input only if
// the byte offset into the input and the (line, column) pair move together, one RUNE at a
// time: the column counts runes, the offset counts bytes, and the only place where the two
// are related is the stepping primitive that decodes one rune. The rule is a who-may-write
// discipline over the lexer's position fields:
//
//   - the components of the current location (line, column) are written only by the stepping
//     primitive (the method that decodes one rune and advances the offset by its width), and
//     there only as `++` or `= 0`;
//   - every other write of the scan offset is a one-step backup (`end -= width` together with
//     `loc = prev`) or a restore of a snapshot (`end, loc, prev = e, l, p` with e, l, p locals
//     that were saved together from `end, loc, prev`);
//   - the token start offset is re-saved exactly where the start location is;
//   - token literals take the start location (the end-of-input token the previous location).
//
// A fast path that jumps the offset over several bytes and adjusts the column by a byte count —
// the two seeded changes C12-b and C13-a — breaks the first two clauses.
func nodeStr(p *core.Program, n ast.Node) string {
	var b bytes.Buffer
	if err := printer.Fprint(&b, p.Fset, n); err != nil {
		return fmt.Sprintf("%T", n)
	}
	return strings.Join(strings.Fields(b.String()), " ")
}

func positionRules(p *core.Program, r *core.Report, rule string) {
	pk := p.Pkg("parser/lexer")
	info := pk.TypesInfo
	var locT *types.Named
	if o := p.Pkg("file").Types.Scope().Lookup("Location"); o != nil {
		locT, _ = o.Type().(*types.Named)
	}
	if locT == nil {
		r.Unk(rule, "file.Location", "", "type not found")
		return
	}
	// the lexer state type: the struct of this package with at least two Location fields
	var lexT *types.Named
	var locFields []*types.Var
	for _, name := range pk.Types.Scope().Names() {
		tn, ok := pk.Types.Scope().Lookup(name).(*types.TypeName)
		if !ok {
			continue
		}
		n, ok := tn.Type().(*types.Named)
		if !ok {
			continue
		}
		st, ok := n.Underlying().(*types.Struct)
		if !ok {
			continue
		}
		var lf []*types.Var
		for i := 0; i < st.NumFields(); i++ {
			if types.Identical(st.Field(i).Type(), locT) {
				lf = append(lf, st.Field(i))
			}
		}
		if len(lf) >= 2 {
			// several structs may hold locations (a saved-position record beside the lexer): the
			// state type is the one with the most of them, then the one with the most fields
			better := lexT == nil || len(lf) > len(locFields)
			if lexT != nil && len(lf) == len(locFields) {
				if os, ok := lexT.Underlying().(*types.Struct); ok && st.NumFields() > os.NumFields() {
					better = true
				}
			}
			if better {
				lexT, locFields = n, lf
			}
		}
	}
	if lexT == nil {
		r.Unk(rule, "lexer state type", "", "no struct with two or more file.Location fields in parser/lexer")
		return
	}
	isLex := func(e ast.Expr) bool {
		t := info.TypeOf(e)
		if t == nil {
			return false
		}
		if pt, ok := t.(*types.Pointer); ok {
			t = pt.Elem()
		}
		return types.Identical(t, lexT)
	}
	// fieldOf: e is X.f with X of the lexer type → field
	fieldOf := func(e ast.Expr) *types.Var {
		sel, ok := eng.Unparen(e).(*ast.SelectorExpr)
		if !ok || !isLex(sel.X) {
			return nil
		}
		if s := info.Selections[sel]; s != nil && s.Kind() == types.FieldVal {
			return s.Obj().(*types.Var)
		}
		return nil
	}
	// compOf: e is X.loc.Column → (loc field, "Column")
	compOf := func(e ast.Expr) (*types.Var, string) {
		sel, ok := eng.Unparen(e).(*ast.SelectorExpr)
		if !ok {
			return nil, ""
		}
		if f := fieldOf(sel.X); f != nil && types.Identical(f.Type(), locT) {
			return f, sel.Sel.Name
		}
		return nil, ""
	}
	// the stepping primitive
	var stepper *ast.FuncDecl
	var endF, widthF, locF, prevF *types.Var
	for _, fd := range p.FuncDecls("parser/lexer") {
		if fd.Body == nil {
			continue
		}
		decodes := false
		ast.Inspect(fd.Body, func(n ast.Node) bool {
			if c, ok := n.(*ast.CallExpr); ok {
				if fn := eng.CalleeOf(info, c); fn != nil && fn.Pkg() != nil && fn.Pkg().Path() == "unicode/utf8" && strings.HasPrefix(fn.Name(), "DecodeRune") {
					decodes = true
				}
			}
			return true
		})
		if !decodes || fd.Recv == nil {
			continue
		}
		if stepper != nil {
			r.Unk(rule, "stepping primitive", p.Pos(fd.Pos()), "more than one lexer method decodes runes: "+stepper.Name.Name+" and "+fd.Name.Name)
			return
		}
		stepper = fd
	}
	if stepper == nil {
		r.Unk(rule, "stepping primitive", "", "no lexer method calls utf8.DecodeRune…")
		return
	}
	// roles from the stepper: end += w ; width = w ; prev = loc ; loc.Column++ …
	var wObj types.Object
	ast.Inspect(stepper.Body, func(n ast.Node) bool {
		as, ok := n.(*ast.AssignStmt)
		if !ok {
			return true
		}
		if len(as.Lhs) == 2 && len(as.Rhs) == 1 {
			if c, ok := as.Rhs[0].(*ast.CallExpr); ok {
				if fn := eng.CalleeOf(info, c); fn != nil && fn.Pkg() != nil && fn.Pkg().Path() == "unicode/utf8" {
					if id, ok := as.Lhs[1].(*ast.Ident); ok {
						wObj = objOf(info, id)
					}
				}
			}
		}
		return true
	})
	ast.Inspect(stepper.Body, func(n ast.Node) bool {
		as, ok := n.(*ast.AssignStmt)
		if !ok || len(as.Lhs) != 1 || len(as.Rhs) != 1 {
			return true
		}
		f := fieldOf(as.Lhs[0])
		if f == nil {
			return true
		}
		if id, ok := eng.Unparen(as.Rhs[0]).(*ast.Ident); ok && wObj != nil && objOf(info, id) == wObj {
			if as.Tok == token.ADD_ASSIGN {
				endF = f
			} else if as.Tok == token.ASSIGN {
				widthF = f
			}
		}
		if g := fieldOf(as.Rhs[0]); g != nil && types.Identical(f.Type(), locT) && types.Identical(g.Type(), locT) && as.Tok == token.ASSIGN {
			prevF, locF = f, g
		}
		return true
	})
	if endF == nil || widthF == nil || locF == nil || prevF == nil {
		r.Unk(rule, "stepping primitive/shape", p.Pos(stepper.Pos()), "the stepping primitive does not have the shape `r, w := DecodeRune…; width = w; end += w; prev = loc; …`")
		return
	}
	r.OK(rule, "stepping primitive/shape", p.Pos(stepper.Pos()), fmt.Sprintf("%s: offset field %s advances by the decoded width, %s keeps the location before the step", stepper.Name.Name, endF.Name(), prevF.Name()))
	var startF, startLocF *types.Var
	for _, f := range locFields {
		if f != locF && f != prevF {
			startLocF = f
		}
	}
	r.Analysed["position_fields"] = map[string]string{"offset": endF.Name(), "width": widthF.Name(), "location": locF.Name(), "previous": prevF.Name()}

	// snapshot locals: `a, b, c := X.end, X.loc, X.prev` (any order): local -> field
	snapshots := func(fd *ast.FuncDecl) map[types.Object]*types.Var {
		m := map[types.Object]*types.Var{}
		ast.Inspect(fd.Body, func(n ast.Node) bool {
			as, ok := n.(*ast.AssignStmt)
			if !ok || as.Tok != token.DEFINE || len(as.Lhs) != len(as.Rhs) {
				return true
			}
			got := map[*types.Var]bool{}
			tmp := map[types.Object]*types.Var{}
			for i, rhs := range as.Rhs {
				f := fieldOf(rhs)
				id, ok := as.Lhs[i].(*ast.Ident)
				if f == nil || !ok {
					return true
				}
				got[f] = true
				tmp[objOf(info, id)] = f
			}
			if got[endF] && got[locF] && got[prevF] {
				for k, v := range tmp {
					m[k] = v
				}
			}
			return true
		})
		// a snapshot local must not be reassigned
		ast.Inspect(fd.Body, func(n ast.Node) bool {
			switch s := n.(type) {
			case *ast.AssignStmt:
				if s.Tok == token.DEFINE {
					return true
				}
				for _, l := range s.Lhs {
					if id, ok := l.(*ast.Ident); ok {
						delete(m, objOf(info, id))
					}
				}
			case *ast.IncDecStmt:
				if id, ok := s.X.(*ast.Ident); ok {
					delete(m, objOf(info, id))
				}
			}
			return true
		})
		return m
	}

	// snapshot records: a struct type of the package every literal of which is filled, field by
	// field, from the lexer's position fields (offset, location and previous location among
	// them) and whose fields are never assigned afterwards: record field -> lexer field
	snapField := map[*types.Var]*types.Var{}
	{
		cand := map[*types.Named]map[*types.Var]*types.Var{}
		bad := map[*types.Named]bool{}
		for _, fd := range p.FuncDecls("parser/lexer") {
			if fd.Body == nil {
				continue
			}
			ast.Inspect(fd.Body, func(n ast.Node) bool {
				switch x := n.(type) {
				case *ast.CompositeLit:
					nt, ok := info.TypeOf(x).(*types.Named)
					if !ok || nt == lexT {
						return true
					}
					st, ok := nt.Underlying().(*types.Struct)
					if !ok || len(x.Elts) == 0 {
						return true
					}
					m := map[*types.Var]*types.Var{}
					got := map[*types.Var]bool{}
					for _, el := range x.Elts {
						kv, ok := el.(*ast.KeyValueExpr)
						if !ok {
							return true
						}
						src := fieldOf(kv.Value)
						if src == nil {
							return true // not a snapshot literal; other structs are not our business
						}
						for i := 0; i < st.NumFields(); i++ {
							if st.Field(i).Name() == eng.ExprStr(kv.Key) {
								m[st.Field(i)] = src
								got[src] = true
							}
						}
					}
					if got[endF] && got[locF] && got[prevF] {
						if old, seen := cand[nt]; seen {
							for k, v := range m {
								if old[k] != v {
									bad[nt] = true
								}
							}
						}
						cand[nt] = m
					}
				case *ast.AssignStmt:
					for _, l := range x.Lhs {
						if sel, ok := eng.Unparen(l).(*ast.SelectorExpr); ok {
							if sl := info.Selections[sel]; sl != nil && sl.Kind() == types.FieldVal {
								t := sl.Recv()
								if pt, ok := t.(*types.Pointer); ok {
									t = pt.Elem()
								}
								if nt, ok := t.(*types.Named); ok && nt != lexT {
									bad[nt] = true // a field of the record is written after construction
								}
							}
						}
					}
				}
				return true
			})
		}
		for nt, m := range cand {
			if !bad[nt] {
				for k, v := range m {
					snapField[k] = v
				}
			}
		}
	}
	recordField := func(e ast.Expr) (*types.Var, string) {
		sel, ok := eng.Unparen(e).(*ast.SelectorExpr)
		if !ok {
			return nil, ""
		}
		sl := info.Selections[sel]
		if sl == nil || sl.Kind() != types.FieldVal {
			return nil, ""
		}
		if f, ok := sl.Obj().(*types.Var); ok && snapField[f] != nil {
			return snapField[f], eng.ExprStr(sel.X)
		}
		return nil, ""
	}

	nWrites := 0
	for _, fd := range p.FuncDecls("parser/lexer") {
		if fd.Body == nil {
			continue
		}
		fname := core.FuncName("parser/lexer", fd)
		snap := snapshots(fd)
		// what the function assigns, for the pairing clauses
		hasBackupEnd, hasBackupLoc := false, false
		var startWrites, startLocWrites []ast.Node
		ast.Inspect(fd.Body, func(n ast.Node) bool {
			as, ok := n.(*ast.AssignStmt)
			if !ok {
				return true
			}
			for i, l := range as.Lhs {
				f := fieldOf(l)
				if f == nil || len(as.Lhs) != len(as.Rhs) {
					continue
				}
				if f == endF && as.Tok == token.SUB_ASSIGN && fieldOf(as.Rhs[i]) == widthF {
					hasBackupEnd = true
				}
				if f == locF && as.Tok == token.ASSIGN && fieldOf(as.Rhs[i]) == prevF {
					hasBackupLoc = true
				}
			}
			return true
		})
		isRestore := func(as *ast.AssignStmt) bool {
			// one tuple assignment that restores end, loc and prev from snapshot locals of the right field
			if as.Tok != token.ASSIGN || len(as.Lhs) != len(as.Rhs) {
				return false
			}
			got := map[*types.Var]bool{}
			base := ""
			for i, l := range as.Lhs {
				f := fieldOf(l)
				if f == nil {
					return false
				}
				if id, ok := eng.Unparen(as.Rhs[i]).(*ast.Ident); ok && snap[objOf(info, id)] == f {
					got[f] = true
					continue
				}
				// … or from the matching field of one snapshot record
				if src, b := recordField(as.Rhs[i]); src == f && (base == "" || base == b) {
					base = b
					got[f] = true
					continue
				}
				return false
			}
			return got[endF] && got[locF] && got[prevF]
		}
		ast.Inspect(fd.Body, func(n ast.Node) bool {
			switch s := n.(type) {
			case *ast.IncDecStmt:
				if lf, comp := compOf(s.X); lf != nil {
					nWrites++
					key := fmt.Sprintf("%s/write of %s.%s", fname, lf.Name(), comp)
					r.Check(fd == stepper && lf == locF && s.Tok == token.INC, rule, key, p.Pos(s.Pos()), "one step per decoded rune, in the stepping primitive",
						"a component of a location is changed outside the stepping primitive (or not by ++): line and column no longer move one rune at a time with the byte offset")
				}
				if f := fieldOf(s.X); f != nil && (f == endF || f == startF) {
					nWrites++
					r.Bad(rule, fmt.Sprintf("%s/write of %s", fname, f.Name()), p.Pos(s.Pos()), "the scan offset is stepped without decoding a rune: offset and location drift apart on multi-byte characters")
				}
			case *ast.AssignStmt:
				for i, l := range s.Lhs {
					if lf, comp := compOf(l); lf != nil {
						nWrites++
						key := fmt.Sprintf("%s/write of %s.%s", fname, lf.Name(), comp)
						zero := false
						if len(s.Lhs) == len(s.Rhs) && s.Tok == token.ASSIGN {
							if tv, ok := info.Types[s.Rhs[i]]; ok && tv.Value != nil && tv.Value.ExactString() == "0" {
								zero = true
							}
						}
						r.Check(fd == stepper && lf == locF && zero, rule, key, p.Pos(s.Pos()), "reset to 0 at a line break, in the stepping primitive",
							"a component of a location is assigned `"+nodeStr(p, s)+"` outside the stepping primitive (or by something other than ++ / = 0): a column advanced by a byte count, or from a fast path that skips runes, is wrong after any multi-byte character")
						continue
					}
					f := fieldOf(l)
					if f == nil {
						continue
					}
					switch {
					case f == endF:
						nWrites++
						key := fmt.Sprintf("%s/write of %s", fname, f.Name())
						switch {
						case fd == stepper:
							ok := s.Tok == token.ADD_ASSIGN && len(s.Rhs) == 1
							if ok {
								id, isID := eng.Unparen(s.Rhs[0]).(*ast.Ident)
								ok = isID && objOf(info, id) == wObj
							}
							r.Check(ok, rule, key, p.Pos(s.Pos()), "advances by the width of the decoded rune", "the stepping primitive advances the offset by something other than the decoded rune's width")
						case s.Tok == token.SUB_ASSIGN && len(s.Lhs) == len(s.Rhs) && fieldOf(s.Rhs[i]) == widthF:
							r.Check(hasBackupLoc, rule, key, p.Pos(s.Pos()), "one-step backup: offset -= width together with location = previous location", "the offset is backed up by one rune but the location is not restored in the same function")
						case isRestore(s):
							r.OK(rule, key, p.Pos(s.Pos()), "restore of a snapshot taken together from offset, location and previous location")
						default:
							r.Bad(rule, key, p.Pos(s.Pos()), "the scan offset is assigned `"+nodeStr(p, s)+"`, which is neither the stepping primitive's advance, a one-step backup, nor the restore of a snapshot saved together with the location: after it, offset and (line, column) disagree, and every later token on the line is reported at a wrong column when the skipped text holds a multi-byte character")
						}
					case f == locF:
						nWrites++
						key := fmt.Sprintf("%s/write of %s", fname, f.Name())
						switch {
						case len(s.Lhs) == len(s.Rhs) && s.Tok == token.ASSIGN && fieldOf(s.Rhs[i]) == prevF:
							r.Check(hasBackupEnd, rule, key, p.Pos(s.Pos()), "one-step backup together with the offset", "the location is set back to the previous one but the offset is not backed up in the same function")
						case isRestore(s):
							r.OK(rule, key, p.Pos(s.Pos()), "restore of a snapshot")
						case fd.Recv == nil && len(s.Lhs) == len(s.Rhs):
							if cl, ok := eng.Unparen(s.Rhs[i]).(*ast.CompositeLit); ok && types.Identical(info.TypeOf(cl), locT) {
								r.OK(rule, key, p.Pos(s.Pos()), "initial location set by the constructor")
							} else {
								r.Bad(rule, key, p.Pos(s.Pos()), "location assigned `"+nodeStr(p, s)+"` outside the stepping discipline")
							}
						default:
							r.Bad(rule, key, p.Pos(s.Pos()), "location assigned `"+nodeStr(p, s)+"`: not a one-step backup and not the restore of a snapshot")
						}
					case f == prevF:
						nWrites++
						key := fmt.Sprintf("%s/write of %s", fname, f.Name())
						ok := isRestore(s) || (len(s.Lhs) == len(s.Rhs) && s.Tok == token.ASSIGN && fieldOf(s.Rhs[i]) == locF)
						r.Check(ok, rule, key, p.Pos(s.Pos()), "previous location = current location before a step, or a restore", "previous location assigned `"+nodeStr(p, s)+"`")
					case startLocF != nil && f == startLocF:
						startLocWrites = append(startLocWrites, s)
						nWrites++
						key := fmt.Sprintf("%s/write of %s", fname, f.Name())
						ok := len(s.Lhs) == len(s.Rhs) && s.Tok == token.ASSIGN && fieldOf(s.Rhs[i]) == locF
						r.Check(ok, rule, key, p.Pos(s.Pos()), "token start location = current location", "token start location assigned `"+nodeStr(p, s)+"`, not the current location")
					default:
						// the token start offset: an int field assigned from the scan offset
						if len(s.Lhs) == len(s.Rhs) && fieldOf(s.Rhs[i]) == endF && s.Tok == token.ASSIGN {
							startF = f
							startWrites = append(startWrites, s)
						}
					}
				}
			}
			return true
		})
		if fd.Recv != nil && (len(startWrites) > 0 || len(startLocWrites) > 0) { // the constructor only sets the initial location (start offset 0 is the zero value)
			nWrites++
			r.Check(len(startWrites) == len(startLocWrites), rule, fname+"/start offset and start location re-saved together", p.Pos(fd.Pos()),
				"both re-saved", "the token start offset and the token start location are not re-saved at the same places: the next token's text and its reported position start at different characters")
		}
	}
	r.Analysed["position_writes"] = nWrites

	// token literals
	var tokT *types.Named
	if o := pk.Types.Scope().Lookup("Token"); o != nil {
		tokT, _ = o.Type().(*types.Named)
	}
	nTok := 0
	if tokT != nil {
		for _, fd := range p.FuncDecls("parser/lexer") {
			if fd.Body == nil {
				continue
			}
			ast.Inspect(fd.Body, func(n ast.Node) bool {
				cl, ok := n.(*ast.CompositeLit)
				if !ok || !types.Identical(info.TypeOf(cl), tokT) {
					return true
				}
				nTok++
				var loc, kind ast.Expr
				for _, el := range cl.Elts {
					if kv, ok := el.(*ast.KeyValueExpr); ok {
						switch eng.ExprStr(kv.Key) {
						case "Location":
							loc = kv.Value
						case "Kind":
							kind = kv.Value
						}
					}
				}
				key := fmt.Sprintf("%s/token literal#%d", core.FuncName("parser/lexer", fd), nTok)
				f := (*types.Var)(nil)
				if loc != nil {
					f = fieldOf(loc)
				}
				isEOF := false
				if kind != nil {
					if tv, ok := info.Types[kind]; ok && tv.Value != nil {
						isEOF = eng.ExprStr(kind) == "EOF"
					}
				}
				switch {
				case f != nil && f == startLocF:
					r.OK(rule, key, p.Pos(cl.Pos()), "token located at its start location")
				case f != nil && f == prevF && isEOF:
					r.OK(rule, key, p.Pos(cl.Pos()), "end-of-input token located at the last character")
				default:
					r.Bad(rule, key, p.Pos(cl.Pos()), "the token's location is `"+eng.ExprStr(loc)+"`, not the location saved when the token started")
				}
				return true
			})
		}
	}
	r.Floor(rule, 14) // 20 writes today; folding repeated position updates into the existing helper lowers the count
}

// sourceUnmodifiedRule: positions are positions in the text the caller passed. On the way
// Compile(input) → Parse(input) → NewSource(input) → Lex(source) the text is handed on as the
// parameter itself, never as a transformed copy (a trimmed input shifts every line and column).
func sourceUnmodifiedRule(p *core.Program, r *core.Report, rule string) {
	type hop struct{ rel, fn, calleeRel, callee string }
	hops := []hop{{"", "Compile", "parser", "Parse"}, {"", "Eval", "parser", "Parse"}, {"parser", "Parse", "file", "NewSource"}}
	for _, h := range hops {
		fd := p.FuncDecl(h.rel, "", h.fn)
		key := core.FuncName(h.rel, &ast.FuncDecl{Name: ast.NewIdent(h.fn)}) + "/source text reaches the lexer unmodified"
		if fd == nil || fd.Body == nil || fd.Type.Params == nil || len(fd.Type.Params.List) == 0 {
			r.Unk(rule, key, "", "function not found")
			continue
		}
		info := p.Pkg(h.rel).TypesInfo
		param := info.Defs[fd.Type.Params.List[0].Names[0]]
		target := p.Pkg(h.calleeRel).Types.Scope().Lookup(h.callee)
		n, ok := 0, true
		arg := ""
		reassigned := false
		ast.Inspect(fd.Body, func(nd ast.Node) bool {
			switch x := nd.(type) {
			case *ast.AssignStmt:
				for _, l := range x.Lhs {
					if id, isID := l.(*ast.Ident); isID && objOf(info, id) == param {
						reassigned = true
					}
				}
			case *ast.CallExpr:
				if fn := eng.CalleeOf(info, x); fn != nil && types.Object(fn) == target && len(x.Args) >= 1 {
					n++
					id, isID := eng.Unparen(x.Args[0]).(*ast.Ident)
					if !isID || objOf(info, id) != param {
						ok, arg = false, eng.ExprStr(x.Args[0])
					}
				}
			}
			return true
		})
		if n == 0 {
			r.Unk(rule, key, p.Pos(fd.Pos()), "no call of "+h.callee)
			continue
		}
		r.Check(ok && !reassigned, rule, key, p.Pos(fd.Pos()), h.callee+"(input) with the parameter itself", h.fn+" hands `"+arg+"` (or a reassigned parameter) to "+h.callee+" instead of the text it was given: every token, node and error position is then relative to the transformed text, not to what the caller wrote")
	}
}
