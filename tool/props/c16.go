package props

import (
	"fmt"
	"go/ast"
	"go/token"
	"go/types"
	"sort"
	"strings"

	"verif/exprlint/core"
	"verif/exprlint/eng"
)

// C16 — agreement of the compile-time name table with the run-time reflective lookup over all
// environment types is not decidable statically (two implementations of Go's member-resolution
// rules over arbitrary type shapes). Decided are the clauses whose truth is in the shape of the
// two implementations.

func init() {
	register(&Prop{ID: "C16", Run: runC16, Controls: c16Controls})
}

// fieldLoops: in fd, variables bound to `X.Field(i)` of a reflect.Type inside a counted loop.
type fieldVar struct {
	obj  types.Object
	loop *ast.ForStmt
	name string
}

func fieldVars(info *types.Info, fd *ast.FuncDecl) []fieldVar {
	var out []fieldVar
	var loops []*ast.ForStmt
	ast.Inspect(fd.Body, func(n ast.Node) bool {
		if n == nil {
			return true
		}
		if fs, ok := n.(*ast.ForStmt); ok {
			loops = append(loops, fs)
		}
		return true
	})
	for _, fs := range loops {
		for _, st := range fs.Body.List {
			as, ok := st.(*ast.AssignStmt)
			if !ok || len(as.Lhs) != 1 || len(as.Rhs) != 1 {
				continue
			}
			c, ok := eng.Unparen(as.Rhs[0]).(*ast.CallExpr)
			if !ok {
				continue
			}
			sel, ok := c.Fun.(*ast.SelectorExpr)
			if !ok || sel.Sel.Name != "Field" {
				continue
			}
			if t := info.TypeOf(as.Rhs[0]); t == nil || !strings.HasSuffix(t.String(), "reflect.StructField") {
				continue
			}
			if id, ok := as.Lhs[0].(*ast.Ident); ok {
				out = append(out, fieldVar{objOf(info, id), fs, id.Name})
			}
		}
	}
	return out
}

// mentionsExported: the expression tests the exportedness of field variable v.
func mentionsExported(info *types.Info, e ast.Expr, v types.Object) bool {
	// e is an atom known to hold: f.PkgPath == "" (either way round) or f.IsExported()
	isV := func(x ast.Expr) bool {
		id, ok := eng.Unparen(x).(*ast.Ident)
		return ok && objOf(info, id) == v
	}
	switch x := eng.Unparen(e).(type) {
	case *ast.BinaryExpr:
		if x.Op == token.EQL {
			for _, side := range [][2]ast.Expr{{x.X, x.Y}, {x.Y, x.X}} {
				if sel, ok := eng.Unparen(side[0]).(*ast.SelectorExpr); ok && sel.Sel.Name == "PkgPath" && isV(sel.X) {
					if s, ok := constStringOf(info, side[1]); ok && s == "" {
						return true
					}
				}
			}
		}
	case *ast.CallExpr:
		if sel, ok := x.Fun.(*ast.SelectorExpr); ok && sel.Sel.Name == "IsExported" && isV(sel.X) {
			return true
		}
	}
	return false
}

func runC16(p *core.Program, r *core.Report) {
	r.Explanation = "Decides the clauses of name agreement that are visible in the shape of the two implementations (the compile-time table and typing helpers; the VM's reflective fetch): (R16.1) EXPORT FILTER — every place that enumerates the fields of a struct type and publishes a field's name as an accepted name (a table entry keyed by it, or a successful lookup result for it) tests that the field is exported, because the VM's fetch returns only values it may export; (R16.2) MEMBER CLASSES — the classes of members the static resolver accepts for a bare identifier are classes the run-time resolver of that instruction looks up: the table holds fields, map entries and methods (tagged), the identifier's fetch consults fields and map entries only, so the identifier rule must reject method-tagged entries; the function-call rule may accept all three because its resolver tries methods, map entries and fields; (R16.3) ONE TABLE — the documentation generator derives its variables from the same types table, skips exactly the ambiguous entries, and adds only its two constant tables, whose keys are operators and builtins the parser knows; (R16.4) METHODS OF THE VALUE AS PASSED — the table enumerates the methods of the environment's type as it was passed (not of a pointer to it), because the VM looks methods up on the value as passed; (R16.5) DEPTH PRIORITY — a struct's own fields win over promoted ones wherever they are declared: the table stores own fields after all embedded merges, and the typing helpers examine all own fields before recursing into any embedded struct."
	r.NotDecided = []string{"agreement of the two resolvers over all type shapes (embedding depth beyond own-vs-promoted, pointer receivers of embedded values, shadowing among embedded structs at different depths)", "that a resolved name yields a value of the type the checker assumed", "names of map environments (taken from the sample value's keys)"}
	nk, msg := eng.FindNodeKinds(p)
	if nk == nil {
		r.Unk("R16.1", "node kinds", "", msg)
		return
	}
	c16Export(p, r)
	c16Classes(p, r)
	c16Doc(p, r)
	c16Methods(p, r)
	c16Depth(p, r)
	sharedRecursionStateRule(p, r, "R16.5", "conf", "checker")
	r.Floor("R16.1", 3)
	r.Floor("R16.2", 2)
	r.Floor("R16.3", 4)
	r.Floor("R16.4", 2)
	r.Floor("R16.5", 3)
}

// publications of a field variable's name in fd: map stores keyed by f.Name, and successful
// name matches (`f.Name == name` guarding a return whose last result is true).
type publication struct {
	node  ast.Node
	how   string
	guard []ast.Expr // conditions of the enclosing ifs inside the loop (and the match condition itself)
}

func publications(info *types.Info, fd *ast.FuncDecl, fv fieldVar) []publication {
	var out []publication
	isName := func(e ast.Expr) bool {
		sel, ok := eng.Unparen(e).(*ast.SelectorExpr)
		if !ok || sel.Sel.Name != "Name" {
			return false
		}
		id, ok := eng.Unparen(sel.X).(*ast.Ident)
		return ok && objOf(info, id) == fv.obj
	}
	var stack []ast.Node
	ast.Inspect(fv.loop.Body, func(n ast.Node) bool {
		if n == nil {
			stack = stack[:len(stack)-1]
			return true
		}
		stack = append(stack, n)
		// what holds here: enclosing tests and earlier guard clauses, as atoms
		var guards []ast.Expr
		switch n.(type) {
		case *ast.AssignStmt, *ast.IfStmt:
			guards = eng.FactsAt(fv.loop.Body, n)
		}
		switch x := n.(type) {
		case *ast.AssignStmt:
			for _, l := range x.Lhs {
				if ix, ok := l.(*ast.IndexExpr); ok && isName(ix.Index) {
					out = append(out, publication{x, "table entry keyed by " + fv.name + ".Name", guards})
				}
			}
		case *ast.IfStmt:
			matches := false
			ast.Inspect(x.Cond, func(m ast.Node) bool {
				if b, ok := m.(*ast.BinaryExpr); ok && b.Op == token.EQL && (isName(b.X) || isName(b.Y)) {
					matches = true
				}
				return true
			})
			if !matches {
				return true
			}
			succeeds := false
			ast.Inspect(x.Body, func(m ast.Node) bool {
				if rs, ok := m.(*ast.ReturnStmt); ok && len(rs.Results) >= 2 {
					if tv, ok := info.Types[rs.Results[len(rs.Results)-1]]; ok && tv.Value != nil && tv.Value.ExactString() == "true" {
						succeeds = true
					}
				}
				return true
			})
			if succeeds {
				out = append(out, publication{x, "successful lookup of " + fv.name + ".Name", append(append([]ast.Expr{}, guards...), eng.Conjuncts(x.Cond, false)...)})
			}
		}
		return true
	})
	return out
}

func c16Export(p *core.Program, r *core.Report) {
	n := 0
	for _, rel := range []string{"conf", "checker"} {
		info := p.Pkg(rel).TypesInfo
		for _, fd := range p.FuncDecls(rel) {
			if fd.Body == nil {
				continue
			}
			for _, fv := range fieldVars(info, fd) {
				for i, pub := range publications(info, fd, fv) {
					n++
					key := fmt.Sprintf("%s/%s#%d is exported", core.FuncName(rel, fd), pub.how, i+1)
					ok := false
					for _, g := range pub.guard {
						if mentionsExported(info, g, fv.obj) {
							ok = true
						}
					}
					r.Check(ok, "R16.1", key, p.Pos(pub.node.Pos()), "under a test of "+fv.name+".PkgPath == \"\"",
						"a struct field's name is published as an accepted name without a test that the field is exported: the checker accepts `private` for a struct with an unexported field of that name, and the VM's fetch — which returns only values it may export (CanInterface) — fails with `cannot fetch private`")
				}
			}
		}
	}
	r.Analysed["field_name_publications"] = n
}

// resolverClasses: which member classes a run-time resolver consults.
func resolverClasses(p *core.Program, name string) (map[string]bool, *ast.FuncDecl) {
	fd := p.FuncDecl("vm", "", name)
	if fd == nil || fd.Body == nil {
		return nil, nil
	}
	out := map[string]bool{}
	ast.Inspect(fd.Body, func(n ast.Node) bool {
		c, ok := n.(*ast.CallExpr)
		if !ok {
			return true
		}
		if sel, ok := c.Fun.(*ast.SelectorExpr); ok {
			switch sel.Sel.Name {
			case "MethodByName":
				out["method"] = true
			case "FieldByName":
				out["field"] = true
			case "MapIndex":
				out["map entry"] = true
			}
		}
		return true
	})
	return out, fd
}

func c16Classes(p *core.Program, r *core.Report) {
	info := p.Pkg("checker").TypesInfo
	// run-time resolvers by role: the helper the identifier-fetch handler calls, and the one the call handlers call
	fetch, _ := resolverClasses(p, "fetch")
	fetchFn, _ := resolverClasses(p, "FetchFn")
	if fetch == nil || fetchFn == nil {
		r.Unk("R16.2", "run-time resolvers", "", "vm.fetch / vm.FetchFn not found")
		return
	}
	cls := func(m map[string]bool) string {
		var s []string
		for k := range m {
			s = append(s, k)
		}
		sort.Strings(s)
		return strings.Join(s, ", ")
	}
	r.Analysed["fetch_classes"] = cls(fetch)
	r.Analysed["fetchfn_classes"] = cls(fetchFn)
	// the table's classes: what CreateTypesTable stores
	table := map[string]bool{}
	if fd := p.FuncDecl("conf", "", "CreateTypesTable"); fd != nil {
		cinfo := p.Pkg("conf").TypesInfo
		ast.Inspect(fd.Body, func(n ast.Node) bool {
			switch x := n.(type) {
			case *ast.CompositeLit:
				if t := cinfo.TypeOf(x); t != nil && strings.HasSuffix(t.String(), "conf.Tag") {
					isMethod := false
					for _, el := range x.Elts {
						if kv, ok := el.(*ast.KeyValueExpr); ok && eng.ExprStr(kv.Key) == "Method" && eng.ExprStr(kv.Value) == "true" {
							isMethod = true
						}
					}
					if isMethod {
						table["method"] = true
					}
				}
			case *ast.CallExpr:
				if fn := eng.CalleeOf(cinfo, x); fn != nil && fn.Name() == "FieldsFromStruct" {
					table["field"] = true
				}
				if sel, ok := x.Fun.(*ast.SelectorExpr); ok && sel.Sel.Name == "MapKeys" {
					table["map entry"] = true
				}
			}
			return true
		})
	}
	r.Analysed["table_classes"] = cls(table)
	// identifier rule: on every path that returns the looked-up entry's type, method-tagged
	// entries have been excluded, unless the identifier's resolver looks methods up
	idfd := p.FuncDecl("checker", "visitor", "IdentifierNode")
	if idfd == nil {
		r.Unk("R16.2", "checker.(visitor).IdentifierNode", "", "not found")
		return
	}
	w := &eng.Walker{Info: info, MaxPaths: 4000}
	bad := ""
	n := 0
	for _, atoms := range flattenPaths(w.Func(idfd.Body), 20000) {
		for i, a := range atoms {
			if a.Kind != "return" {
				continue
			}
			rs := a.Node.(*ast.ReturnStmt)
			if len(rs.Results) != 1 {
				break
			}
			sel, ok := eng.Unparen(rs.Results[0]).(*ast.SelectorExpr)
			if !ok || sel.Sel.Name != "Type" {
				break
			}
			if t := info.TypeOf(sel.X); t == nil || !strings.HasSuffix(t.String(), "conf.Tag") {
				break
			}
			n++
			excluded := false
			for _, b := range atoms[:i] {
				if b.Kind == "cond" && strings.HasSuffix(eng.ExprStr(b.Node), ".Method") && !b.Taken {
					excluded = true
				}
			}
			if !excluded {
				bad = p.Pos(rs.Pos())
			}
			break
		}
	}
	if n == 0 {
		r.Unk("R16.2", "checker.(visitor).IdentifierNode/accepts only classes the fetch instruction resolves", p.Pos(idfd.Pos()), "no path returns the table entry's type")
	} else if table["method"] && !fetch["method"] {
		r.Check(bad == "", "R16.2", "checker.(visitor).IdentifierNode/accepts only classes the fetch instruction resolves", p.Pos(idfd.Pos()), "method-tagged entries are rejected before the entry's type is returned (fetch resolves: "+cls(fetch)+")",
			"the types table holds "+cls(table)+"; a bare identifier is executed by fetch, which resolves only "+cls(fetch)+"; the identifier rule returns the entry's type at "+bad+" without excluding method-tagged entries: `Foo` for a method Foo compiles and fails at run time with `cannot fetch Foo`")
	} else {
		r.OK("R16.2", "checker.(visitor).IdentifierNode/accepts only classes the fetch instruction resolves", p.Pos(idfd.Pos()), "every class of the table is resolved by fetch")
	}
	// priority: where a name is both a method and a field / map entry, the table's entry is the
	// METHOD (the method loop runs after the fields were stored and overwrites them), so the call
	// resolver must try the method first
	if cfd := p.FuncDecl("conf", "", "CreateTypesTable"); cfd != nil {
		cinfo := p.Pkg("conf").TypesInfo
		// order of "fields stored" and "methods stored" along one execution: within the switch
		// clause that stores the struct's fields (clauses of a switch are alternatives, their
		// textual order means nothing), else within the whole body
		unexportedHelper := func(fn *types.Func, _ *ast.FuncDecl) bool { return !fn.Exported() }
		orderIn := func(root ast.Node) (int, int) {
			fieldsPos, methodPos := 0, 0
			eng.InspectInlined(p, cinfo, p.Pkg("conf").Types, root, 2, unexportedHelper, func(n ast.Node, _ *eng.InlineCtx, seq int) bool {
				switch x := n.(type) {
				case *ast.CallExpr:
					if fn := eng.CalleeOf(cinfo, x); fn != nil && fn.Name() == "FieldsFromStruct" && fieldsPos == 0 {
						fieldsPos = seq
					}
				case *ast.CompositeLit:
					if t := cinfo.TypeOf(x); t != nil && strings.HasSuffix(t.String(), "conf.Tag") && methodPos == 0 {
						for _, el := range x.Elts {
							if kv, ok := el.(*ast.KeyValueExpr); ok && eng.ExprStr(kv.Key) == "Method" {
								methodPos = seq
							}
						}
					}
				}
				return true
			})
			return fieldsPos, methodPos
		}
		fieldsPos, methodPos := 0, 0
		ast.Inspect(cfd.Body, func(n ast.Node) bool {
			if cc, ok := n.(*ast.CaseClause); ok && fieldsPos == 0 {
				if f, m := orderIn(cc); f > 0 {
					fieldsPos, methodPos = f, m
				}
			}
			return true
		})
		if fieldsPos == 0 {
			fieldsPos, methodPos = orderIn(cfd.Body)
		}
		staticMethodWins := fieldsPos > 0 && methodPos > fieldsPos
		_, ffd := resolverClasses(p, "FetchFn")
		var mPos, otherPos token.Pos
		ast.Inspect(ffd.Body, func(n ast.Node) bool {
			if c, ok := n.(*ast.CallExpr); ok {
				if sel, ok := c.Fun.(*ast.SelectorExpr); ok {
					switch sel.Sel.Name {
					case "MethodByName":
						if !mPos.IsValid() {
							mPos = c.Pos()
						}
					case "FieldByName", "MapIndex":
						if !otherPos.IsValid() {
							otherPos = c.Pos()
						}
					}
				}
			}
			return true
		})
		if staticMethodWins {
			r.Check(mPos.IsValid() && otherPos.IsValid() && mPos < otherPos, "R16.2", "vm.FetchFn/a method wins over a field or map entry of the same name, as in the types table", p.Pos(ffd.Pos()), "MethodByName is consulted first",
				"the types table resolves a name that is both a method and a func-valued field or map entry to the METHOD (and the checker types the call with the method's signature), but the call resolver looks the field / map entry up first: the call runs another function than the one that was type-checked")
		} else {
			r.Unk("R16.2", "conf.CreateTypesTable/priority between methods and fields", p.Pos(cfd.Pos()), "cannot establish which class wins in the types table (expected: fields stored first, methods stored after and overwriting)")
		}
	}
	// function-call rule: table classes ⊆ FetchFn classes
	var missing []string
	for c := range table {
		if !fetchFn[c] {
			missing = append(missing, c)
		}
	}
	sort.Strings(missing)
	r.Check(len(missing) == 0, "R16.2", "checker.(visitor).FunctionNode/accepts only classes the call instruction resolves", "", "table classes ("+cls(table)+") ⊆ FetchFn classes ("+cls(fetchFn)+")", "the call resolver FetchFn does not look up "+strings.Join(missing, ", ")+", which the table offers to the function-call rule")
}

func c16Doc(p *core.Program, r *core.Report) {
	fd := p.FuncDecl("docgen", "", "CreateDoc")
	if fd == nil || fd.Body == nil {
		r.Unk("R16.3", "docgen.CreateDoc", "", "not found")
		return
	}
	info := p.Pkg("docgen").TypesInfo
	tableFn := p.Pkg("conf").Types.Scope().Lookup("CreateTypesTable")
	// stores into the Variables map
	type store struct {
		as   *ast.AssignStmt
		loop *ast.RangeStmt
	}
	var stores []store
	var stack []ast.Node
	ast.Inspect(fd.Body, func(n ast.Node) bool {
		if n == nil {
			stack = stack[:len(stack)-1]
			return true
		}
		stack = append(stack, n)
		as, ok := n.(*ast.AssignStmt)
		if !ok || len(as.Lhs) != 1 {
			return true
		}
		ix, ok := as.Lhs[0].(*ast.IndexExpr)
		if !ok || !strings.HasSuffix(eng.ExprStr(ix.X), ".Variables") {
			return true
		}
		var loop *ast.RangeStmt
		for _, anc := range stack {
			if rs, ok := anc.(*ast.RangeStmt); ok {
				loop = rs
			}
		}
		stores = append(stores, store{as, loop})
		return true
	})
	nTable := 0
	for i, st := range stores {
		key := fmt.Sprintf("docgen.CreateDoc/documented names#%d", i+1)
		pos := p.Pos(st.as.Pos())
		if st.loop == nil {
			r.Bad("R16.3", key, pos, "a variable is documented outside a loop over a table of names")
			continue
		}
		src := eng.Unparen(st.loop.X)
		if c, ok := src.(*ast.CallExpr); ok {
			if fn := eng.CalleeOf(info, c); fn != nil && types.Object(fn) == tableFn {
				nTable++
				// skips ambiguous entries
				// what holds at the store includes "not ambiguous" (a guard clause that continues,
				// or an enclosing `if !tag.Ambiguous {…}`)
				skips := false
				for _, f := range eng.FactsAt(st.loop.Body, st.as) {
					if u, ok := eng.Unparen(f).(*ast.UnaryExpr); ok && u.Op == token.NOT && strings.HasSuffix(eng.ExprStr(u.X), ".Ambiguous") {
						skips = true
					}
				}
				r.Check(skips, "R16.3", key, pos, "names of conf.CreateTypesTable, ambiguous entries skipped", "the documentation lists the entries of the types table without skipping ambiguous ones: a name the checker rejects as ambiguous is documented")
				continue
			}
			r.Bad("R16.3", key, pos, "documented names come from `"+eng.ExprStr(src)+"`, not from the types table the checker uses: the documentation and the checker can disagree on the accepted names")
			continue
		}
		// a constant table of the package: its keys must be names the parser knows
		id, ok := src.(*ast.Ident)
		if !ok {
			r.Bad("R16.3", key, pos, "documented names come from `"+eng.ExprStr(src)+"`")
			continue
		}
		keys := docTableKeys(p, id)
		if keys == nil {
			r.Unk("R16.3", key, pos, "cannot read the constant table "+id.Name)
			continue
		}
		known := map[string]bool{"true": true, "false": true, "nil": true}
		for k := range parserBuiltinArity(p) {
			known[k] = true
		}
		for _, t := range readOpTables(p) {
			for k := range t.entries {
				known[k] = true
			}
		}
		var unknown []string
		for _, k := range keys {
			if !known[k] {
				unknown = append(unknown, k)
			}
		}
		r.Check(len(unknown) == 0, "R16.3", key, pos, fmt.Sprintf("constant table %s: %d names, all known to the parser", id.Name, len(keys)), "the documentation's constant table "+id.Name+" lists "+strings.Join(unknown, ", ")+", which the parser does not know as operator, builtin or literal")
	}
	r.Check(nTable == 1, "R16.3", "docgen.CreateDoc/variables come from the checker's types table", p.Pos(fd.Pos()), "one loop over conf.CreateTypesTable", fmt.Sprintf("%d loops over conf.CreateTypesTable document variables", nTable))
}

func docTableKeys(p *core.Program, id *ast.Ident) []string {
	pk := p.Pkg("docgen")
	info := pk.TypesInfo
	obj := info.Uses[id]
	for _, f := range pk.Syntax {
		for _, d := range f.Decls {
			gd, ok := d.(*ast.GenDecl)
			if !ok {
				continue
			}
			for _, sp := range gd.Specs {
				vs, ok := sp.(*ast.ValueSpec)
				if !ok {
					continue
				}
				for i, nm := range vs.Names {
					if info.Defs[nm] != obj || i >= len(vs.Values) {
						continue
					}
					cl, ok := eng.Unparen(vs.Values[i]).(*ast.CompositeLit)
					if !ok {
						return nil
					}
					var keys []string
					for _, el := range cl.Elts {
						e := el
						if kv, ok := el.(*ast.KeyValueExpr); ok {
							e = kv.Key
						}
						s, ok := constStringOf(info, e)
						if !ok {
							return nil
						}
						keys = append(keys, s)
					}
					return keys
				}
			}
		}
	}
	return nil
}

// c16Methods (R16.4): X.NumMethod()/X.Method(i) in the table builder: X is reflect.TypeOf(<param>), never reassigned.
func c16Methods(p *core.Program, r *core.Report) {
	fd := p.FuncDecl("conf", "", "CreateTypesTable")
	if fd == nil || fd.Body == nil || fd.Type.Params == nil || fd.Type.Params.NumFields() != 1 {
		r.Unk("R16.4", "conf.CreateTypesTable", "", "not found")
		return
	}
	info := p.Pkg("conf").TypesInfo
	param := info.Defs[fd.Type.Params.List[0].Names[0]]
	defs := map[types.Object][]ast.Expr{}
	ast.Inspect(fd.Body, func(n ast.Node) bool {
		if as, ok := n.(*ast.AssignStmt); ok && len(as.Lhs) == len(as.Rhs) {
			for i, l := range as.Lhs {
				if id, ok := l.(*ast.Ident); ok {
					defs[objOf(info, id)] = append(defs[objOf(info, id)], as.Rhs[i])
				}
			}
		}
		return true
	})
	n := 0
	eng.InspectInlined(p, info, p.Pkg("conf").Types, fd.Body, 2, func(fn *types.Func, _ *ast.FuncDecl) bool { return !fn.Exported() }, func(nd ast.Node, ctx *eng.InlineCtx, _ int) bool {
		c, ok := nd.(*ast.CallExpr)
		if !ok {
			return true
		}
		sel, ok := c.Fun.(*ast.SelectorExpr)
		if !ok || sel.Sel.Name != "Method" || len(c.Args) != 1 {
			return true
		}
		if t := info.TypeOf(sel.X); t == nil || !strings.HasSuffix(t.String(), "reflect.Type") {
			return true
		}
		n++
		key := fmt.Sprintf("conf.CreateTypesTable/method enumeration#%d is over the type of the value as passed", n)
		recv, _ := ctx.Resolve(info, sel.X) // through the parameters of an extracted helper
		id, isID := eng.Unparen(recv).(*ast.Ident)
		ok2 := false
		why := "the receiver `" + eng.ExprStr(recv) + "` is not a variable"
		if isID {
			ds := defs[objOf(info, id)]
			why = fmt.Sprintf("`%s` has %d definitions", id.Name, len(ds))
			if len(ds) == 0 {
				why = "`" + id.Name + "` is a parameter that the helper itself reassigns, or is not a variable of the table builder"
			}
			if len(ds) == 1 {
				if dc, ok := eng.Unparen(ds[0]).(*ast.CallExpr); ok && len(dc.Args) == 1 {
					fn := eng.CalleeOf(info, dc)
					aid, isA := eng.Unparen(dc.Args[0]).(*ast.Ident)
					if fn != nil && fn.Pkg() != nil && fn.Pkg().Path() == "reflect" && fn.Name() == "TypeOf" && isA && objOf(info, aid) == param {
						ok2 = true
					} else {
						why = "`" + id.Name + "` is `" + eng.ExprStr(ds[0]) + "`"
					}
				}
			}
		}
		r.Check(ok2, "R16.4", key, p.Pos(c.Pos()), "reflect.TypeOf(env), assigned once", "the table's methods are enumerated from a type other than reflect.TypeOf of the environment as passed ("+why+"): for a struct passed by value the method set of *T contains pointer-receiver methods that the VM — which calls MethodByName on the value as passed — cannot find: accepted at compile time, `cannot get` at run time")
		return true
	})
	if n == 0 {
		r.Unk("R16.4", "conf.CreateTypesTable/method enumeration", p.Pos(fd.Pos()), "no enumeration of methods found")
	}
}

// c16Depth (R16.5).
func c16Depth(p *core.Program, r *core.Report) {
	n := 0
	for _, rel := range []string{"conf", "checker"} {
		info := p.Pkg(rel).TypesInfo
		for _, fd := range p.FuncDecls(rel) {
			if fd.Body == nil {
				continue
			}
			self, _ := info.Defs[fd.Name].(*types.Func)
			fvs := fieldVars(info, fd)
			if len(fvs) == 0 {
				continue
			}
			// loops that recurse (call self) and loops that publish own names
			type li struct {
				loop               *ast.ForStmt
				recurses, ownNames bool
			}
			var infos []li
			seen := map[*ast.ForStmt]bool{}
			for _, fv := range fvs {
				if seen[fv.loop] {
					continue
				}
				seen[fv.loop] = true
				x := li{loop: fv.loop}
				ast.Inspect(fv.loop.Body, func(m ast.Node) bool {
					if c, ok := m.(*ast.CallExpr); ok && eng.CalleeOf(info, c) == self {
						x.recurses = true
					}
					return true
				})
				x.ownNames = len(publications(info, fd, fv)) > 0
				infos = append(infos, x)
			}
			anyRec := false
			for _, x := range infos {
				if x.recurses {
					anyRec = true
				}
			}
			if !anyRec {
				continue
			}
			n++
			fname := core.FuncName(rel, fd)
			// table builders (map stores): own names stored in a loop AFTER every recursing loop
			// lookups (successful returns): own names examined in a loop BEFORE every recursing loop
			isBuilder := false
			ast.Inspect(fd.Body, func(m ast.Node) bool {
				if as, ok := m.(*ast.AssignStmt); ok {
					for _, l := range as.Lhs {
						if _, ok := l.(*ast.IndexExpr); ok {
							isBuilder = true
						}
					}
				}
				return true
			})
			okOrder := true
			why := ""
			for _, own := range infos {
				if !own.ownNames {
					continue
				}
				if own.recurses {
					okOrder, why = false, "the loop that publishes the struct's own field names also recurses into embedded structs"
				}
				for _, rec := range infos {
					if !rec.recurses || rec.loop == own.loop {
						continue
					}
					if isBuilder && own.loop.Pos() < rec.loop.Pos() {
						okOrder, why = false, "own fields are stored before the promoted names are merged"
					}
					if !isBuilder && own.loop.Pos() > rec.loop.Pos() {
						okOrder, why = false, "embedded structs are searched before all own fields have been examined"
					}
				}
			}
			what := "all own fields are examined before any embedded struct is searched"
			cons := "a field promoted from an embedded struct wins over the struct's own field of the same name when the embedded struct is declared first: the checker assumes the promoted field's type while the VM's FieldByName (and Go) resolve the own field"
			if isBuilder {
				what = "own fields are stored after all promoted names were merged"
				cons = "a struct's own field that is declared BEFORE an embedded struct with a field of the same name is marked ambiguous by the merge (the name is already in the table): `X` is rejected as ambiguous although Go and the VM resolve it to the outer field"
			}
			r.Check(okOrder, "R16.5", fname+"/own fields win over promoted ones", p.Pos(fd.Pos()), what, why+": "+cons)
		}
	}
	r.Analysed["depth_priority_functions"] = n
}

func c16Controls() []core.Mutant {
	return []core.Mutant{
		{Name: "refactor: export filter as a guard clause", File: "conf/types_table.go", Old: "\t\t\tif f.PkgPath == \"\" { // exported\n\t\t\t\ttypes[f.Name] = Tag{Type: f.Type}\n\t\t\t}\n", New: "\t\t\tif f.PkgPath != \"\" {\n\t\t\t\tcontinue\n\t\t\t}\n\t\t\ttypes[f.Name] = Tag{Type: f.Type}\n", Silent: true},
		{Name: "table publishes unexported fields again", File: "conf/types_table.go", Old: "\t\t\tif f.PkgPath == \"\" { // exported\n\t\t\t\ttypes[f.Name] = Tag{Type: f.Type}\n\t\t\t}", New: "\t\t\ttypes[f.Name] = Tag{Type: f.Type}", Rule: "R16.1", Construct: "conf.FieldsFromStruct"},
		{Name: "property lookup accepts unexported fields", File: "checker/types.go", Old: "\t\t\t\tif f.Name == name && f.PkgPath == \"\" {\n\t\t\t\t\treturn f.Type, true", New: "\t\t\t\tif f.Name == name {\n\t\t\t\t\treturn f.Type, true", Rule: "R16.1", Construct: "checker.fieldType"},
		{Name: "method name accepted as a bare identifier", File: "checker/checker.go", Old: "\t\tif t.Method {\n\t\t\t// The VM fetches fields and map entries only; a method can only be called.\n\t\t\treturn v.error(node, \"method %v used as a value, not called\", node.Value)\n\t\t}\n", New: "", Rule: "R16.2", Construct: "IdentifierNode"},
		{Name: "call resolver tries the field before the method", File: "vm/runtime.go", Old: "\t// Methods can be defined on any type.\n\tif v.NumMethod() > 0 {\n\t\tmethod := v.MethodByName(name)\n\t\tif method.IsValid() {\n\t\t\treturn method\n\t\t}\n\t}\n\n\td := v", New: "\td := v", Edits: [][2]string{{"\tpanic(fmt.Sprintf(`cannot get \"%v\" from %T`, name, from))", "\tif v.NumMethod() > 0 {\n\t\tmethod := v.MethodByName(name)\n\t\tif method.IsValid() {\n\t\t\treturn method\n\t\t}\n\t}\n\tpanic(fmt.Sprintf(`cannot get \"%v\" from %T`, name, from))"}}, Rule: "R16.2", Construct: "a method wins"},
		{Name: "documentation enumerates fields itself", File: "docgen/docgen.go", Old: "\tfor name, t := range conf.CreateTypesTable(i) {", New: "\tfor name, t := range conf.FieldsFromStruct(reflect.TypeOf(i)) {", Rule: "R16.3", Construct: "docgen.CreateDoc"},
		{Name: "ambiguous names documented", File: "docgen/docgen.go", Old: "\t\tif t.Ambiguous {\n\t\t\tcontinue\n\t\t}\n", New: "", Rule: "R16.3", Construct: "documented names"},
		{Name: "methods gathered through the pointer type", File: "conf/types_table.go", Old: "\tcase reflect.Struct:\n\t\ttypes = FieldsFromStruct(d)\n", New: "\tcase reflect.Struct:\n\t\ttypes = FieldsFromStruct(d)\n\t\tt = reflect.PtrTo(d)\n", Rule: "R16.4", Construct: "method enumeration"},
		{Name: "field lookup merges the own-field and the embedded pass", File: "checker/types.go", Old: "\t\t\t\tif f.Name == name && f.PkgPath == \"\" {\n\t\t\t\t\treturn f.Type, true\n\t\t\t\t}\n\t\t\t}\n\n\t\t\t// Second check fields of embedded structs.\n\t\t\tfor i := 0; i < ntype.NumField(); i++ {\n\t\t\t\tf := ntype.Field(i)\n\t\t\t\tif f.Anonymous {", New: "\t\t\t\tif f.Name == name && f.PkgPath == \"\" {\n\t\t\t\t\treturn f.Type, true\n\t\t\t\t}\n\t\t\t\tif f.Anonymous {", Edits: [][2]string{{"\t\t\t\t\tif t, ok := fieldType(f.Type, name); ok {\n\t\t\t\t\t\treturn t, true\n\t\t\t\t\t}\n\t\t\t\t}\n\t\t\t}\n\t\tcase reflect.Map:", "\t\t\t\t\tif t, ok := fieldType(f.Type, name); ok {\n\t\t\t\t\t\treturn t, true\n\t\t\t\t\t}\n\t\t\t\t}\n\t\t\t}\n\t\t\t_ = 0\n\t\tcase reflect.Map:"}}, Rule: "R16.5", Construct: "checker.fieldType"},
		{Name: "own fields no longer filtered (control for the guard-clause reader)", File: "conf/types_table.go", Old: "\t\t\tif f.PkgPath == \"\" { // exported\n\t\t\t\ttypes[f.Name] = Tag{Type: f.Type}\n\t\t\t}\n", New: "\t\t\tif f.PkgPath != \"\" {\n\t\t\t\t_ = f\n\t\t\t}\n\t\t\ttypes[f.Name] = Tag{Type: f.Type}\n", Rule: "R16.1", Construct: "table entry keyed by"},
	}
}
