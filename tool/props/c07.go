package props

import (
	"fmt"
	"go/ast"
	"go/token"
	"go/types"
	"sort"
	"strings"

	"verif/exprlint/core"
	"verif/exprlint/eng"
)

func init() {
	register(&Prop{ID: "C07", Run: runC07, Controls: c07Controls})
}

// vmFieldOf: e selects a field of the VM struct; returns the field.
func vmFieldOf(info *types.Info, vmType *types.Named, e ast.Expr) *types.Var {
	sel, ok := eng.Unparen(e).(*ast.SelectorExpr)
	if !ok {
		return nil
	}
	s := info.Selections[sel]
	if s == nil || s.Kind() != types.FieldVal {
		return nil
	}
	v, ok := s.Obj().(*types.Var)
	if !ok || !v.IsField() {
		return nil
	}
	rt := s.Recv()
	if pt, ok := rt.(*types.Pointer); ok {
		rt = pt.Elem()
	}
	if n, ok := rt.(*types.Named); !ok || n.Obj() != vmType.Obj() {
		// a field of a record kept in a VM field (vm.budget.used)
		if vmFieldOf(info, vmType, sel.X) != nil {
			return v
		}
		return nil
	}
	return v
}

// fieldWrites lists, per VM field, the positions where a *VM method assigns it.
func fieldWrites(p *core.Program, vm *eng.VMModel) map[*types.Var][]token.Pos {
	info := p.Pkg("vm").TypesInfo
	out := map[*types.Var][]token.Pos{}
	for _, fd := range p.FuncDecls("vm") {
		if fd.Body == nil || core.RecvName(fd) != vm.VMType.Obj().Name() {
			continue
		}
		ast.Inspect(fd.Body, func(n ast.Node) bool {
			switch s := n.(type) {
			case *ast.AssignStmt:
				for _, l := range s.Lhs {
					if f := vmFieldOf(info, vm.VMType, l); f != nil {
						out[f] = append(out[f], l.Pos())
						// writing a record-typed field writes the record's fields
						for nf, parent := range vm.Nested {
							if parent == f {
								out[nf] = append(out[nf], l.Pos())
							}
						}
					}
				}
			case *ast.IncDecStmt:
				if f := vmFieldOf(info, vm.VMType, s.X); f != nil {
					out[f] = append(out[f], s.Pos())
				}
			case *ast.UnaryExpr:
				if s.Op == token.AND {
					if f := vmFieldOf(info, vm.VMType, s.X); f != nil {
						out[f] = append(out[f], s.Pos()) // address taken: treated as written
					}
				}
			}
			return true
		})
	}
	return out
}

// resetResult of the must-assign analysis of a statement list for one field.
type resetResult struct {
	must   bool
	values []ast.Expr // the values assigned on the paths that assign
	why    string
}

// mustReset: on every path through stmts the field is assigned (or is known to hold its zero
// value: the false edge of `field != nil`). *VM method calls are inlined (depth ≤ 2).
func mustReset(info *types.Info, p *core.Program, vm *eng.VMModel, stmts []ast.Stmt, f *types.Var, depth int) resetResult {
	res := resetResult{}
	for _, st := range stmts {
		switch s := st.(type) {
		case *ast.AssignStmt:
			for i, l := range s.Lhs {
				// assigning the record that holds f assigns f
				if lf := vmFieldOf(info, vm.VMType, l); lf == f || (lf != nil && vm.Nested[f] == lf && s.Tok == token.ASSIGN) {
					if s.Tok != token.ASSIGN {
						// op-assign depends on the old value
						res.values = append(res.values, l)
					} else if len(s.Lhs) == len(s.Rhs) {
						res.values = append(res.values, s.Rhs[i])
					} else {
						res.values = append(res.values, s.Rhs[0])
					}
					res.must = true
				}
			}
		case *ast.IfStmt:
			if s.Init != nil {
				continue
			}
			body := mustReset(info, p, vm, s.Body.List, f, depth)
			var els resetResult
			switch e := s.Else.(type) {
			case *ast.BlockStmt:
				els = mustReset(info, p, vm, e.List, f, depth)
			case *ast.IfStmt:
				els = mustReset(info, p, vm, []ast.Stmt{e}, f, depth)
			case nil:
				// `if field != nil { field = … }`: on the false edge the field is nil (zero)
				if b, ok := eng.Unparen(s.Cond).(*ast.BinaryExpr); ok && b.Op == token.NEQ && vmFieldOf(info, vm.VMType, b.X) == f && isNilIdent(info, b.Y) {
					els.must = true
				}
			}
			if body.must && els.must {
				res.must = true
			}
			res.values = append(res.values, body.values...)
			res.values = append(res.values, els.values...)
		case *ast.ExprStmt:
			if depth >= 2 {
				continue
			}
			call, ok := s.X.(*ast.CallExpr)
			if !ok {
				continue
			}
			fn := eng.CalleeOf(info, call)
			if fn == nil {
				continue
			}
			if _, fd := p.DeclOf(fn); fd != nil && fd.Body != nil && core.RecvName(fd) == vm.VMType.Obj().Name() {
				in := mustReset(info, p, vm, fd.Body.List, f, depth+1)
				if in.must {
					res.must = true
				}
				res.values = append(res.values, in.values...)
			}
		}
	}
	return res
}

func isNilIdent(info *types.Info, e ast.Expr) bool {
	id, ok := eng.Unparen(e).(*ast.Ident)
	if !ok {
		return false
	}
	_, isNil := info.Uses[id].(*types.Nil)
	return isNil
}

// historyFree: the value does not depend on what the VM held before: it mentions no VM field,
// except as a zero-length reslice of the field being reset.
func historyFree(info *types.Info, vm *eng.VMModel, f *types.Var, v ast.Expr) (bool, string) {
	v = eng.Unparen(v)
	if sl, ok := v.(*ast.SliceExpr); ok && vmFieldOf(info, vm.VMType, sl.X) == f {
		zero := func(e ast.Expr) bool {
			if e == nil {
				return true
			}
			tv, ok := info.Types[e]
			return ok && tv.Value != nil && tv.Value.ExactString() == "0"
		}
		if zero(sl.Low) && sl.High != nil && zero(sl.High) && sl.Max == nil {
			return true, "zero-length reslice of the field itself"
		}
		return false, "reslice of the old value that keeps elements: " + eng.ExprStr(v)
	}
	bad := ""
	ast.Inspect(v, func(n ast.Node) bool {
		if e, ok := n.(ast.Expr); ok {
			if g := vmFieldOf(info, vm.VMType, e); g != nil {
				bad = g.Name()
			}
		}
		return true
	})
	if bad != "" {
		return false, "the new value is computed from the VM's old state (field " + bad + "): " + eng.ExprStr(v)
	}
	return true, "value independent of earlier runs: " + eng.ExprStr(v)
}

// vmPrologue: the statements of Run before the dispatch loop, and the loop statement.
func vmPrologue(vm *eng.VMModel) (prologue []ast.Stmt, loop ast.Stmt) {
	for _, st := range vm.Run.Body.List {
		contains := false
		ast.Inspect(st, func(n ast.Node) bool {
			if n == ast.Node(vm.Switch) {
				contains = true
			}
			return true
		})
		if contains {
			return prologue, st
		}
		prologue = append(prologue, st)
	}
	return prologue, nil
}

func runC07(p *core.Program, r *core.Report) {
	r.Explanation = "Decides the re-initialisation discipline that makes a run a function of (program, environment, budget) only: the set of VM fields that any *VM method assigns is computed; for each, every path through (*VM).Run from its entry to the dispatch loop assigns the field (or crosses the false edge of `field != nil`), and the assigned value mentions no VM state except as a zero-length reslice of the field itself. Together with the no-shared-write rules of C08 this is the complete argument under the stated assumptions."
	r.NotDecided = []string{"state hidden in the debug channels of vm.Debug() (Run closes them: such VMs are single-use by construction)", "effects of environment functions"}
	vm, msg := eng.BuildVMModel(p)
	if vm == nil {
		r.Unk("R7.1", "vm model", "", msg)
		return
	}
	info := p.Pkg("vm").TypesInfo
	prologue, loop := vmPrologue(vm)
	if loop == nil {
		r.Unk("R7.2", "vm.(VM).Run/dispatch loop", p.Pos(vm.Run.Pos()), "the dispatch loop is not a top-level statement of Run")
		return
	}
	writes := fieldWrites(p, vm)
	var fields []*types.Var
	for f := range writes {
		fields = append(fields, f)
	}
	sort.Slice(fields, func(i, j int) bool { return fields[i].Name() < fields[j].Name() })
	var names []string
	for _, f := range fields {
		names = append(names, f.Name())
		key := "vm.VM." + f.Name()
		r.OK("R7.1", key+"/is per-run state", p.Pos(writes[f][0]), fmt.Sprintf("assigned at %d place(s) in *VM methods", len(writes[f])))
		res := mustReset(info, p, vm, prologue, f, 0)
		if !res.must {
			r.Bad("R7.2", key+"/reset before the dispatch loop", p.Pos(vm.Run.Pos()),
				"field "+f.Name()+" is written during runs but not assigned on every path from Run's entry to the dispatch loop: a later run on the same VM starts from what an earlier run left (for `memory`: earlier successful runs eat the budget of later ones)")
			continue
		}
		r.OK("R7.2", key+"/reset before the dispatch loop", p.Pos(vm.Run.Pos()), "assigned on every path to the loop")
		okAll, why := true, []string{}
		for _, v := range res.values {
			ok, w := historyFree(info, vm, f, v)
			why = append(why, w)
			if !ok {
				okAll = false
			}
		}
		r.Check(okAll, "R7.3", key+"/reset value is history-independent", p.Pos(vm.Run.Pos()), strings.Join(why, "; "), strings.Join(why, "; "))
	}
	r.Analysed["vm_fields_written"] = names
	// fields never assigned by a method keep the value of construction; list them
	var untouched []string
	st := vm.VMType.Underlying().(*types.Struct)
	for i := 0; i < st.NumFields(); i++ {
		if _, w := writes[st.Field(i)]; !w {
			untouched = append(untouched, st.Field(i).Name())
		}
	}
	r.Analysed["vm_fields_only_set_at_construction"] = untouched
	r.Floor("R7.1", 7)
	r.Floor("R7.2", 7)
	r.Floor("R7.3", 7)
}

func c07Controls() []core.Mutant {
	return []core.Mutant{
		{Name: "memory reset removed", File: "vm/vm.go", Old: "\tvm.memory = 0\n", New: "", Rule: "R7.2", Construct: "memory"},
		{Name: "ip reset only when debugging", File: "vm/vm.go", Old: "\tvm.ip = 0\n", New: "\tif vm.debug {\n\t\tvm.ip = 0\n\t}\n", Rule: "R7.2", Construct: "vm.VM.ip"},
		{Name: "stack keeps its contents", File: "vm/vm.go", Old: "vm.stack = vm.stack[0:0]", New: "vm.stack = vm.stack[0:len(vm.stack)]", Rule: "R7.3", Construct: "stack"},
		{Name: "new cached field written by a handler", File: "vm/vm.go", Old: "\tlimit     int\n}", New: "\tlimit     int\n\tlastLen   int\n}", Edits: [][2]string{{"\t\t\tvm.push(length(vm.current()))", "\t\t\tvm.lastLen++\n\t\t\tvm.push(length(vm.current()))"}}, Rule: "R7.2", Construct: "lastLen"},
		{Name: "refactor: prologue moved into a reset method", File: "vm/vm.go", Old: "\tvm.ip = 0\n\tvm.pp = 0\n", New: "\tvm.reset()\n", Edits: [][2]string{{"func (vm *VM) push(value interface{}) {", "func (vm *VM) reset() {\n\tvm.ip = 0\n\tvm.pp = 0\n}\n\nfunc (vm *VM) push(value interface{}) {"}}, Silent: true},
	}
}
