package props

import (
	"fmt"
	"go/ast"
	"go/constant"
	"go/token"
	"go/types"
	"sort"
	"strings"

	"verif/exprlint/core"
	"verif/exprlint/eng"
)

// K3/K5 — reflect.Type preconditions in the unguarded region. The type-level code of the
// checker, the configuration and the passes calls methods on reflect.Type values that panic
// when the value is nil (every method), when the kind does not have the property asked for
// (Elem, Key, NumIn, Out, IsVariadic …) or when an index is out of range (In(i), Out(i)), and it
// hands types to reflect.FuncOf / SliceOf, which panic on nil. None of this is under a recover.
// The rule interprets every function of the unguarded region that obtains types from an opaque
// ORIGIN — the result of the checker's recursion, a node's static type, the Type field of a
// types-table entry — over a universe of model types for each origin, along every syntactic
// path, calling into the helpers it uses (eng/reflmodel.go); an operation that panics on the
// model under some binding, on a path whose conditions are consistent with that binding, is
// reported with the binding. Nothing is executed.

func k3Universe(small bool) []*eng.MT {
	ei := eng.MTEmptyIface
	out := []*eng.MT{nil, eng.MTInt, eng.MTString, eng.MTBool, ei,
		{Kind: "Ptr", Elem: eng.MTInt},
		{Kind: "Slice", Elem: eng.MTInt},
		{Kind: "Struct"},
	}
	if small {
		return out
	}
	out = append(out,
		eng.MTFloat64,
		&eng.MT{Kind: "Map", Key: eng.MTString, Elem: eng.MTInt},
		&eng.MT{Kind: "Array", Elem: eng.MTInt},
		&eng.MT{Kind: "Ptr", Elem: &eng.MT{Kind: "Struct"}},
		&eng.MT{Kind: "Func"}, // func()
		&eng.MT{Kind: "Func", In: []*eng.MT{eng.MTInt}, Out: []*eng.MT{eng.MTInt}},
		&eng.MT{Kind: "Func", In: []*eng.MT{{Kind: "Slice", Elem: ei}}, Variadic: true},                     // func(...interface{})
		&eng.MT{Kind: "Func", In: []*eng.MT{{Kind: "Slice", Elem: ei}}, Out: []*eng.MT{ei}, Variadic: true}, // the fast shape
		&eng.MT{Kind: "Func", In: []*eng.MT{eng.MTInt, eng.MTInt}, Out: []*eng.MT{eng.MTInt, eng.MTInt}},
		&eng.MT{Kind: "Func", In: []*eng.MT{ei}, Out: []*eng.MT{eng.MTBool}}, // a predicate closure
	)
	return out
}

// origins: the opaque type-valued expressions of a function, keyed by their text.
func typeOrigins(p *core.Program, rel string, fd *ast.FuncDecl) map[string]ast.Expr {
	info := p.Pkg(rel).TypesInfo
	out := map[string]ast.Expr{}
	isRT := func(e ast.Expr) bool {
		t := info.TypeOf(e)
		return t != nil && strings.HasSuffix(t.String(), "reflect.Type")
	}
	ast.Inspect(fd.Body, func(n ast.Node) bool {
		switch x := n.(type) {
		case *ast.CallExpr:
			if !isRT(x) {
				return true
			}
			sel, ok := x.Fun.(*ast.SelectorExpr)
			if !ok {
				return true
			}
			// the checker's recursion, and the static type of a node
			if fn := eng.CalleeOf(info, x); fn != nil {
				if sig, ok := fn.Type().(*types.Signature); ok && sig.Recv() != nil {
					switch {
					case fn.Name() == "visit" && len(x.Args) == 1:
						out[eng.ExprStr(x)] = x
					case fn.Name() == "Type" && len(x.Args) == 0 && fn.Pkg() != nil && strings.HasSuffix(fn.Pkg().Path(), "/ast"):
						out[eng.ExprStr(x)] = x
					}
				}
			} else if sel.Sel.Name == "Type" && len(x.Args) == 0 {
				// interface method ast.Node.Type()
				if t := info.TypeOf(sel.X); t != nil && strings.Contains(t.String(), "/ast.") {
					out[eng.ExprStr(x)] = x
				}
			}
		case *ast.SelectorExpr:
			if x.Sel.Name == "Type" && isRT(x) {
				if t := info.TypeOf(x.X); t != nil && strings.HasSuffix(t.String(), "conf.Tag") {
					out[eng.ExprStr(x)] = x
				}
			}
		case *ast.IndexExpr:
			// an element of the checker's collection stack
			if isRT(x) {
				out[eng.ExprStr(x)] = x
			}
		}
		return true
	})
	return out
}

type k3Finding struct {
	expr    string
	pos     string
	binding string
}

// k3Scan: interpret the path; report the first panicking operation.
func k3Scan(p *core.Program, in *eng.Interp, atoms []eng.Atom) (ast.Expr, bool) {
	in.Env = map[types.Object]eng.RV{}
	check := func(e ast.Expr) bool { return e != nil && in.Eval(e).IsPanic() }
	for _, a := range atoms {
		switch a.Kind {
		case "assign":
			as := a.Node.(*ast.AssignStmt)
			for _, rhs := range as.Rhs {
				if check(rhs) {
					return rhs, true
				}
			}
			in.Assign(as)
		case "cond":
			c := a.Node.(ast.Expr)
			v := in.Eval(c)
			if v.IsPanic() {
				return c, true
			}
			if v.K == "bool" && v.B != a.Taken {
				return nil, false
			}
		case "case":
			if a.Case == nil || a.Case.Tag == nil {
				continue
			}
			tag := in.Eval(a.Case.Tag)
			if tag.IsPanic() {
				return a.Case.Tag, true
			}
			if a.Case.Clause == nil || a.Case.Default || a.Case.Implicit || (tag.K != "kind" && tag.K != "str" && tag.K != "int") {
				continue
			}
			hit := false
			for _, e := range a.Case.Clause.List {
				v := in.Eval(e)
				if v.K != tag.K || (v.S == tag.S && v.I == tag.I) {
					hit = true
				}
			}
			if !hit {
				return nil, false
			}
		case "call":
			// calls are evaluated in the context of the statement they belong to (a call inside
			// `a != nil && a.Kind() == k` is guarded by the short-circuit): the atom itself is skipped
		case "return":
			rs := a.Node.(*ast.ReturnStmt)
			for _, e := range rs.Results {
				if check(e) {
					return e, true
				}
			}
		}
	}
	return nil, false
}

// reflectPreconditionRule analyses the functions of the unguarded region (by declaration).
func reflectPreconditionRule(p *core.Program, r *core.Report, region map[string]bool) {
	// exception with its reason: the overload resolver reads Type of entries that Config.Check
	// validated (exists, non-nil, Func, parameter count, one result) — C17 R17.3 checks that
	// validation and its precedence; here the origin is restricted accordingly.
	validated := map[string]string{"conf.FindSuitableOperatorOverload": "entries validated by Config.Check before any type check (C17 R17.3): a function with at least the indexed parameters and exactly one result"}
	nFuncs, nOrigins := 0, 0
	for _, rel := range []string{"", "checker", "conf", "compiler", "optimizer"} {
		info := p.Pkg(rel).TypesInfo
		for _, fd := range p.FuncDecls(rel) {
			if fd.Body == nil {
				continue
			}
			fname := core.FuncName(rel, fd)
			if !region[fname] {
				continue
			}
			origins := typeOrigins(p, rel, fd)
			if len(origins) == 0 {
				continue
			}
			nFuncs++
			nOrigins += len(origins)
			var keys []string
			for k := range origins {
				keys = append(keys, k)
			}
			sort.Strings(keys)
			uni := k3Universe(len(keys) > 2)
			if why, ok := validated[fname]; ok {
				_ = why
				ei := eng.MTEmptyIface
				uni = []*eng.MT{
					{Kind: "Func", In: []*eng.MT{eng.MTInt, eng.MTInt}, Out: []*eng.MT{eng.MTInt}},
					{Kind: "Func", In: []*eng.MT{ei, ei}, Out: []*eng.MT{eng.MTBool}},
					{Kind: "Func", In: []*eng.MT{{Kind: "Struct"}, eng.MTInt, eng.MTInt}, Out: []*eng.MT{eng.MTInt}},
				}
			}
			if len(keys) > 4 {
				keys = keys[:4] // bind the first four origins; the others stay unknown (excluded from nothing)
			}
			w := &eng.Walker{Info: info, MaxPaths: 6000}
			paths := flattenPaths(w.Func(fd.Body), 30000)
			found := map[string]k3Finding{}
			idx := make([]int, len(keys))
			for {
				binding := map[string]*eng.MT{}
				var bs []string
				for i, k := range keys {
					binding[k] = uni[idx[i]]
					bs = append(bs, k+" = "+uni[idx[i]].String())
				}
				in := eng.NewInterp(p, rel)
				_, isValidated := validated[fname]
				in.Hook = func(x ast.Expr) (eng.RV, bool) {
					switch y := x.(type) {
					case *ast.CallExpr, *ast.IndexExpr:
						if t, ok := binding[eng.ExprStr(x)]; ok {
							return eng.RV{K: "type", T: t}, true
						}
					case *ast.SelectorExpr:
						if t, ok := binding[eng.ExprStr(x)]; ok {
							return eng.RV{K: "type", T: t}, true
						}
						// the validated invariant ties the Method flag to the parameter count
						if isValidated && y.Sel.Name == "Method" {
							if t, ok := binding[eng.ExprStr(y.X)+".Type"]; ok && t != nil {
								return eng.RV{K: "bool", B: len(t.In) == 3}, true
							}
						}
					}
					return eng.RV{}, false
				}
				for _, atoms := range paths {
					if e, bad := k3Scan(p, in, atoms); bad {
						k := eng.ExprStr(e) + "@" + p.Pos(e.Pos())
						if _, seen := found[k]; !seen {
							found[k] = k3Finding{eng.ExprStr(e), p.Pos(e.Pos()), strings.Join(bs, ", ")}
						}
					}
				}
				// next binding
				j := 0
				for j < len(idx) {
					idx[j]++
					if idx[j] < len(uni) {
						break
					}
					idx[j] = 0
					j++
				}
				if j == len(idx) {
					break
				}
			}
			key := fname + "/reflect.Type operations cannot panic"
			if len(found) == 0 {
				r.OK("R4.3", key, p.Pos(fd.Pos()), fmt.Sprintf("%d type origins × %d shapes × %d paths: no operation panics on the model", len(keys), len(uni), len(paths)))
				continue
			}
			var fs []string
			pos := ""
			var ks []string
			for k := range found {
				ks = append(ks, k)
			}
			sort.Strings(ks)
			for _, k := range ks {
				f := found[k]
				fs = append(fs, fmt.Sprintf("`%s` at %s when %s", f.expr, f.pos, f.binding))
				pos = f.pos
			}
			if len(fs) > 4 {
				fs = append(fs[:4], fmt.Sprintf("… %d more", len(fs)-4))
			}
			r.Bad("R4.3", key, pos, "an operation on a reflect.Type panics outside every recover: "+strings.Join(fs, "; ")+" — a method call on a nil type, an index outside the parameters/results, a kind-specific method on another kind, or a nil type handed to reflect: the caller of Compile gets a panic instead of an error")
		}
	}
	r.Analysed["K3_functions_with_type_origins"] = nFuncs
	r.Analysed["K3_type_origins"] = nOrigins
}

// K6 — stale lengths. `n := len(x)` taken before x is reassigned, and then used to index or
// slice x: the index is computed for another value than the one indexed (out of range when the
// reassignment shortens x). In the unguarded region an index panic reaches the caller.
func staleLengthRule(p *core.Program, r *core.Report, region map[string]bool) {
	n := 0
	for _, rel := range []string{"", "parser", "parser/lexer", "checker", "conf", "compiler", "optimizer", "file"} {
		pk := p.Pkg(rel)
		if pk == nil {
			continue
		}
		info := pk.TypesInfo
		for _, fd := range p.FuncDecls(rel) {
			if fd.Body == nil {
				continue
			}
			fname := core.FuncName(rel, fd)
			if !region[fname] && rel != "parser/lexer" && rel != "parser" && rel != "file" {
				continue
			}
			// n := len(x) definitions (x an identifier)
			type lenDef struct {
				nObj, xObj types.Object
				pos        token.Pos
			}
			var defs []lenDef
			ast.Inspect(fd.Body, func(nd ast.Node) bool {
				as, ok := nd.(*ast.AssignStmt)
				if !ok || len(as.Lhs) != 1 || len(as.Rhs) != 1 {
					return true
				}
				c, ok := eng.Unparen(as.Rhs[0]).(*ast.CallExpr)
				if !ok || !isBuiltinCall(info, c, "len") || len(c.Args) != 1 {
					return true
				}
				xid, ok1 := eng.Unparen(c.Args[0]).(*ast.Ident)
				nid, ok2 := as.Lhs[0].(*ast.Ident)
				if ok1 && ok2 {
					defs = append(defs, lenDef{objOf(info, nid), objOf(info, xid), as.Pos()})
				}
				return true
			})
			if len(defs) == 0 {
				continue
			}
			n++
			var bad []string
			for _, d := range defs {
				// reassignments of x after the definition (not through a slicing by n itself)
				var reassigned []token.Pos
				ast.Inspect(fd.Body, func(nd ast.Node) bool {
					as, ok := nd.(*ast.AssignStmt)
					if !ok || as.Pos() <= d.pos {
						return true
					}
					for i, l := range as.Lhs {
						id, ok := l.(*ast.Ident)
						if !ok || objOf(info, id) != d.xObj {
							continue
						}
						// x = x[a:b] with bounds that use n keeps n meaningful only until then; still a reassignment
						_ = i
						reassigned = append(reassigned, as.Pos())
					}
					return true
				})
				if len(reassigned) == 0 {
					continue
				}
				first := reassigned[0]
				// uses of n inside an index/slice expression on x after the first reassignment
				ast.Inspect(fd.Body, func(nd ast.Node) bool {
					var base ast.Expr
					var idx []ast.Expr
					switch x := nd.(type) {
					case *ast.IndexExpr:
						base, idx = x.X, []ast.Expr{x.Index}
					case *ast.SliceExpr:
						base, idx = x.X, []ast.Expr{x.Low, x.High, x.Max}
					default:
						return true
					}
					bid, ok := eng.Unparen(base).(*ast.Ident)
					if !ok || objOf(info, bid) != d.xObj || nd.Pos() <= first {
						return true
					}
					// the reassignment statement itself (x = x[1:n-1]) uses the still-valid n
					for _, rp := range reassigned {
						if rp == first && nd.Pos() > rp {
							// inside the first reassignment? check containment
						}
					}
					for _, e := range idx {
						if e == nil {
							continue
						}
						ast.Inspect(e, func(m ast.Node) bool {
							if id, ok := m.(*ast.Ident); ok && objOf(info, id) == d.nObj {
								// exclude uses inside the first reassigning statement's own right-hand side
								inFirst := false
								ast.Inspect(fd.Body, func(q ast.Node) bool {
									if as, ok := q.(*ast.AssignStmt); ok && as.Pos() == first && id.Pos() >= as.Pos() && id.End() <= as.End() {
										inFirst = true
									}
									return true
								})
								if !inFirst {
									bad = append(bad, fmt.Sprintf("`%s` at %s uses %s = len(%s) taken at %s, but %s was reassigned at %s", eng.ExprStr(nd), p.Pos(nd.Pos()), id.Name, bid.Name, p.Pos(d.pos), bid.Name, p.Pos(first)))
								}
							}
							return true
						})
					}
					return true
				})
			}
			r.Check(len(bad) == 0, "R4.3", fname+"/no index by a stale length", p.Pos(fd.Pos()), "every len(x) used to index x was taken from the value indexed", strings.Join(bad, "; ")+" — when the reassignment shortens the value the index is out of range; outside every recover that panic reaches the caller of Parse/Compile")
		}
	}
	r.Analysed["K6_functions_with_saved_lengths"] = n
}

// ---------------------------------------------------------------------------------------
// K7 — allocation lengths. make([]T, n) and make(chan T, n) panic for a negative n. In the
// unguarded region every such length must be non-negative by construction: a non-negative
// constant, a len/cap, a reflect count, sums / products / quotients of those, a name bound
// once to such an expression — or a variable whose every path to the make passes a test OF
// THAT VARIABLE that leaves when it is below a non-negative bound (a test of other quantities
// from which the variable was computed proves nothing once the subtraction wraps around).
func makeLengthRule(p *core.Program, r *core.Report, region map[string]bool) {
	n := 0
	for _, rel := range []string{"", "parser", "parser/lexer", "checker", "conf", "compiler", "optimizer", "file", "ast"} {
		pk := p.Pkg(rel)
		if pk == nil {
			continue
		}
		info := pk.TypesInfo
		for _, fd := range p.FuncDecls(rel) {
			if fd.Body == nil {
				continue
			}
			fname := core.FuncName(rel, fd)
			if !region[fname] && rel != "parser/lexer" && rel != "parser" && rel != "file" {
				continue
			}
			ld := eng.SingleDefs(info, fd.Body)
			k := 0
			ast.Inspect(fd.Body, func(nd ast.Node) bool {
				c, ok := nd.(*ast.CallExpr)
				if !ok || !isBuiltinCall(info, c, "make") || len(c.Args) < 2 {
					return true
				}
				switch info.TypeOf(c.Args[0]).Underlying().(type) {
				case *types.Slice, *types.Chan:
				default:
					return true
				}
				for ai, arg := range c.Args[1:] {
					if tv, ok := info.Types[arg]; ok && tv.Value != nil {
						continue // a constant: the compiler rejects a negative one
					}
					k++
					n++
					key := fmt.Sprintf("%s/make#%d length", fname, k)
					if ai == 1 {
						key = fmt.Sprintf("%s/make#%d capacity", fname, k)
					}
					ok, why := nonNegative(info, ld, fd, arg, c.Pos(), 0)
					r.Check(ok, "R4.3", key, p.Pos(c.Pos()), why,
						"`"+eng.ExprStr(c)+"` in the unguarded region: the length `"+eng.ExprStr(arg)+"` is not non-negative by construction ("+why+"): a negative length panics outside every recover")
				}
				return true
			})
		}
	}
	r.Analysed["make_lengths_examined"] = n
}

var countMethods = map[string]bool{"NumIn": true, "NumOut": true, "NumField": true, "NumMethod": true, "Len": true, "Cap": true}

func nonNegative(info *types.Info, ld *eng.LocalDefs, fd *ast.FuncDecl, e ast.Expr, at token.Pos, depth int) (bool, string) {
	if depth > 6 {
		return false, "too deep"
	}
	e = eng.Unparen(e)
	if tv, ok := info.Types[e]; ok && tv.Value != nil {
		if v, ok := constInt(tv); ok && v >= 0 {
			return true, "constant " + tv.Value.String()
		}
		if f, ok := constant.Float64Val(tv.Value); ok && f >= 0 {
			return true, "constant"
		}
		return false, "a negative constant"
	}
	switch x := e.(type) {
	case *ast.CallExpr:
		if isBuiltinCall(info, x, "len") || isBuiltinCall(info, x, "cap") {
			return true, eng.ExprStr(x)
		}
		if tv, ok := info.Types[x.Fun]; ok && tv.IsType() && len(x.Args) == 1 {
			if b, ok := tv.Type.Underlying().(*types.Basic); ok && b.Info()&types.IsInteger != 0 {
				return nonNegative(info, ld, fd, x.Args[0], at, depth+1)
			}
		}
		if sel, ok := x.Fun.(*ast.SelectorExpr); ok && countMethods[sel.Sel.Name] && len(x.Args) == 0 {
			if fn := eng.CalleeOf(info, x); fn != nil && fn.Pkg() != nil && fn.Pkg().Path() == "reflect" {
				return true, "a reflect count " + eng.ExprStr(x)
			}
		}
		return false, "the result of `" + eng.ExprStr(x) + "`"
	case *ast.BinaryExpr:
		switch x.Op {
		case token.ADD, token.MUL, token.QUO:
			ok1, w1 := nonNegative(info, ld, fd, x.X, at, depth+1)
			ok2, w2 := nonNegative(info, ld, fd, x.Y, at, depth+1)
			if ok1 && ok2 {
				return true, "non-negative terms (" + w1 + ", " + w2 + ")"
			}
			if !ok1 {
				return false, w1
			}
			return false, w2
		}
		return false, "`" + eng.ExprStr(x) + "` involves a subtraction or another operator"
	case *ast.SelectorExpr:
		// a field: only a count field of an instruction operand decoded by this module would do;
		// none occurs in the unguarded region today
		return false, "the field `" + eng.ExprStr(x) + "`"
	case *ast.Ident:
		obj := info.Uses[x]
		if def := ld.Def(obj); def != nil {
			if ok, why := nonNegative(info, ld, fd, def, ld.DefPos(x), depth+1); ok {
				return true, x.Name + " = " + why
			}
		}
		if bound, found := lowerGuard(info, fd, at, obj); found {
			return true, "every path to the make passes a test that leaves when " + x.Name + " " + bound
		}
		if c, ok := counterStart(info, fd, obj); ok && c >= 0 {
			return true, x.Name + " starts at " + fmt.Sprint(c) + " and is only incremented"
		}
		return false, "`" + x.Name + "` is computed (e.g. by a subtraction) and no test of `" + x.Name + "` itself that leaves for negative values dominates the make"
	}
	return false, "`" + eng.ExprStr(e) + "`"
}

// lowerGuard: among the statements that precede pos in the enclosing blocks (hence dominate
// it), an `if v < C { leave }` / `if v <= C { leave }` with C >= 0 (resp. >= -1) constant, not
// followed by a reassignment of v.
func lowerGuard(info *types.Info, fd *ast.FuncDecl, pos token.Pos, v types.Object) (string, bool) {
	bound, found := "", false
	var visit func(list []ast.Stmt)
	visit = func(list []ast.Stmt) {
		for _, st := range list {
			if st.End() <= pos {
				// a clamp: `if v < C { v = K }` with C, K >= 0 leaves v >= min(C, K) >= 0
				if is, ok := st.(*ast.IfStmt); ok && is.Else == nil && is.Init == nil && len(is.Body.List) == 1 {
					if as, ok := is.Body.List[0].(*ast.AssignStmt); ok && as.Tok == token.ASSIGN && len(as.Lhs) == 1 && len(as.Rhs) == 1 {
						isV := func(x ast.Expr) bool {
							id, ok := x.(*ast.Ident)
							return ok && info.Uses[id] == v
						}
						if lid, ok := as.Lhs[0].(*ast.Ident); ok && info.Uses[lid] == v {
							if _, other, op, ok := eng.CmpOn(is.Cond, isV); ok {
								ct, ok1 := info.Types[other]
								kt, ok2 := info.Types[as.Rhs[0]]
								if ok1 && ok2 && ct.Value != nil && kt.Value != nil {
									c, okc := constInt(ct)
									k, okk := constInt(kt)
									if okc && okk && k >= 0 && ((op == token.LSS && c >= 0) || (op == token.LEQ && c >= -1)) {
										bound, found = "was clamped to "+kt.Value.String()+" when "+op.String()+" "+ct.Value.String(), true
										continue
									}
								}
							}
						}
					}
				}
				if is, ok := st.(*ast.IfStmt); ok && is.Else == nil && is.Init == nil && blockLeaves(is.Body) {
					if b, ok := eng.Unparen(is.Cond).(*ast.BinaryExpr); ok {
						op, x, y := b.Op, b.X, b.Y
						if id, ok := eng.Unparen(y).(*ast.Ident); ok && info.Uses[id] == v {
							// C > v  ≡  v < C
							x, y = y, x
							op = map[token.Token]token.Token{token.GTR: token.LSS, token.GEQ: token.LEQ, token.LSS: token.GTR, token.LEQ: token.GEQ}[op]
						}
						if id, ok := eng.Unparen(x).(*ast.Ident); ok && info.Uses[id] == v {
							if tv, ok := info.Types[y]; ok && tv.Value != nil {
								if c, ok := constInt(tv); ok {
									if (op == token.LSS && c >= 0) || (op == token.LEQ && c >= -1) {
										bound, found = op.String()+" "+tv.Value.String(), true
									}
								}
							}
						}
					}
				}
				ast.Inspect(st, func(n ast.Node) bool {
					switch s := n.(type) {
					case *ast.AssignStmt:
						for _, l := range s.Lhs {
							if id, ok := l.(*ast.Ident); ok && objOf(info, id) == v && s.Tok != token.DEFINE {
								found = false
							}
						}
					case *ast.IncDecStmt:
						if id, ok := s.X.(*ast.Ident); ok && objOf(info, id) == v && s.Tok == token.DEC {
							found = false
						}
					}
					return true
				})
				continue
			}
			if st.Pos() <= pos && pos < st.End() {
				ast.Inspect(st, func(n ast.Node) bool {
					if blk, ok := n.(*ast.BlockStmt); ok && blk.Pos() <= pos && pos < blk.End() {
						visit(blk.List)
						return false
					}
					if cc, ok := n.(*ast.CaseClause); ok && cc.Pos() <= pos && pos < cc.End() {
						visit(cc.Body)
						return false
					}
					return true
				})
			}
		}
	}
	visit(fd.Body.List)
	return bound, found
}

// ---------------------------------------------------------------------------------------
// K8 — subtractive indices. `s[v-c]` (c a positive constant) panics for v < c. In the
// unguarded region every such index of a slice, array or string must be preceded, on every
// path, by what makes v >= c: a test of v (in any spelling: an enclosing if, an else branch,
// an earlier guard clause, a clause of a tagless switch), for v = len(x) the test of that
// length, or for a counter that starts at a constant and is only incremented, its start value
// sharpened by a failed equality test. Upper bounds are not examined.
func subtractiveIndexRule(p *core.Program, r *core.Report, region map[string]bool) {
	n := 0
	for _, rel := range []string{"", "parser", "parser/lexer", "checker", "conf", "optimizer", "file", "ast"} {
		pk := p.Pkg(rel)
		if pk == nil {
			continue
		}
		info := pk.TypesInfo
		for _, fd := range p.FuncDecls(rel) {
			if fd.Body == nil {
				continue
			}
			fname := core.FuncName(rel, fd)
			if !region[fname] && rel != "parser/lexer" && rel != "parser" && rel != "file" {
				continue
			}
			ld := eng.SingleDefs(info, fd.Body)
			k := 0
			ast.Inspect(fd.Body, func(nd ast.Node) bool {
				ix, ok := nd.(*ast.IndexExpr)
				if !ok {
					return true
				}
				switch info.TypeOf(ix.X).Underlying().(type) {
				case *types.Slice, *types.Array, *types.Basic, *types.Pointer:
				default:
					return true // maps and type parameters: no bounds
				}
				b, ok := eng.Unparen(ix.Index).(*ast.BinaryExpr)
				if !ok || b.Op != token.SUB {
					return true
				}
				ct, ok := info.Types[b.Y]
				if !ok || ct.Value == nil {
					return true
				}
				c, ok := constInt(ct)
				if !ok || c < 1 {
					return true
				}
				if tv, isC := info.Types[b.X]; isC && tv.Value != nil {
					return true
				}
				k++
				n++
				key := fmt.Sprintf("%s/index %s#%d is not negative", fname, eng.ExprStr(ix.Index), k)
				lb, why := lowerBoundAt(info, ld, fd, b.X, ix)
				best := fmt.Sprintf("best known: >= %d", lb)
				if lb < -1<<40 {
					best = "no lower bound known"
				}
				r.Check(lb >= c, "R4.3", key, p.Pos(ix.Pos()), fmt.Sprintf("%s >= %d: %s", eng.ExprStr(b.X), lb, why),
					fmt.Sprintf("`%s` in the unguarded region: nothing on the way establishes %s >= %d (%s; %s): for a smaller value the index is negative and the access panics outside every recover", eng.ExprStr(ix), eng.ExprStr(b.X), c, best, why))
				return true
			})
		}
	}
	r.Analysed["subtractive_indices_examined"] = n
}

// counterStart: obj is a counter — one constant initialisation, otherwise only incremented
// (`++`, `+= c` with c a non-negative constant), its address never taken: it never falls below
// the initial value.
func counterStart(info *types.Info, fd *ast.FuncDecl, obj types.Object) (int64, bool) {
	if obj == nil {
		return 0, false
	}
	inits, other := []int64{}, false
	ast.Inspect(fd.Body, func(n ast.Node) bool {
		switch s := n.(type) {
		case *ast.AssignStmt:
			for i, l := range s.Lhs {
				if lid, ok := l.(*ast.Ident); ok && objOf(info, lid) == obj {
					if len(s.Lhs) == len(s.Rhs) && (s.Tok == token.DEFINE || s.Tok == token.ASSIGN) {
						if tv, ok := info.Types[s.Rhs[i]]; ok && tv.Value != nil {
							if c, ok := constInt(tv); ok {
								inits = append(inits, c)
								continue
							}
						}
					}
					if len(s.Lhs) == 1 && len(s.Rhs) == 1 && s.Tok == token.ADD_ASSIGN {
						if tv, ok := info.Types[s.Rhs[0]]; ok && tv.Value != nil {
							if c, ok := constInt(tv); ok && c >= 0 {
								continue
							}
						}
					}
					other = true
				}
			}
		case *ast.ValueSpec:
			for i, nm := range s.Names {
				if info.Defs[nm] == obj {
					if i < len(s.Values) {
						if tv, ok := info.Types[s.Values[i]]; ok && tv.Value != nil {
							if c, ok := constInt(tv); ok {
								inits = append(inits, c)
								continue
							}
						}
						other = true
					} else {
						inits = append(inits, 0)
					}
				}
			}
		case *ast.IncDecStmt:
			if lid, ok := s.X.(*ast.Ident); ok && objOf(info, lid) == obj && s.Tok == token.DEC {
				other = true
			}
		case *ast.UnaryExpr:
			if s.Op == token.AND {
				if lid, ok := s.X.(*ast.Ident); ok && objOf(info, lid) == obj {
					other = true
				}
			}
		case *ast.RangeStmt:
			for _, e := range []ast.Expr{s.Key, s.Value} {
				if lid, ok := e.(*ast.Ident); ok && objOf(info, lid) == obj {
					other = true
				}
			}
		}
		return true
	})
	if len(inits) == 1 && !other {
		return inits[0], true
	}
	return 0, false
}

// lowerBoundAt: the best lower bound of the integer expression v that the structure of fd
// establishes at node `at` (math.MinInt64 = none).
func lowerBoundAt(info *types.Info, ld *eng.LocalDefs, fd *ast.FuncDecl, v ast.Expr, at ast.Node) (int64, string) {
	const none = int64(-1 << 62)
	lb, why := none, "no test of it dominates the access"
	vs := eng.ExprStr(eng.Unparen(v))
	isV := func(x ast.Expr) bool { return eng.ExprStr(eng.Unparen(x)) == vs }
	raise := func(b int64, w string) {
		if b > lb {
			lb, why = b, w
		}
	}
	// what v is
	res := ld.Resolve(v)
	if c, ok := res.(*ast.CallExpr); ok && (isBuiltinCall(info, c, "len") || isBuiltinCall(info, c, "cap")) {
		raise(0, "a length")
	}
	var ne []int64
	if id, ok := eng.Unparen(v).(*ast.Ident); ok {
		if c, ok := counterStart(info, fd, info.Uses[id]); ok {
			raise(c, "starts at "+fmt.Sprint(c)+" and is only incremented")
		}
	}
	for _, f := range eng.FactsAt(fd.Body, at) {
		_, other, op, ok := eng.CmpOn(f, isV)
		if !ok {
			continue
		}
		tv, isC := info.Types[other]
		if !isC || tv.Value == nil {
			continue
		}
		c, ok := constInt(tv)
		if !ok {
			continue
		}
		switch op {
		case token.GTR:
			raise(c+1, "`"+eng.ExprStr(f)+"` holds here")
		case token.GEQ, token.EQL:
			raise(c, "`"+eng.ExprStr(f)+"` holds here")
		case token.NEQ:
			ne = append(ne, c)
		}
	}
	for changed := true; changed; {
		changed = false
		for _, c := range ne {
			if c == lb {
				lb++
				why += fmt.Sprintf(", and it is not %d", c)
				changed = true
			}
		}
	}
	return lb, why
}

// ---------------------------------------------------------------------------------------
// Lexer progress (a necessary condition of "never hang"): where the dispatching state
// un-reads a rune it has classified with a predicate function P and hands over to a state S,
// S must consume that rune — S applies the SAME predicate P to the runes it absorbs. If the two
// sites classify differently, a rune that P accepts and S does not is un-read by S as well:
// an empty token is emitted, the dispatcher sees the rune again, and Lex never returns.
func lexerProgressRule(p *core.Program, r *core.Report) {
	pk := p.Pkg("parser/lexer")
	if pk == nil {
		return
	}
	info := pk.TypesInfo
	decls := map[types.Object]*ast.FuncDecl{}
	for _, fd := range p.FuncDecls("parser/lexer") {
		decls[info.Defs[fd.Name]] = fd
	}
	n := 0
	for _, fd := range p.FuncDecls("parser/lexer") {
		if fd.Body == nil {
			continue
		}
		eng.StmtLists(fd.Body, func(list []ast.Stmt) {
			for i := range list {
				for _, br := range eng.BranchChain(list, i) {
					if br.Cond == nil {
						continue
					}
					c, ok := eng.Unparen(br.Cond).(*ast.CallExpr)
					if !ok || len(c.Args) != 1 {
						continue
					}
					pred := eng.CalleeOf(info, c)
					if pred == nil || pred.Pkg() != pk.Types || pred.Type().(*types.Signature).Recv() != nil {
						continue
					}
					// body: …backup(); return S
					backs := false
					var next *ast.FuncDecl
					for _, st := range br.Body {
						if es, ok := st.(*ast.ExprStmt); ok {
							if bc, ok := es.X.(*ast.CallExpr); ok {
								if sel, ok := bc.Fun.(*ast.SelectorExpr); ok && sel.Sel.Name == "backup" {
									backs = true
								}
							}
						}
						if rs, ok := st.(*ast.ReturnStmt); ok && len(rs.Results) == 1 {
							if id, ok := eng.Unparen(rs.Results[0]).(*ast.Ident); ok {
								next = decls[info.Uses[id]]
							}
						}
					}
					if !backs || next == nil || next == fd || next.Body == nil {
						continue
					}
					n++
					same := false
					ast.Inspect(next.Body, func(m ast.Node) bool {
						if cc, ok := m.(*ast.CallExpr); ok && eng.CalleeOf(info, cc) == pred {
							same = true
						}
						return true
					})
					r.Check(same, "R4.3", "parser/lexer."+fd.Name.Name+" → "+next.Name.Name+"/the un-read rune is consumed (same predicate "+pred.Name()+")", p.Pos(br.Pos),
						"the state absorbs runes by the predicate the dispatcher classified with",
						"the dispatcher un-reads a rune accepted by "+pred.Name()+" and enters `"+next.Name.Name+"`, which does not apply "+pred.Name()+" to what it absorbs: a rune the two sites classify differently is never consumed and Lex does not return")
				}
			}
		})
	}
	r.Analysed["lexer_handovers_examined"] = n
}
