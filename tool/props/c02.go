package props

import (
	"fmt"
	"go/ast"
	"go/token"
	"go/types"
	"sort"
	"strings"

	"verif/exprlint/core"
	"verif/exprlint/eng"
)

// C02 — the optimizer's rewrites. Equality of results is not decidable statically; what is
// decided are the clauses without which a rewrite cannot be meaning-preserving, each of
// them a statement about a rewrite site (a call of ast.Patch) and the paths leading to it.

func init() {
	register(&Prop{ID: "C02", Run: runC02, Controls: c02Controls})
}

// siteAtoms: the flattened paths of the site's function that reach the site's call, cut at it.
func siteAtoms(info *types.Info, s *eng.RewriteSite) [][]eng.Atom {
	w := &eng.Walker{Info: info, MaxPaths: 8000}
	var out [][]eng.Atom
	for _, atoms := range flattenPaths(w.Func(s.Func.Body), 40000) {
		for i, a := range atoms {
			if a.Kind == "call" && a.Call == s.Call {
				out = append(out, atoms[:i])
				break
			}
		}
	}
	return out
}

// typeGuardFor builds the evaluator for "the static type of the node whose origin path is P".
func typeGuardFor(p *core.Program, rel string, fd *ast.FuncDecl, al *eng.Aliases, path string) *eng.TypeGuard {
	info := p.Pkg(rel).TypesInfo
	isTypeCallOn := func(e ast.Expr, isNode func(ast.Expr) bool) bool {
		c, ok := eng.Unparen(e).(*ast.CallExpr)
		if !ok || len(c.Args) != 0 {
			return false
		}
		sel, ok := c.Fun.(*ast.SelectorExpr)
		return ok && sel.Sel.Name == "Type" && isNode(sel.X)
	}
	var mk func(al *eng.Aliases, isNode func(ast.Expr) bool, isTypeParam func(ast.Expr) bool) *eng.TypeGuard
	mk = func(al *eng.Aliases, isNode func(ast.Expr) bool, isTypeParam func(ast.Expr) bool) *eng.TypeGuard {
		g := &eng.TypeGuard{Info: info, Defs: eng.SingleDefs(info, fd.Body)}
		g.Is = func(e ast.Expr) bool {
			e = eng.Unparen(e)
			if isTypeParam != nil && isTypeParam(e) {
				return true
			}
			if isTypeCallOn(e, isNode) {
				return true
			}
			if id, ok := e.(*ast.Ident); ok {
				if d := al.Def(id); d != nil {
					return isTypeCallOn(d, isNode) || (isTypeParam != nil && isTypeParam(eng.Unparen(d)))
				}
			}
			return false
		}
		g.Pred = func(call *ast.CallExpr) *eng.PredInfo {
			if len(call.Args) != 1 {
				return nil
			}
			var body *ast.BlockStmt
			var ftype *ast.FuncType
			switch f := eng.Unparen(call.Fun).(type) {
			case *ast.Ident:
				if d := al.Def(f); d != nil {
					if fl, ok := eng.Unparen(d).(*ast.FuncLit); ok {
						body, ftype = fl.Body, fl.Type
					}
				}
				if body == nil {
					if fn, ok := info.Uses[f].(*types.Func); ok {
						if _, decl := p.DeclOf(fn); decl != nil && decl.Body != nil {
							body, ftype = decl.Body, decl.Type
						}
					}
				}
			}
			if body == nil || ftype.Params == nil || ftype.Params.NumFields() != 1 || len(ftype.Params.List[0].Names) != 1 {
				return nil
			}
			param := info.Defs[ftype.Params.List[0].Names[0]]
			isParam := func(e ast.Expr) bool {
				id, ok := eng.Unparen(e).(*ast.Ident)
				return ok && objOf(info, id) == param
			}
			arg := call.Args[0]
			pal := eng.BuildAliases(info, body)
			switch {
			case isNode(arg):
				return &eng.PredInfo{Guard: mk(pal, isParam, nil), Body: body}
			case g.Is(arg):
				return &eng.PredInfo{Guard: mk(pal, func(ast.Expr) bool { return false }, isParam), Body: body}
			}
			return nil
		}
		g.TypeVar = func(e ast.Expr) (eng.AbsType, bool) { return typeVarAbs(p, info, e) }
		return g
	}
	isNode := func(e ast.Expr) bool {
		t := info.TypeOf(e)
		if t == nil {
			return false
		}
		return al.Norm(e) == path
	}
	return mk(al, isNode, nil)
}

// typeVarAbs: e names a package-level variable initialised as reflect.TypeOf(<basic literal or
// conversion of one>) → its abstract type.
func typeVarAbs(p *core.Program, info *types.Info, e ast.Expr) (eng.AbsType, bool) {
	id, ok := eng.Unparen(e).(*ast.Ident)
	if !ok {
		return eng.AbsType{}, false
	}
	v, ok := info.Uses[id].(*types.Var)
	if !ok || v.Pkg() == nil || v.Parent() != v.Pkg().Scope() {
		return eng.AbsType{}, false
	}
	rel, lib := p.RelOf(v.Pkg())
	if !lib {
		return eng.AbsType{}, false
	}
	pk := p.Pkg(rel)
	for _, f := range pk.Syntax {
		for _, d := range f.Decls {
			gd, ok := d.(*ast.GenDecl)
			if !ok {
				continue
			}
			for _, sp := range gd.Specs {
				vs, ok := sp.(*ast.ValueSpec)
				if !ok {
					continue
				}
				for i, nm := range vs.Names {
					if pk.TypesInfo.Defs[nm] != types.Object(v) || i >= len(vs.Values) {
						continue
					}
					c, ok := eng.Unparen(vs.Values[i]).(*ast.CallExpr)
					if !ok || len(c.Args) != 1 {
						return eng.AbsType{}, false
					}
					fn := eng.CalleeOf(pk.TypesInfo, c)
					if fn == nil || fn.Pkg() == nil || fn.Pkg().Path() != "reflect" || fn.Name() != "TypeOf" {
						return eng.AbsType{}, false
					}
					t := pk.TypesInfo.TypeOf(c.Args[0])
					b, ok := t.(*types.Basic)
					if !ok {
						return eng.AbsType{}, false
					}
					name := types.Default(b).(*types.Basic).Name()
					return eng.AbsType{Kind: strings.ToUpper(name[:1]) + name[1:]}, true
				}
			}
		}
	}
	return eng.AbsType{}, false
}

// admitted: union over all paths to the site of the abstract types of `path`'s static type.
func admitted(p *core.Program, s *eng.RewriteSite, path string) ([]eng.AbsType, int) {
	info := p.Pkg(s.Rel).TypesInfo
	g := typeGuardFor(p, s.Rel, s.Func, s.Aliases, path)
	kinds := eng.KindsMentioned(info, s.Func.Body)
	u := eng.Universe(kinds)
	seen := map[string]eng.AbsType{}
	paths := siteAtoms(info, s)
	for _, atoms := range paths {
		for _, a := range g.Feasible(atoms, u) {
			seen[a.String()] = a
		}
	}
	var out []eng.AbsType
	for _, a := range seen {
		out = append(out, a)
	}
	sort.Slice(out, func(i, j int) bool { return out[i].String() < out[j].String() })
	return out, len(paths)
}

func runC02(p *core.Program, r *core.Report) {
	r.Explanation = "Decides, per rewrite site of the optimizer (every call of ast.Patch, directly or through a local wrapper), the clauses without which the rewrite cannot be meaning-preserving: (R2.1) a rewrite that keeps a dynamic operand of the matched node while replacing its sibling or its operator (membership in a literal array → map lookup; membership in a literal range → two comparisons) is reached only on paths whose conditions pin the operand's STATIC TYPE to one predeclared kind — not nil, not another kind, not a named type — because it changes which run-time primitive is applied to that operand; for a lookup map the kind is the map's key kind; (R2.2) a fold that computes on integer literals in Go int and carries the literal's static type over to the result is reached only for literals whose type is nil or plain int (the compiler pushes a retyped literal as a value of its type: float64(1)/float64(2) is not float64(1/2)); (R2.3) no replacement uses an operand of the matched node twice, and none drops a child of the matched node that the path has not established to be a literal; (R2.4) the only errors the optimizer creates are the constant division/modulo by zero (a file.Error built under the `/` or `%` case and under a test of the divisor literal for zero) and the recovered panic of a compile-time call; (R2.5) expr.Compile runs the optimizer only under the Optimize option, after the last type check, operator patch and user visitors, and before code generation; (R2.6) each fold applies to the literal values the Go operator (or library function) that the DSL operator of its case denotes, operands in order; (R2.9) every integer division of literal values is dominated by the zero test; (R2.10) membership in `a..b` becomes `x >= a and x <= b` with a the range's left and b its right bound, `not in` its negation."
	r.NotDecided = []string{"equality of results of the optimized and unoptimized program (a value-level equivalence)", "integer overflow differences between folded and run-time arithmetic", "that a ConstExpr function is pure", "order and arity of literal-array folds (R2.8 not built)"}
	nk, msg := eng.FindNodeKinds(p)
	if nk == nil {
		r.Unk("R2.1", "node kinds", "", msg)
		return
	}
	sites := eng.FindRewriteSites(p, nk, "optimizer")
	if len(sites) == 0 {
		r.Unk("R2.1", "rewrite sites", "", "no rewrite site found in package optimizer")
		return
	}
	r.Analysed["rewrite_sites"] = len(sites)
	info := p.Pkg("optimizer").TypesInfo
	nodeT := nk.NodeIface

	for _, s := range sites {
		pos := p.Pos(s.Call.Pos())
		// ---- R2.1 surviving dynamic operands
		done := map[string]bool{}
		for _, o := range s.Operands {
			t := info.TypeOf(o.Expr)
			if t == nil || !types.Identical(t, nodeT) || done[o.Path] {
				continue
			}
			if o.Path == "*node" || o.Slot == "<whole>" {
				continue // the whole matched node wrapped (not …): nothing about its operands changes
			}
			if strings.Count(o.Path, ".") < 1 {
				continue
			}
			// (a grandchild lifted into a new node — `not (a < b)` rebuilt as `a >= b` — is a
			// surviving operand under a replaced operator just the same)
			done[o.Path] = true
			key := s.Key + "/guard on the static type of " + o.Path
			adm, np := admitted(p, s, o.Path)
			if np == 0 {
				r.Unk("R2.1", key, pos, "no path reaches the site")
				continue
			}
			var nilOK, named bool
			kinds := map[string]bool{}
			for _, a := range adm {
				switch {
				case a.Nil:
					nilOK = true
				case a.Named:
					named = true
					kinds[a.Kind] = true
				default:
					kinds[a.Kind] = true
				}
			}
			// a pure-nil finding is reported under its own construct so that it can be recorded
			// separately from a missing guard
			var ks []string
			for k := range kinds {
				ks = append(ks, k)
			}
			sort.Strings(ks)
			okKind := len(ks) == 1 && ks[0] != "other" && !named
			detail := "admitted static types of the operand on the paths to the rewrite: " + eng.AbsTypesString(adm)
			r.Check(okKind, "R2.1", key, pos, detail,
				detail+" — the rewrite replaces the primitive applied to this operand (a reflective membership test) by one that is defined for a single predeclared kind only (a map lookup with that key type / integer comparisons); for an operand of another kind or of a named type the optimized program fails or answers differently where the unoptimized one returns false")
			r.Check(!nilOK, "R2.1", key+" (nil)", pos, "an operand without static type is excluded",
				"an operand whose static type is nil (the literal nil, or an unchecked tree) reaches the rewrite: `nil in 1..3` is false unoptimized and an error optimized")
			// key kind of a lookup map
			if okKind {
				for _, fl := range s.Fresh {
					for _, el := range fl.Elts {
						kv, ok := el.(*ast.KeyValueExpr)
						if !ok || eng.ExprStr(kv.Key) != "Value" {
							continue
						}
						if mt, ok := info.TypeOf(kv.Value).Underlying().(*types.Map); ok {
							kb, _ := mt.Key().Underlying().(*types.Basic)
							want := ""
							if kb != nil {
								want = strings.ToUpper(kb.Name()[:1]) + kb.Name()[1:]
							}
							r.Check(want == ks[0], "R2.1", s.Key+"/lookup map key kind = operand kind", pos, "map key "+want+", operand kind "+ks[0],
								"the lookup map is keyed by "+want+" while the operand is guarded to kind "+ks[0]+": MapIndex with a key of another type panics or never matches")
						}
					}
				}
			}
		}
		// ---- R2.2 typed-literal folds
		c02TypedFold(p, r, nk, s)
		// ---- R2.3
		c02Linear(p, r, nk, s)
		// ---- R2.6
		c02FoldOperator(p, r, s)
	}
	c02Errors(p, r)
	c02Pipeline(p, r)
	c02RangeShape(p, r, nk, sites)
	rangeBuilderRule(p, r)
	loopAliasRule(p, r, "R2.11", "optimizer")
	r.Floor("R2.1", 3)
	r.Floor("R2.2", 7)    // 9 fold sites today
	r.Floor("R2.3", 14*2) // two obligations per rewrite site (18 today); sites may be merged
	r.Floor("R2.4", 3)
	r.Floor("R2.5", 3)
	r.Floor("R2.6", 9)
	r.Floor("R2.10", 4)
}

// intLiteralVars: variables of type *IntegerNode whose .Value the replacement reads, with
// their origin path.
func valueReads(info *types.Info, s *eng.RewriteSite, lit ast.Node, kindName string) map[string]ast.Expr {
	out := map[string]ast.Expr{}
	if lit == nil {
		return out
	}
	ast.Inspect(lit, func(n ast.Node) bool {
		sel, ok := n.(*ast.SelectorExpr)
		if !ok || sel.Sel.Name != "Value" {
			return true
		}
		t := info.TypeOf(sel.X)
		if t == nil || !strings.HasSuffix(t.String(), "."+kindName) {
			return true
		}
		out[s.Aliases.Norm(sel.X)] = sel.X
		return true
	})
	return out
}

// retypableOperators: the operators through which the type checker's literal retyping
// descends — read from the checker function that sets the type of an integer literal and
// recurses into unary / binary nodes under operator cases. Literals below any other operator
// keep the type the checker gave them as operands (int).
// operatorsOfNodeSwitch: in a function with a type switch over the node, the operator strings
// under which the UnaryNode / BinaryNode clauses act — written as labels of a nested switch or
// as equality tests of the node's Operator field; also whether an IntegerNode clause exists and
// whether it calls SetType.
func operatorsOfNodeSwitch(p *core.Program, info *types.Info, nk *eng.NodeKinds, fd *ast.FuncDecl) (ops map[string]bool, hasInt, sets bool) {
	ops = map[string]bool{}
	var ts *ast.TypeSwitchStmt
	for _, st := range fd.Body.List {
		if t, ok := st.(*ast.TypeSwitchStmt); ok {
			ts = t
		}
	}
	if ts == nil {
		return ops, false, false
	}
	for _, c := range ts.Body.List {
		cc := c.(*ast.CaseClause)
		kind := ""
		for _, e := range cc.List {
			if k := nk.KindOfType(info.TypeOf(e)); k != nil {
				kind = k.Name
			}
		}
		switch kind {
		case "IntegerNode":
			hasInt = true
			ast.Inspect(cc, func(n ast.Node) bool {
				if call, ok := n.(*ast.CallExpr); ok {
					if sel, ok := call.Fun.(*ast.SelectorExpr); ok && sel.Sel.Name == "SetType" {
						sets = true
					}
				}
				return true
			})
		case "UnaryNode", "BinaryNode":
			pre := "binary "
			if kind == "UnaryNode" {
				pre = "unary "
			}
			ast.Inspect(cc, func(n ast.Node) bool {
				switch x := n.(type) {
				case *ast.CaseClause:
					if x != cc {
						for _, e := range x.List {
							if v, ok := constStringOf(info, e); ok {
								ops[pre+v] = true
							}
						}
					}
				case *ast.BinaryExpr:
					if x.Op == token.EQL {
						for _, side := range [][2]ast.Expr{{x.X, x.Y}, {x.Y, x.X}} {
							if sel, ok := eng.Unparen(side[0]).(*ast.SelectorExpr); ok && sel.Sel.Name == "Operator" {
								if v, ok := constStringOf(info, side[1]); ok {
									ops[pre+v] = true
								}
							}
						}
					}
				case *ast.CallExpr:
					// the operator test named: `isSignOperator(n.Operator)` — the strings the
					// predicate compares its parameter with
					for i, a := range x.Args {
						if sel, ok := eng.Unparen(a).(*ast.SelectorExpr); ok && sel.Sel.Name == "Operator" {
							for _, v := range stringsComparedWithParam(p, info, x, i) {
								ops[pre+v] = true
							}
						}
					}
				}
				return true
			})
		}
	}
	return ops, hasInt, sets
}

// stringsComparedWithParam: the string constants that the callee of call (a function of the
// same package with a body) compares its i-th parameter with, by == or as labels of a switch
// on the parameter.
func stringsComparedWithParam(p *core.Program, info *types.Info, call *ast.CallExpr, i int) []string {
	fn := eng.CalleeOf(info, call)
	if fn == nil {
		return nil
	}
	_, pfd := p.DeclOf(fn)
	if pfd == nil || pfd.Body == nil || pfd.Type.Params == nil {
		return nil
	}
	var param types.Object
	k := 0
	for _, f := range pfd.Type.Params.List {
		for _, nm := range f.Names {
			if k == i {
				param = info.Defs[nm]
			}
			k++
		}
	}
	if param == nil {
		return nil
	}
	isParam := func(e ast.Expr) bool {
		id, ok := eng.Unparen(e).(*ast.Ident)
		return ok && info.Uses[id] == param
	}
	var out []string
	ast.Inspect(pfd.Body, func(n ast.Node) bool {
		switch x := n.(type) {
		case *ast.BinaryExpr:
			if x.Op == token.EQL || x.Op == token.NEQ {
				for _, side := range [][2]ast.Expr{{x.X, x.Y}, {x.Y, x.X}} {
					if isParam(side[0]) {
						if v, ok := constStringOf(info, side[1]); ok {
							out = append(out, v)
						}
					}
				}
			}
		case *ast.SwitchStmt:
			if x.Tag != nil && isParam(x.Tag) {
				for _, c := range x.Body.List {
					for _, e := range c.(*ast.CaseClause).List {
						if v, ok := constStringOf(info, e); ok {
							out = append(out, v)
						}
					}
				}
			}
		}
		return true
	})
	return out
}

func retypableOperators(p *core.Program, nk *eng.NodeKinds) (map[string]bool, string) {
	info := p.Pkg("checker").TypesInfo
	for _, fd := range p.FuncDecls("checker") {
		if fd.Body == nil {
			continue
		}
		ops, _, sets := operatorsOfNodeSwitch(p, info, nk, fd)
		if !sets {
			continue
		}
		if len(ops) == 0 && len(fd.Body.List) > 0 {
			// the operator test is delegated: `if !pred(node) { return }` guards the whole body
			if is, ok := fd.Body.List[0].(*ast.IfStmt); ok && is.Else == nil && is.Init == nil && blockLeaves(is.Body) {
				for _, d := range eng.Disjuncts(is.Cond, false) {
					if u, ok := d.(*ast.UnaryExpr); ok && u.Op == token.NOT {
						if c, ok := eng.Unparen(u.X).(*ast.CallExpr); ok {
							if fn := eng.CalleeOf(info, c); fn != nil {
								if _, pfd := p.DeclOf(fn); pfd != nil && pfd.Body != nil {
									ops, _, _ = operatorsOfNodeSwitch(p, info, nk, pfd)
								}
							}
						}
					}
				}
			}
		}
		if len(ops) > 0 {
			return ops, core.FuncName("checker", fd)
		}
	}
	return nil, ""
}

func c02TypedFold(p *core.Program, r *core.Report, nk *eng.NodeKinds, s *eng.RewriteSite) {
	info := p.Pkg(s.Rel).TypesInfo
	lit := s.Aliases.Literal(s.Repl)
	if lit == nil || (s.ReplKind != "IntegerNode" && s.ReplKind != "FloatNode") {
		return
	}
	if len(s.Context) >= 2 {
		ops, where := retypableOperators(p, nk)
		if ops == nil {
			r.Unk("R2.2", "checker/literal retyping", "", "the checker function that retypes integer literals (type switch with SetType on IntegerNode and operator cases) was not found")
			return
		}
		pre := "binary "
		if s.Context[0] == "*UnaryNode" {
			pre = "unary "
		}
		if op := strings.Trim(s.Context[1], `"`); !ops[pre+op] {
			r.OK("R2.2", s.Key+"/literals under this operator are never retyped", p.Pos(s.Call.Pos()), where+" does not descend through "+pre+op+": the operands keep type int")
			return
		}
	}
	reads := valueReads(info, s, lit, "IntegerNode")
	var paths []string
	for path := range reads {
		paths = append(paths, path)
	}
	sort.Strings(paths)
	for _, path := range paths {
		key := s.Key + "/literal " + path + " is a plain int"
		adm, np := admitted(p, s, path)
		if np == 0 {
			r.Unk("R2.2", key, p.Pos(s.Call.Pos()), "no path reaches the site")
			continue
		}
		ok := true
		for _, a := range adm {
			if !a.Nil && !(a.Kind == "Int" && !a.Named) {
				ok = false
			}
		}
		detail := "admitted static types of the literal: " + eng.AbsTypesString(adm)
		r.Check(ok, "R2.2", key, p.Pos(s.Call.Pos()), detail,
			detail+" — the fold computes on the literal's Go int value, but the type checker retypes integer literals in argument positions (to float64, int32, …) and the compiler pushes a retyped literal as a value of that type: `Fn(1/2)` with Fn(float64) is 0 when folded and 0.5 when the VM divides float64(1) by float64(2)")
	}
}

// c02Linear (R2.3): multiplicity ≤ 1, and no dynamic child of the matched node dropped.
func c02Linear(p *core.Program, r *core.Report, nk *eng.NodeKinds, s *eng.RewriteSite) {
	info := p.Pkg(s.Rel).TypesInfo
	pos := p.Pos(s.Call.Pos())
	n := map[string]int{}
	for _, o := range s.Operands {
		n[o.Path]++
	}
	var dups []string
	for path, c := range n {
		if c > 1 {
			dups = append(dups, fmt.Sprintf("%s ×%d", path, c))
		}
	}
	sort.Strings(dups)
	r.Check(len(dups) == 0, "R2.3", s.Key+"/linear", pos, "each reused operand appears once", "the replacement contains "+strings.Join(dups, ", ")+": the shared sub-tree is evaluated twice — a call in it happens twice when optimized and once when not")
	// dropped children
	if len(s.Context) == 0 || !strings.HasPrefix(s.Context[0], "*") {
		r.Unk("R2.3", s.Key+"/no dynamic child dropped", pos, "the site is not inside a clause of a type switch over the matched node")
		return
	}
	k := nk.ByName[strings.TrimPrefix(s.Context[0], "*")]
	if k == nil {
		r.Unk("R2.3", s.Key+"/no dynamic child dropped", pos, "matched kind "+s.Context[0]+" unknown")
		return
	}
	// the clause of the kind
	var clause *ast.CaseClause
	for _, anc := range s.Stack {
		if cc, ok := anc.(*ast.CaseClause); ok && clause == nil {
			for _, e := range cc.List {
				if kk := nk.KindOfType(info.TypeOf(e)); kk != nil && kk.Name == k.Name {
					clause = cc
				}
			}
		}
	}
	// the region in which the matched node's children are tested: the clause, or — when the
	// kind was established by a comma-ok assertion and guard clauses — the function body
	var region ast.Node = s.Func.Body
	if clause != nil {
		region = clause
	}
	al := s.Aliases
	inspected := map[string]bool{} // origin paths subjected to a kind test
	rangeVars := map[types.Object]string{}
	ast.Inspect(region, func(nd ast.Node) bool {
		switch x := nd.(type) {
		case *ast.RangeStmt:
			if id, ok := x.Value.(*ast.Ident); ok {
				rangeVars[objOf(info, id)] = al.Norm(x.X)
			}
		case *ast.TypeAssertExpr:
			if x.Type != nil && nk.KindOfType(info.TypeOf(x.Type)) == nil {
				return true
			}
			path := al.Norm(x.X)
			if id, ok := eng.Unparen(x.X).(*ast.Ident); ok {
				if base, isR := rangeVars[objOf(info, id)]; isR {
					path = base + "[*]"
				}
			}
			inspected[path] = true
		}
		return true
	})
	var dropped []string
	var check func(prefix string, kk *eng.Kind, depth int)
	check = func(prefix string, kk *eng.Kind, depth int) {
		for _, sl := range kk.Slots {
			path := prefix + "." + sl.Name
			used := false
			for _, o := range s.Operands {
				if o.Path == path || strings.HasPrefix(o.Path, path+".") || strings.HasPrefix(o.Path, path+"[") || o.Path == "*node" {
					used = true
				}
			}
			if used {
				continue
			}
			isInspected := false
			for ip := range inspected {
				if ip == path || strings.HasPrefix(ip, path+"[") {
					isInspected = true
				}
			}
			if !isInspected {
				dropped = append(dropped, path)
			}
		}
	}
	check("*node", k, 0)
	sort.Strings(dropped)
	r.Check(len(dropped) == 0, "R2.3", s.Key+"/no dynamic child dropped", pos, "every child of the matched node is reused or was established to be a literal",
		"the replacement drops "+strings.Join(dropped, ", ")+" although no test on the path establishes that it is a literal: the operand is no longer evaluated, so a failure (or a call) in it happens unoptimized and not optimized")
}

var dslToken = map[string]token.Token{`"+"`: token.ADD, `"-"`: token.SUB, `"*"`: token.MUL, `"/"`: token.QUO, `"%"`: token.REM}

// c02FoldOperator (R2.6).
func c02FoldOperator(p *core.Program, r *core.Report, s *eng.RewriteSite) {
	info := p.Pkg(s.Rel).TypesInfo
	if len(s.Context) < 2 || !strings.HasPrefix(s.Context[1], `"`) {
		return
	}
	lit := s.Aliases.Literal(s.Repl)
	if lit == nil {
		return
	}
	var val ast.Expr
	for _, el := range lit.Elts {
		if kv, ok := el.(*ast.KeyValueExpr); ok && eng.ExprStr(kv.Key) == "Value" {
			val = kv.Value
		}
	}
	if val == nil {
		return
	}
	op := s.Context[1]
	key := s.Key + "/operator applied to the literal values"
	pos := p.Pos(s.Call.Pos())
	al := s.Aliases
	isVal := func(e ast.Expr, path string) bool {
		sel, ok := eng.Unparen(e).(*ast.SelectorExpr)
		return ok && sel.Sel.Name == "Value" && al.Norm(sel.X) == path
	}
	conv := func(e ast.Expr) ast.Expr { // strip float64(x)
		if c, ok := eng.Unparen(e).(*ast.CallExpr); ok && len(c.Args) == 1 {
			if tv, ok := info.Types[c.Fun]; ok && tv.IsType() {
				return c.Args[0]
			}
		}
		return e
	}
	val = eng.Unparen(val)
	switch s.Context[0] {
	case "*UnaryNode":
		switch op {
		case `"-"`:
			u, ok := val.(*ast.UnaryExpr)
			r.Check(ok && u.Op == token.SUB && isVal(u.X, "*node.Node"), "R2.6", key, pos, "-value", "under the unary `-` case the fold computes `"+eng.ExprStr(val)+"`, not the negation of the operand's value")
		case `"+"`:
			r.Check(isVal(val, "*node.Node"), "R2.6", key, pos, "value", "under the unary `+` case the fold computes `"+eng.ExprStr(val)+"`, not the operand's value")
		default:
			r.Unk("R2.6", key, pos, "fold under unary operator "+op+", which the reference table does not know")
		}
	case "*BinaryNode":
		if op == `"**"` {
			c, ok := val.(*ast.CallExpr)
			okPow := false
			if ok && len(c.Args) == 2 {
				fn := eng.CalleeOf(info, c)
				okPow = fn != nil && fn.Pkg() != nil && fn.Pkg().Path() == "math" && fn.Name() == "Pow" && isVal(conv(c.Args[0]), "*node.Left") && isVal(conv(c.Args[1]), "*node.Right")
			}
			r.Check(okPow, "R2.6", key, pos, "math.Pow(float64(left), float64(right))", "under the `**` case the fold computes `"+eng.ExprStr(val)+"`; the VM computes math.Pow of the float64 conversions of both operands — any other route (integer multiplication wraps at 2^63) gives a different constant")
			return
		}
		tok, known := dslToken[op]
		if !known {
			r.Unk("R2.6", key, pos, "fold under operator "+op+", which the reference table does not know")
			return
		}
		b, ok := val.(*ast.BinaryExpr)
		r.Check(ok && b.Op == tok && isVal(b.X, "*node.Left") && isVal(b.Y, "*node.Right"), "R2.6", key, pos, "left "+tok.String()+" right", "under the `"+strings.Trim(op, `"`)+"` case the fold computes `"+eng.ExprStr(val)+"`, not left "+tok.String()+" right")
	}
}

// c02Errors (R2.4, R2.9).
func c02Errors(p *core.Program, r *core.Report) {
	info := p.Pkg("optimizer").TypesInfo
	errT := p.Pkg("file").Types.Scope().Lookup("Error")
	n := 0
	rawSite := func(nd ast.Node) (bool, string) {
		switch x := nd.(type) {
		case *ast.CompositeLit:
			if t := info.TypeOf(x); t != nil && errT != nil && types.Identical(t, errT.Type()) {
				return true, "file.Error literal"
			}
		case *ast.CallExpr:
			if fn := eng.CalleeOf(info, x); fn != nil && fn.Pkg() != nil && (fn.Pkg().Path() == "fmt" && fn.Name() == "Errorf" || fn.Pkg().Path() == "errors" && fn.Name() == "New") {
				return true, fn.Pkg().Path() + "." + fn.Name()
			}
		}
		return false, ""
	}
	// error constructors: plain functions of the package that only build and return an error;
	// the circumstances of the error are those of their call sites
	ctors := map[*types.Func]bool{}
	for _, fd := range p.FuncDecls("optimizer") {
		if fd.Body == nil || len(fd.Body.List) != 1 || fd.Name.Name == "Enter" || fd.Name.Name == "Exit" {
			continue
		}
		// `return <error>` or `<receiver>.err = <error>` (a recorder of that one error)
		var e ast.Expr
		switch st := fd.Body.List[0].(type) {
		case *ast.ReturnStmt:
			if len(st.Results) == 1 {
				e = eng.Unparen(st.Results[0])
			}
		case *ast.AssignStmt:
			if len(st.Lhs) == 1 && len(st.Rhs) == 1 {
				if _, isSel := st.Lhs[0].(*ast.SelectorExpr); isSel {
					e = eng.Unparen(st.Rhs[0])
				}
			}
		}
		if e == nil {
			continue
		}
		if u, ok := e.(*ast.UnaryExpr); ok && u.Op == token.AND {
			e = eng.Unparen(u.X)
		}
		if is, _ := rawSite(e); is {
			if fn, ok := info.Defs[fd.Name].(*types.Func); ok {
				ctors[fn] = true
			}
		}
	}
	for _, fd := range p.FuncDecls("optimizer") {
		if fd.Body == nil {
			continue
		}
		if fn, ok := info.Defs[fd.Name].(*types.Func); ok && ctors[fn] {
			continue
		}
		fname := core.FuncName("optimizer", fd)
		var stack []ast.Node
		ast.Inspect(fd.Body, func(nd ast.Node) bool {
			if nd == nil {
				stack = stack[:len(stack)-1]
				return true
			}
			stack = append(stack, nd)
			isErrSite, what := rawSite(nd)
			if c, ok := nd.(*ast.CallExpr); ok && !isErrSite {
				if fn := eng.CalleeOf(info, c); fn != nil && ctors[fn] {
					isErrSite, what = true, "call of the error constructor "+fn.Name()
				}
			}
			if isErrSite {
				n++
				key := fmt.Sprintf("%s/error site#%d (%s)", fname, n, what)
				// (b) inside a deferred closure that calls recover
				inRecover := false
				divCase, zeroTest := false, false
				// … or in a function that calls recover itself and is only ever deferred (the
				// handler extracted: `defer c.recoverAt(node)`)
				if self, ok := info.Defs[fd.Name].(*types.Func); ok && callsRecoverDirectly(info, fd.Body) {
					uses, deferred := 0, 0
					for _, ofd := range p.FuncDecls("optimizer") {
						if ofd.Body == nil {
							continue
						}
						dcalls := map[*ast.CallExpr]bool{}
						ast.Inspect(ofd.Body, func(m ast.Node) bool {
							switch x := m.(type) {
							case *ast.DeferStmt:
								dcalls[x.Call] = true
							case *ast.Ident:
								if info.Uses[x] == types.Object(self) {
									uses++
								}
							case *ast.CallExpr:
								if dcalls[x] && eng.CalleeOf(info, x) == self {
									deferred++
								}
							}
							return true
						})
					}
					if uses > 0 && uses == deferred {
						inRecover = true
					}
				}
				for i, anc := range stack {
					if fl, ok := anc.(*ast.FuncLit); ok && callsRecover(info, fl) {
						if i > 0 {
							inRecover = true
						}
					}
					if cc, ok := anc.(*ast.CaseClause); ok {
						all := len(cc.List) > 0
						for _, e := range cc.List {
							if s := eng.ExprStr(e); s != `"/"` && s != `"%"` {
								if _, isLit := e.(*ast.BasicLit); isLit {
									all = false
								}
							}
						}
						for _, e := range cc.List {
							if _, isLit := e.(*ast.BasicLit); isLit && all {
								divCase = true
							}
						}
					}
					if is, ok := anc.(*ast.IfStmt); ok {
						if b, ok := eng.Unparen(is.Cond).(*ast.BinaryExpr); ok && b.Op == token.EQL && eng.ExprStr(b.Y) == "0" && strings.HasSuffix(eng.ExprStr(b.X), ".Value") {
							zeroTest = true
						}
					}
				}
				r.Check(inRecover || (divCase && zeroTest), "R2.4", key, p.Pos(nd.Pos()), "constant division by zero, or the recovered panic of a compile-time call",
					"the optimizer creates an error here that is neither the constant integer division/modulo by zero nor the recovered failure of a ConstExpr call: an expression the unoptimized compiler accepts is rejected when optimizations are on")
			}
			// R2.9: integer / and % on literal values are dominated by the zero test
			if b, ok := nd.(*ast.BinaryExpr); ok && (b.Op == token.QUO || b.Op == token.REM) && strings.HasSuffix(eng.ExprStr(b.Y), ".Value") {
				if t, ok := info.TypeOf(b.Y).Underlying().(*types.Basic); ok && t.Info()&types.IsInteger != 0 {
					guarded := false
					// a preceding sibling `if <div>.Value == 0 { …; return }` in an enclosing block
					for i := len(stack) - 1; i >= 0 && !guarded; i-- {
						var list []ast.Stmt
						switch blk := stack[i].(type) {
						case *ast.BlockStmt:
							list = blk.List
						case *ast.CaseClause:
							list = blk.Body
						}
						for _, st := range list {
							if st.End() > nd.Pos() {
								break
							}
							if is, ok := st.(*ast.IfStmt); ok && is.Else == nil {
								if c, ok := eng.Unparen(is.Cond).(*ast.BinaryExpr); ok && c.Op == token.EQL && eng.ExprStr(c.Y) == "0" && eng.ExprStr(c.X) == eng.ExprStr(b.Y) && blockLeaves(is.Body) {
									guarded = true
								}
							}
						}
					}
					r.Check(guarded, "R2.9", fmt.Sprintf("%s/constant %s is guarded", fname, b.Op), p.Pos(b.Pos()), "dominated by a zero test of the divisor that leaves",
						"the constant `"+eng.ExprStr(b)+"` is not dominated by a zero test of the divisor: the optimizer runs outside every recover, so `1/0` panics in Compile")
				}
			}
			return true
		})
	}
	r.Analysed["optimizer_error_sites"] = n
	// Optimize returns only pass-recorded errors or nil
	if fd := p.FuncDecl("optimizer", "", "Optimize"); fd != nil {
		i := 0
		// a returned error is nil, an error recorded by a pass (a field), or what a helper of
		// the package returned, whose own returns are of these kinds
		var okReturns func(f *ast.FuncDecl, depth int) (bool, string)
		okReturns = func(f *ast.FuncDecl, depth int) (bool, string) {
			good, bad := true, ""
			ld := eng.SingleDefs(info, f.Body)
			ast.Inspect(f.Body, func(nd ast.Node) bool {
				if _, isLit := nd.(*ast.FuncLit); isLit {
					return false
				}
				rs, ok := nd.(*ast.ReturnStmt)
				if !ok || len(rs.Results) == 0 {
					return true
				}
				e := eng.Unparen(rs.Results[len(rs.Results)-1])
				if isNilIdent(info, e) {
					return true
				}
				if _, isSel := e.(*ast.SelectorExpr); isSel {
					return true
				}
				// err := helper(…)  /  if err := helper(…); err != nil { return err }
				src := ld.Resolve(e)
				if id, isID := e.(*ast.Ident); isID && src == ast.Expr(id) {
					// not single-definition: take the assignments of the variable in this function
					ast.Inspect(f.Body, func(m ast.Node) bool {
						if as, ok := m.(*ast.AssignStmt); ok && len(as.Lhs) == 1 && len(as.Rhs) == 1 {
							if lid, ok := as.Lhs[0].(*ast.Ident); ok && objOf(info, lid) == objOf(info, id) {
								src = as.Rhs[0]
							}
						}
						return true
					})
				}
				if c, isCall := eng.Unparen(src).(*ast.CallExpr); isCall && depth < 2 {
					if fn := eng.CalleeOf(info, c); fn != nil && fn.Pkg() == p.Pkg("optimizer").Types {
						if _, hfd := p.DeclOf(fn); hfd != nil && hfd.Body != nil {
							if ok, why := okReturns(hfd, depth+1); ok {
								return true
							} else {
								good, bad = false, why
								return true
							}
						}
					}
				}
				good, bad = false, eng.ExprStr(e)
				return true
			})
			return good, bad
		}
		ast.Inspect(fd.Body, func(nd ast.Node) bool {
			rs, ok := nd.(*ast.ReturnStmt)
			if !ok || len(rs.Results) != 1 {
				return true
			}
			i++
			return true
		})
		okAll, why := okReturns(fd, 0)
		for k := 1; k <= i; k++ {
			r.Check(okAll, "R2.4", fmt.Sprintf("optimizer.Optimize/return#%d", k), p.Pos(fd.Pos()), "returns nil or an error recorded by a pass", "Optimize returns `"+why+"`, an error that no pass recorded")
		}
	} else {
		r.Unk("R2.4", "optimizer.Optimize", "", "not found")
	}
}

// c02Pipeline (R2.5).
func c02Pipeline(p *core.Program, r *core.Report) {
	compile := p.FuncDecl("", "", "Compile")
	if compile == nil {
		r.Unk("R2.5", "expr.Compile", "", "not found")
		return
	}
	info := p.Pkg("").TypesInfo
	lookup := func(rel, name string) types.Object { return p.Pkg(rel).Types.Scope().Lookup(name) }
	opt, tcheck, cgen, walk := lookup("optimizer", "Optimize"), lookup("checker", "Check"), lookup("compiler", "Compile"), lookup("ast", "Walk")
	patchOps := lookup("compiler", "PatchOperators")
	if opt == nil || tcheck == nil || cgen == nil || walk == nil {
		r.Unk("R2.5", "expr.Compile/stages", "", "a pipeline stage was not found")
		return
	}
	w := &eng.Walker{Info: info, MaxPaths: 4000, Inline: inlineUnexported(p, ""), MaxDepth: 2}
	paths := flattenPaths(w.Func(compile.Body), 20000)
	okGate, okOrder, okOff := true, true, true
	nOpt, nGen := 0, 0
	why := ""
	for _, atoms := range paths {
		if !errFlowFeasible(info, atoms) {
			continue
		}
		optOn := 0 // 1 = `config.Optimize` taken, -1 = not taken
		sawOpt, sawGen := false, false
		for _, a := range atoms {
			if a.Kind == "cond" {
				if strings.HasSuffix(eng.ExprStr(a.Node), ".Optimize") {
					if a.Taken {
						optOn = 1
					} else {
						optOn = -1
					}
				}
			}
			if a.Kind != "call" || a.Call == nil {
				continue
			}
			fn := eng.CalleeOf(info, a.Call)
			if fn == nil {
				continue
			}
			switch types.Object(fn) {
			case opt:
				nOpt++
				sawOpt = true
				if optOn != 1 {
					okGate, why = false, "optimizer.Optimize is called on a path that has not tested the Optimize option"
				}
				if sawGen {
					okOrder, why = false, "optimizer.Optimize runs after code generation"
				}
			case tcheck, walk, patchOps:
				if sawOpt {
					okOrder, why = false, "a type check, a visitor walk or the operator patch runs after the optimizer: the optimizer's rewrites would be re-typed or patched"
				}
			case cgen:
				nGen++
				sawGen = true
				if optOn == -1 && sawOpt {
					okOff, why = false, "with Optimize(false) the path still passes the optimizer"
				}
				if optOn == 1 && !sawOpt {
					okOff, why = false, "with Optimize(true) a path reaches code generation without the optimizer"
				}
			}
		}
	}
	pos := p.Pos(compile.Pos())
	if nOpt == 0 || nGen == 0 {
		r.Unk("R2.5", "expr.Compile/stages", pos, "no path calls optimizer.Optimize and compiler.Compile")
		return
	}
	r.Check(okGate, "R2.5", "expr.Compile/optimizer only under the Optimize option", pos, "gated by config.Optimize", why)
	r.Check(okOrder, "R2.5", "expr.Compile/optimizer after checks, patches and visitors, before code generation", pos, "order holds on every path", why)
	r.Check(okOff, "R2.5", "expr.Compile/Optimize(false) bypasses the optimizer, Optimize(true) passes it", pos, "both hold", why)
}

// c02RangeShape (R2.10): the inRange site builds (x >= from) and (x <= to).
func c02RangeShape(p *core.Program, r *core.Report, nk *eng.NodeKinds, sites []*eng.RewriteSite) {
	info := p.Pkg("optimizer").TypesInfo
	found := false
	for _, s := range sites {
		// the site whose replacement reuses both bounds of a range on the right
		hasFrom, hasTo := false, false
		for _, o := range s.Operands {
			if o.Path == "*node.Right.Left" {
				hasFrom = true
			}
			if o.Path == "*node.Right.Right" {
				hasTo = true
			}
		}
		if !hasFrom && !hasTo {
			continue
		}
		found = true
		pos := p.Pos(s.Call.Pos())
		al := s.Aliases
		type cmp struct{ op, left, right string }
		var cmps []cmp
		top := ""
		for i, fl := range s.Fresh {
			vals := map[string]ast.Expr{}
			for _, el := range fl.Elts {
				if kv, ok := el.(*ast.KeyValueExpr); ok {
					vals[eng.ExprStr(kv.Key)] = kv.Value
				}
			}
			op, _ := constStringOf(info, vals["Operator"])
			if i == 0 {
				top = op
				continue
			}
			cmps = append(cmps, cmp{op, al.Norm(vals["Left"]), al.Norm(vals["Right"])})
		}
		r.Check(top == "and", "R2.10", s.Key+"/conjunction", pos, "and", "the two comparisons are joined by `"+top+"`, not `and`")
		okGe, okLe := false, false
		for _, c := range cmps {
			if c.op == ">=" && c.left == "*node.Left" && c.right == "*node.Right.Left" {
				okGe = true
			}
			if c.op == "<=" && c.left == "*node.Left" && c.right == "*node.Right.Right" {
				okLe = true
			}
		}
		r.Check(okGe, "R2.10", s.Key+"/lower bound", pos, "x >= (left bound of the range)", fmt.Sprintf("no comparison `x >= a` with a the range's left bound among %v: membership in a..b is not the two-sided comparison", cmps))
		r.Check(okLe, "R2.10", s.Key+"/upper bound", pos, "x <= (right bound of the range)", fmt.Sprintf("no comparison `x <= b` with b the range's right bound among %v", cmps))
		// the bounds are literals of the range operator
		okRange := false
		ast.Inspect(s.Func.Body, func(n ast.Node) bool {
			if b, ok := n.(*ast.BinaryExpr); ok && b.Op == token.EQL {
				if v, ok := constStringOf(info, b.Y); ok && v == ".." && strings.HasSuffix(eng.ExprStr(b.X), ".Operator") {
					okRange = true
				}
			}
			return true
		})
		r.Check(okRange, "R2.10", s.Key+"/right operand is a range", pos, `rng.Operator == ".."`, "the rewrite does not test that the right operand is the range operator")
	}
	// the `not in` wrapper
	for _, s := range sites {
		if s.ReplKind == "UnaryNode" && len(s.Operands) == 1 && s.Operands[0].Path == "*node" {
			lit := s.Aliases.Literal(s.Repl)
			op := ""
			for _, el := range lit.Elts {
				if kv, ok := el.(*ast.KeyValueExpr); ok && eng.ExprStr(kv.Key) == "Operator" {
					op, _ = constStringOf(info, kv.Value)
				}
			}
			// some fact that holds at the call — the condition of an enclosing if, the negation
			// of an earlier guard clause, possibly named first (`negated := n.Operator == "not in"`) —
			// says that the operator is `not in`
			guard := false
			defs := eng.SingleDefs(info, s.Func.Body)
			for _, f := range eng.FactsAt(s.Func.Body, s.Call) {
				for _, c := range eng.Conjuncts(defs.Resolve(f), false) {
					isOp := func(e ast.Expr) bool { return strings.HasSuffix(eng.ExprStr(e), ".Operator") }
					if _, y, op, ok := eng.CmpOn(c, isOp); ok && op == token.EQL {
						if v, ok := constStringOf(info, y); ok && v == "not in" {
							guard = true
						}
					}
				}
			}
			r.Check(op == "not" && guard, "R2.10", s.Key+"/negation only for `not in`", p.Pos(s.Call.Pos()), "not(...) under Operator == \"not in\"", "the negation wrapper is not `not` applied exactly under the `not in` operator")
		}
	}
	if !found {
		r.Unk("R2.10", "range membership rewrite", "", "no rewrite site reuses the bounds of a range")
	}
}

func c02Controls() []core.Mutant {
	return []core.Mutant{
		{Name: "kind guard of the integer lookup map removed", File: "optimizer/in_array.go", Old: "if t == nil || t.Kind() != reflect.Int || t.PkgPath() != \"\" {", New: "if t == nil {", Rule: "R2.1", Construct: "inArray"},
		{Name: "named-type exclusion of the string lookup map removed", File: "optimizer/in_array.go", Old: "if t == nil || t.Kind() != reflect.String || t.PkgPath() != \"\" {", New: "if t == nil || t.Kind() != reflect.String {", Rule: "R2.1", Construct: "inArray"},
		{Name: "range membership rewritten for every operand type", File: "optimizer/in_range.go", Old: "t != nil && (t.Kind() != reflect.Int || t.PkgPath() != \"\")", New: "t != nil && t.Kind() == reflect.Invalid", Rule: "R2.1", Construct: "inRange"},
		{Name: "fold of + ignores the literal's static type", File: "optimizer/fold.go", Old: "\t\tcase \"+\":\n\t\t\tif a, ok := n.Left.(*IntegerNode); ok && plain(a) {\n\t\t\t\tif b, ok := n.Right.(*IntegerNode); ok && plain(b) {", New: "\t\tcase \"+\":\n\t\t\tif a, ok := n.Left.(*IntegerNode); ok {\n\t\t\t\tif b, ok := n.Right.(*IntegerNode); ok {", Rule: "R2.2", Construct: "\"+\""},
		{Name: "retyping extended to % without the fold being guarded", File: "checker/types.go", Old: "\tcase *ast.BinaryNode:\n\t\tswitch n.Operator {\n\t\tcase \"+\", \"/\", \"-\", \"*\":\n\t\t\tsetTypeForIntegers(n.Left, t)", New: "\tcase *ast.BinaryNode:\n\t\tswitch n.Operator {\n\t\tcase \"+\", \"/\", \"-\", \"*\", \"%\":\n\t\t\tsetTypeForIntegers(n.Left, t)", Rule: "R2.2", Construct: "\"%\""},
		{Name: "subtraction under the + case", File: "optimizer/fold.go", Old: "patchWithType(&IntegerNode{Value: a.Value + b.Value}, a.Type())", New: "patchWithType(&IntegerNode{Value: a.Value - b.Value}, a.Type())", Rule: "R2.6", Construct: "\"+\""},
		{Name: "integer power instead of math.Pow", File: "optimizer/fold.go", Old: "patch(&FloatNode{Value: math.Pow(float64(a.Value), float64(b.Value))})", New: "_ = math.Pow\n\t\t\t\t\tv := 1\n\t\t\t\t\tfor k := 0; k < b.Value; k++ {\n\t\t\t\t\t\tv *= a.Value\n\t\t\t\t\t}\n\t\t\t\t\tpatch(&FloatNode{Value: float64(v)})", Rule: "R2.6", Construct: "\"**\""},
		{Name: "zero test before the constant division removed", File: "optimizer/fold.go", Old: "\t\t\t\t\tif b.Value == 0 {\n\t\t\t\t\t\tfold.err = &file.Error{\n\t\t\t\t\t\t\tLocation: (*node).Location(),\n\t\t\t\t\t\t\tMessage:  \"integer divide by zero\",\n\t\t\t\t\t\t}\n\t\t\t\t\t\treturn\n\t\t\t\t\t}\n\t\t\t\t\tpatchWithType(&IntegerNode{Value: a.Value / b.Value}, a.Type())", New: "\t\t\t\t\tpatchWithType(&IntegerNode{Value: a.Value / b.Value}, a.Type())", Rule: "R2.9", Construct: "constant /"},
		{Name: "error recorded under the * case", File: "optimizer/fold.go", Old: "\t\tcase \"*\":\n", New: "\t\tcase \"*\":\n\t\t\tif _, ok := n.Left.(*StringNode); ok {\n\t\t\t\tfold.err = &file.Error{Location: (*node).Location(), Message: \"cannot multiply a string\"}\n\t\t\t\treturn\n\t\t\t}\n", Rule: "R2.4", Construct: "error site"},
		{Name: "optimizer runs before the operator patch", File: "expr.go", Old: "\t// Patch operators before Optimize, as we may also mark it as ConstExpr.\n\tcompiler.PatchOperators(&tree.Node, config)\n", New: "\tif config.Optimize {\n\t\t_ = optimizer.Optimize(&tree.Node, config)\n\t}\n\tcompiler.PatchOperators(&tree.Node, config)\n", Rule: "R2.5", Construct: "optimizer after checks"},
		{Name: "compile-time range is one element short", File: "optimizer/const_range.go", Old: "size := max.Value - min.Value + 1", New: "size := max.Value - min.Value", Rule: "R2.7", Construct: "size is max - min + 1"},
		{Name: "compile-time range starts one too high", File: "optimizer/const_range.go", Old: "value[i] = min.Value + i", New: "value[i] = min.Value + i + 1", Rule: "R2.7", Construct: "element i is min + i"},
		{Name: "run-time range treats a singleton as empty", File: "vm/runtime.go", Old: "\tsize := max - min + 1\n\tif size <= 0 {\n\t\treturn []int{}", New: "\tsize := max - min + 1\n\tif size <= 1 {\n\t\treturn []int{}", Rule: "R2.7", Construct: "vm.makeRange/size is max - min + 1"},
		{Name: "run-time range without the empty case", File: "vm/runtime.go", Old: "\tif size <= 0 {\n\t\treturn []int{}\n\t}\n", New: "", Rule: "R2.7", Construct: "empty exactly when"},
		{Name: "refactor: run-time range clamps and carries the element in a variable", File: "vm/runtime.go", Old: "\tif size <= 0 {\n\t\treturn []int{}\n\t}\n\trng := make([]int, size)\n\tfor i := range rng {\n\t\trng[i] = min + i\n\t}", New: "\tif size < 1 {\n\t\tsize = 0\n\t}\n\trng := make([]int, size)\n\tfor i, v := 0, min; i < size; i, v = i+1, v+1 {\n\t\trng[i] = v\n\t}", Silent: true},
		{Name: "refactor: run-time range appends", File: "vm/runtime.go", Old: "\tif size <= 0 {\n\t\treturn []int{}\n\t}\n\trng := make([]int, size)\n\tfor i := range rng {\n\t\trng[i] = min + i\n\t}", New: "\trng := []int{}\n\tfor v := min; v <= max; v++ {\n\t\trng = append(rng, v)\n\t}\n\t_ = size", Silent: true},
		{Name: "bounds swapped in the range membership rewrite", File: "optimizer/in_range.go", Old: "\t\t\t\t\t\t\tOperator: \">=\",\n\t\t\t\t\t\t\tLeft:     n.Left,\n\t\t\t\t\t\t\tRight:    from,", New: "\t\t\t\t\t\t\tOperator: \">=\",\n\t\t\t\t\t\t\tLeft:     n.Left,\n\t\t\t\t\t\t\tRight:    to,", Edits: [][2]string{{"\t\t\t\t\t\t\tOperator: \"<=\",\n\t\t\t\t\t\t\tLeft:     n.Left,\n\t\t\t\t\t\t\tRight:    to,", "\t\t\t\t\t\t\tOperator: \"<=\",\n\t\t\t\t\t\t\tLeft:     n.Left,\n\t\t\t\t\t\t\tRight:    from,"}}, Rule: "R2.10", Construct: "lower bound"},
		{Name: "empty descending range folded to a constant, operand dropped", File: "optimizer/in_range.go", Old: "\t\t\t\t\tif to, ok := rng.Right.(*IntegerNode); ok {\n", New: "\t\t\t\t\tif to, ok := rng.Right.(*IntegerNode); ok {\n\t\t\t\t\t\tif from.Value > to.Value {\n\t\t\t\t\t\t\tPatch(node, &BoolNode{Value: n.Operator == \"not in\"})\n\t\t\t\t\t\t\treturn\n\t\t\t\t\t\t}\n", Rule: "R2.3", Construct: "no dynamic child dropped"},
		{Name: "REFACTORING: the plain-int predicate as a package-level helper", File: "optimizer/fold.go", Silent: true,
			Old: "\tplain := func(i *IntegerNode) bool {\n\t\tt := i.Type()\n\t\treturn t == nil || (t.Kind() == reflect.Int && t.PkgPath() == \"\")\n\t}\n", New: "",
			Edits: [][2]string{{"func (*fold) Enter(*Node) {}", "func plain(i *IntegerNode) bool {\n\tt := i.Type()\n\tif t == nil {\n\t\treturn true\n\t}\n\treturn t.Kind() == reflect.Int && t.PkgPath() == \"\"\n}\n\nfunc (*fold) Enter(*Node) {}"}}},
	}
}
