package props

import (
	"fmt"
	"go/ast"
	"go/token"
	"go/types"
	"strings"

	"verif/exprlint/core"
	"verif/exprlint/eng"
)

func init() {
	register(&Prop{ID: "C10", Run: runC10, Controls: c10Controls})
}

// visitorEvent classifies calls of the ast.Visitor interface methods.
func visitorEvent(p *core.Program) func(info *types.Info, call *ast.CallExpr) string {
	vis := p.Pkg("ast").Types.Scope().Lookup("Visitor")
	return func(info *types.Info, call *ast.CallExpr) string {
		fn := eng.CalleeOf(info, call)
		if fn == nil || vis == nil {
			return ""
		}
		sig := fn.Type().(*types.Signature)
		if sig.Recv() == nil {
			return ""
		}
		if types.Identical(sig.Recv().Type(), vis.Type()) || types.Identical(sig.Recv().Type().Underlying(), vis.Type().Underlying()) {
			return fn.Name()
		}
		return ""
	}
}

// walkerRules are shared by C10 (walker completeness) and C17 (R17.5).
func walkerRules(p *core.Program, r *core.Report, prefix string) {
	nk, msg := eng.FindNodeKinds(p)
	if nk == nil {
		r.Unk(prefix+".1", "ast node kinds", "", msg)
		return
	}
	r.Analysed["node_kinds"] = len(nk.Kinds)
	ds := eng.FindDispatchers(p, nk, "ast")
	if len(ds) != 1 {
		r.Unk(prefix+".1", "ast walker dispatcher", "", fmt.Sprintf("expected exactly one type switch over ast.Node with a panicking default in package ast, found %d", len(ds)))
		return
	}
	d := ds[0]
	fname := core.FuncName("ast", d.Func)
	info := p.Pkg("ast").TypesInfo

	// R.1 exhaustive
	for _, k := range nk.Kinds {
		_, ok := d.Clauses[k.Name]
		r.Check(ok, prefix+".1", fname+"/case *"+k.Name, p.Pos(d.Switch.Pos()), "clause exists", "the walker has no clause for node kind "+k.Name+": walking a tree containing one panics, and its children are never visited")
	}

	// R.2 slot coverage, multiplicity, order, address
	cps, problems := eng.ClausePaths(p, nk, d, eng.ConsumeConf{Event: visitorEvent(p)})
	for _, pr := range problems {
		r.Unk(prefix+".2", pr, "", "cannot enumerate paths")
	}
	var param *ast.Ident
	if d.Func.Type.Params != nil && len(d.Func.Type.Params.List) > 0 && len(d.Func.Type.Params.List[0].Names) > 0 {
		param = d.Func.Type.Params.List[0].Names[0]
	}
	for _, k := range nk.Kinds {
		cc := d.Clauses[k.Name]
		if cc == nil {
			continue
		}
		paths := cps[k.Name]
		pos := p.Pos(cc.Pos())
		for _, s := range k.Slots {
			key := fname + "/case *" + k.Name + "/slot " + s.Name
			verdict, detail := core.Discharged, "walked exactly once on every path, by address"
			for _, cp := range paths {
				if cp.Error {
					continue
				}
				n := 0
				for _, u := range cp.Uses {
					if u.Slot == s.Name {
						n++
						if !u.Addr {
							verdict, detail = core.Violated, "the walker is handed a copy of the slot, not its address: a replacement made by the visitor is lost"
						}
						if s.List && u.Mode != "range" {
							verdict, detail = core.Violated, "list slot is not walked by one loop over all its elements ("+u.Mode+")"
						}
						if !s.List && u.Mode != "single" {
							verdict, detail = core.Violated, "slot consumed in unexpected mode "+u.Mode
						}
					}
					if u.Slot == "?" {
						verdict, detail = core.Undecided, "unrecognised argument of the recursive walk: "+u.Mode
					}
				}
				if n == 0 && !cp.Exempt[s.Name] {
					verdict, detail = core.Violated, "slot "+k.Name+"."+s.Name+" is not walked on path ["+strings.Join(cp.Conds, ", ")+"]: visitors (user patches, operator overloading, optimizer) never see this child"
				}
				if n > 1 {
					verdict, detail = core.Violated, fmt.Sprintf("slot walked %d times on one path", n)
				}
			}
			if len(paths) == 0 {
				verdict, detail = core.Undecided, "no path through the clause"
			}
			r.Add(prefix+".2", key, verdict, pos, detail)
		}
		// order = declaration order
		okOrder := true
		for _, cp := range paths {
			if cp.Error {
				continue
			}
			last := -1
			for _, u := range cp.Uses {
				for i, s := range k.Slots {
					if s.Name == u.Slot {
						if i < last {
							okOrder = false
						}
						last = i
					}
				}
			}
		}
		if len(k.Slots) > 1 {
			r.Check(okOrder, prefix+".2", fname+"/case *"+k.Name+"/order", pos, "children walked in declaration (= source) order", "children are not walked in source order")
		}
		// R.3 Exit exactly once, after all children, with the walker's node parameter
		okExit, exitDetail := true, "Exit(node) once, after the children, on every path"
		for _, cp := range paths {
			if cp.Error {
				continue
			}
			n, lastChild, exitAt := 0, -1, -1
			for i, u := range cp.Uses {
				if u.Event == "Exit" {
					n++
					exitAt = i
					if id, ok := u.Arg.(*ast.Ident); !ok || param == nil || info.Uses[id] != info.Defs[param] {
						okExit, exitDetail = false, "Exit is not called with the walker's node pointer"
					}
				} else if u.Slot != "" {
					lastChild = i
				}
			}
			if n != 1 {
				okExit, exitDetail = false, fmt.Sprintf("Exit called %d times on path [%s]", n, strings.Join(cp.Conds, ", "))
			} else if exitAt < lastChild {
				okExit, exitDetail = false, "Exit is called before a child is walked"
			}
		}
		r.Check(okExit, prefix+".3", fname+"/case *"+k.Name+"/exit", pos, exitDetail, exitDetail)
	}

	// R.3 Enter precedes the switch and the switch re-reads *node
	enterOK, enterDetail := false, "no unconditional Enter(node) before the type switch"
	ev := visitorEvent(p)
	for _, st := range d.Func.Body.List {
		if st == ast.Stmt(d.Switch) {
			break
		}
		if es, ok := st.(*ast.ExprStmt); ok {
			if c, ok := es.X.(*ast.CallExpr); ok && ev(info, c) == "Enter" && len(c.Args) == 1 {
				if id, ok := c.Args[0].(*ast.Ident); ok && param != nil && info.Uses[id] == info.Defs[param] {
					enterOK, enterDetail = true, "Enter(node) is the unconditional first step"
				}
			}
		}
	}
	r.Check(enterOK, prefix+".3", fname+"/enter", p.Pos(d.Func.Pos()), enterDetail, enterDetail)
	var tag ast.Expr
	switch a := d.Switch.Assign.(type) {
	case *ast.AssignStmt:
		tag = a.Rhs[0].(*ast.TypeAssertExpr).X
	case *ast.ExprStmt:
		tag = a.X.(*ast.TypeAssertExpr).X
	}
	reread := false
	if se, ok := eng.Unparen(tag).(*ast.StarExpr); ok {
		if id, ok := se.X.(*ast.Ident); ok && param != nil && info.Uses[id] == info.Defs[param] {
			reread = true
		}
	}
	r.Check(reread, prefix+".3", fname+"/switch re-reads *node", p.Pos(d.Switch.Pos()), "the switch dispatches on *node read after Enter", "the switch does not dispatch on *node as re-read after Enter (tag: "+eng.ExprStr(tag)+"): a replacement made in Enter is not the node whose children are walked")
}

func patchRules(p *core.Program, r *core.Report, rule string) {
	// R10.4 ast.Patch copies type and location, then assigns through the pointer
	fd := p.FuncDecl("ast", "", "Patch")
	if fd == nil || fd.Body == nil || fd.Type.Params == nil || fd.Type.Params.NumFields() != 2 {
		r.Unk(rule, "ast.Patch", "", "ast.Patch(node *Node, newNode Node) not found")
		return
	}
	info := p.Pkg("ast").TypesInfo
	var params []*ast.Ident
	for _, f := range fd.Type.Params.List {
		params = append(params, f.Names...)
	}
	isParam := func(e ast.Expr, i int) bool {
		id, ok := eng.Unparen(e).(*ast.Ident)
		return ok && i < len(params) && info.Uses[id] == info.Defs[params[i]]
	}
	derefOld := func(e ast.Expr) bool { // (*node)
		se, ok := eng.Unparen(e).(*ast.StarExpr)
		return ok && isParam(se.X, 0)
	}
	w := &eng.Walker{Info: info}
	paths := w.Func(fd.Body)
	ld := eng.SingleDefs(info, fd.Body)
	okType, okLoc, okAssign := true, true, true
	for _, path := range paths {
		if path.Term == "panic" {
			continue
		}
		// the old node's type / location are READ (index tRead / lRead on the path) and handed to
		// the replacement's setter, directly or through a name; the read must precede the
		// assignment that overwrites *node
		tRead, lRead, aAt := -1, -1, -1
		callAt := map[*ast.CallExpr]int{}
		for i, a := range path.Atoms {
			if a.Kind == "call" {
				callAt[a.Call] = i
			}
		}
		for i, a := range path.Atoms {
			switch a.Kind {
			case "call":
				sel, ok := a.Call.Fun.(*ast.SelectorExpr)
				if !ok || !isParam(sel.X, 1) || len(a.Call.Args) != 1 {
					continue
				}
				inner, ok := ld.Resolve(a.Call.Args[0]).(*ast.CallExpr)
				if !ok {
					continue
				}
				isel, ok := inner.Fun.(*ast.SelectorExpr)
				if !ok || !derefOld(isel.X) {
					continue
				}
				at, seen := callAt[inner]
				if !seen {
					continue
				}
				if sel.Sel.Name == "SetType" && isel.Sel.Name == "Type" {
					tRead = at
				}
				if sel.Sel.Name == "SetLocation" && isel.Sel.Name == "Location" {
					lRead = at
				}
			case "assign":
				as := a.Node.(*ast.AssignStmt)
				if len(as.Lhs) == 1 && derefOld(as.Lhs[0]) && isParam(as.Rhs[0], 1) && as.Tok == token.ASSIGN {
					aAt = i
				}
			}
		}
		if tRead < 0 || (aAt >= 0 && tRead > aAt) {
			okType = false
		}
		if lRead < 0 || (aAt >= 0 && lRead > aAt) {
			okLoc = false
		}
		if aAt < 0 {
			okAssign = false
		}
	}
	pos := p.Pos(fd.Pos())
	r.Check(okType, rule, "ast.Patch/copies type", pos, "newNode.SetType((*node).Type()) before the assignment", "Patch does not carry the replaced node's type over to the replacement (before assigning)")
	r.Check(okLoc, rule, "ast.Patch/copies location", pos, "newNode.SetLocation((*node).Location()) before the assignment", "Patch does not carry the replaced node's location over to the replacement (before assigning)")
	r.Check(okAssign, rule, "ast.Patch/assigns through pointer", pos, "*node = newNode", "Patch does not store the replacement through the node pointer: the tree is not changed")
}

// sameTreeRules: R10.5 — every walk / check / compile in the pipeline operates on the one tree.
func sameTreeRules(p *core.Program, r *core.Report, rule string) {
	nodePtr := types.NewPointer(p.Pkg("ast").Types.Scope().Lookup("Node").Type())
	treeObj := p.Pkg("parser").Types.Scope().Lookup("Tree")
	if treeObj == nil {
		r.Unk(rule, "parser.Tree", "", "not found")
		return
	}
	treePtr := types.NewPointer(treeObj.Type())
	for _, rel := range []string{"", "compiler", "optimizer"} {
		info := p.Pkg(rel).TypesInfo
		for _, fd := range p.FuncDecls(rel) {
			if fd.Body == nil {
				continue
			}
			fname := core.FuncName(rel, fd)
			// *Node / *Tree parameters of the function
			paramObjs := map[types.Object]bool{}
			if fd.Type.Params != nil {
				for _, f := range fd.Type.Params.List {
					for _, nm := range f.Names {
						paramObjs[info.Defs[nm]] = true
					}
				}
			}
			// tree variables: assigned from parser.Parse
			treeVars := map[types.Object]bool{}
			reassigned := map[types.Object]int{}
			ast.Inspect(fd.Body, func(n ast.Node) bool {
				as, ok := n.(*ast.AssignStmt)
				if !ok {
					return true
				}
				for i, l := range as.Lhs {
					id, ok := l.(*ast.Ident)
					if !ok {
						continue
					}
					obj := info.Defs[id]
					if obj == nil {
						obj = info.Uses[id]
					}
					if obj == nil {
						continue
					}
					if types.Identical(obj.Type(), treePtr) {
						reassigned[obj]++
						if len(as.Rhs) == 1 {
							if c, ok := as.Rhs[0].(*ast.CallExpr); ok {
								if fn := eng.CalleeOf(info, c); fn != nil && fn.Pkg() != nil && fn.Pkg().Path() == core.ModPath+"/parser" && fn.Name() == "Parse" {
									treeVars[obj] = true
								}
							}
						}
					}
					if types.Identical(obj.Type(), nodePtr) && paramObjs[obj] {
						reassigned[obj] += 2
					}
					_ = i
				}
				return true
			})
			n := 0
			stLd := eng.SingleDefs(info, fd.Body)
			ast.Inspect(fd.Body, func(nd ast.Node) bool {
				call, ok := nd.(*ast.CallExpr)
				if !ok {
					return true
				}
				fn := eng.CalleeOf(info, call)
				if fn == nil {
					return true
				}
				if _, lib := p.RelOf(fn.Pkg()); !lib {
					return true
				}
				sig := fn.Type().(*types.Signature)
				for i, a := range call.Args {
					if i >= sig.Params().Len() {
						break
					}
					pt := sig.Params().At(i).Type()
					isNodePtr := types.Identical(pt, nodePtr)
					isTree := types.Identical(pt, treePtr)
					if !isNodePtr && !isTree {
						continue
					}
					if rel != "" && isNodePtr && fn.Name() != "Walk" {
						continue // inside the passes only the walks matter
					}
					n++
					key := fmt.Sprintf("%s/call %s#%d/arg %d", fname, fn.Name(), countCallsBefore(fd, call, info, fn), i)
					ok, detail := false, "argument "+eng.ExprStr(a)+" is not the pipeline's tree"
					a = stLd.Resolve(a) // a name given to &tree.Node is looked through
					if isTree {
						if id, isID := a.(*ast.Ident); isID {
							obj := info.Uses[id]
							if (treeVars[obj] && reassigned[obj] == 1) || (paramObjs[obj] && reassigned[obj] == 0) {
								ok, detail = true, "the tree returned by parser.Parse"
							}
						}
					} else {
						switch x := a.(type) {
						case *ast.UnaryExpr: // &tree.Node
							if sel, isSel := eng.Unparen(x.X).(*ast.SelectorExpr); isSel && x.Op == token.AND && sel.Sel.Name == "Node" {
								if id, isID := sel.X.(*ast.Ident); isID {
									obj := info.Uses[id]
									if (treeVars[obj] && reassigned[obj] == 1) || (paramObjs[obj] && reassigned[obj] == 0 && types.Identical(obj.Type(), treePtr)) {
										ok, detail = true, "&tree.Node of the tree returned by parser.Parse"
									}
								}
							}
						case *ast.Ident: // the function's own *Node parameter, never reassigned
							obj := info.Uses[x]
							if paramObjs[obj] && reassigned[obj] == 0 {
								ok, detail = true, "the function's own *Node parameter, passed through unchanged"
							}
						}
					}
					r.Check(ok, rule, key, p.Pos(call.Pos()), detail, detail+": a stage that works on a copy or another tree makes patches / rewrites invisible to what is compiled")
				}
				return true
			})
			_ = n
		}
	}
}

// countCallsBefore numbers the calls of fn inside fd in source order (1-based index of call).
func countCallsBefore(fd *ast.FuncDecl, call *ast.CallExpr, info *types.Info, fn *types.Func) int {
	n := 0
	res := 0
	ast.Inspect(fd.Body, func(nd ast.Node) bool {
		if c, ok := nd.(*ast.CallExpr); ok && eng.CalleeOf(info, c) == fn {
			n++
			if c == call {
				res = n
			}
		}
		return true
	})
	return res
}

// visitorLoopRule (R10.5): every visitor registered with the configuration gets a walk of its
// own over the tree — a range loop over the configuration's visitor list whose body calls
// ast.Walk with the loop variable. Visitors fused into one walk do not traverse the subtrees
// that an earlier visitor put in place on Exit.
func visitorLoopRule(p *core.Program, r *core.Report, rule string) {
	info := p.Pkg("").TypesInfo
	walk := p.Pkg("ast").Types.Scope().Lookup("Walk")
	n := 0
	// every read of Config.Visitors (or of a local bound once to it) in the root package
	// outside the option that appends to it
	for _, fd := range p.FuncDecls("") {
		if fd.Body == nil {
			continue
		}
		defs := eng.SingleDefs(info, fd.Body)
		isField := func(e ast.Expr) bool {
			sel, ok := eng.Unparen(e).(*ast.SelectorExpr)
			if !ok || sel.Sel.Name != "Visitors" {
				return false
			}
			t := info.TypeOf(sel.X)
			return t != nil && strings.HasSuffix(t.String(), "conf.Config")
		}
		isList := func(e ast.Expr) bool {
			if isField(e) {
				return true
			}
			if id, ok := eng.Unparen(e).(*ast.Ident); ok {
				if d := defs.Def(info.Uses[id]); d != nil && isField(d) {
					return true
				}
			}
			return false
		}
		// walksElement: the loop body gives the element an ast.Walk of its own; isElem
		// recognises the element (the range value, or list[index variable])
		walksElement := func(body *ast.BlockStmt, isElem func(ast.Expr) bool) bool {
			ok := false
			for _, st := range body.List {
				if es, isE := st.(*ast.ExprStmt); isE {
					if c, isC := es.X.(*ast.CallExpr); isC && len(c.Args) == 2 {
						if fn := eng.CalleeOf(info, c); fn != nil && types.Object(fn) == walk && isElem(c.Args[1]) {
							ok = true
						}
					}
				}
			}
			return ok
		}
		indexed := func(v types.Object) func(ast.Expr) bool {
			return func(e ast.Expr) bool {
				e = defs.Resolve(e)
				ix, ok := eng.Unparen(e).(*ast.IndexExpr)
				if !ok || !isList(ix.X) {
					return false
				}
				id, ok := eng.Unparen(ix.Index).(*ast.Ident)
				return ok && v != nil && objOf(info, id) == v
			}
		}
		var stack []ast.Node
		ast.Inspect(fd.Body, func(nd ast.Node) bool {
			if nd == nil {
				stack = stack[:len(stack)-1]
				return true
			}
			stack = append(stack, nd)
			ex, ok := nd.(ast.Expr)
			if !ok || !isList(ex) || len(stack) < 2 {
				return true
			}
			if _, isSel := nd.(*ast.SelectorExpr); !isSel {
				if _, isID := nd.(*ast.Ident); !isID {
					return true
				}
			}
			key := func() string {
				n++
				return fmt.Sprintf("%s/each registered visitor walks the tree on its own#%d", core.FuncName("", fd), n)
			}
			switch par := stack[len(stack)-2].(type) {
			case *ast.RangeStmt:
				if par.X != ex {
					return true
				}
				v, _ := par.Value.(*ast.Ident)
				k, _ := par.Key.(*ast.Ident)
				ok := false
				if v != nil && v.Name != "_" {
					vo := objOf(info, v)
					ok = walksElement(par.Body, func(e ast.Expr) bool {
						id, isID := eng.Unparen(e).(*ast.Ident)
						return isID && objOf(info, id) == vo
					})
				}
				if !ok && k != nil && k.Name != "_" {
					ok = walksElement(par.Body, indexed(objOf(info, k)))
				}
				r.Check(ok, rule, key(), p.Pos(par.Pos()), "for _, v := range config.Visitors { ast.Walk(&tree.Node, v) }", "the loop over the registered visitors does not give each of them an ast.Walk of its own")
			case *ast.IndexExpr:
				// visitors[i] inside a counted loop over the list: decided at the loop
				if par.X != ex {
					return true
				}
				var loop *ast.ForStmt
				for i := len(stack) - 1; i >= 0; i-- {
					if f, ok := stack[i].(*ast.ForStmt); ok {
						loop = f
						break
					}
				}
				if loop == nil {
					r.Bad(rule, key(), p.Pos(par.Pos()), "one registered visitor is picked out of the list outside a loop over it")
					return true
				}
				cl := eng.AnalyseCountedLoop(info, &eng.AffEnv{Info: info, Vars: map[types.Object]eng.Aff{}}, loop, func(e ast.Expr) (eng.Aff, bool) {
					if isList(e) {
						return eng.AffSym("LEN"), true
					}
					return eng.Aff{}, false
				})
				full := cl.OK && cl.Trips.Equal(eng.AffSym("LEN")) && cl.Var != nil
				ok := full && walksElement(loop.Body, indexed(cl.Var))
				r.Check(ok, rule, key(), p.Pos(loop.Pos()), "for i := range visitors { ast.Walk(&tree.Node, visitors[i]) } over the whole list", "the loop over the registered visitors does not give each of them an ast.Walk of its own (it does not cover the whole list, or the walk is not of the indexed visitor)")
			case *ast.CallExpr:
				if isBuiltinCall(info, par, "append") || isBuiltinCall(info, par, "len") {
					return true
				}
				r.Bad(rule, key(), p.Pos(par.Pos()), "the list of registered visitors is handed to `"+eng.ExprStr(par.Fun)+"` instead of being walked one visitor at a time: visitors fused into a single walk never traverse a subtree that an earlier visitor put in place on Exit, so a later patch does not apply inside it")
			case *ast.AssignStmt:
				// c.Visitors = append(…) / visitors := config.Visitors (the alias is followed)
				if len(par.Lhs) == 1 && len(par.Rhs) == 1 && par.Rhs[0] == ex {
					if id, ok := par.Lhs[0].(*ast.Ident); ok {
						if d := defs.Def(objOf(info, id)); d == nil {
							r.Bad(rule, key(), p.Pos(par.Pos()), "the list of registered visitors is copied into `"+id.Name+"`, which is assigned more than once: its later uses cannot be followed")
						}
					}
				}
			case *ast.BinaryExpr:
				// len(config.Visitors) >= 0
			default:
				r.Bad(rule, key(), p.Pos(nd.Pos()), fmt.Sprintf("the list of registered visitors is used in a %T, not walked one visitor at a time", par))
			}
			return true
		})
	}
	if n == 0 {
		r.Unk(rule, "expr.Compile/each registered visitor walks the tree on its own", "", "no loop over the configuration's visitors found")
	}
}

func runC10(p *core.Program, r *core.Report) {
	r.Explanation = "Decides, for ast.Walk over finite trees of the module's node kinds (by structural induction over the tree): the walker's dispatcher has a clause for every node kind; every clause hands the ADDRESS of every child slot (fields of type Node / []Node) to the recursion exactly once on every path, in declaration (= source) order, a nil-guarded slot being exempt on the path where it is nil; Enter(node) precedes the dispatch, which re-reads *node; Exit(node) is called exactly once after the children; ast.Patch carries type and location over and stores through the pointer; every stage of expr.Compile and every pass of the optimizer/patcher walks the one tree that is then checked and compiled; library rewrites keep the tree a tree (no operand of the matched node is used twice)."
	r.NotDecided = []string{"behaviour of user visitors themselves", "trees that contain node kinds from outside the module"}
	walkerRules(p, r, "R10")
	patchRules(p, r, "R10.4")
	sameTreeRules(p, r, "R10.5")
	visitorLoopRule(p, r, "R10.5")
	linearityRules(p, r, "R10.6")
	r.Floor("R10.1", 22)
	r.Floor("R10.2", 23)
	r.Floor("R10.3", 24)
	r.Floor("R10.4", 3)
	r.Floor("R10.5", 12)
	r.Floor("R10.6", 15)
}

func c10Controls() []core.Mutant {
	return []core.Mutant{
		{Name: "registered visitors fused into one walk", File: "expr.go", Old: "\t\tfor _, v := range config.Visitors {\n\t\t\tast.Walk(&tree.Node, v)\n\t\t}", New: "\t\tast.Walk(&tree.Node, fused(config.Visitors))", Edits: [][2]string{{"// Run evaluates given bytecode program.", "type fused []ast.Visitor\n\nfunc (f fused) Enter(n *ast.Node) {\n\tfor _, v := range f {\n\t\tv.Enter(n)\n\t}\n}\n\nfunc (f fused) Exit(n *ast.Node) {\n\tfor _, v := range f {\n\t\tv.Exit(n)\n\t}\n}\n\n// Run evaluates given bytecode program."}}, Rule: "R10.5", Construct: "each registered visitor walks"},
		{Name: "drop w.walk(&n.Exp2)", File: "ast/visitor.go", Old: "\t\tw.walk(&n.Exp2)\n", New: "", Rule: "R10.2", Construct: "ConditionalNode/slot Exp2"},
		{Name: "walk Right before Left", File: "ast/visitor.go", Old: "\tcase *BinaryNode:\n\t\tw.walk(&n.Left)\n\t\tw.walk(&n.Right)\n", New: "\tcase *BinaryNode:\n\t\tw.walk(&n.Right)\n\t\tw.walk(&n.Left)\n", Rule: "R10.2", Construct: "BinaryNode/order"},
		{Name: "omit Exit in PairNode", File: "ast/visitor.go", Old: "\t\tw.walk(&n.Value)\n\t\tw.visitor.Exit(node)\n", New: "\t\tw.walk(&n.Value)\n", Rule: "R10.3", Construct: "PairNode/exit"},
		{Name: "walk a copy of the slot", File: "ast/visitor.go", Old: "\tcase *ClosureNode:\n\t\tw.walk(&n.Node)\n", New: "\tcase *ClosureNode:\n\t\tx := n.Node\n\t\tw.walk(&x)\n", Rule: "R10.2", Construct: "ClosureNode/slot Node"},
		{Name: "Patch without assignment", File: "ast/node.go", Old: "\t*node = newNode\n", New: "", Rule: "R10.4", Construct: "assigns through pointer"},
		{Name: "Patch assigns before copying", File: "ast/node.go", Old: "\tnewNode.SetType((*node).Type())\n\tnewNode.SetLocation((*node).Location())\n\t*node = newNode\n", New: "\t*node = newNode\n\tnewNode.SetType((*node).Type())\n\tnewNode.SetLocation((*node).Location())\n", Rule: "R10.4", Construct: "copies"},
		{Name: "visitors run on a copy of tree.Node", File: "expr.go", Old: "\t\tfor _, v := range config.Visitors {\n\t\t\tast.Walk(&tree.Node, v)\n", New: "\t\tfor _, v := range config.Visitors {\n\t\t\tcp := tree.Node\n\t\t\tast.Walk(&cp, v)\n", Rule: "R10.5", Construct: "Walk"},
		{Name: "switch on a copy taken before Enter", File: "ast/visitor.go", Old: "\tw.visitor.Enter(node)\n\n\tswitch n := (*node).(type) {", New: "\told := *node\n\tw.visitor.Enter(node)\n\n\tswitch n := (old).(type) {", Rule: "R10.3", Construct: "switch re-reads"},
		{Name: "list walked by value", File: "ast/visitor.go", Old: "\tcase *ArrayNode:\n\t\tfor i := range n.Nodes {\n\t\t\tw.walk(&n.Nodes[i])\n", New: "\tcase *ArrayNode:\n\t\tfor _, x := range n.Nodes {\n\t\t\tw.walk(&x)\n", Rule: "R10.2", Construct: "ArrayNode/slot Nodes"},
		{Name: "refactor: counted loop over a local copy of the visitor list", File: "expr.go", Old: "\t\tfor _, v := range config.Visitors {\n\t\t\tast.Walk(&tree.Node, v)\n\t\t}\n", New: "\t\tvisitors := config.Visitors\n\t\tfor i := 0; i < len(visitors); i++ {\n\t\t\tast.Walk(&tree.Node, visitors[i])\n\t\t}\n", Silent: true},
		{Name: "counted visitor loop that skips the last visitor", File: "expr.go", Old: "\t\tfor _, v := range config.Visitors {\n\t\t\tast.Walk(&tree.Node, v)\n\t\t}\n", New: "\t\tvisitors := config.Visitors\n\t\tfor i := 0; i < len(visitors)-1; i++ {\n\t\t\tast.Walk(&tree.Node, visitors[i])\n\t\t}\n", Rule: "R10.5", Construct: "each registered visitor walks the tree on its own"},
		{Name: "refactor: reorder clauses", File: "ast/visitor.go", Old: "\tcase *NilNode:\n\t\tw.visitor.Exit(node)\n\tcase *IdentifierNode:\n\t\tw.visitor.Exit(node)\n", New: "\tcase *IdentifierNode:\n\t\tw.visitor.Exit(node)\n\tcase *NilNode:\n\t\tw.visitor.Exit(node)\n", Silent: true},
		{Name: "refactor: nil guard around a slot", File: "ast/visitor.go", Old: "\tcase *UnaryNode:\n\t\tw.walk(&n.Node)\n", New: "\tcase *UnaryNode:\n\t\tif n.Node != nil {\n\t\t\tw.walk(&n.Node)\n\t\t}\n", Silent: true},
		{Name: "refactor: helper for lists", File: "ast/visitor.go", Old: "\tcase *FunctionNode:\n\t\tfor i := range n.Arguments {\n\t\t\tw.walk(&n.Arguments[i])\n\t\t}\n", New: "\tcase *FunctionNode:\n\t\tfor i := 0; i < len(n.Arguments); i++ {\n\t\t\tw.walk(&n.Arguments[i])\n\t\t}\n", Silent: true},
	}
}
