package props

import (
	"fmt"
	"go/ast"
	"go/token"
	"go/types"
	"sort"
	"strings"

	"verif/exprlint/core"
	"verif/exprlint/eng"
)

func init() {
	register(&Prop{ID: "C05", Run: runC05, Controls: c05Controls})
}

// engines bundles what the template-based properties need.
type engines struct {
	nk   *eng.NodeKinds
	vm   *eng.VMModel
	em   *eng.Emitter
	sigs map[string]*eng.OpSig
	conf eng.VerifyConf
	res  map[*eng.Template]*eng.VerifyResult
}

// loadEngines builds E1–E3 and verifies every template once.
func loadEngines(p *core.Program, r *core.Report, rule string) *engines {
	nk, vm, em, msg := buildEngines(p)
	if em == nil {
		r.Unk(rule, "engines", "", "cannot build the VM / emitter model: "+msg)
		return nil
	}
	e := &engines{nk: nk, vm: vm, em: em, sigs: map[string]*eng.OpSig{}, res: map[*eng.Template]*eng.VerifyResult{}}
	for _, o := range vm.Opcodes {
		if s := vm.Signature(o.Name); s != nil {
			e.sigs[o.Name] = s
		}
	}
	e.conf = eng.VerifyConf{Sigs: e.sigs, PairSlots: map[string]bool{}, Effect: func(kind string) int {
		if kind == "PairNode" {
			return 2
		}
		return 1
	}}
	// the kinds whose template nets +2 are found from the templates themselves below
	// (PairNode today); MapNode.Pairs is the slot that holds them.
	e.conf.PairSlots["MapNode.Pairs"] = true
	e.deriveLoopVars()
	for _, t := range em.AllTemplates() {
		if t.Term == "panic" {
			continue
		}
		e.res[t] = eng.Verify(em, t, e.conf)
	}
	r.Analysed["opcodes"] = len(vm.Opcodes)
	r.Analysed["templates"] = len(em.AllTemplates())
	return e
}

// deriveLoopVars finds the scope variables that play index / size / counter by their role in
// the loop skeleton: head `load X; load Y; …; jump-if-false` after a captured label gives
// X = index, Y = size; any other incremented variable is the counter.
func (e *engines) deriveLoopVars() {
	for _, t := range e.em.AllTemplates() {
		ev := t.Events
		for i, x := range ev {
			if x.Kind == "capture" && i+2 < len(ev) {
				a, b := ev[i+1], ev[i+2]
				if a.Kind == "instr" && b.Kind == "instr" && e.sigs[a.Op] != nil && e.sigs[b.Op] != nil && e.sigs[a.Op].Scope == "load" && e.sigs[b.Op].Scope == "load" {
					e.conf.IndexVar = constStr(a.Operand)
					e.conf.SizeVar = constStr(b.Operand)
				}
			}
		}
	}
	for _, t := range e.em.AllTemplates() {
		for _, x := range t.Events {
			if x.Kind == "instr" && e.sigs[x.Op] != nil && e.sigs[x.Op].Scope == "inc" {
				if k := constStr(x.Operand); k != "" && k != e.conf.IndexVar {
					e.conf.CountVar = k
				}
			}
		}
	}
}

func constStr(o eng.TOperand) string {
	if o.Kind == "const" && o.ConstVal != nil {
		s := o.ConstVal.ExactString()
		if len(s) >= 2 && s[0] == '"' {
			return s[1 : len(s)-1]
		}
	}
	return ""
}

// disasmModel: per opcode, which operand the disassembler reads and in which direction it
// resolves a jump.
type disasmCase struct {
	readsArg bool
	dir      string // "" fwd back
}

func disassembleModel(p *core.Program, vm *eng.VMModel) (map[string]disasmCase, bool, string) {
	info := p.Pkg("vm").TypesInfo
	fd := p.FuncDecl("vm", "Program", "Disassemble")
	if fd == nil || fd.Body == nil {
		return nil, false, "(*Program).Disassemble not found"
	}
	// closures
	type clo struct {
		readsArg bool
		dir      string
	}
	clos := map[types.Object]*clo{}
	var readArg types.Object
	ast.Inspect(fd.Body, func(n ast.Node) bool {
		as, ok := n.(*ast.AssignStmt)
		if !ok || len(as.Lhs) != 1 || len(as.Rhs) != 1 {
			return true
		}
		id, ok1 := as.Lhs[0].(*ast.Ident)
		fl, ok2 := as.Rhs[0].(*ast.FuncLit)
		if !ok1 || !ok2 {
			return true
		}
		obj := info.Defs[id]
		c := &clo{}
		// the operand reader: returns uint16 and advances ip by 2
		if fl.Type.Results != nil && fl.Type.Results.NumFields() == 1 {
			adv := false
			ast.Inspect(fl.Body, func(m ast.Node) bool {
				if a, ok := m.(*ast.AssignStmt); ok && a.Tok == token.ADD_ASSIGN {
					if tv, ok := info.Types[a.Rhs[0]]; ok && tv.Value != nil && tv.Value.ExactString() == "2" {
						adv = true
					}
				}
				return true
			})
			// … or hands the decoding to a function of the package and stores the offset it
			// returns back into the instruction pointer (`a, ip = program.operand(ip)`)
			if !adv {
				ast.Inspect(fl.Body, func(m ast.Node) bool {
					a, ok := m.(*ast.AssignStmt)
					if !ok || len(a.Rhs) != 1 {
						return true
					}
					call, ok := eng.Unparen(a.Rhs[0]).(*ast.CallExpr)
					if !ok {
						return true
					}
					fn := eng.CalleeOf(info, call)
					if fn == nil || fn.Pkg() != p.Pkg("vm").Types {
						return true
					}
					for _, l := range a.Lhs {
						if lid, ok := l.(*ast.Ident); ok && lid.Name == "ip" {
							for _, arg := range call.Args {
								if aid, ok := eng.Unparen(arg).(*ast.Ident); ok && info.Uses[aid] == info.Uses[lid] {
									adv = true
								}
							}
						}
					}
					return true
				})
			}
			if adv {
				readArg = obj
				return true
			}
		}
		ast.Inspect(fl.Body, func(m ast.Node) bool {
			switch x := m.(type) {
			case *ast.CallExpr:
				if cid, ok := x.Fun.(*ast.Ident); ok && readArg != nil && info.Uses[cid] == readArg {
					c.readsArg = true
				}
			case *ast.BinaryExpr:
				// ip + int(a) / ip - int(a)
				if lid, ok := eng.Unparen(x.X).(*ast.Ident); ok && lid.Name == "ip" {
					if x.Op == token.ADD {
						c.dir = "fwd"
						// ip + direction*int(a): the sign is a parameter of the printer, decided by
						// the constant each case passes
						if m, ok := eng.Unparen(x.Y).(*ast.BinaryExpr); ok && m.Op == token.MUL && fl.Type.Params != nil {
							k := 0
							for _, f := range fl.Type.Params.List {
								for _, nm := range f.Names {
									for _, side := range []ast.Expr{m.X, m.Y} {
										if sid, ok := eng.Unparen(side).(*ast.Ident); ok && info.Uses[sid] == info.Defs[nm] {
											c.dir = fmt.Sprintf("param:%d", k)
										}
									}
									k++
								}
							}
						}
					} else if x.Op == token.SUB {
						c.dir = "back"
					}
				}
			}
			return true
		})
		clos[obj] = c
		return true
	})
	if readArg == nil {
		return nil, false, "operand reader closure not found in Disassemble"
	}
	out := map[string]disasmCase{}
	hasDefault := false
	var sw *ast.SwitchStmt
	best := 0
	ast.Inspect(fd.Body, func(n ast.Node) bool {
		s, ok := n.(*ast.SwitchStmt)
		if ok && s.Tag != nil && len(s.Body.List) > best {
			best, sw = len(s.Body.List), s
		}
		return true
	})
	if sw == nil {
		return nil, false, "no switch in Disassemble"
	}
	for _, c := range sw.Body.List {
		cc := c.(*ast.CaseClause)
		if cc.List == nil {
			hasDefault = true
			continue
		}
		var dc disasmCase
		calls := 0
		for _, st := range cc.Body {
			ast.Inspect(st, func(n ast.Node) bool {
				if call, ok := n.(*ast.CallExpr); ok {
					if id, ok := call.Fun.(*ast.Ident); ok {
						if c := clos[info.Uses[id]]; c != nil {
							calls++
							dc = disasmCase{c.readsArg, c.dir}
							if strings.HasPrefix(c.dir, "param:") {
								var pi int
								fmt.Sscanf(c.dir, "param:%d", &pi)
								dc.dir = "?"
								if pi < len(call.Args) {
									if tv, ok := info.Types[call.Args[pi]]; ok && tv.Value != nil {
										switch tv.Value.ExactString() {
										case "1":
											dc.dir = "fwd"
										case "-1":
											dc.dir = "back"
										}
									}
								}
							}
						} else if info.Uses[id] == readArg {
							calls++
							dc = disasmCase{true, ""}
						}
					}
				}
				return true
			})
		}
		for _, e := range cc.List {
			if id, ok := eng.Unparen(e).(*ast.Ident); ok {
				for _, o := range vm.Opcodes {
					if types.Object(o.Obj) == info.Uses[id] {
						if calls != 1 {
							dc.dir = "?"
						}
						out[o.Name] = dc
					}
				}
			}
		}
	}
	return out, hasDefault, ""
}

func runC05(p *core.Program, r *core.Report) {
	r.Explanation = "Decides, for EVERY program the compiler can emit from a tree of the module's node kinds (structural induction over the tree; each child is assumed to have its kind's stack effect and not to touch what lies below its entry depth — which is exactly what is verified for each kind's own templates): opcode constant table = VM handlers = disassembler cases; every emitted instruction carries exactly the operand bytes and operand kind its handler reads; every forward-jump placeholder is patched exactly once and lands at an emit boundary, every backward jump targets a label captured earlier; writer/reader offset arithmetic and byte order agree; no instruction pops below the template's entry depth; all paths through a template agree on stack depth at joins and the template exits with exactly its kind's effect (+1, PairNode +2); Begin/End scopes are balanced on all paths including early exits and scope variables are stored before being read; narrowing conversions to the 16-bit operand are range-checked."
	r.NotDecided = []string{"that the constant an operand indexes is the intended one", "which template paths are feasible at run time (all are assumed feasible)"}
	e := loadEngines(p, r, "R5.1")
	if e == nil {
		return
	}
	vm, em := e.vm, e.em
	for _, pr := range append(append([]string{}, vm.Problems...), em.Problems...) {
		r.Unk("R5.1", "model: "+pr, "", pr)
	}

	// R5.1 tables agree
	dis, disDefault, msg := disassembleModel(p, vm)
	if dis == nil {
		r.Unk("R5.1", "vm.(Program).Disassemble", "", msg)
	}
	for _, o := range vm.Opcodes {
		sig := e.sigs[o.Name]
		pos := ""
		if h := vm.Handlers[o.Name]; h != nil {
			pos = p.Pos(h.Clause.Pos())
		}
		if sig == nil {
			r.Bad("R5.1", "vm.(VM).Run/case "+o.Name, p.Pos(vm.Switch.Pos()), "opcode "+o.Name+" has no handler in the dispatch loop: a program containing it fails with `unknown bytecode`")
			continue
		}
		if len(sig.Problems) > 0 {
			r.Unk("R5.1", "vm.(VM).Run/case "+o.Name, pos, "handler not understood: "+strings.Join(sig.Problems, "; "))
		} else {
			r.OK("R5.1", "vm.(VM).Run/case "+o.Name, pos, sig.String())
		}
		if dis != nil {
			dc, ok := dis[o.Name]
			switch {
			case !ok:
				r.Bad("R5.1", "vm.(Program).Disassemble/case "+o.Name, "", "the disassembler has no case for "+o.Name)
			case dc.readsArg != (sig.Operand != "none"):
				r.Bad("R5.1", "vm.(Program).Disassemble/case "+o.Name, "", fmt.Sprintf("operand width disagrees: VM handler reads %q, disassembler reads operand=%v — every later instruction is decoded out of step", sig.Operand, dc.readsArg))
			case (strings.HasPrefix(sig.Jump, "fwd") && dc.dir != "fwd") || (sig.Jump == "back" && dc.dir != "back") || (sig.Jump == "" && dc.dir != ""):
				r.Bad("R5.1", "vm.(Program).Disassemble/case "+o.Name, "", fmt.Sprintf("jump direction disagrees: VM %q, disassembler %q", sig.Jump, dc.dir))
			default:
				r.OK("R5.1", "vm.(Program).Disassemble/case "+o.Name, "", "operand width and jump direction agree with the VM handler")
			}
		}
	}
	r.Check(vm.HasDefault && vm.DefaultPanics, "R5.1", "vm.(VM).Run/default", p.Pos(vm.Switch.Pos()), "unknown opcodes panic (turned into an error by Run's recover)", "the dispatch loop has no panicking default: an unknown opcode is silently skipped")
	if dis != nil {
		r.Check(disDefault, "R5.1", "vm.(Program).Disassemble/default", "", "default clause exists", "no default clause")
	}

	// R5.2 (V1) per emit site; R5.3 (V2), R5.5 (V4), R5.6 (V5) per template
	siteBad := map[ast.Node]string{}
	siteSeen := map[ast.Node]*eng.TEvent{}
	for _, t := range em.AllTemplates() {
		key := t.Key()
		pos := ""
		if len(t.Events) > 0 && t.Events[0].Site != nil {
			pos = p.Pos(t.Events[0].Site.Pos())
		}
		if len(t.Problems) > 0 {
			r.Unk("R5.5", key, pos, "scheme not understood: "+strings.Join(t.Problems, "; "))
			continue
		}
		for i := range t.Events {
			if t.Events[i].Kind == "instr" {
				siteSeen[t.Events[i].Site] = &t.Events[i]
			}
		}
		if t.Term == "panic" {
			r.OK("R5.5", key, pos, "path ends in a compile-time panic (compile error): no program is produced")
			continue
		}
		res := e.res[t]
		by := map[string][]string{}
		for _, f := range res.Findings {
			d := f.Detail
			if f.At >= 0 && f.At < len(t.Events) && t.Events[f.At].Site != nil {
				d += " (" + p.Pos(t.Events[f.At].Site.Pos()) + ")"
				if f.Rule == "V1" {
					siteBad[t.Events[f.At].Site] = f.Detail
				}
			}
			by[f.Rule] = append(by[f.Rule], d)
		}
		tmpl := t.String()
		for _, rv := range [][2]string{{"V2", "R5.3"}, {"V4", "R5.5"}, {"V5", "R5.6"}} {
			if fs := by[rv[0]]; len(fs) > 0 {
				r.Bad(rv[1], key, pos, strings.Join(fs, "; ")+" — template: "+tmpl)
			} else if len(by["V1"]) > 0 && rv[0] != "V2" {
				r.Unk(rv[1], key, pos, "not evaluated because an operand of this template is malformed (see R5.2): "+strings.Join(by["V1"], "; "))
			} else {
				r.OK(rv[1], key, pos, fmt.Sprintf("a=%d b=%d exit=%+d: %s", res.A, res.B, res.Exit, tmpl))
			}
		}
	}
	topSeen := map[ast.Node]bool{}
	for _, t := range em.Templates["<top>"] {
		for i := range t.Events {
			if t.Events[i].Kind == "instr" {
				topSeen[t.Events[i].Site] = true
			}
		}
	}
	// emit sites
	type siteKey struct {
		fn string
		op string
	}
	ord := map[siteKey]int{}
	var sites []ast.Node
	for s := range siteSeen {
		sites = append(sites, s)
	}
	sort.Slice(sites, func(i, j int) bool { return sites[i].Pos() < sites[j].Pos() })
	for _, s := range sites {
		ev := siteSeen[s]
		fn := enclosingFunc(p, "compiler", s.Pos())
		k := siteKey{fn, ev.Op}
		ord[k]++
		key := fmt.Sprintf("%s/emit %s#%d", fn, ev.Op, ord[k])
		if d, bad := siteBad[s]; bad {
			r.Bad("R5.2", key, p.Pos(s.Pos()), d)
		} else {
			r.OK("R5.2", key, p.Pos(s.Pos()), "operand "+ev.Operand.Kind+" matches the handler's")
		}
	}
	r.Analysed["emit_sites"] = len(sites)
	// completeness: every call of the emit primitive in the package is a site some template covers
	cinfo := p.Pkg("compiler").TypesInfo
	nCalls := 0
	for _, fd := range p.FuncDecls("compiler") {
		if fd.Body == nil {
			continue
		}
		ast.Inspect(fd.Body, func(n ast.Node) bool {
			call, ok := n.(*ast.CallExpr)
			if !ok {
				return true
			}
			if fn := eng.CalleeOf(cinfo, call); fn != nil && em.Prims[fn] == "emit" {
				nCalls++
				if siteSeen[call] == nil && !topSeen[call] {
					r.Unk("R5.2", fmt.Sprintf("%s/emit call not covered by any template", core.FuncName("compiler", fd)), p.Pos(call.Pos()), "this call of the emit primitive is on no extracted template path: what it emits is not verified")
				}
			}
			return true
		})
	}
	r.Analysed["emit_calls_in_package"] = nCalls

	// every opcode that has a handler is either emitted somewhere or listed
	emitted := map[string]bool{}
	for _, t := range em.AllTemplates() {
		for _, x := range t.Events {
			if x.Kind == "instr" {
				emitted[x.Op] = true
			}
		}
	}
	for _, t := range em.Templates["<top>"] {
		for _, x := range t.Events {
			if x.Kind == "instr" {
				emitted[x.Op] = true
			}
		}
	}
	var never []string
	for _, o := range vm.Opcodes {
		if !emitted[o.Name] {
			never = append(never, o.Name)
		}
	}
	r.Analysed["opcodes_never_emitted"] = never

	// R5.7 top level
	topRules(p, r, e)
	// R5.3 affine agreement of offsets and byte order; R5.4 narrowing; R5.8 constant pool
	offsetRules(p, r, e)
	narrowingRules(p, r, e)
	constPoolRules(p, r, e)
	emptyAtStartRule(p, r, e)
	pairRules(p, r, e)

	r.Floor("R5.1", 2*52)
	r.Floor("R5.2", 90) // 110 templates today; merging switch cases that share code lowers the count
	r.Floor("R5.3", 70)
	r.Floor("R5.5", 70)
	r.Floor("R5.6", 70)
	r.Floor("R5.7", 3)
	r.Floor("R5.4", 2) // 3 sites today; the two jump encoders may share one checked conversion
	r.Floor("R5.8", 3)
}

func enclosingFunc(p *core.Program, rel string, pos token.Pos) string {
	for _, fd := range p.FuncDecls(rel) {
		if fd.Pos() <= pos && pos <= fd.End() {
			return core.FuncName(rel, fd)
		}
	}
	return rel + ".?"
}

// topRules (V6): Compile emits the root followed by at most one cast (pops 1, pushes 1); Run
// returns the popped top when the loop ends.
func topRules(p *core.Program, r *core.Report, e *engines) {
	tops := e.em.Templates["<top>"]
	if len(tops) == 0 {
		r.Unk("R5.7", "compiler.Compile", "", "no path through compiler.Compile found")
		return
	}
	ok, detail := true, ""
	nCast := map[string]bool{}
	for _, t := range tops {
		if t.Term == "panic" {
			continue
		}
		roots, depth := 0, 0
		for _, x := range t.Events {
			switch x.Kind {
			case "child":
				roots++
				depth++
			case "instr":
				s := e.sigs[x.Op]
				if roots == 0 {
					ok, detail = false, "an instruction is emitted before the root expression"
				}
				if s == nil || s.SymPop != "" || s.Jump != "" || s.Scope != "" {
					ok, detail = false, "top-level instruction "+x.Op+" is not a plain value transformer"
					continue
				}
				if depth-s.Pop < 0 {
					ok, detail = false, "top-level instruction pops an empty stack"
				}
				depth += s.Net
				// raw operand must be one the handler has a case for
				if x.Operand.Kind == "raw" {
					nCast[x.Op+" "+x.Operand.Raw.ExactString()] = true
					if !rawHandled(e, x.Op, x.Operand.Raw.ExactString()) {
						ok, detail = false, fmt.Sprintf("%s is emitted with operand %s, for which its handler has no case: the value is left unconverted", x.Op, x.Operand.Raw.ExactString())
					}
				} else if x.Operand.Kind == "rawtable" {
					// the operand comes from a constant table: every entry must be handled
					for _, kv := range x.Operand.Table {
						nCast[x.Op+" "+kv[1]] = true
						if !rawHandled(e, x.Op, kv[1]) {
							ok, detail = false, fmt.Sprintf("%s is emitted with operand %s (table entry %s), for which its handler has no case: the value is left unconverted", x.Op, kv[1], kv[0])
						}
					}
				} else if x.Operand.Kind != "none" {
					ok, detail = false, "unexpected operand kind at top level"
				}
			}
		}
		if roots != 1 || depth != 1 {
			ok, detail = false, fmt.Sprintf("top level compiles %d roots and leaves depth %d (expected 1 and 1)", roots, depth)
		}
	}
	fd := p.FuncDecl("compiler", "", "Compile")
	r.Check(ok, "R5.7", "compiler.Compile/top-level template", p.Pos(fd.Pos()), "root followed by at most one cast; exit depth 1", detail)
	r.Analysed["top_level_casts"] = len(nCast)

	// Program fields are filled from the compiler's own buffers
	info := p.Pkg("compiler").TypesInfo
	okFields, fdet := false, "no Program literal in compiler.Compile"
	ast.Inspect(fd.Body, func(n ast.Node) bool {
		cl, ok := n.(*ast.CompositeLit)
		if !ok {
			return true
		}
		if t := info.TypeOf(cl); t == nil || !strings.HasSuffix(t.String(), "vm.Program") {
			return true
		}
		want := map[string]bool{}
		for _, el := range cl.Elts {
			if kv, ok := el.(*ast.KeyValueExpr); ok {
				want[eng.ExprStr(kv.Key)] = true
				ft := info.TypeOf(kv.Key)
				vt := info.TypeOf(kv.Value)
				_ = ft
				_ = vt
			}
		}
		okFields = want["Bytecode"] && want["Constants"] && want["Locations"] && want["Source"]
		fdet = "Program literal sets Bytecode, Constants, Locations, Source"
		if !okFields {
			fdet = "Program literal does not set all of Bytecode, Constants, Locations, Source"
		}
		return true
	})
	r.Check(okFields, "R5.7", "compiler.Compile/Program literal", p.Pos(fd.Pos()), fdet, fdet)

	// VM: after the loop, the result is the popped top
	run := e.vm.Run
	okRet := false
	// some return that follows the dispatch loop yields the popped top (directly or through a
	// name); whether it sits in `if len(stack) > 0 {…}` or after a guard for the empty stack
	// does not matter
	vinfo57 := p.Pkg("vm").TypesInfo
	ld57 := eng.SingleDefs(vinfo57, run.Body)
	ast.Inspect(run.Body, func(n ast.Node) bool {
		if rs, ok := n.(*ast.ReturnStmt); ok && len(rs.Results) == 2 && rs.Pos() > e.vm.Switch.End() {
			if c, ok := ld57.Resolve(rs.Results[0]).(*ast.CallExpr); ok {
				if fn := eng.CalleeOf(vinfo57, c); fn != nil && e.vm.Prims[fn] == "pop" {
					okRet = true
				}
			}
		}
		return true
	})
	r.Check(okRet, "R5.7", "vm.(VM).Run/result", p.Pos(run.Pos()), "Run returns the popped top of the stack after the loop", "Run does not return the popped top of the stack")
}

// rawHandled: the handler of op has a case for the raw operand value.
func rawHandled(e *engines, op, val string) bool {
	h := e.vm.Handlers[op]
	if h == nil {
		return false
	}
	_, ok := rawDispatch(e.vm.Prog.Pkg("vm").TypesInfo, h.Clause)[val]
	return ok
}

// rawDispatch: how a handler branches on a constant-valued quantity (its raw operand): the
// statements run for each constant, whether written as a nested `switch t { case 0: … }` or
// as a chain of `t == 0` tests (if / else-if, tagless switch, early-leaving ifs).
func rawDispatch(info *types.Info, clause *ast.CaseClause) map[string][]ast.Stmt {
	out := map[string][]ast.Stmt{}
	constOf := func(x ast.Expr) (string, bool) {
		if tv, ok := info.Types[x]; ok && tv.Value != nil {
			return tv.Value.ExactString(), true
		}
		return "", false
	}
	for _, st := range clause.Body {
		ast.Inspect(st, func(n ast.Node) bool {
			cc, ok := n.(*ast.CaseClause)
			if !ok {
				return true
			}
			for _, x := range cc.List {
				if v, ok := constOf(x); ok {
					out[v] = cc.Body
				}
			}
			return true
		})
	}
	chain := func(list []ast.Stmt) {
		for i := range list {
			for _, br := range eng.BranchChain(list, i) {
				if br.Cond == nil {
					continue
				}
				if b, ok := eng.Unparen(br.Cond).(*ast.BinaryExpr); ok && b.Op == token.EQL {
					if v, ok := constOf(b.Y); ok {
						if _, dup := out[v]; !dup {
							out[v] = br.Body
						}
					} else if v, ok := constOf(b.X); ok {
						if _, dup := out[v]; !dup {
							out[v] = br.Body
						}
					}
				}
			}
		}
	}
	chain(clause.Body)
	eng.StmtLists(clause, chain)
	// an if with an init statement (`if t := vm.arg(); t == 0 {…} else if t == 1 {…}`)
	ast.Inspect(clause, func(n ast.Node) bool {
		is, ok := n.(*ast.IfStmt)
		for ok && is != nil {
			if b, isB := eng.Unparen(is.Cond).(*ast.BinaryExpr); isB && b.Op == token.EQL {
				for _, side := range []ast.Expr{b.Y, b.X} {
					if v, isC := constOf(side); isC {
						if _, dup := out[v]; !dup {
							out[v] = is.Body.List
						}
					}
				}
			}
			is, ok = is.Else.(*ast.IfStmt)
		}
		return true
	})
	return out
}

// pairRules: the +2 kinds flow only into the slot whose consumer pops two per element.
func pairRules(p *core.Program, r *core.Report, e *engines) {
	// which kinds exit at +2
	info := p.Pkg("parser").TypesInfo
	for _, k := range e.nk.Kinds {
		eff := e.conf.Effect(k.Name)
		if eff == 1 {
			continue
		}
		// every literal of this kind in the module must flow into MapNode.Pairs only
		okAll, detail := true, "PairNode literals are appended only to the list that becomes MapNode.Pairs"
		n := 0
		for _, fd := range p.FuncDecls("parser") {
			if fd.Body == nil {
				continue
			}
			al := eng.BuildAliases(info, fd.Body)
			// variables holding pair literals, and list variables they are appended to
			pairVars := map[types.Object]bool{}
			listVars := map[types.Object]bool{}
			ast.Inspect(fd.Body, func(nd ast.Node) bool {
				as, ok := nd.(*ast.AssignStmt)
				if !ok || len(as.Lhs) != 1 || len(as.Rhs) != 1 {
					return true
				}
				if lit := al.Literal(as.Rhs[0]); lit != nil && e.nk.KindOfType(info.TypeOf(lit)) == k {
					if _, isID := eng.Unparen(as.Rhs[0]).(*ast.Ident); !isID {
						n++
						if id, ok := as.Lhs[0].(*ast.Ident); ok {
							pairVars[objOf(info, id)] = true
						} else {
							okAll, detail = false, "a "+k.Name+" literal is stored somewhere other than a local variable"
						}
					}
				}
				return true
			})
			if len(pairVars) == 0 {
				continue
			}
			ast.Inspect(fd.Body, func(nd ast.Node) bool {
				switch x := nd.(type) {
				case *ast.AssignStmt:
					if len(x.Rhs) == 1 {
						if c, ok := x.Rhs[0].(*ast.CallExpr); ok {
							if id, ok := c.Fun.(*ast.Ident); ok && id.Name == "append" && len(c.Args) == 2 {
								if aid, ok := eng.Unparen(c.Args[1]).(*ast.Ident); ok && pairVars[info.Uses[aid]] {
									if lid, ok := x.Lhs[0].(*ast.Ident); ok {
										listVars[objOf(info, lid)] = true
									}
								}
							}
						}
					}
				case *ast.ReturnStmt:
					for _, res := range x.Results {
						if id, ok := eng.Unparen(res).(*ast.Ident); ok && pairVars[info.Uses[id]] {
							okAll, detail = false, "a "+k.Name+" is returned as an expression node"
						}
					}
				}
				return true
			})
			// the list variables may only be used as MapNode.Pairs
			ast.Inspect(fd.Body, func(nd ast.Node) bool {
				cl, ok := nd.(*ast.CompositeLit)
				if !ok {
					return true
				}
				lk := e.nk.KindOfType(info.TypeOf(cl))
				if lk == nil {
					return true
				}
				for _, el := range cl.Elts {
					kv, ok := el.(*ast.KeyValueExpr)
					if !ok {
						continue
					}
					if id, ok := eng.Unparen(kv.Value).(*ast.Ident); ok {
						if listVars[info.Uses[id]] && !(e.conf.PairSlots[lk.Name+"."+eng.ExprStr(kv.Key)]) {
							okAll, detail = false, "the list of "+k.Name+"s is stored into "+lk.Name+"."+eng.ExprStr(kv.Key)
						}
						if pairVars[info.Uses[id]] {
							okAll, detail = false, "a "+k.Name+" is stored into "+lk.Name+"."+eng.ExprStr(kv.Key)
						}
						// and the +2 slot receives nothing else
						if e.conf.PairSlots[lk.Name+"."+eng.ExprStr(kv.Key)] && !listVars[info.Uses[id]] {
							okAll, detail = false, lk.Name+"."+eng.ExprStr(kv.Key)+" receives a list that is not made of "+k.Name+"s only"
						}
					}
				}
				return true
			})
		}
		if n == 0 {
			okAll, detail = false, "no literal of "+k.Name+" found in the parser"
		}
		r.Check(okAll, "R5.5", "parser/who-constructs "+k.Name, "", detail, detail+": a node whose code leaves two values would be compiled where one is expected")
	}
}

func objOf(info *types.Info, id *ast.Ident) types.Object {
	if o := info.Defs[id]; o != nil {
		return o
	}
	return info.Uses[id]
}

func c05Controls() []core.Mutant {
	return []core.Mutant{
		{Name: "drop the second OpPop of emitCond", File: "compiler/compiler.go", Old: "\tc.patchJump(noop)\n\tc.emit(OpPop)\n\tc.patchJump(jmp)", New: "\tc.patchJump(noop)\n\tc.patchJump(jmp)", Rule: "R5.5", Construct: "BuiltinNode"},
		{Name: "OpEnd before patching loopBreak in all", File: "compiler/compiler.go", Old: "\t\tc.emit(OpTrue)\n\t\tc.patchJump(loopBreak)\n\t\tc.emit(OpEnd)\n\n\tcase \"none\":", New: "\t\tc.emit(OpTrue)\n\t\tc.emit(OpEnd)\n\t\tc.patchJump(loopBreak)\n\n\tcase \"none\":", Rule: "R5.6", Construct: "\"all\""},
		{Name: "give OpLen an operand", File: "compiler/compiler.go", Old: "\t\tc.compile(node.Arguments[0])\n\t\tc.emit(OpLen)\n\t\tc.emit(OpRot)", New: "\t\tc.compile(node.Arguments[0])\n\t\tc.emit(OpLen, encode(0)...)\n\t\tc.emit(OpRot)", Rule: "R5.2", Construct: "OpLen"},
		{Name: "OpMethod with a string constant", File: "compiler/compiler.go", Old: "c.emit(OpMethod, c.makeConstant(Call{Name: node.Method, Size: len(node.Arguments)})...)", New: "c.emit(OpMethod, c.makeConstant(node.Method)...)", Rule: "R5.2", Construct: "OpMethod"},
		{Name: "pop in OpJumpIfFalse", File: "vm/vm.go", Old: "\t\t\tif !vm.current().(bool) {", New: "\t\t\tif !vm.pop().(bool) {", Rule: "R5.5", Construct: ""},
		{Name: "opcode constant without handler", File: "vm/opcodes.go", Old: "\tOpBegin\n", New: "\tOpBegin\n\tOpSwap\n", Rule: "R5.1", Construct: "OpSwap"},
		{Name: "forget to patch one placeholder", File: "compiler/compiler.go", Old: "\tc.patchJump(otherwise)\n\tc.emit(OpPop)\n\tc.compile(node.Exp2)", New: "\t_ = otherwise\n\tc.emit(OpPop)\n\tc.compile(node.Exp2)", Rule: "R5.3", Construct: "ConditionalNode"},
		{Name: "len builtin leaves the collection", File: "compiler/compiler.go", Old: "\t\tc.emit(OpLen)\n\t\tc.emit(OpRot)\n\t\tc.emit(OpPop)\n", New: "\t\tc.emit(OpLen)\n", Rule: "R5.5", Construct: "\"len\""},
		{Name: "filter sized by size", File: "compiler/compiler.go", Old: "\t\tc.emit(OpLoad, count...)\n\t\tc.emit(OpEnd)\n\t\tc.emit(OpArray)", New: "\t\tc.emit(OpLoad, c.makeConstant(\"size\")...)\n\t\tc.emit(OpEnd)\n\t\tc.emit(OpArray)", Rule: "R5.5", Construct: "\"filter\""},
		{Name: "patchJump off by one", File: "compiler/compiler.go", Old: "offset := len(c.bytecode) - 2 - placeholder", New: "offset := len(c.bytecode) - 1 - placeholder", Rule: "R5.3", Construct: "patchJump/landing"},
		{Name: "calcBackwardJump off by one", File: "compiler/compiler.go", Old: "len(c.bytecode) + 1 + 2 - to", New: "len(c.bytecode) + 2 - to", Rule: "R5.3", Construct: "calcBackwardJump/landing"},
		{Name: "encode big-endian", File: "compiler/compiler.go", Old: "binary.LittleEndian.PutUint16(b, i)", New: "binary.BigEndian.PutUint16(b, i)", Rule: "R5.3", Construct: "vm.(VM).arg/layout"},
		{Name: "VM reads operand big-endian", File: "vm/vm.go", Old: "return uint16(b0) | uint16(b1)<<8", New: "return uint16(b1) | uint16(b0)<<8", Rule: "R5.3", Construct: "vm.(VM).arg/layout"},
		{Name: "emit returns the opcode position", File: "compiler/compiler.go", Old: "\tc.bytecode = append(c.bytecode, op)\n\tcurrent := len(c.bytecode)\n", New: "\tcurrent := len(c.bytecode)\n\tc.bytecode = append(c.bytecode, op)\n", Rule: "R5.3", Construct: "emit/returned position"},
		{Name: "jump offset guard removed", File: "compiler/compiler.go", Old: "\toffset := len(c.bytecode) - 2 - placeholder\n\tif offset > math.MaxUint16 {\n\t\tpanic(\"exceeded jump offset limit\")\n\t}\n", New: "\toffset := len(c.bytecode) - 2 - placeholder\n", Rule: "R5.4", Construct: "patchJump"},
		{Name: "constant pool guard after conversion is too lax", File: "compiler/compiler.go", Old: "if len(c.constants) > math.MaxUint16 {", New: "if len(c.constants) > math.MaxUint16+2 {", Rule: "R5.4", Construct: "makeConstant"},
		{Name: "refactor: makeConstant with an early return and an appendConstant helper", File: "compiler/compiler.go", Old: "\thashable := true\n\tswitch reflect.TypeOf(i).Kind() {\n\tcase reflect.Slice, reflect.Map:\n\t\thashable = false\n\t}\n\n\tif hashable {\n\t\tif p, ok := c.index[i]; ok {\n\t\t\treturn encode(p)\n\t\t}\n\t}\n\n\tc.constants = append(c.constants, i)\n\tif len(c.constants) > math.MaxUint16 {\n\t\tpanic(\"exceeded constants max space limit\")\n\t}\n\n\tp := uint16(len(c.constants) - 1)\n\tif hashable {\n\t\tc.index[i] = p\n\t}\n\treturn encode(p)\n}\n", New: "\tswitch reflect.TypeOf(i).Kind() {\n\tcase reflect.Slice, reflect.Map:\n\t\treturn encode(c.appendConstant(i))\n\t}\n\tif p, ok := c.index[i]; ok {\n\t\treturn encode(p)\n\t}\n\tp := c.appendConstant(i)\n\tc.index[i] = p\n\treturn encode(p)\n}\n\nfunc (c *compiler) appendConstant(v interface{}) uint16 {\n\tc.constants = append(c.constants, v)\n\tif len(c.constants) > math.MaxUint16 {\n\t\tpanic(\"exceeded constants max space limit\")\n\t}\n\treturn uint16(len(c.constants) - 1)\n}\n", Silent: true},
		{Name: "extracted appendConstant returns the pool length", File: "compiler/compiler.go", Old: "\thashable := true\n\tswitch reflect.TypeOf(i).Kind() {\n\tcase reflect.Slice, reflect.Map:\n\t\thashable = false\n\t}\n\n\tif hashable {\n\t\tif p, ok := c.index[i]; ok {\n\t\t\treturn encode(p)\n\t\t}\n\t}\n\n\tc.constants = append(c.constants, i)\n\tif len(c.constants) > math.MaxUint16 {\n\t\tpanic(\"exceeded constants max space limit\")\n\t}\n\n\tp := uint16(len(c.constants) - 1)\n\tif hashable {\n\t\tc.index[i] = p\n\t}\n\treturn encode(p)\n}\n", New: "\tswitch reflect.TypeOf(i).Kind() {\n\tcase reflect.Slice, reflect.Map:\n\t\treturn encode(c.appendConstant(i))\n\t}\n\tif p, ok := c.index[i]; ok {\n\t\treturn encode(p)\n\t}\n\tp := c.appendConstant(i)\n\tc.index[i] = p\n\treturn encode(p)\n}\n\nfunc (c *compiler) appendConstant(v interface{}) uint16 {\n\tc.constants = append(c.constants, v)\n\tif len(c.constants) > math.MaxUint16 {\n\t\tpanic(\"exceeded constants max space limit\")\n\t}\n\treturn uint16(len(c.constants))\n}\n", Rule: "R5.8", Construct: "returns the index"},
		{Name: "restructured makeConstant stores a stale index", File: "compiler/compiler.go", Old: "\thashable := true\n\tswitch reflect.TypeOf(i).Kind() {\n\tcase reflect.Slice, reflect.Map:\n\t\thashable = false\n\t}\n\n\tif hashable {\n\t\tif p, ok := c.index[i]; ok {\n\t\t\treturn encode(p)\n\t\t}\n\t}\n\n\tc.constants = append(c.constants, i)\n\tif len(c.constants) > math.MaxUint16 {\n\t\tpanic(\"exceeded constants max space limit\")\n\t}\n\n\tp := uint16(len(c.constants) - 1)\n\tif hashable {\n\t\tc.index[i] = p\n\t}\n\treturn encode(p)\n}\n", New: "\tswitch reflect.TypeOf(i).Kind() {\n\tcase reflect.Slice, reflect.Map:\n\t\treturn encode(c.appendConstant(i))\n\t}\n\tif p, ok := c.index[i]; ok {\n\t\treturn encode(p)\n\t}\n\tp := c.appendConstant(i)\n\tc.index[i] = p + 1\n\treturn encode(p)\n}\n\nfunc (c *compiler) appendConstant(v interface{}) uint16 {\n\tc.constants = append(c.constants, v)\n\tif len(c.constants) > math.MaxUint16 {\n\t\tpanic(\"exceeded constants max space limit\")\n\t}\n\treturn uint16(len(c.constants) - 1)\n}\n", Rule: "R5.8", Construct: "index map"},
		{Name: "makeConstant returns the pool length", File: "compiler/compiler.go", Old: "p := uint16(len(c.constants) - 1)", New: "p := uint16(len(c.constants))", Rule: "R5.8", Construct: "returns the index"},
		{Name: "JumpBackward handler adds", File: "vm/vm.go", Old: "vm.ip -= int(offset)", New: "vm.ip += int(offset)", Rule: "", Construct: "OpJumpBackward"},
		{Name: "peephole truncates the instruction stream", File: "compiler/compiler.go", Old: "\tcase \"!\", \"not\":\n\t\tc.emit(OpNot)\n", New: "\tcase \"!\", \"not\":\n\t\tif n := len(c.bytecode); n > 0 && c.bytecode[n-1] == OpNot {\n\t\t\tc.bytecode = c.bytecode[:n-1]\n\t\t} else {\n\t\t\tc.emit(OpNot)\n\t\t}\n", Rule: "", Construct: "UnaryNode"},
		{Name: "scope stack no longer emptied at the start of a run", File: "vm/vm.go", Old: "\tif vm.scopes != nil {\n\t\tvm.scopes = vm.scopes[0:0]\n\t}\n", New: "", Rule: "R5.9", Construct: "scopes empty"},
		{Name: "evaluation stack keeps its last element at the start of a run", File: "vm/vm.go", Old: "vm.stack = vm.stack[0:0]", New: "vm.stack = vm.stack[0:1]", Rule: "R5.9", Construct: "stack empty"},
		{Name: "refactor: extract emitBinary", File: "compiler/compiler.go", Old: "\tcase \"<\":\n\t\tc.compile(node.Left)\n\t\tc.compile(node.Right)\n\t\tc.emit(OpLess)\n", New: "\tcase \"<\":\n\t\tc.emitBinary(node, OpLess)\n", Edits: [][2]string{{"func (c *compiler) MatchesNode(", "func (c *compiler) emitBinary(node *ast.BinaryNode, op byte) {\n\tc.compile(node.Left)\n\tc.compile(node.Right)\n\tc.emit(op)\n}\n\nfunc (c *compiler) MatchesNode("}}, Silent: true},
		{Name: "operand reader shifts the high byte in 8-bit arithmetic", File: "vm/vm.go", Old: "return uint16(b0) | uint16(b1)<<8", New: "return uint16(b0 | b1<<8)", Rule: "R5.3", Construct: "vm.(VM).arg/layout"},
	}
}
