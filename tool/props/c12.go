package props

import (
	"fmt"
	"go/ast"
	"go/constant"
	"go/types"
	"sort"
	"strings"

	"verif/exprlint/core"
	"verif/exprlint/eng"
)

func init() {
	register(&Prop{ID: "C12", Run: runC12, Controls: c12Controls})
}

type radixClass struct {
	prefix   string // accepted prefix letters ("" = decimal)
	alphabet string
	pos      string
}

func constStringOf(info *types.Info, e ast.Expr) (string, bool) {
	tv, ok := info.Types[e]
	if !ok || tv.Value == nil || tv.Value.Kind() != constant.String {
		return "", false
	}
	return constant.StringVal(tv.Value), true
}

// scannerClasses reads the number scanner: the default digit alphabet and, per accepted radix
// prefix, the alphabet that replaces it.
func scannerClasses(p *core.Program) ([]radixClass, string) {
	info := p.Pkg("parser/lexer").TypesInfo
	var best []radixClass
	for _, fd := range p.FuncDecls("parser/lexer") {
		if fd.Body == nil {
			continue
		}
		// the alphabet is selected by prefix tests `if <scanner>.accept("xX") { <deliver A> }`,
		// where delivering is assigning the constant to a variable or returning it; every
		// alphabet delivered outside such a test is the default (they must all be the same)
		var classes []radixClass
		isAlphabet := func(e ast.Expr) (string, bool) {
			a, ok := constStringOf(info, e)
			return a, ok && strings.Contains(a, "0") && strings.Contains(a, "1")
		}
		delivered := func(st ast.Stmt) (string, bool) {
			switch x := st.(type) {
			case *ast.AssignStmt:
				if len(x.Lhs) == 1 && len(x.Rhs) == 1 {
					if _, isID := x.Lhs[0].(*ast.Ident); isID {
						return isAlphabet(x.Rhs[0])
					}
				}
			case *ast.ReturnStmt:
				if len(x.Results) == 1 {
					return isAlphabet(x.Results[0])
				}
			}
			return "", false
		}
		underPrefix := map[ast.Stmt]bool{}
		var pairs []radixClass
		ast.Inspect(fd.Body, func(n ast.Node) bool {
			is, ok := n.(*ast.IfStmt)
			if !ok {
				return true
			}
			c, ok := eng.Unparen(is.Cond).(*ast.CallExpr)
			if !ok || len(c.Args) != 1 {
				return true
			}
			pfx, ok := constStringOf(info, c.Args[0])
			if !ok {
				return true
			}
			for _, st := range is.Body.List {
				if a, ok := delivered(st); ok {
					underPrefix[st] = true
					pairs = append(pairs, radixClass{pfx, a, p.Pos(st.Pos())})
				}
			}
			return true
		})
		defaults := map[string]string{}
		ast.Inspect(fd.Body, func(n ast.Node) bool {
			if st, ok := n.(ast.Stmt); ok && !underPrefix[st] {
				if a, ok := delivered(st); ok {
					defaults[a] = p.Pos(st.Pos())
				}
			}
			return true
		})
		if len(pairs) == 0 || len(defaults) != 1 {
			continue
		}
		for a, pos := range defaults {
			classes = append(classes, radixClass{"", a, pos})
		}
		classes = append(classes, pairs...)
		if len(classes) > len(best) {
			best = classes
		}
	}
	if len(best) < 2 {
		return nil, "number scanner with a default alphabet and radix-prefixed alphabets not found in parser/lexer"
	}
	return best, ""
}

type classifyBranch struct {
	any   bool   // ContainsAny (set) vs Contains (substring)
	set   string // "" for the final else
	parse string // "float" | "int"
	base  int64
	pos   string
}

// parserChain reads the ordered classification of number tokens in the parser.
func parserChain(p *core.Program) ([]classifyBranch, string) {
	info := p.Pkg("parser").TypesInfo
	parseOf := func(body []ast.Stmt) (string, int64) {
		kind, base := "", int64(-1)
		for _, st := range body {
			ast.Inspect(st, func(n ast.Node) bool {
				c, ok := n.(*ast.CallExpr)
				if !ok {
					return true
				}
				fn := eng.CalleeOf(info, c)
				if fn == nil || fn.Pkg() == nil || fn.Pkg().Path() != "strconv" {
					return true
				}
				switch fn.Name() {
				case "ParseFloat":
					kind = "float"
				case "ParseInt", "ParseUint":
					kind = "int"
					if len(c.Args) >= 2 {
						if tv, ok := info.Types[c.Args[1]]; ok && tv.Value != nil {
							base, _ = constant.Int64Val(tv.Value)
						}
					}
				}
				return true
			})
		}
		return kind, base
	}
	var best []classifyBranch
	problem := ""
	for _, fd := range p.FuncDecls("parser") {
		if fd.Body == nil {
			continue
		}
		// a chain (if / else-if, tagless switch, or early-returning ifs) whose first branch parses
		// a number with strconv
		eng.StmtLists(fd.Body, func(list []ast.Stmt) {
			for i := range list {
				brs := eng.BranchChain(list, i)
				if len(brs) < 2 {
					continue
				}
				if k, _ := parseOf(brs[0].Body); k == "" {
					continue
				}
				var chain []classifyBranch
				for _, br := range brs {
					k, b := parseOf(br.Body)
					if br.Cond == nil {
						if k != "" {
							chain = append(chain, classifyBranch{false, "", k, b, p.Pos(br.Pos)})
						}
						break
					}
					bad := func(why string) {
						problem = "the classification chain at " + p.Pos(brs[0].Pos) + " has a test that is not strings.Contains / ContainsAny of a constant: " + why
						chain = nil
					}
					c, ok := eng.Unparen(br.Cond).(*ast.CallExpr)
					if !ok || len(c.Args) != 2 {
						bad(eng.ExprStr(br.Cond))
						break
					}
					fn := eng.CalleeOf(info, c)
					if fn == nil || fn.Pkg() == nil || fn.Pkg().Path() != "strings" || (fn.Name() != "ContainsAny" && fn.Name() != "Contains") {
						bad(eng.ExprStr(br.Cond))
						break
					}
					set, ok := constStringOf(info, c.Args[1])
					if !ok {
						bad(eng.ExprStr(br.Cond))
						break
					}
					if k == "" {
						bad("a branch without a strconv parse")
						break
					}
					chain = append(chain, classifyBranch{fn.Name() == "ContainsAny", set, k, b, p.Pos(br.Pos)})
				}
				if len(chain) > len(best) {
					best = chain
				}
			}
		})
	}
	if problem != "" {
		return nil, problem
	}
	if len(best) < 2 {
		return nil, "ordered classification of number spellings (strings.Contains… chain with strconv parses) not found in the parser"
	}
	return best, ""
}

func runC12(p *core.Program, r *core.Report) {
	r.Explanation = "Decides ONE necessary condition of the property, the routing of number spellings: from the scanner's digit alphabets (the default one and the one installed after each accepted radix prefix) and the parser's ordered classification predicates, every spelling class named by the property — decimal integers, and hexadecimal integers for every prefix letter the scanner accepts — is routed, uniformly for all its members, to an integer parse whose base fits the class: a predicate whose character set meets the class's alphabet may be reached only if an earlier predicate already matches every member of the class. A spelling routed to the float parse or to the wrong base is rejected or mis-valued, whatever strconv does."
	r.NotDecided = []string{"that strconv returns exactly the written number; UTF-8 decoding and the byte-level assembly of the unescaped string", "octal and binary prefixes (the scanner accepts them, the property does not speak of them)", "the float grammar the number scanner accepts (empty fraction `2.`, exponent forms, the look-ahead that separates `1..2` from `1.5`): seeded change C12-f is not reported"}
	classes, msg := scannerClasses(p)
	if classes == nil {
		r.Unk("R12.1", "number scanner", "", msg)
		return
	}
	chain, msg := parserChain(p)
	if chain == nil {
		r.Unk("R12.1", "number classification", "", msg)
		return
	}
	var cs []string
	for _, b := range chain {
		if b.set == "" {
			cs = append(cs, fmt.Sprintf("else → %s base %d", b.parse, b.base))
		} else {
			cs = append(cs, fmt.Sprintf("contains %q → %s base %d", b.set, b.parse, b.base))
		}
	}
	r.Analysed["classification_chain"] = cs
	var cl []string
	for _, c := range classes {
		cl = append(cl, fmt.Sprintf("prefix %q alphabet %q", c.prefix, c.alphabet))
	}
	sort.Strings(cl)
	r.Analysed["scanner_classes"] = cl

	route := func(key, pos string, member func(b classifyBranch) (all, some bool), wantBase map[int64]bool, what string) {
		for i, b := range chain {
			all, some := true, false
			if b.set != "" {
				all, some = member(b)
			}
			if all {
				ok := b.parse == "int" && wantBase[b.base]
				r.Check(ok, "R12.1", key, pos, fmt.Sprintf("every %s reaches branch %d: %s parse, base %d", what, i+1, b.parse, b.base),
					fmt.Sprintf("every %s is routed to branch %d (%s), a %s parse with base %d: the spelling is rejected or gets another value", what, i+1, b.pos, b.parse, b.base))
				return
			}
			if some {
				r.Bad("R12.1", key, pos, fmt.Sprintf("some but not all %ss satisfy the test %q of branch %d (%s), which leads to a %s parse (base %d): spellings that contain one of these characters are taken for another kind of number (e.g. a hexadecimal literal containing `e` is parsed as a float and rejected)", what, b.set, i+1, b.pos, b.parse, b.base))
				return
			}
		}
		r.Bad("R12.1", key, pos, "no branch of the classification receives this class")
	}
	nHex := 0
	for _, c := range classes {
		digits := strings.ReplaceAll(c.alphabet, "_", "")
		switch {
		case c.prefix == "":
			route("decimal integers", c.pos, func(b classifyBranch) (bool, bool) {
				if b.any {
					return false, strings.ContainsAny(digits, b.set)
				}
				return false, strings.Contains(digits, b.set) && len(b.set) == 1
			}, map[int64]bool{10: true, 0: false}, "decimal integer spelling")
		case strings.ContainsAny(c.alphabet, "aAfF"):
			for _, pl := range c.prefix {
				nHex++
				letter := string(pl)
				route("hexadecimal integers with prefix 0"+letter, c.pos, func(b classifyBranch) (bool, bool) {
					if b.any {
						if strings.Contains(b.set, letter) {
							return true, true
						}
						return false, strings.ContainsAny(digits+"0", b.set)
					}
					if b.set == letter {
						return true, true
					}
					return false, len(b.set) == 1 && strings.Contains(digits+"0", b.set)
				}, map[int64]bool{0: true, 16: false}, "hexadecimal spelling 0"+letter+"…")
			}
		}
	}
	r.Analysed["hex_prefix_letters"] = nHex
	r.Floor("R12.1", 3)
	positionRules(p, r, "R12.3")
	escapeRules(p, r)
	decodedStringRule(p, r)
	sourceUnmodifiedRule(p, r, "R12.3")
}

func c12Controls() []core.Mutant {
	return []core.Mutant{
		{Name: "float test before the radix test", File: "parser/parser.go", Old: "\t\tif strings.ContainsAny(value, \"xX\") {", New: "\t\tif strings.ContainsAny(value, \".eE\") {\n\t\t\tif _, err := strconv.ParseFloat(value, 64); err != nil {\n\t\t\t\tp.error(\"invalid float literal: %v\", err)\n\t\t\t}\n\t\t} else if strings.ContainsAny(value, \"xX\") {", Rule: "R12.1", Construct: "hexadecimal"},
		{Name: "classification test the rule cannot read", File: "parser/parser.go", Old: "\t\tif strings.ContainsAny(value, \"xX\") {", New: "\t\tif strings.ContainsAny(value, \"xX\") && len(value) > 2 {", Rule: "R12.1", Construct: "number classification"},
		{Name: "uppercase prefix not recognised", File: "parser/parser.go", Old: "strings.ContainsAny(value, \"xX\")", New: "strings.ContainsAny(value, \"x\")", Rule: "R12.1", Construct: "prefix 0X"},
		{Name: "string scanner fast path advances the column by a byte count", File: "parser/lexer/lexer.go", Old: "func (l *lexer) scanString(quote rune) (n int) {\n", New: "func (l *lexer) scanString(quote rune) (n int) {\n\tif i := strings.IndexAny(l.input[l.end:], \"\\\\\\n'\\\"\"); i > 0 {\n\t\tl.end += i\n\t\tl.loc.Column += i\n\t\tn += i\n\t}\n", Rule: "R12.3", Construct: "scanString"},
		{Name: "number scanner restores the offset without the location", File: "parser/lexer/state.go", Old: "l.loc, l.prev, l.end = loc, prev, end", New: "_, _ = loc, prev\n\t\t\tl.end = end", Rule: "R12.3", Construct: "scanNumber"},
		{Name: "token start offset re-saved without the start location", File: "parser/lexer/lexer.go", Old: "func (l *lexer) ignore() {\n\tl.start = l.end\n\tl.startLoc = l.loc\n}", New: "func (l *lexer) ignore() {\n\tl.start = l.end\n}", Rule: "R12.3", Construct: "ignore"},
		{Name: "REFACTORING: acceptWord restores in two statements' worth of one tuple, renamed locals", File: "parser/lexer/lexer.go", Old: "\tpos, loc, prev := l.end, l.loc, l.prev\n", New: "\tloc, prev, pos := l.loc, l.prev, l.end\n", Silent: true},
		{Name: "\\n decoded to carriage return", File: "parser/lexer/utils.go", Old: "\tcase 'n':\n\t\tvalue = '\\n'", New: "\tcase 'n':\n\t\tvalue = '\\r'", Rule: "R12.2", Construct: "escape \\n"},
		{Name: "\\u with two digits in the decoder", File: "parser/lexer/utils.go", Old: "\t\tcase 'u':\n\t\t\tn = 4", New: "\t\tcase 'u':\n\t\t\tn = 2", Rule: "R12.2", Construct: "numeric escape \\u"},
		{Name: "unknown escapes pass through", File: "parser/lexer/utils.go", Old: "\tdefault:\n\t\terr = fmt.Errorf(\"unable to unescape string\")\n\t}\n\n\ttail = s", New: "\tdefault:\n\t\tvalue = rune(c)\n\t}\n\n\ttail = s", Rule: "R12.2", Construct: "unknown escapes"},
		{Name: "newlines normalised after escape decoding", File: "parser/lexer/utils.go", Old: "\treturn string(buf), nil\n}", New: "\treturn newlineNormalizer.Replace(string(buf)), nil\n}", Rule: "R12.2", Construct: "returns the decoded buffer untransformed"},
		{Name: "Parse trims the input before lexing", File: "parser/parser.go", Old: "\tsource := file.NewSource(input)\n", New: "\tsource := file.NewSource(strings.TrimSpace(input))\n", Rule: "R12.3", Construct: "source text reaches the lexer unmodified"},
		{Name: "hex parsed in base 10", File: "parser/parser.go", Old: "number, err := strconv.ParseInt(value, 0, 64)", New: "number, err := strconv.ParseInt(value, 10, 64)", Rule: "R12.1", Construct: "hexadecimal"},
	}
}
