package props

import (
	"fmt"
	"go/ast"
	"go/token"
	"go/types"
	"strings"

	"verif/exprlint/core"
	"verif/exprlint/eng"
)

// First-error recorders: a struct type of a library package with a field of an error type that
// some method of the type assigns under `if x.f == nil { x.f = … }` (lexer, parser, checker
// visitor, the optimizer passes with an err field, conf.Config). Instead of unwinding, the stage
// records the first error and goes on; the function that OWNS the recorder (creates it) must
// look at the field before it reports success (R4.5), and a *file.Error it hands out must have
// been bound to the source it belongs to (R13.5).

type recorder struct {
	rel   string
	named *types.Named
	field *types.Var
}

func errorType(t types.Type) bool {
	if t == nil {
		return false
	}
	if types.Identical(t, types.Universe.Lookup("error").Type()) {
		return true
	}
	return strings.HasSuffix(t.String(), "file.Error")
}

func findRecorders(p *core.Program) []recorder {
	var out []recorder
	for _, rel := range core.LibPkgs {
		pk := p.Pkg(rel)
		if pk == nil {
			continue
		}
		info := pk.TypesInfo
		for _, fd := range p.FuncDecls(rel) {
			if fd.Body == nil {
				continue
			}
			ast.Inspect(fd.Body, func(n ast.Node) bool {
				as, ok := n.(*ast.AssignStmt)
				if !ok || len(as.Lhs) != 1 {
					return true
				}
				sel, ok := as.Lhs[0].(*ast.SelectorExpr)
				if !ok {
					return true
				}
				s := info.Selections[sel]
				if s == nil || s.Kind() != types.FieldVal || !errorType(s.Obj().Type()) {
					return true
				}
				rt := s.Recv()
				if pt, ok := rt.(*types.Pointer); ok {
					rt = pt.Elem()
				}
				named, ok := rt.(*types.Named)
				if !ok || named.Obj().Pkg() != pk.Types {
					return true
				}
				for _, r := range out {
					if r.named == named && r.field == s.Obj() {
						return true
					}
				}
				out = append(out, recorder{rel, named, s.Obj().(*types.Var)})
				return true
			})
		}
	}
	return out
}

// recorderRules: R4.5 (rule4 != "") and R13.5 (rule13 != "").
func recorderRules(p *core.Program, r *core.Report, rule4, rule13 string) {
	recs := findRecorders(p)
	r.Analysed["first_error_recorders"] = len(recs)
	if len(recs) < 4 {
		r.Unk(firstNonEmpty(rule4, rule13), "first-error recorders", "", fmt.Sprintf("expected the recorders of the lexer, the parser, the checker, the optimizer passes and the configuration; found %d", len(recs)))
		return
	}
	for _, rc := range recs {
		tname := rc.named.Obj().Name()
		// owners: functions of the package that create a value of the type
		info := p.Pkg(rc.rel).TypesInfo
		for _, fd := range p.FuncDecls(rc.rel) {
			if fd.Body == nil {
				continue
			}
			var holder types.Object
			ast.Inspect(fd.Body, func(n ast.Node) bool {
				as, ok := n.(*ast.AssignStmt)
				if !ok || len(as.Lhs) != 1 || len(as.Rhs) != 1 {
					return true
				}
				rhs := eng.Unparen(as.Rhs[0])
				if u, ok := rhs.(*ast.UnaryExpr); ok && u.Op == token.AND {
					rhs = u.X
				}
				cl, ok := rhs.(*ast.CompositeLit)
				if !ok {
					return true
				}
				if t := info.TypeOf(cl); t != nil && types.Identical(t, rc.named) {
					if id, ok := as.Lhs[0].(*ast.Ident); ok {
						holder = objOf(info, id)
					}
				}
				return true
			})
			if holder == nil {
				continue
			}
			// does the function return an error at all?
			if fd.Type.Results == nil {
				continue
			}
			res := fd.Type.Results.List
			lastT := info.TypeOf(res[len(res)-1].Type)
			if !errorType(lastT) {
				continue
			}
			fname := core.FuncName(rc.rel, fd)
			isField := func(e ast.Expr) bool {
				sel, ok := eng.Unparen(e).(*ast.SelectorExpr)
				if !ok {
					return false
				}
				id, ok := eng.Unparen(sel.X).(*ast.Ident)
				if !ok || objOf(info, id) != holder {
					return false
				}
				s := info.Selections[sel]
				return s != nil && s.Obj() == types.Object(rc.field)
			}
			mentionsField := func(e ast.Expr) bool {
				found := false
				ast.Inspect(e, func(n ast.Node) bool {
					if x, ok := n.(ast.Expr); ok && isField(x) {
						found = true
					}
					return true
				})
				return found
			}
			if rule4 != "" {
				w := &eng.Walker{Info: info, MaxPaths: 4000}
				bad := ""
				nSucc := 0
				for _, atoms := range flattenPaths(w.Func(fd.Body), 20000) {
					created, tested := false, false
					for _, a := range atoms {
						switch a.Kind {
						case "assign":
							as := a.Node.(*ast.AssignStmt)
							for _, l := range as.Lhs {
								if id, ok := l.(*ast.Ident); ok && objOf(info, id) == holder {
									created, tested = true, false
								}
							}
						case "cond":
							if mentionsField(a.Node.(ast.Expr)) {
								tested = true
							}
						case "return":
							rs := a.Node.(*ast.ReturnStmt)
							if len(rs.Results) == 0 {
								continue
							}
							last := rs.Results[len(rs.Results)-1]
							if isNilIdent(info, last) && created {
								nSucc++
								if !tested {
									bad = p.Pos(rs.Pos())
								}
							}
							// returning the field itself is looking at it
						}
					}
				}
				if nSucc > 0 {
					r.Check(bad == "", rule4, fname+"/recorded error of "+tname+" is looked at before success is reported", p.Pos(fd.Pos()), "every success return follows a test of the recorder's field",
						"the function reports success at "+bad+" on a path that never tests "+tname+"."+rc.field.Name()+": an error the stage recorded (it records instead of unwinding) is dropped and the caller receives a result built from a broken input")
				}
			}
			if rule13 != "" && strings.HasSuffix(rc.field.Type().String(), "file.Error") {
				// returns of the field must be bound, unless every library caller binds
				n := 0
				ast.Inspect(fd.Body, func(nd ast.Node) bool {
					rs, ok := nd.(*ast.ReturnStmt)
					if !ok || len(rs.Results) == 0 {
						return true
					}
					last := eng.Unparen(rs.Results[len(rs.Results)-1])
					if isField(last) {
						n++
						ok := callersBind(p, rc.rel, fd)
						r.Check(ok, rule13, fmt.Sprintf("%s/recorded error returned unbound#%d is bound by every caller", fname, n), p.Pos(rs.Pos()), "every library caller binds the *file.Error to the source",
							"the function returns the recorded *file.Error without binding it to the source, and a library caller passes it on unbound: the error has a location but no line, column and snippet")
						return true
					}
					if c, ok := last.(*ast.CallExpr); ok {
						if sel, ok := c.Fun.(*ast.SelectorExpr); ok && isField(sel.X) {
							n++
							r.Check(sel.Sel.Name == "Bind" && len(c.Args) == 1, rule13, fmt.Sprintf("%s/recorded error is bound to its source#%d", fname, n), p.Pos(rs.Pos()), "returned as err.Bind(source)", "the recorded error is returned through `"+eng.ExprStr(c)+"`, not bound to the source")
						}
					}
					return true
				})
			}
		}
	}
}

func firstNonEmpty(a, b string) string {
	if a != "" {
		return a
	}
	return b
}

// callersBind: every call of fd from a library package is followed, in the caller and before the
// error variable is assigned again, by a Bind on that error asserted to *file.Error.
func callersBind(p *core.Program, rel string, fd *ast.FuncDecl) bool {
	fn, _ := p.Pkg(rel).TypesInfo.Defs[fd.Name].(*types.Func)
	if fn == nil {
		return false
	}
	calls, bound := 0, 0
	for _, crel := range core.LibPkgs {
		pk := p.Pkg(crel)
		if pk == nil {
			continue
		}
		info := pk.TypesInfo
		for _, cfd := range p.FuncDecls(crel) {
			if cfd.Body == nil {
				continue
			}
			// every call of fd, with what its result goes into: an error variable
			// (`…, err = fd(…)`), or the operand of a type switch (`switch e := fd(…).(type)`)
			type site struct {
				pos token.Pos
				v   types.Object
			}
			var sites []site
			var assigns []site // every assignment to an error variable
			accounted := map[*ast.CallExpr]bool{}
			// bindsIn: a clause of the type switch for *file.Error calls Bind on the clause's value
			bindsIn := func(ts *ast.TypeSwitchStmt) bool {
				ok := false
				for _, cl := range ts.Body.List {
					cc := cl.(*ast.CaseClause)
					isFE := false
					for _, e := range cc.List {
						if t := info.TypeOf(e); t != nil && strings.HasSuffix(t.String(), "file.Error") {
							isFE = true
						}
					}
					if !isFE || len(cc.List) != 1 {
						continue
					}
					impl := info.Implicits[cc]
					ast.Inspect(cc, func(n ast.Node) bool {
						if c, isC := n.(*ast.CallExpr); isC {
							if sel, isS := c.Fun.(*ast.SelectorExpr); isS && sel.Sel.Name == "Bind" {
								if rid, isID := eng.Unparen(sel.X).(*ast.Ident); isID && impl != nil && info.Uses[rid] == impl {
									ok = true
								}
							}
						}
						return true
					})
				}
				return ok
			}
			switchOperand := func(ts *ast.TypeSwitchStmt) ast.Expr {
				switch a := ts.Assign.(type) {
				case *ast.AssignStmt:
					if len(a.Rhs) == 1 {
						if ta, ok := eng.Unparen(a.Rhs[0]).(*ast.TypeAssertExpr); ok {
							return eng.Unparen(ta.X)
						}
					}
				case *ast.ExprStmt:
					if ta, ok := eng.Unparen(a.X).(*ast.TypeAssertExpr); ok {
						return eng.Unparen(ta.X)
					}
				}
				return nil
			}
			ast.Inspect(cfd.Body, func(n ast.Node) bool {
				if ts, ok := n.(*ast.TypeSwitchStmt); ok {
					if c, ok := switchOperand(ts).(*ast.CallExpr); ok && eng.CalleeOf(info, c) == fn {
						accounted[c] = true
						calls++
						if bindsIn(ts) {
							bound++
						}
					}
					return true
				}
				as, ok := n.(*ast.AssignStmt)
				if !ok || len(as.Lhs) == 0 {
					return true
				}
				last, ok := as.Lhs[len(as.Lhs)-1].(*ast.Ident)
				if !ok {
					return true
				}
				o := objOf(info, last)
				if o == nil || !errorType(o.Type()) {
					return true
				}
				assigns = append(assigns, site{as.Pos(), o})
				if len(as.Rhs) == 1 {
					if c, ok := eng.Unparen(as.Rhs[0]).(*ast.CallExpr); ok && eng.CalleeOf(info, c) == fn {
						sites = append(sites, site{as.Pos(), o})
						accounted[c] = true
					}
				}
				return true
			})
			// a call whose result goes anywhere else (returned directly, passed on) is unbound
			ast.Inspect(cfd.Body, func(n ast.Node) bool {
				if c, ok := n.(*ast.CallExpr); ok && !accounted[c] && eng.CalleeOf(info, c) == fn {
					calls++
				}
				return true
			})
			for _, st := range sites {
				calls++
				end := cfd.End()
				for _, a := range assigns {
					if a.v == st.v && a.pos > st.pos && a.pos < end {
						end = a.pos
					}
				}
				ok := false
				ast.Inspect(cfd.Body, func(n ast.Node) bool {
					if ts, isTS := n.(*ast.TypeSwitchStmt); isTS && ts.Pos() > st.pos && ts.Pos() < end {
						// switch e := err.(type) { case *file.Error: … e.Bind(src) }
						if eid, isE := switchOperand(ts).(*ast.Ident); isE && objOf(info, eid) == st.v && bindsIn(ts) {
							ok = true
						}
						return true
					}
					c, isC := n.(*ast.CallExpr)
					if !isC || c.Pos() < st.pos || c.Pos() > end {
						return true
					}
					sel, isS := c.Fun.(*ast.SelectorExpr)
					if !isS || sel.Sel.Name != "Bind" {
						return true
					}
					// the receiver is a variable defined by asserting the error variable
					rid, isID := eng.Unparen(sel.X).(*ast.Ident)
					if !isID {
						return true
					}
					ast.Inspect(cfd.Body, func(m ast.Node) bool {
						as, isA := m.(*ast.AssignStmt)
						if !isA || len(as.Lhs) == 0 || len(as.Rhs) != 1 {
							return true
						}
						l0, isL := as.Lhs[0].(*ast.Ident)
						ta, isT := eng.Unparen(as.Rhs[0]).(*ast.TypeAssertExpr)
						if isL && isT && objOf(info, l0) == objOf(info, rid) {
							if eid, isE := eng.Unparen(ta.X).(*ast.Ident); isE && objOf(info, eid) == st.v {
								ok = true
							}
						}
						return true
					})
					return true
				})
				if ok {
					bound++
				}
			}
		}
	}
	return calls > 0 && calls == bound
}

// loopAliasRule: inside a loop, the address of a variable that is declared OUTSIDE the loop and
// assigned INSIDE it is one address for all iterations: whatever keeps it (a reflect.Value made
// from it, a slot of a slice) sees the value of the last iteration. The per-iteration
// declaration (`var v T` in the body) is what makes `&v` a fresh cell each time.
func loopAliasRule(p *core.Program, r *core.Report, rule string, rels ...string) {
	n := 0
	for _, rel := range rels {
		pk := p.Pkg(rel)
		if pk == nil {
			continue
		}
		info := pk.TypesInfo
		for _, fd := range p.FuncDecls(rel) {
			if fd.Body == nil {
				continue
			}
			fname := core.FuncName(rel, fd)
			k := 0
			var loops []ast.Node
			var visit func(n ast.Node) bool
			visit = func(nd ast.Node) bool {
				switch x := nd.(type) {
				case *ast.ForStmt, *ast.RangeStmt:
					loops = append(loops, x)
					var body *ast.BlockStmt
					if f, ok := x.(*ast.ForStmt); ok {
						body = f.Body
					} else {
						body = x.(*ast.RangeStmt).Body
					}
					ast.Inspect(body, visit)
					loops = loops[:len(loops)-1]
					return false
				case *ast.UnaryExpr:
					if x.Op != token.AND || len(loops) == 0 {
						return true
					}
					id, ok := eng.Unparen(x.X).(*ast.Ident)
					if !ok {
						return true
					}
					v, ok := info.Uses[id].(*types.Var)
					if !ok || v.Pkg() == nil || v.Parent() == v.Pkg().Scope() {
						return true
					}
					loop := loops[len(loops)-1]
					if v.Pos() >= loop.Pos() && v.Pos() < loop.End() {
						return true // declared in this loop (its header or body): fresh per iteration
					}
					// assigned inside the loop?
					assigned := false
					ast.Inspect(loop, func(m ast.Node) bool {
						if as, ok := m.(*ast.AssignStmt); ok {
							for _, l := range as.Lhs {
								if lid, ok := eng.Unparen(l).(*ast.Ident); ok && info.Uses[lid] == types.Object(v) {
									assigned = true
								}
							}
						}
						return true
					})
					if !assigned {
						return true
					}
					k++
					n++
					r.Bad(rule, fmt.Sprintf("%s/address of `%s` taken in a loop#%d", fname, id.Name, k), p.Pos(x.Pos()),
						"`&"+id.Name+"` is taken inside a loop, but `"+id.Name+"` is declared outside it and assigned in every iteration: all iterations share one cell, so a value kept through the address (an addressable reflect.Value for a nil argument, a slot of the argument vector) shows the LAST assigned value — `F(a, nil)` calls F(a, a)")
				}
				return true
			}
			ast.Inspect(fd.Body, visit)
		}
	}
	r.OK(rule, "no loop keeps the address of a variable shared by its iterations ("+strings.Join(rels, ", ")+")", "", fmt.Sprintf("%d offending site(s)", n))
}

// stackFieldBalanceRule: a slice-typed field used as a stack by one package (the checker's stack
// of collection types, which gives `#` its type) is left by every function at the depth it was
// entered with, on every path: pushes (`f = append(f, x)`), truncations (`f = f[:n]`) and
// deferred truncations (whose argument is evaluated when the defer statement runs) are
// executed on an affine depth; calls of the package's own functions are assumed balanced (each is
// checked by this rule). An unbalanced function leaves an inner collection on the stack: a
// later `#` of the OUTER closure is typed with the inner element type.
func stackFieldBalanceRule(p *core.Program, r *core.Report, rule, rel, typeName, field string) {
	pk := p.Pkg(rel)
	if pk == nil {
		r.Unk(rule, rel+"."+typeName+"."+field+"/stack discipline", "", "package not found")
		return
	}
	info := pk.TypesInfo
	if strings.HasPrefix(field, "[]") {
		// the field named by its role: the one field of the type with this slice type
		want, found := field, []string{}
		if tn, ok := pk.Types.Scope().Lookup(typeName).(*types.TypeName); ok {
			if st, ok := tn.Type().Underlying().(*types.Struct); ok {
				for i := 0; i < st.NumFields(); i++ {
					if types.TypeString(st.Field(i).Type(), func(p *types.Package) string { return p.Name() }) == want {
						found = append(found, st.Field(i).Name())
					}
				}
			}
		}
		if len(found) != 1 {
			r.Unk(rule, rel+"."+typeName+"/stack discipline", "", fmt.Sprintf("expected one field of type %s in %s, found %d", want, typeName, len(found)))
			return
		}
		field = found[0]
	}
	isField := func(e ast.Expr) bool {
		sel, ok := eng.Unparen(e).(*ast.SelectorExpr)
		if !ok || sel.Sel.Name != field {
			return false
		}
		s := info.Selections[sel]
		if s == nil || s.Kind() != types.FieldVal {
			return false
		}
		t := s.Recv()
		if pt, ok := t.(*types.Pointer); ok {
			t = pt.Elem()
		}
		n, ok := t.(*types.Named)
		return ok && n.Obj().Name() == typeName
	}
	nFuncs := 0
	for _, fd := range p.FuncDecls(rel) {
		if fd.Body == nil {
			continue
		}
		touches := false
		ast.Inspect(fd.Body, func(n ast.Node) bool {
			if as, ok := n.(*ast.AssignStmt); ok {
				for _, l := range as.Lhs {
					if isField(l) {
						touches = true
					}
				}
			}
			return true
		})
		if !touches {
			continue
		}
		nFuncs++
		fname := core.FuncName(rel, fd)
		w := &eng.Walker{Info: info, MaxPaths: 20000}
		okAll, why := true, ""
		nPaths := 0
		for _, atoms := range flattenPaths(w.Func(fd.Body), 60000) {
			depth := eng.AffSym("D0")
			env := &eng.AffEnv{Info: info, Vars: map[types.Object]eng.Aff{}}
			env.Val = func(x ast.Expr) (eng.Aff, bool) {
				if c, ok := x.(*ast.CallExpr); ok && isBuiltinCall(info, c, "len") && len(c.Args) == 1 && isField(c.Args[0]) {
					return depth, true
				}
				return eng.Aff{}, false
			}
			type deferred struct {
				abs *eng.Aff // truncate to this value
				rel int64    // or: change depth by this much
			}
			var defers []deferred
			panics, understood := false, true
			apply := func(as *ast.AssignStmt) {
				if len(as.Lhs) != 1 || len(as.Rhs) != 1 {
					return
				}
				if isField(as.Lhs[0]) {
					switch x := eng.Unparen(as.Rhs[0]).(type) {
					case *ast.CallExpr:
						if isBuiltinCall(info, x, "append") && len(x.Args) >= 1 && isField(x.Args[0]) && !x.Ellipsis.IsValid() {
							depth = depth.Add(eng.AffConst(int64(len(x.Args)-1)), 1)
							return
						}
					case *ast.SliceExpr:
						if isField(x.X) && x.Low == nil && x.High != nil {
							if a, ok := env.Eval(x.High); ok {
								depth = a
								return
							}
						}
					}
					understood = false
					return
				}
				if id, ok := as.Lhs[0].(*ast.Ident); ok {
					if a, ok := env.Eval(as.Rhs[0]); ok {
						if _, isCall := eng.Unparen(as.Rhs[0]).(*ast.CallExpr); !isCall || len(a.T) > 0 || a.IsConst() {
							env.Vars[objOf(info, id)] = a
						}
					}
				}
			}
			for _, a := range atoms {
				switch a.Kind {
				case "assign":
					apply(a.Node.(*ast.AssignStmt))
				case "panic":
					panics = true
				case "defer":
					ds := a.Node.(*ast.DeferStmt)
					fl, ok := ds.Call.Fun.(*ast.FuncLit)
					if !ok {
						continue
					}
					// parameters hold the values of the arguments AT THE DEFER STATEMENT
					sub := &eng.AffEnv{Info: info, Vars: map[types.Object]eng.Aff{}, Val: nil}
					for k, v := range env.Vars {
						sub.Vars[k] = v
					}
					i := 0
					if fl.Type.Params != nil {
						for _, f := range fl.Type.Params.List {
							for _, nm := range f.Names {
								if i < len(ds.Call.Args) {
									if av, ok := env.Eval(ds.Call.Args[i]); ok {
										sub.Vars[info.Defs[nm]] = av
									}
								}
								i++
							}
						}
					}
					ast.Inspect(fl.Body, func(n ast.Node) bool {
						as, ok := n.(*ast.AssignStmt)
						if !ok || len(as.Lhs) != 1 || len(as.Rhs) != 1 || !isField(as.Lhs[0]) {
							return true
						}
						if sl, ok := eng.Unparen(as.Rhs[0]).(*ast.SliceExpr); ok && isField(sl.X) && sl.Low == nil && sl.High != nil {
							// relative to the depth at exit, or an absolute captured value?
							relEnv := &eng.AffEnv{Info: info, Vars: sub.Vars}
							relEnv.Val = func(x ast.Expr) (eng.Aff, bool) {
								if c, ok := x.(*ast.CallExpr); ok && isBuiltinCall(info, c, "len") && len(c.Args) == 1 && isField(c.Args[0]) {
									return eng.AffSym("EXIT"), true
								}
								return eng.Aff{}, false
							}
							if av, ok := relEnv.Eval(sl.High); ok {
								if av.T["EXIT"] == 1 && len(av.T) == 1 {
									defers = append(defers, deferred{rel: av.C})
								} else if av.T["EXIT"] == 0 {
									v := av
									defers = append(defers, deferred{abs: &v})
								} else {
									understood = false
								}
								return true
							}
						}
						understood = false
						return true
					})
				}
			}
			if panics {
				continue
			}
			nPaths++
			for i := len(defers) - 1; i >= 0; i-- {
				if defers[i].abs != nil {
					depth = *defers[i].abs
				} else {
					depth = depth.Add(eng.AffConst(defers[i].rel), 1)
				}
			}
			if !understood {
				okAll, why = false, "an assignment of the stack field is neither a push nor a truncation this analysis can evaluate"
			} else if !depth.Equal(eng.AffSym("D0")) {
				okAll, why = false, "a path leaves the function with depth "+depth.String()+" (D0 = depth at entry): the stack is not restored"
			}
		}
		r.Check(okAll, rule, fname+"/"+field+" is restored on every path", p.Pos(fd.Pos()), fmt.Sprintf("%d completing path(s), each leaves the depth it found", nPaths),
			why+" — the pointer accessor `#` of an enclosing closure is then typed with the element type of an inner collection, and a type-directed rewrite or instruction selection is applied to a value of another type")
	}
	if nFuncs == 0 {
		r.Unk(rule, rel+"."+typeName+"."+field+"/stack discipline", "", "no function assigns the field")
	}
}

// sharedRecursionStateRule: a recursive function that receives a map or slice, writes it, and
// hands the same object on to its recursive calls shares that state between SIBLING calls: what
// the first sibling records is seen by the second. For a table built per struct type (the
// fields an embedded struct contributes) the result then depends on traversal history — a type
// embedded twice contributes nothing the second time, so an ambiguity goes unnoticed. A guard
// against cycles that un-marks on the way back (delete after the call) is not such sharing.
func sharedRecursionStateRule(p *core.Program, r *core.Report, rule string, rels ...string) {
	n := 0
	for _, rel := range rels {
		pk := p.Pkg(rel)
		if pk == nil {
			continue
		}
		info := pk.TypesInfo
		for _, fd := range p.FuncDecls(rel) {
			if fd.Body == nil || fd.Type.Params == nil {
				continue
			}
			self := info.Defs[fd.Name]
			var params []types.Object
			for _, f := range fd.Type.Params.List {
				for _, nm := range f.Names {
					params = append(params, info.Defs[nm])
				}
			}
			for pi, po := range params {
				if po == nil {
					continue
				}
				switch po.Type().Underlying().(type) {
				case *types.Map, *types.Slice:
				default:
					continue
				}
				written, unmarked, passedOn := false, false, false
				ast.Inspect(fd.Body, func(nd ast.Node) bool {
					switch x := nd.(type) {
					case *ast.AssignStmt:
						for _, l := range x.Lhs {
							if ix, ok := eng.Unparen(l).(*ast.IndexExpr); ok {
								if id, ok := eng.Unparen(ix.X).(*ast.Ident); ok && info.Uses[id] == po {
									written = true
								}
							}
						}
					case *ast.CallExpr:
						if isBuiltinCall(info, x, "delete") && len(x.Args) == 2 {
							if id, ok := eng.Unparen(x.Args[0]).(*ast.Ident); ok && info.Uses[id] == po {
								unmarked = true
							}
						}
						if eng.CalleeOf(info, x) == self && self != nil && pi < len(x.Args) {
							if id, ok := eng.Unparen(x.Args[pi]).(*ast.Ident); ok && info.Uses[id] == po {
								passedOn = true
							}
						}
					}
					return true
				})
				if written && passedOn {
					n++
					r.Check(unmarked, rule, core.FuncName(rel, fd)+"/parameter `"+po.Name()+"` is not state shared between sibling recursive calls", p.Pos(fd.Pos()), "marks are removed on the way back",
						"the recursive function writes its parameter `"+po.Name()+"` and passes the same object to its recursive calls without ever removing what it wrote: the second of two sibling calls sees the first one's marks — a struct type embedded through two embedded structs is expanded once, its fields are not recognised as ambiguous, and the checker accepts a name the VM cannot resolve")
				}
			}
		}
	}
	r.OK(rule, "recursive table builders share no written state between sibling calls ("+strings.Join(rels, ", ")+")", "", fmt.Sprintf("%d recursive function(s) with a written, passed-on parameter examined", n))
}
