package props

import (
	"fmt"
	"go/ast"
	"go/token"
	"go/types"
	"strings"

	"verif/exprlint/core"
	"verif/exprlint/eng"
)

// First-error recorders: a struct type of a library package with a field of an error type that
// some method of the type assigns under `if x.f == nil { x.f = … }` (lexer, parser, checker
// visitor, the optimizer passes with an err field, conf.Config). Instead of unwinding, the stage
// records the first error and goes on; the function that OWNS the recorder (creates it) must
// look at the field before it reports success (R4.5), and a *file.Error it hands out must have
// been bound to the source it belongs to (R13.5).

type recorder struct {
	rel   string
	named *types.Named
	field *types.Var
}

func errorType(t types.Type) bool {
	if t == nil {
		return false
	}
	if types.Identical(t, types.Universe.Lookup("error").Type()) {
		return true
	}
	return strings.HasSuffix(t.String(), "file.Error")
}

func findRecorders(p *core.Program) []recorder {
	var out []recorder
	for _, rel := range core.LibPkgs {
		pk := p.Pkg(rel)
		if pk == nil {
			continue
		}
		info := pk.TypesInfo
		for _, fd := range p.FuncDecls(rel) {
			if fd.Body == nil {
				continue
			}
			ast.Inspect(fd.Body, func(n ast.Node) bool {
				as, ok := n.(*ast.AssignStmt)
				if !ok || len(as.Lhs) != 1 {
					return true
				}
				sel, ok := as.Lhs[0].(*ast.SelectorExpr)
				if !ok {
					return true
				}
				s := info.Selections[sel]
				if s == nil || s.Kind() != types.FieldVal || !errorType(s.Obj().Type()) {
					return true
				}
				rt := s.Recv()
				if pt, ok := rt.(*types.Pointer); ok {
					rt = pt.Elem()
				}
				named, ok := rt.(*types.Named)
				if !ok || named.Obj().Pkg() != pk.Types {
					return true
				}
				for _, r := range out {
					if r.named == named && r.field == s.Obj() {
						return true
					}
				}
				out = append(out, recorder{rel, named, s.Obj().(*types.Var)})
				return true
			})
		}
	}
	return out
}

// recorderRules: R4.5 (rule4 != "") and R13.5 (rule13 != "").
func recorderRules(p *core.Program, r *core.Report, rule4, rule13 string) {
	recs := findRecorders(p)
	r.Analysed["first_error_recorders"] = len(recs)
	if len(recs) < 4 {
		r.Unk(firstNonEmpty(rule4, rule13), "first-error recorders", "", fmt.Sprintf("expected the recorders of the lexer, the parser, the checker, the optimizer passes and the configuration; found %d", len(recs)))
		return
	}
	for _, rc := range recs {
		tname := rc.named.Obj().Name()
		// owners: functions of the package that create a value of the type
		info := p.Pkg(rc.rel).TypesInfo
		for _, fd := range p.FuncDecls(rc.rel) {
			if fd.Body == nil {
				continue
			}
			var holder types.Object
			ast.Inspect(fd.Body, func(n ast.Node) bool {
				as, ok := n.(*ast.AssignStmt)
				if !ok || len(as.Lhs) != 1 || len(as.Rhs) != 1 {
					return true
				}
				rhs := eng.Unparen(as.Rhs[0])
				if u, ok := rhs.(*ast.UnaryExpr); ok && u.Op == token.AND {
					rhs = u.X
				}
				cl, ok := rhs.(*ast.CompositeLit)
				if !ok {
					return true
				}
				if t := info.TypeOf(cl); t != nil && types.Identical(t, rc.named) {
					if id, ok := as.Lhs[0].(*ast.Ident); ok {
						holder = objOf(info, id)
					}
				}
				return true
			})
			if holder == nil {
				continue
			}
			// does the function return an error at all?
			if fd.Type.Results == nil {
				continue
			}
			res := fd.Type.Results.List
			lastT := info.TypeOf(res[len(res)-1].Type)
			if !errorType(lastT) {
				continue
			}
			fname := core.FuncName(rc.rel, fd)
			isField := func(e ast.Expr) bool {
				sel, ok := eng.Unparen(e).(*ast.SelectorExpr)
				if !ok {
					return false
				}
				id, ok := eng.Unparen(sel.X).(*ast.Ident)
				if !ok || objOf(info, id) != holder {
					return false
				}
				s := info.Selections[sel]
				return s != nil && s.Obj() == types.Object(rc.field)
			}
			mentionsField := func(e ast.Expr) bool {
				found := false
				ast.Inspect(e, func(n ast.Node) bool {
					if x, ok := n.(ast.Expr); ok && isField(x) {
						found = true
					}
					return true
				})
				return found
			}
			if rule4 != "" {
				w := &eng.Walker{Info: info, MaxPaths: 4000}
				bad := ""
				nSucc := 0
				for _, atoms := range flattenPaths(w.Func(fd.Body), 20000) {
					created, tested := false, false
					for _, a := range atoms {
						switch a.Kind {
						case "assign":
							as := a.Node.(*ast.AssignStmt)
							for _, l := range as.Lhs {
								if id, ok := l.(*ast.Ident); ok && objOf(info, id) == holder {
									created, tested = true, false
								}
							}
						case "cond":
							if mentionsField(a.Node.(ast.Expr)) {
								tested = true
							}
						case "return":
							rs := a.Node.(*ast.ReturnStmt)
							if len(rs.Results) == 0 {
								continue
							}
							last := rs.Results[len(rs.Results)-1]
							if isNilIdent(info, last) && created {
								nSucc++
								if !tested {
									bad = p.Pos(rs.Pos())
								}
							}
							// returning the field itself is looking at it
						}
					}
				}
				if nSucc > 0 {
					r.Check(bad == "", rule4, fname+"/recorded error of "+tname+" is looked at before success is reported", p.Pos(fd.Pos()), "every success return follows a test of the recorder's field",
						"the function reports success at "+bad+" on a path that never tests "+tname+"."+rc.field.Name()+": an error the stage recorded (it records instead of unwinding) is dropped and the caller receives a result built from a broken input")
				}
			}
			if rule13 != "" && strings.HasSuffix(rc.field.Type().String(), "file.Error") {
				// returns of the field must be bound, unless every library caller binds
				n := 0
				ast.Inspect(fd.Body, func(nd ast.Node) bool {
					rs, ok := nd.(*ast.ReturnStmt)
					if !ok || len(rs.Results) == 0 {
						return true
					}
					last := eng.Unparen(rs.Results[len(rs.Results)-1])
					if isField(last) {
						n++
						ok := callersBind(p, rc.rel, fd)
						r.Check(ok, rule13, fmt.Sprintf("%s/recorded error returned unbound#%d is bound by every caller", fname, n), p.Pos(rs.Pos()), "every library caller binds the *file.Error to the source",
							"the function returns the recorded *file.Error without binding it to the source, and a library caller passes it on unbound: the error has a location but no line, column and snippet")
						return true
					}
					if c, ok := last.(*ast.CallExpr); ok {
						if sel, ok := c.Fun.(*ast.SelectorExpr); ok && isField(sel.X) {
							n++
							r.Check(sel.Sel.Name == "Bind" && len(c.Args) == 1, rule13, fmt.Sprintf("%s/recorded error is bound to its source#%d", fname, n), p.Pos(rs.Pos()), "returned as err.Bind(source)", "the recorded error is returned through `"+eng.ExprStr(c)+"`, not bound to the source")
						}
					}
					return true
				})
			}
		}
	}
}

func firstNonEmpty(a, b string) string {
	if a != "" {
		return a
	}
	return b
}

// callersBind: every call of fd from a library package is followed, in the caller and before the
// error variable is assigned again, by a Bind on that error asserted to *file.Error.
func callersBind(p *core.Program, rel string, fd *ast.FuncDecl) bool {
	fn, _ := p.Pkg(rel).TypesInfo.Defs[fd.Name].(*types.Func)
	if fn == nil {
		return false
	}
	calls, bound := 0, 0
	for _, crel := range core.LibPkgs {
		pk := p.Pkg(crel)
		if pk == nil {
			continue
		}
		info := pk.TypesInfo
		for _, cfd := range p.FuncDecls(crel) {
			if cfd.Body == nil {
				continue
			}
			// assignments `…, err = fd(…)`
			type site struct {
				pos token.Pos
				v   types.Object
			}
			var sites []site
			var assigns []site // every assignment to an error variable
			ast.Inspect(cfd.Body, func(n ast.Node) bool {
				as, ok := n.(*ast.AssignStmt)
				if !ok || len(as.Lhs) == 0 {
					return true
				}
				last, ok := as.Lhs[len(as.Lhs)-1].(*ast.Ident)
				if !ok {
					return true
				}
				o := objOf(info, last)
				if o == nil || !errorType(o.Type()) {
					return true
				}
				assigns = append(assigns, site{as.Pos(), o})
				if len(as.Rhs) == 1 {
					if c, ok := eng.Unparen(as.Rhs[0]).(*ast.CallExpr); ok && eng.CalleeOf(info, c) == fn {
						sites = append(sites, site{as.Pos(), o})
					}
				}
				return true
			})
			for _, st := range sites {
				calls++
				end := cfd.End()
				for _, a := range assigns {
					if a.v == st.v && a.pos > st.pos && a.pos < end {
						end = a.pos
					}
				}
				ok := false
				ast.Inspect(cfd.Body, func(n ast.Node) bool {
					c, isC := n.(*ast.CallExpr)
					if !isC || c.Pos() < st.pos || c.Pos() > end {
						return true
					}
					sel, isS := c.Fun.(*ast.SelectorExpr)
					if !isS || sel.Sel.Name != "Bind" {
						return true
					}
					// the receiver is a variable defined by asserting the error variable
					rid, isID := eng.Unparen(sel.X).(*ast.Ident)
					if !isID {
						return true
					}
					ast.Inspect(cfd.Body, func(m ast.Node) bool {
						as, isA := m.(*ast.AssignStmt)
						if !isA || len(as.Lhs) == 0 || len(as.Rhs) != 1 {
							return true
						}
						l0, isL := as.Lhs[0].(*ast.Ident)
						ta, isT := eng.Unparen(as.Rhs[0]).(*ast.TypeAssertExpr)
						if isL && isT && objOf(info, l0) == objOf(info, rid) {
							if eid, isE := eng.Unparen(ta.X).(*ast.Ident); isE && objOf(info, eid) == st.v {
								ok = true
							}
						}
						return true
					})
					return true
				})
				if ok {
					bound++
				}
			}
		}
	}
	return calls > 0 && calls == bound
}
