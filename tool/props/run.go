package props

import (
	"fmt"
	"go/ast"
	"go/constant"
	"go/token"
	"go/types"
	"os"
	"runtime/debug"
	"strings"

	"verif/exprlint/core"
	"verif/exprlint/eng"
)

func runProp(pr *Prop, p *core.Program, r *core.Report) {
	defer func() {
		if e := recover(); e != nil {
			r.Unk("meta", "analyser", "", fmt.Sprintf("analyser panic: %v\n%s", e, firstLines(string(debug.Stack()), 14)))
		}
	}()
	pr.Run(p, r)
}

func firstLines(s string, n int) string {
	l := strings.Split(s, "\n")
	if len(l) > n {
		l = l[:n]
	}
	return strings.Join(l, "\n")
}

// RunCheck is `exprlint check <id>`.
func RunCheck(id, tier string) int {
	pr := Registry[id]
	if pr == nil {
		fmt.Printf("unknown property %s\n", id)
		return 2
	}
	r := core.NewReport(id, tier)
	p, err := core.Load(core.LoadConf{})
	if err != nil {
		r.Unk("meta", "load", "", "cannot load and type-check the repository: "+err.Error())
		return r.Finish()
	}
	r.Configs = append(r.Configs, "linux/amd64 (default tags)")
	r.Analysed["packages"] = len(p.All)
	runProp(pr, p, r)
	if tier == "thorough" {
		for _, c := range []core.LoadConf{{GOARCH: "386"}, {GOOS: "windows"}} {
			p2, err := core.Load(c)
			name := c.GOOS + "/" + c.GOARCH
			if err != nil {
				r.Unk("meta", "load "+name, "", err.Error())
				continue
			}
			r2 := core.NewReport(id, tier)
			runProp(pr, p2, r2)
			r.Configs = append(r.Configs, name)
			// a violation that only shows in another configuration is added under a config-qualified construct
			for _, o := range r2.Obs {
				if o.Verdict == core.Violated || o.Verdict == core.Undecided {
					found := false
					for _, o1 := range r.Obs {
						if o1.Rule == o.Rule && o1.Construct == o.Construct && o1.Verdict == o.Verdict {
							found = true
						}
					}
					if !found {
						r.Obs = append(r.Obs, core.Obligation{Property: id, Rule: o.Rule, Construct: o.Construct + " [" + name + "]", Verdict: o.Verdict, Detail: o.Detail, Pos: o.Pos})
					}
				}
			}
		}
	}
	// positive controls / mutation catalogue
	if pr.Controls != nil && os.Getenv("VERIF_NO_CONTROLS") == "" {
		if tier == "thorough" {
			RunMutants(id, r, false)
		} else {
			ms := pr.Controls()
			n := 0
			for _, m := range ms {
				if m.Silent {
					continue
				}
				c := runMutant(pr, m)
				r.Controls = append(r.Controls, c)
				n++
				if n >= quickControls(id) {
					break
				}
			}
		}
	}
	return r.Finish()
}

func quickControls(id string) int { return 1 }

func runMutant(pr *Prop, m core.Mutant) core.Control {
	c := core.Control{Name: m.Name, Rule: m.Rule}
	ov, ok := m.Overlay()
	if !ok {
		c.Status, c.Detail = "skipped", "anchor text not present in "+m.File+" (the repository drifted); control not applicable"
		return c
	}
	p, err := core.Load(core.LoadConf{Overlay: ov})
	if err != nil {
		c.Status, c.Detail = "skipped", "variant does not type-check: "+err.Error()
		return c
	}
	r := core.NewReport(pr.ID, "control")
	runProp(pr, p, r)
	var hits, others []string
	for _, o := range r.Obs {
		if o.Verdict != core.Violated && o.Verdict != core.Undecided {
			continue
		}
		if isKnownOb(o) {
			continue
		}
		if (m.Rule == "" || o.Rule == m.Rule) && strings.Contains(o.Construct, m.Construct) {
			hits = append(hits, o.Rule+" "+o.Construct)
		} else {
			others = append(others, o.Rule+" "+o.Construct)
		}
	}
	if m.Silent {
		if len(hits)+len(others) == 0 {
			c.Status, c.Fired = "silent", false
		} else {
			c.Status, c.Detail = "alarmed", strings.Join(append(hits, others...), "; ")
		}
		return c
	}
	if len(hits) > 0 {
		c.Status, c.Fired, c.Detail = "fired", true, hits[0]
	} else {
		c.Status, c.Detail = "missed", "reported instead: "+strings.Join(others, "; ")
	}
	return c
}

var knownCache []core.Finding
var knownLoaded bool

func isKnownOb(o core.Obligation) bool {
	if !knownLoaded {
		knownCache, _ = core.LoadFindings()
		knownLoaded = true
	}
	for _, f := range knownCache {
		if f.Status == "known" && f.Property == o.Property && f.Rule == o.Rule && f.Construct == o.Construct {
			return true
		}
	}
	return false
}

// RunMutants runs the whole catalogue of a property (sequentially: each variant is a full
// load of the program; memory stays bounded because each variant is dropped before the next).
func RunMutants(id string, r *core.Report, standalone bool) int {
	pr := Registry[id]
	if pr == nil || pr.Controls == nil {
		fmt.Println("no catalogue for", id)
		return 2
	}
	bad := 0
	for _, m := range pr.Controls() {
		if f := os.Getenv("VERIF_MUTANT"); f != "" && !strings.Contains(m.Name, f) {
			continue
		}
		c := runMutant(pr, m)
		if m.Silent {
			if c.Status == "alarmed" {
				c.Status = "missed" // a refactoring that alarms is a checker defect
				c.Detail = "behaviour-preserving variant raised an alarm: " + c.Detail
				bad++
			}
		} else if c.Status == "missed" {
			bad++
		}
		r.Controls = append(r.Controls, c)
		if standalone {
			fmt.Printf("%-8s %-60s %s %s\n", c.Status, m.Name, m.Rule, c.Detail)
		}
	}
	if standalone {
		if bad > 0 {
			fmt.Println("SELFTEST-FAIL")
			return 2
		}
		return 0
	}
	return bad
}

// Replay re-evaluates one obligation on the current tree.
func Replay(id, rule, construct string) int {
	pr := Registry[id]
	if pr == nil {
		fmt.Println("unknown property", id)
		return 2
	}
	r := core.NewReport(id, "replay")
	p, err := core.Load(core.LoadConf{})
	if err != nil {
		fmt.Println("load:", err)
		fmt.Printf("VIOLATION property=%s replay=-\n", id)
		return 1
	}
	runProp(pr, p, r)
	for _, o := range r.Obs {
		if o.Rule == rule && o.Construct == construct {
			fmt.Printf("%s [%s] %s: %s — %s\n", o.Pos, o.Rule, o.Construct, o.Verdict, o.Detail)
			if o.Verdict == core.Violated || o.Verdict == core.Undecided {
				fmt.Printf("VIOLATION property=%s replay=-\n", id)
				return 1
			}
			return 0
		}
	}
	fmt.Printf("obligation [%s] %s no longer exists on the current tree\n", rule, construct)
	return 0
}

// inlineUnexported: a Walker.Inline that enters the unexported plain functions of one package
// (stages of an API function extracted into helpers are read as part of it).
func inlineUnexported(p *core.Program, rel string) func(call *ast.CallExpr, depth int) (*ast.BlockStmt, *ast.FuncDecl) {
	info := p.Pkg(rel).TypesInfo
	return func(call *ast.CallExpr, depth int) (*ast.BlockStmt, *ast.FuncDecl) {
		fn := eng.CalleeOf(info, call)
		if fn == nil || fn.Exported() || fn.Pkg() != p.Pkg(rel).Types {
			return nil, nil
		}
		if fn.Type().(*types.Signature).Recv() != nil {
			return nil, nil
		}
		if _, fd := p.DeclOf(fn); fd != nil && fd.Body != nil {
			return fd.Body, fd
		}
		return nil, nil
	}
}

// errFlowFeasible: with helpers inlined, a path on which the helper returned a non-nil error
// and the caller's following `err != nil` test failed (or the reverse) is not a path of the
// program. The helper's last return before its "leave" is compared with the first nil test
// of the caller after it.
func errFlowFeasible(info *types.Info, atoms []eng.Atom) bool {
	const (
		none = iota
		retNil
		retNonNil
	)
	state := none
	armed := false
	for _, a := range atoms {
		switch a.Kind {
		case "return":
			if a.Depth > 0 {
				rs, _ := a.Node.(*ast.ReturnStmt)
				state = none
				if rs != nil && len(rs.Results) >= 1 {
					last := rs.Results[len(rs.Results)-1]
					if isNilIdent(info, last) {
						state = retNil
					} else if id, ok := eng.Unparen(last).(*ast.Ident); ok {
						if t := info.TypeOf(id); t != nil && types.Identical(t, types.Universe.Lookup("error").Type()) {
							state = retNonNilIfTested(atoms, a, info, id)
						}
					}
				}
			}
		case "leave":
			if a.Depth == 0 {
				armed = state != none
			}
		case "cond":
			if a.Depth == 0 && armed {
				armed = false
				if b, ok := eng.Unparen(a.Node.(ast.Expr)).(*ast.BinaryExpr); ok && isNilIdent(info, b.Y) {
					nonNil := (b.Op == token.NEQ) == a.Taken
					if (state == retNonNil && !nonNil) || (state == retNil && nonNil) {
						return false
					}
				}
				state = none
			}
		case "call", "assign":
			if a.Depth == 0 && a.Kind == "call" {
				// another call between the helper and the test: stop correlating
				armed = false
			}
		}
	}
	return true
}

// retNonNilIfTested: the returned error variable is known non-nil when the return sits under a
// taken `err != nil` test of that variable on this path.
func retNonNilIfTested(atoms []eng.Atom, ret eng.Atom, info *types.Info, id *ast.Ident) int {
	for i := range atoms {
		if atoms[i].Node == ret.Node {
			for j := i - 1; j >= 0; j-- {
				if atoms[j].Kind == "cond" {
					if b, ok := eng.Unparen(atoms[j].Node.(ast.Expr)).(*ast.BinaryExpr); ok && isNilIdent(info, b.Y) {
						if x, ok := eng.Unparen(b.X).(*ast.Ident); ok && info.Uses[x] == info.Uses[id] {
							if (b.Op == token.NEQ) == atoms[j].Taken {
								return 2
							}
							return 1
						}
					}
					break
				}
			}
		}
	}
	return 0
}

// boolFlowFeasible: with a bool-valued helper inlined, a path on which the helper returned the
// constant true and the caller's test of that very call failed (or the reverse) is not a path
// of the program.
func boolFlowFeasible(info *types.Info, atoms []eng.Atom) bool {
	ret := map[*ast.CallExpr]bool{} // inlined call -> constant it returned on this path
	var frames []*ast.CallExpr
	for _, a := range atoms {
		switch a.Kind {
		case "enter":
			frames = append(frames, a.Call)
		case "leave":
			if len(frames) > 0 {
				frames = frames[:len(frames)-1]
			}
		case "return":
			if len(frames) > 0 {
				if rs, ok := a.Node.(*ast.ReturnStmt); ok && len(rs.Results) == 1 {
					if tv, ok := info.Types[rs.Results[0]]; ok && tv.Value != nil && tv.Value.Kind() == constant.Bool {
						ret[frames[len(frames)-1]] = constant.BoolVal(tv.Value)
					}
				}
			}
		case "cond":
			e := eng.Unparen(a.Node.(ast.Expr))
			neg := false
			if u, ok := e.(*ast.UnaryExpr); ok && u.Op == token.NOT {
				e, neg = eng.Unparen(u.X), true
			}
			if c, ok := e.(*ast.CallExpr); ok {
				if v, known := ret[c]; known && (v != neg) != a.Taken {
					return false
				}
			}
		}
	}
	return true
}
