package props

import (
	"fmt"
	"go/ast"
	"go/token"
	"go/types"
	"sort"
	"strings"

	"verif/exprlint/core"
	"verif/exprlint/eng"
)

func init() {
	register(&Prop{ID: "C06", Run: runC06, Controls: c06Controls})
}

func isCollectionType(t types.Type) bool {
	if t == nil {
		return false
	}
	switch t.Underlying().(type) {
	case *types.Slice, *types.Map:
		return true
	}
	return false
}

// freshHelper summarises a package-level function of package vm that returns a collection it
// has just made: the length of the make in terms of the parameters, and whether a
// non-positive length returns an empty collection instead.
type freshHelper struct {
	fn      *types.Func
	length  eng.Aff // over symbols p0, p1, …
	clamped bool    // `if length <= 0 { return empty }` precedes the make
}

func findFreshHelpers(p *core.Program) map[*types.Func]*freshHelper {
	info := p.Pkg("vm").TypesInfo
	out := map[*types.Func]*freshHelper{}
	for _, fd := range p.FuncDecls("vm") {
		if fd.Body == nil || fd.Recv != nil {
			continue
		}
		fn, _ := info.Defs[fd.Name].(*types.Func)
		if fn == nil {
			continue
		}
		sig := fn.Type().(*types.Signature)
		if sig.Results().Len() != 1 || !isCollectionType(sig.Results().At(0).Type()) {
			continue
		}
		bind := map[types.Object]eng.Aff{}
		k := 0
		for _, f := range fd.Type.Params.List {
			for _, n := range f.Names {
				if b, ok := info.TypeOf(n).Underlying().(*types.Basic); ok && b.Info()&types.IsInteger != 0 {
					bind[info.Defs[n]] = eng.AffSym(fmt.Sprintf("p%d", k))
				}
				k++
			}
		}
		// pivot: the length of the first make, read through the top-level definitions
		env := &eng.AffEnv{Info: info, Vars: map[types.Object]eng.Aff{}}
		for o, a := range bind {
			env.Vars[o] = a
		}
		for _, st := range fd.Body.List {
			if as, ok := st.(*ast.AssignStmt); ok && len(as.Lhs) == 1 && len(as.Rhs) == 1 && as.Tok == token.DEFINE {
				if id, ok := as.Lhs[0].(*ast.Ident); ok {
					if _, isCall := eng.Unparen(as.Rhs[0]).(*ast.CallExpr); !isCall {
						if a, ok := env.Eval(as.Rhs[0]); ok {
							env.Vars[info.Defs[id]] = a
						}
					}
				}
			}
		}
		var pivot *eng.Aff
		ast.Inspect(fd.Body, func(n ast.Node) bool {
			if c, ok := n.(*ast.CallExpr); ok && pivot == nil && isBuiltinCall(info, c, "make") && len(c.Args) >= 2 && isCollectionType(info.TypeOf(c.Args[0])) {
				if a, ok := env.Eval(c.Args[1]); ok && !a.IsConst() {
					pivot = &a
				}
			}
			return true
		})
		if pivot == nil {
			continue
		}
		sink := func(st ast.Stmt) (ast.Expr, bool) {
			if rs, ok := st.(*ast.ReturnStmt); ok && len(rs.Results) == 1 {
				return rs.Results[0], true
			}
			return nil, false
		}
		run := func(region int) *eng.BuildSummary {
			return (&eng.SliceBuild{Info: info, Sink: sink, Pivot: *pivot, Region: region}).Run(fd.Body.List, bind)
		}
		pos, neg := run(1), run(-1)
		if len(pos.Problems)+len(neg.Problems) > 0 || len(pos.Results) == 0 || pos.Skips+neg.Skips > 0 {
			continue
		}
		okPos, negZero, negSame := true, true, true
		for _, r := range pos.Results {
			if !r.LenOK || !r.Len.Equal(*pivot) {
				okPos = false
			}
		}
		for _, r := range neg.Results {
			if !r.LenOK || !r.Len.IsConst() || r.Len.C != 0 {
				negZero = false
			}
			if !r.LenOK || !r.Len.Equal(*pivot) {
				negSame = false
			}
		}
		if okPos && (negZero || negSame) {
			out[fn] = &freshHelper{fn: fn, length: *pivot, clamped: negZero}
		}
	}
	return out
}

type allocSite struct {
	expr    ast.Expr
	what    string
	length  *eng.Aff // nil: no static length (map)
	clamped bool
	pushed  bool
}

func runC06(p *core.Program, r *core.Report) {
	r.Explanation = "Decides the accounting discipline of the memory budget on the VM's dispatch handlers, for every handler and every path through it: each collection that a handler creates (by make, a composite literal, or a vm helper that returns a freshly made collection) and pushes on the evaluation stack is accompanied, unconditionally, by an update of the allocation counter by exactly the collection's length and by a comparison of the counter INCLUDING that amount with the limit, using `>=`, whose true branch panics; the amount is provably non-negative (clamped, a length, or an element count whose origin in every emitting template is a length or a counter, by the C05 verifier); the counter is written only by these updates and by the reset in Run's prologue; the limit is assigned only in the prologue from the package variable; compile-time allocations in the optimizer are capped by a constant."
	r.NotDecided = []string{"that the count equals a reference evaluator's notion of the elements an evaluation has to create", "collections created inside environment functions or reflect calls"}
	e := loadEngines(p, r, "R6.1")
	if e == nil {
		return
	}
	vm := e.vm
	info := p.Pkg("vm").TypesInfo
	helpers := findFreshHelpers(p)
	var hn []string
	for fn := range helpers {
		hn = append(hn, fn.Name())
	}
	sort.Strings(hn)
	r.Analysed["fresh_returning_helpers"] = hn

	memF, limF := vm.RoleField("memory"), vm.RoleField("limit")
	if memF == nil || limF == nil {
		// identify by role: the two int fields compared with each other in a panicking if
		r.Unk("R6.4", "vm.VM/counter and limit fields", "", "fields `memory` and `limit` not found in vm.VM")
		return
	}
	isMem := func(x ast.Expr) bool { return vmFieldOf(info, vm.VMType, x) == memF }
	isLim := func(x ast.Expr) bool { return vmFieldOf(info, vm.VMType, x) == limF }

	counted := map[token.Pos]bool{} // positions of legitimate counter updates
	relations := map[string][]string{}
	nCounted := 0
	for _, name := range vm.SortedNames() {
		h := vm.Handlers[name]
		if h == nil {
			continue
		}
		cpos := p.Pos(h.Clause.Pos())
		// --- allocation sites of the clause
		var allocs []*allocSite
		for _, st := range h.Clause.Body {
			ast.Inspect(st, func(n ast.Node) bool {
				switch x := n.(type) {
				case *ast.CallExpr:
					if id, ok := x.Fun.(*ast.Ident); ok && id.Name == "make" && len(x.Args) >= 1 && isCollectionType(info.TypeOf(x.Args[0])) {
						if _, isB := info.Uses[id].(*types.Builtin); isB {
							allocs = append(allocs, &allocSite{expr: x, what: eng.ExprStr(x)})
						}
					} else if fn := eng.CalleeOf(info, x); fn != nil && helpers[fn] != nil {
						allocs = append(allocs, &allocSite{expr: x, what: eng.ExprStr(x)})
					}
				case *ast.CompositeLit:
					if isCollectionType(info.TypeOf(x)) {
						allocs = append(allocs, &allocSite{expr: x, what: eng.ExprStr(x)})
					}
				}
				return true
			})
		}
		if len(allocs) == 0 {
			continue
		}
		// which reach the stack
		holders := map[types.Object]*allocSite{}
		for _, st := range h.Clause.Body {
			ast.Inspect(st, func(n ast.Node) bool {
				if as, ok := n.(*ast.AssignStmt); ok && len(as.Lhs) == len(as.Rhs) {
					for i := range as.Rhs {
						for _, a := range allocs {
							if eng.Unparen(as.Rhs[i]) == a.expr {
								if id, ok := as.Lhs[i].(*ast.Ident); ok {
									holders[objOf(info, id)] = a
								}
							}
						}
					}
				}
				return true
			})
		}
		for _, st := range h.Clause.Body {
			ast.Inspect(st, func(n ast.Node) bool {
				c, ok := n.(*ast.CallExpr)
				if !ok {
					return true
				}
				if fn := eng.CalleeOf(info, c); fn == nil || vm.Prims[fn] != "push" || len(c.Args) != 1 {
					return true
				}
				arg := eng.Unparen(c.Args[0])
				for _, a := range allocs {
					if arg == a.expr {
						a.pushed = true
					}
				}
				if id, ok := arg.(*ast.Ident); ok {
					if a := holders[info.Uses[id]]; a != nil {
						a.pushed = true
					}
				}
				return true
			})
		}
		var pushed []*allocSite
		for i, a := range allocs {
			if !a.pushed {
				r.OK("R6.1", fmt.Sprintf("vm.(VM).Run/case %s/alloc#%d exempt", name, i+1), p.Pos(a.expr.Pos()), "`"+a.what+"` does not flow to the evaluation stack (argument vector or scope map): not a collection of the evaluated expression")
				continue
			}
			pushed = append(pushed, a)
		}
		if len(pushed) == 0 {
			continue
		}
		nCounted++

		// --- accounting of the clause: straight-line abstract execution of its top level
		env := &eng.AffEnv{Info: info, Vars: map[types.Object]eng.Aff{}}
		env.Sym = func(x ast.Expr) (string, bool) {
			switch {
			case isMem(x):
				return "MEM", true
			case isLim(x):
				return "LIMIT", true
			}
			if isLenOf(info, x, func(ast.Expr) bool { return true }) {
				return "len(" + eng.ExprStr(x.(*ast.CallExpr).Args[0]) + ")", true
			}
			return "", false
		}
		mem := eng.AffSym("M")
		nonneg := map[string]string{} // symbol -> reason
		clampOrigin := map[string]eng.Aff{}
		var countVar types.Object // the popped element count (SymPop == "top")
		type check struct {
			x   eng.Aff
			rel string
			pos token.Pos
		}
		var checks []check
		nUpdates := 0
		fresh := 0
		// top-level statements of the handler, with calls of non-primitive *VM methods (an
		// extracted accounting helper) replaced by the callee's top-level statements, its
		// parameters bound to the affine value of the arguments (depth ≤ 3)
		var topLevel func(list []ast.Stmt, depth int) []ast.Stmt
		topLevel = func(list []ast.Stmt, depth int) []ast.Stmt {
			var out []ast.Stmt
			for _, st := range list {
				if es, ok := st.(*ast.ExprStmt); ok && depth < 3 {
					if c, ok := es.X.(*ast.CallExpr); ok {
						if fn := eng.CalleeOf(info, c); fn != nil && vm.Prims[fn] == "" {
							if fd := vmMethodDecl(p, vm, fn); fd != nil {
								out = append(out, &inlineEnter{call: c, fd: fd})
								out = append(out, topLevel(fd.Body.List, depth+1)...)
								continue
							}
						}
					}
				}
				out = append(out, st)
			}
			return out
		}
		for _, st := range topLevel(h.Clause.Body, 0) {
			switch s := st.(type) {
			case *inlineEnter:
				k := 0
				for _, f := range s.fd.Type.Params.List {
					for _, nm := range f.Names {
						if k < len(s.call.Args) {
							if a, ok := env.Eval(s.call.Args[k]); ok {
								env.Vars[info.Defs[nm]] = a
							}
						}
						k++
					}
				}
			case *ast.AssignStmt:
				if len(s.Lhs) == 1 && len(s.Rhs) == 1 && isMem(s.Lhs[0]) {
					var amt eng.Aff
					ok := false
					switch s.Tok {
					case token.ADD_ASSIGN:
						amt, ok = env.Eval(s.Rhs[0])
					case token.ASSIGN:
						var v eng.Aff
						if v, ok = env.Eval(s.Rhs[0]); ok {
							amt = substAff(v, "MEM", eng.AffConst(0))
							ok = v.T["MEM"] == 1
						}
					}
					if !ok {
						r.Unk("R6.3", "vm.(VM).Run/case "+name+"/counter update", p.Pos(s.Pos()), "the counter update is not of the form memory += <affine amount>")
						continue
					}
					mem = mem.Add(amt, 1)
					nUpdates++
					counted[s.Lhs[0].Pos()] = true
					continue
				}
				if len(s.Lhs) == 1 && len(s.Rhs) == 1 {
					id, ok := s.Lhs[0].(*ast.Ident)
					if !ok {
						continue
					}
					obj := objOf(info, id)
					// size := vm.pop().(int)
					if ta, ok := eng.Unparen(s.Rhs[0]).(*ast.TypeAssertExpr); ok {
						if c, ok := ta.X.(*ast.CallExpr); ok {
							if fn := eng.CalleeOf(info, c); fn != nil && vm.Prims[fn] == "pop" && countVar == nil {
								countVar = obj
							}
						}
					}
					if a, ok := env.Eval(s.Rhs[0]); ok {
						if _, isCall := eng.Unparen(s.Rhs[0]).(*ast.CallExpr); !isCall || a.IsConst() || len(a.T) > 0 {
							env.Vars[obj] = a
						}
					}
				}
			case *ast.IfStmt:
				b, ok := eng.Unparen(s.Cond).(*ast.BinaryExpr)
				if !ok || s.Init != nil {
					continue
				}
				// clamp: if v < 0 { v = 0 } — also written 0 > v, v <= -1, v < 1, v <= 0
				isVar := func(x ast.Expr) bool {
					id, ok := x.(*ast.Ident)
					if !ok {
						return false
					}
					_, isV := info.Uses[id].(*types.Var)
					return isV
				}
				if subj, other, op, ok := eng.CmpOn(s.Cond, isVar); ok && s.Else == nil && len(s.Body.List) == 1 {
					id := subj.(*ast.Ident)
					clampTest := false
					if tv, ok := info.Types[other]; ok && tv.Value != nil {
						switch c := tv.Value.ExactString(); {
						case op == token.LSS && (c == "0" || c == "1"), op == token.LEQ && (c == "-1" || c == "0"):
							clampTest = true
						}
					}
					if clampTest {
						if as, ok := s.Body.List[0].(*ast.AssignStmt); ok && len(as.Lhs) == 1 && len(as.Rhs) == 1 && as.Tok == token.ASSIGN {
							if lid, ok := as.Lhs[0].(*ast.Ident); ok && info.Uses[lid] == info.Uses[id] {
								if tv, ok := info.Types[as.Rhs[0]]; ok && tv.Value != nil && tv.Value.ExactString() == "0" {
									fresh++
									sym := fmt.Sprintf("%s⁺%d", id.Name, fresh)
									if old, ok := env.Eval(id); ok {
										clampOrigin[sym] = old
									}
									env.Vars[info.Uses[id]] = eng.AffSym(sym)
									nonneg[sym] = "clamped by `if " + eng.ExprStr(s.Cond) + "`"
									continue
								}
							}
						}
					}
				}
				// budget check: if <counter expr> REL <limit> { panic }
				mentionsMem := false
				ast.Inspect(s.Cond, func(n ast.Node) bool {
					if x, ok := n.(ast.Expr); ok && (isMem(x) || isLim(x)) {
						mentionsMem = true
					}
					return true
				})
				if !mentionsMem {
					continue
				}
				l, ok1 := env.Eval(b.X)
				rr, ok2 := env.Eval(b.Y)
				if !ok1 || !ok2 || s.Else != nil || !bodyPanicsBlock(s.Body) {
					r.Unk("R6.3", "vm.(VM).Run/case "+name+"/budget check", p.Pos(s.Pos()), "a test involving the counter or the limit is not of the form `if <affine> REL <affine> { panic(…) }`")
					continue
				}
				l, rr = substAff(l, "MEM", mem), substAff(rr, "MEM", mem)
				rel := b.Op.String()
				// normalise to X REL LIMIT
				if rr.T["LIMIT"] == 0 && l.T["LIMIT"] == 1 {
					l, rr = rr, l
					rel = map[string]string{">=": "<=", ">": "<", "<=": ">=", "<": ">"}[rel]
				}
				if !(rr.T["LIMIT"] == 1 && len(rr.T) == 1 && rr.C == 0) {
					r.Unk("R6.3", "vm.(VM).Run/case "+name+"/budget check", p.Pos(s.Pos()), "the budget test does not compare with the bare limit")
					continue
				}
				checks = append(checks, check{l, rel, s.Pos()})
			}
		}
		total := mem
		amount := total.Add(eng.AffSym("M"), -1)
		base := "vm.(VM).Run/case " + name
		// R6.1: counted and checked, unconditionally
		r.Check(nUpdates >= 1 && len(checks) >= 1, "R6.1", base+"/pushed collection is counted and checked", cpos,
			fmt.Sprintf("%d pushed allocation(s); counter += %s; %d budget check(s), all at the top level of the handler", len(pushed), amount.String(), len(checks)),
			fmt.Sprintf("the handler pushes a freshly created collection (`%s`) but has %d unconditional counter update(s) and %d unconditional budget check(s): evaluation can create collections the budget never sees", pushed[0].what, nUpdates, len(checks)))
		if nUpdates == 0 || len(checks) == 0 {
			continue
		}
		// R6.1 amount = length of what is created
		for i, a := range pushed {
			key := fmt.Sprintf("%s/amount equals the length of alloc#%d", base, i+1)
			switch x := a.expr.(type) {
			case *ast.CallExpr:
				if fn := eng.CalleeOf(info, x); fn != nil && helpers[fn] != nil {
					hl := helpers[fn].length
					for k, arg := range x.Args {
						if av, ok := env.Eval(arg); ok {
							hl = substAff(hl, fmt.Sprintf("p%d", k), av)
						}
					}
					// the amount is a clamped symbol whose origin is hl, or hl itself when the helper does not clamp
					okLen := false
					if len(amount.T) == 1 && amount.C == 0 {
						for sym, c := range amount.T {
							if o, ok := clampOrigin[sym]; ok && c == 1 && o.Equal(hl) && helpers[fn].clamped {
								okLen = true
							}
						}
					}
					if !helpers[fn].clamped && amount.Equal(hl) {
						okLen = true
					}
					r.Check(okLen, "R6.1", key, p.Pos(x.Pos()), "the helper creates max(0, "+hl.String()+") elements and exactly that is added", "the helper creates max(0, "+hl.String()+") elements but "+amount.String()+" is added to the counter")
					continue
				}
				if len(x.Args) >= 2 { // make([]T, n)
					if lv, ok := env.Eval(x.Args[1]); ok {
						r.Check(amount.Equal(lv), "R6.1", key, p.Pos(x.Pos()), "make length "+lv.String()+" = amount added", "make length "+lv.String()+" but "+amount.String()+" is added to the counter")
						if len(lv.T) == 1 {
							for sym := range lv.T {
								if nonneg[sym] == "" {
									nonneg[sym] = "used as a make length in this handler (a negative length panics)"
								}
							}
						}
						continue
					}
				}
				// make(map[…]…): filled by the handler's loop; amount must be the popped element count
				cv := ""
				if countVar != nil {
					cv = countVar.Name()
				}
				r.Check(cv != "" && amount.Equal(eng.AffSym(cv)), "R6.1", key, p.Pos(x.Pos()), "the amount is the popped element count `"+cv+"`", "the amount "+amount.String()+" is not the popped element count")
			default:
				r.Unk("R6.1", key, p.Pos(a.expr.Pos()), "length of a composite literal allocation not modelled")
			}
		}
		// R6.2 sign
		okSign, signWhy := amount.C >= 0, []string{}
		for sym, c := range amount.T {
			if c < 0 {
				okSign = false
				signWhy = append(signWhy, sym+" is subtracted")
				continue
			}
			why := nonneg[sym]
			if why == "" && strings.HasPrefix(sym, "len(") {
				why = "a length"
			}
			if why == "" && countVar != nil && sym == countVar.Name() {
				if s := e.sigs[name]; s != nil && s.SymPop == "top" {
					clean := true
					for _, t := range e.em.AllTemplates() {
						uses := false
						for _, x := range t.Events {
							if x.Kind == "instr" && x.Op == name {
								uses = true
							}
						}
						if uses && (e.res[t] == nil || len(e.res[t].Findings) > 0) {
							clean = false
						}
					}
					if clean {
						why = "the popped element count: in every template emitting " + name + " its origin is a list length or a scope counter starting at 0 (C05 verifier, V4)"
					}
				}
			}
			if why == "" {
				okSign = false
				signWhy = append(signWhy, sym+" may be negative")
			} else {
				signWhy = append(signWhy, sym+": "+why)
			}
		}
		sort.Strings(signWhy)
		r.Check(okSign, "R6.2", base+"/amount is non-negative", cpos, strings.Join(signWhy, "; "),
			"the amount added to the counter ("+amount.String()+") can be negative: "+strings.Join(signWhy, "; ")+" — such a step gives budget back (a descending range credits the counter and later allocations escape the limit)")
		// R6.3 the checked quantity includes the whole amount; relation
		for i, c := range checks {
			key := fmt.Sprintf("%s/budget check#%d", base, i+1)
			r.Check(c.x.Equal(total), "R6.3", key+" covers the amount", p.Pos(c.pos), "compares "+c.x.String()+" = counter after this handler with the limit", "compares "+c.x.String()+" with the limit, but the counter after this handler is "+total.String()+": the allocation is not (fully) included in the test")
			r.Check(c.rel == ">=", "R6.3", key+" relation", p.Pos(c.pos), "fails when counter >= limit (a successful run has created fewer elements than the budget)", "fails when counter "+c.rel+" limit; the property needs >=: a run that creates exactly the budget must fail (and every handler must agree)")
			relations[c.rel] = append(relations[c.rel], name)
		}
	}
	r.Analysed["counted_handlers"] = nCounted
	r.Check(len(relations) <= 1, "R6.3", "vm.(VM).Run/all budget checks use one relation", "", fmt.Sprint(relations), fmt.Sprintf("handlers disagree on the relation: %v", relations))

	// R6.4 plumbing
	writes := fieldWrites(p, vm)
	inPrologue := prologueRegion(p, vm)
	for i, pos := range writes[memF] {
		key := fmt.Sprintf("vm.VM.memory/write#%d", i+1)
		r.Check(counted[pos] || inPrologue(pos), "R6.4", key, p.Pos(pos), "a counted update or the prologue reset", "the allocation counter is written outside the counted updates and the prologue reset")
	}
	for i, pos := range writes[limF] {
		key := fmt.Sprintf("vm.VM.limit/write#%d", i+1)
		okL := inPrologue(pos)
		// value: the package variable
		if okL {
			okL = false
			for _, fd := range p.FuncDecls("vm") {
				if fd.Body == nil {
					continue
				}
				ast.Inspect(fd.Body, func(n ast.Node) bool {
					as, ok := n.(*ast.AssignStmt)
					if !ok || len(as.Lhs) != len(as.Rhs) || as.Tok != token.ASSIGN {
						return true
					}
					for k, l := range as.Lhs {
						if l.Pos() != pos {
							continue
						}
						val := eng.Unparen(as.Rhs[k])
						// the record that holds the limit assigned as a whole: the value of its
						// limit field in the literal
						if cl, ok := val.(*ast.CompositeLit); ok && vm.Nested[limF] != nil {
							val = nil
							if st, ok := vm.Nested[limF].Type().Underlying().(*types.Struct); ok {
								for j, el := range cl.Elts {
									if kv, ok := el.(*ast.KeyValueExpr); ok {
										if kid, ok := kv.Key.(*ast.Ident); ok && kid.Name == limF.Name() {
											val = eng.Unparen(kv.Value)
										}
									} else if j < st.NumFields() && st.Field(j) == limF {
										val = eng.Unparen(el)
									}
								}
							}
						}
						if id, ok := val.(*ast.Ident); ok {
							if v, ok := info.Uses[id].(*types.Var); ok && v.Parent() == p.Pkg("vm").Types.Scope() {
								okL = true
							}
						}
					}
					return true
				})
			}
		}
		r.Check(okL, "R6.4", key, p.Pos(pos), "assigned in the prologue from the package-level budget variable", "the limit is not (only) assigned in Run's prologue from the package-level budget")
	}
	if len(writes[limF]) == 0 {
		r.Bad("R6.4", "vm.VM.limit/write#1", "", "the limit is never assigned: it stays 0")
	}

	// R6.5 compile-time allocations are capped
	oinfo := p.Pkg("optimizer").TypesInfo
	nMake := 0
	for _, fd := range p.FuncDecls("optimizer") {
		if fd.Body == nil {
			continue
		}
		fname := core.FuncName("optimizer", fd)
		ast.Inspect(fd.Body, func(n ast.Node) bool {
			c, ok := n.(*ast.CallExpr)
			if !ok || len(c.Args) < 2 {
				return true
			}
			id, ok := c.Fun.(*ast.Ident)
			if !ok || id.Name != "make" || !isCollectionType(oinfo.TypeOf(c.Args[0])) {
				return true
			}
			// the length and, when given, the capacity (`make([]int, 0, size)` filled by append)
			for _, sz := range c.Args[1:] {
				ln := eng.Unparen(sz)
				if tv, ok := oinfo.Types[ln]; ok && tv.Value != nil {
					continue
				}
				if isLenOf(oinfo, ln, func(ast.Expr) bool { return true }) {
					continue
				}
				nMake++
				key := fmt.Sprintf("%s/make#%d capped", fname, nMake)
				lid, ok := ln.(*ast.Ident)
				if !ok {
					r.Unk("R6.5", key, p.Pos(c.Pos()), "make length is neither a constant, a len(…) nor a local variable")
					continue
				}
				bound, found := upperGuard(oinfo, fd, c.Pos(), oinfo.Uses[lid])
				r.Check(found, "R6.5", key, p.Pos(c.Pos()), fmt.Sprintf("dominated by a test that leaves when %s exceeds %s", lid.Name, bound), "a compile-time allocation of `"+lid.Name+"` elements is not dominated by an upper-bound test against a constant: `1..1000000000` would allocate at compile time, outside any budget")
			}
			return true
		})
	}
	r.Floor("R6.1", 3+3+2)
	r.Floor("R6.2", 3)
	r.Floor("R6.3", 7)
	r.Floor("R6.4", 4)
	r.Floor("R6.5", 1)
}

// inlineEnter marks, in a flattened statement list, the start of an inlined helper body.
type inlineEnter struct {
	ast.EmptyStmt
	call *ast.CallExpr
	fd   *ast.FuncDecl
}

// vmMethodDecl: the declaration of a method of *VM (with a body) other than Run.
func vmMethodDecl(p *core.Program, vm *eng.VMModel, fn *types.Func) *ast.FuncDecl {
	info := p.Pkg("vm").TypesInfo
	for _, fd := range p.FuncDecls("vm") {
		if fd.Body != nil && fd != vm.Run && core.RecvName(fd) == vm.VMType.Obj().Name() && info.Defs[fd.Name] == types.Object(fn) {
			// a method with a VALUE receiver works on a copy of the machine: what it adds to the
			// counter is lost when it returns, so its statements are not the handler's
			if len(fd.Recv.List) == 1 {
				if _, isPtr := fd.Recv.List[0].Type.(*ast.StarExpr); !isPtr {
					return nil
				}
			}
			return fd
		}
	}
	return nil
}

// prologueRegion: positions that execute only in the prologue of Run — Run's statements
// before the dispatch loop, and the bodies of *VM methods all of whose call sites (at least
// one) are themselves in the prologue region.
func prologueRegion(p *core.Program, vm *eng.VMModel) func(token.Pos) bool {
	prologueEnd := vm.Switch.Pos()
	for _, st := range vm.Run.Body.List {
		if st.Pos() <= vm.Switch.Pos() && vm.Switch.End() <= st.End() {
			prologueEnd = st.Pos()
		}
	}
	type span struct{ from, to token.Pos }
	spans := []span{{vm.Run.Body.Pos(), prologueEnd}}
	in := func(pos token.Pos) bool {
		for _, s := range spans {
			if pos >= s.from && pos < s.to {
				return true
			}
		}
		return false
	}
	for round := 0; round < 3; round++ {
		for _, fd := range p.FuncDecls("vm") {
			if fd.Body == nil || fd == vm.Run || core.RecvName(fd) != vm.VMType.Obj().Name() || in(fd.Body.Pos()) {
				continue
			}
			fn, _ := p.Pkg("vm").TypesInfo.Defs[fd.Name].(*types.Func)
			if fn == nil || fn.Exported() {
				continue
			}
			all, n := true, 0
			for _, pos := range callSitesOnly(p, fn) {
				n++
				if !in(pos) {
					all = false
				}
			}
			if all && n > 0 {
				spans = append(spans, span{fd.Body.Pos(), fd.Body.End()})
			}
		}
	}
	return in
}

// callSitesOnly: positions of the static calls of fn; NoPos for a use that is not a call.
func callSitesOnly(p *core.Program, fn *types.Func) []token.Pos {
	var out []token.Pos
	for _, pk := range p.ByRel {
		for _, f := range pk.Syntax {
			called := map[*ast.Ident]bool{}
			ast.Inspect(f, func(n ast.Node) bool {
				if c, ok := n.(*ast.CallExpr); ok && eng.CalleeOf(pk.TypesInfo, c) == fn {
					out = append(out, c.Pos())
					switch x := eng.Unparen(c.Fun).(type) {
					case *ast.SelectorExpr:
						called[x.Sel] = true
					case *ast.Ident:
						called[x] = true
					}
				}
				return true
			})
			ast.Inspect(f, func(n ast.Node) bool {
				if id, ok := n.(*ast.Ident); ok && pk.TypesInfo.Uses[id] == types.Object(fn) && !called[id] {
					out = append(out, token.NoPos)
				}
				return true
			})
		}
	}
	return out
}

func bodyPanicsBlock(b *ast.BlockStmt) bool {
	if len(b.List) == 0 {
		return false
	}
	if es, ok := b.List[len(b.List)-1].(*ast.ExprStmt); ok {
		if c, ok := es.X.(*ast.CallExpr); ok {
			if id, ok := c.Fun.(*ast.Ident); ok && id.Name == "panic" {
				return true
			}
		}
	}
	return false
}

// upperGuard: among the statements that precede pos in the enclosing blocks (hence dominate
// it), an `if v > C { leave }` / `if v >= C { leave }` with C constant.
func upperGuard(info *types.Info, fd *ast.FuncDecl, pos token.Pos, v types.Object) (string, bool) {
	bound, found := "", false
	var visit func(list []ast.Stmt)
	visit = func(list []ast.Stmt) {
		for _, st := range list {
			if st.End() <= pos {
				if is, ok := st.(*ast.IfStmt); ok && is.Else == nil && is.Init == nil && blockLeaves(is.Body) {
					// some alternative of the leaving test is `v > K` / `v >= K`, however oriented
					isV := func(e ast.Expr) bool {
						id, ok := eng.Unparen(e).(*ast.Ident)
						return ok && info.Uses[id] == v
					}
					for _, d := range eng.Disjuncts(is.Cond, false) {
						if _, other, op, ok := eng.CmpOn(d, isV); ok && (op == token.GTR || op == token.GEQ) {
							if tv, ok := info.Types[other]; ok && tv.Value != nil {
								bound, found = tv.Value.String(), true
							}
						}
					}
				}
				// an assignment to v after the guard invalidates it
				if as, ok := st.(*ast.AssignStmt); ok {
					for _, l := range as.Lhs {
						if id, ok := l.(*ast.Ident); ok && objOf(info, id) == v && as.Tok != token.DEFINE {
							found = false
						}
					}
				}
				continue
			}
			if st.Pos() <= pos && pos < st.End() {
				ast.Inspect(st, func(n ast.Node) bool {
					if blk, ok := n.(*ast.BlockStmt); ok && blk.Pos() <= pos && pos < blk.End() {
						visit(blk.List)
						return false
					}
					if cc, ok := n.(*ast.CaseClause); ok && cc.Pos() <= pos && pos < cc.End() {
						visit(cc.Body)
						return false
					}
					return true
				})
			}
		}
	}
	visit(fd.Body.List)
	return bound, found
}

func c06Controls() []core.Mutant {
	return []core.Mutant{
		{Name: "descending ranges credit the counter", File: "vm/vm.go", Old: "\t\t\tif size < 0 {\n\t\t\t\tsize = 0\n\t\t\t}\n", New: "", Rule: "R6.2", Construct: "OpRange"},
		{Name: "OpArray check uses >", File: "vm/vm.go", Old: "\t\t\tvm.push(array)\n\t\t\tvm.memory += size\n\t\t\tif vm.memory >= vm.limit {", New: "\t\t\tvm.push(array)\n\t\t\tvm.memory += size\n\t\t\tif vm.memory > vm.limit {", Rule: "R6.3", Construct: "OpArray"},
		{Name: "OpRange pre-check without the amount", File: "vm/vm.go", Old: "if vm.memory+size >= vm.limit {", New: "if vm.memory >= vm.limit {", Rule: "R6.3", Construct: "OpRange"},
		{Name: "OpMap no longer counted", File: "vm/vm.go", Old: "\t\t\tvm.push(m)\n\t\t\tvm.memory += size\n\t\t\tif vm.memory >= vm.limit {\n\t\t\t\tpanic(\"memory budget exceeded\")\n\t\t\t}\n", New: "\t\t\tvm.push(m)\n", Rule: "R6.1", Construct: "OpMap"},
		{Name: "OpArray counts one element too few", File: "vm/vm.go", Old: "\t\t\tvm.push(array)\n\t\t\tvm.memory += size\n", New: "\t\t\tvm.push(array)\n\t\t\tvm.memory += size - 1\n", Rule: "R6.1", Construct: "OpArray"},
		{Name: "counter reset by OpEnd", File: "vm/vm.go", Old: "\t\t\tvm.scopes = vm.scopes[:len(vm.scopes)-1]\n", New: "\t\t\tvm.scopes = vm.scopes[:len(vm.scopes)-1]\n\t\t\tvm.memory = 0\n", Rule: "R6.4", Construct: "memory"},
		{Name: "compile-time range cap removed", File: "optimizer/const_range.go", Old: "\t\t\t\t\tif size > 1e6 {\n\t\t\t\t\t\treturn\n\t\t\t\t\t}\n", New: "", Rule: "R6.5", Construct: "make"},
		{Name: "refactor: accounting extracted into a method used by both builders", File: "vm/vm.go", Old: "\t\t\tvm.push(array)\n\t\t\tvm.memory += size\n\t\t\tif vm.memory >= vm.limit {\n\t\t\t\tpanic(\"memory budget exceeded\")\n\t\t\t}\n", New: "\t\t\tvm.push(array)\n\t\t\tvm.account(size)\n", Edits: [][2]string{{"\t\t\tvm.push(m)\n\t\t\tvm.memory += size\n\t\t\tif vm.memory >= vm.limit {\n\t\t\t\tpanic(\"memory budget exceeded\")\n\t\t\t}\n", "\t\t\tvm.push(m)\n\t\t\tvm.account(size)\n"}, {"func (vm *VM) push(value interface{}) {", "func (vm *VM) account(n int) {\n\tvm.memory += n\n\tif vm.memory >= vm.limit {\n\t\tpanic(\"memory budget exceeded\")\n\t}\n}\n\nfunc (vm *VM) push(value interface{}) {"}}, Silent: true},
		{Name: "refactor: prologue assigns counter and limit in one statement", File: "vm/vm.go", Old: "\tvm.limit = MemoryBudget\n\tvm.memory = 0\n", New: "\tvm.memory, vm.limit = 0, MemoryBudget\n", Silent: true},
		{Name: "refactor: OpArray check before push", File: "vm/vm.go", Old: "\t\t\tvm.push(array)\n\t\t\tvm.memory += size\n\t\t\tif vm.memory >= vm.limit {\n\t\t\t\tpanic(\"memory budget exceeded\")\n\t\t\t}\n", New: "\t\t\tvm.memory += size\n\t\t\tif vm.memory >= vm.limit {\n\t\t\t\tpanic(\"memory budget exceeded\")\n\t\t\t}\n\t\t\tvm.push(array)\n", Silent: true},
		{Name: "accounting helper with a value receiver", File: "vm/vm.go", Old: "\t\t\tvm.push(array)\n\t\t\tvm.memory += size\n\t\t\tif vm.memory >= vm.limit {\n\t\t\t\tpanic(\"memory budget exceeded\")\n\t\t\t}\n", New: "\t\t\tvm.push(array)\n\t\t\tvm.charged(size)\n", Edits: [][2]string{{"func (vm *VM) push(value interface{}) {", "func (vm VM) charged(n int) {\n\tvm.memory += n\n\tif vm.memory >= vm.limit {\n\t\tpanic(\"memory budget exceeded\")\n\t}\n}\n\nfunc (vm *VM) push(value interface{}) {"}}, Rule: "R6.1", Construct: "OpArray"},
	}
}
