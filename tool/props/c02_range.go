package props

import (
	"fmt"
	"go/ast"
	"go/token"
	"go/types"
	"strings"

	"verif/exprlint/core"
	"verif/exprlint/eng"
)

// R2.7 — sibling range builders. `a..b` with literal bounds is built at compile time by the
// constant-range pass and at run time by the VM's range helper; the optimized and the
// unoptimized program agree only if both build the same slice: the same size formula
// max - min + 1, the same emptiness threshold, the same element min + i over 0 <= i < size.
// Each builder is a five-line function; its three facts are read by affine evaluation.

type rangeBuilder struct {
	where    string
	pos      token.Pos
	pos1     *eng.BuildSummary // region size >= 1
	nonpos   *eng.BuildSummary // region size <= 0
	problems []string
}

// readRangeBuilder summarises the builder on both sides of size = max - min + 1 (eng.SliceBuild).
func readRangeBuilder(info *types.Info, body *ast.BlockStmt, where string, isMin, isMax func(ast.Expr) bool, sink func(ast.Stmt) (ast.Expr, bool)) rangeBuilder {
	rb := rangeBuilder{where: where, pos: body.Pos()}
	want := eng.AffConst(1).Add(eng.AffSym("MAX"), 1).Add(eng.AffSym("MIN"), -1)
	sym := func(e ast.Expr) (string, bool) {
		if isMin(e) {
			return "MIN", true
		}
		if isMax(e) {
			return "MAX", true
		}
		return "", false
	}
	for _, region := range []int{1, -1} {
		sb := &eng.SliceBuild{Info: info, Sym: sym, Sink: sink, Pivot: want, Region: region}
		sum := sb.Run(body.List, nil)
		rb.problems = append(rb.problems, sum.Problems...)
		if region > 0 {
			rb.pos1 = sum
		} else {
			rb.nonpos = sum
		}
	}
	return rb
}

// jointRangeBuilder: when the builder's only caller — a handler of the dispatch loop — does not
// hand it its two popped operands as they are but prepares them (the size computed and clamped
// in the handler, `makeRange(min, size)`), the statements of the handler that precede the call
// and the builder's body are ONE builder over the handler's operands: the handler's prefix, the
// binding of the parameters to the arguments, then the body. min is the operand popped second
// (the left one), max the one popped first. nil when the call passes (min, max) directly.
func jointRangeBuilder(p *core.Program, info *types.Info, fd *ast.FuncDecl, params []types.Object, sink func(ast.Stmt) (ast.Expr, bool)) *rangeBuilder {
	fn, _ := info.Defs[fd.Name].(*types.Func)
	vm, _ := eng.BuildVMModel(p)
	if fn == nil || vm == nil || vm.Switch == nil {
		return nil
	}
	var calls []*ast.CallExpr
	for _, ofd := range p.FuncDecls("vm") {
		if ofd.Body == nil {
			continue
		}
		ast.Inspect(ofd.Body, func(n ast.Node) bool {
			if c, ok := n.(*ast.CallExpr); ok && eng.CalleeOf(info, c) == fn {
				calls = append(calls, c)
			}
			return true
		})
	}
	if len(calls) != 1 || len(calls[0].Args) != 2 {
		return nil
	}
	call := calls[0]
	for _, c := range vm.Switch.Body.List {
		cc := c.(*ast.CaseClause)
		if !(cc.Pos() <= call.Pos() && call.End() <= cc.End()) {
			continue
		}
		// the operands: locals defined from the pop primitive, in order
		var popped []types.Object
		idx := -1
		for i, st := range cc.Body {
			if st.Pos() <= call.Pos() && call.End() <= st.End() {
				idx = i
				break
			}
			as, ok := st.(*ast.AssignStmt)
			if !ok || len(as.Lhs) != 1 || len(as.Rhs) != 1 {
				continue
			}
			isPop := false
			ast.Inspect(as.Rhs[0], func(n ast.Node) bool {
				if pc, ok := n.(*ast.CallExpr); ok {
					if f := eng.CalleeOf(info, pc); f != nil && vm.Prims[f] == "pop" {
						isPop = true
					}
				}
				return true
			})
			if id, ok := as.Lhs[0].(*ast.Ident); ok && isPop {
				popped = append(popped, objOf(info, id))
			}
		}
		if idx < 0 || len(popped) != 2 {
			return nil
		}
		maxO, minO := popped[0], popped[1]
		// an operand: the popped local itself or a local bound once to a conversion of it
		// (`min := toInt(a)`, `max := vm.pop().(int)`)
		cdefs := eng.SingleDefs(info, cc)
		var derives func(e ast.Expr, o types.Object, d int) bool
		derives = func(e ast.Expr, o types.Object, d int) bool {
			e = eng.Unparen(e)
			if d > 4 {
				return false
			}
			switch x := e.(type) {
			case *ast.Ident:
				if objOf(info, x) == o {
					return true
				}
				if def := cdefs.Def(info.Uses[x]); def != nil {
					return derives(def, o, d+1)
				}
			case *ast.CallExpr:
				if len(x.Args) == 1 {
					return derives(x.Args[0], o, d+1)
				}
			case *ast.TypeAssertExpr:
				return derives(x.X, o, d+1)
			}
			return false
		}
		isObj := func(o types.Object) func(ast.Expr) bool {
			return func(e ast.Expr) bool {
				if _, ok := eng.Unparen(e).(*ast.Ident); !ok {
					return false
				}
				return derives(e, o, 0)
			}
		}
		if isObj(minO)(call.Args[0]) && isObj(maxO)(call.Args[1]) {
			return nil // the plain form: the builder is a function of (min, max)
		}
		var list []ast.Stmt
		for _, st := range cc.Body[:idx] {
			// the definitions of the operands themselves are not part of the builder
			if as, ok := st.(*ast.AssignStmt); ok && len(as.Lhs) == 1 {
				if id, ok := as.Lhs[0].(*ast.Ident); ok && (isObj(minO)(id) || isObj(maxO)(id)) {
					continue
				}
			}
			list = append(list, st)
		}
		for i, po := range params {
			id := &ast.Ident{NamePos: call.Args[i].Pos(), Name: po.Name()}
			info.Uses[id] = po
			list = append(list, &ast.AssignStmt{Lhs: []ast.Expr{id}, TokPos: call.Args[i].Pos(), Tok: token.ASSIGN, Rhs: []ast.Expr{call.Args[i]}})
		}
		list = append(list, fd.Body.List...)
		body := &ast.BlockStmt{Lbrace: fd.Body.Lbrace, List: list, Rbrace: fd.Body.Rbrace}
		rb := readRangeBuilder(info, body, core.FuncName("vm", fd)+" as called by its handler", isObj(minO), isObj(maxO), sink)
		return &rb
	}
	return nil
}

// rangeBuilderVerdict: the four clauses of R2.7 for one builder.
func rangeBuilderVerdict(b *rangeBuilder) bool {
	if b == nil || len(b.problems) > 0 || len(b.pos1.Results) == 0 {
		return false
	}
	want := eng.AffConst(1).Add(eng.AffSym("MAX"), 1).Add(eng.AffSym("MIN"), -1)
	elem := eng.AffSym("MIN").Add(eng.AffSym("I"), 1)
	for _, res := range b.pos1.Results {
		if !res.LenOK || !res.Len.Equal(want) || !res.Covered || !res.HasElem || !res.Elem.Equal(elem) {
			return false
		}
	}
	for _, res := range b.nonpos.Results {
		if !res.LenOK || !res.Len.IsConst() || res.Len.C != 0 {
			return false
		}
	}
	return true
}

// jointRangeVerdict: the run-time range builder takes prepared operands from its handler
// (used), and handler + builder together deliver min, min+1, …, max for max >= min and the
// empty slice otherwise (ok).
func jointRangeVerdict(p *core.Program) (used, ok bool) {
	vinfo := p.Pkg("vm").TypesInfo
	for _, fd := range p.FuncDecls("vm") {
		if fd.Body == nil || fd.Recv != nil || fd.Type.Params == nil || fd.Type.Results == nil || fd.Type.Results.NumFields() != 1 {
			continue
		}
		sl, isSl := vinfo.TypeOf(fd.Type.Results.List[0].Type).(*types.Slice)
		if !isSl || !types.Identical(sl.Elem(), types.Typ[types.Int]) {
			continue
		}
		var params []types.Object
		for _, f := range fd.Type.Params.List {
			for _, nm := range f.Names {
				params = append(params, vinfo.Defs[nm])
			}
		}
		if len(params) != 2 {
			continue
		}
		jb := jointRangeBuilder(p, vinfo, fd, params, func(st ast.Stmt) (ast.Expr, bool) {
			if rs, ok := st.(*ast.ReturnStmt); ok && len(rs.Results) == 1 {
				return rs.Results[0], true
			}
			return nil, false
		})
		if jb != nil {
			return true, rangeBuilderVerdict(jb)
		}
	}
	return false, false
}

func rangeBuilderRule(p *core.Program, r *core.Report) {
	// run-time builder: the vm function with two int parameters returning []int
	var rt, ct *rangeBuilder
	vinfo := p.Pkg("vm").TypesInfo
	for _, fd := range p.FuncDecls("vm") {
		if fd.Body == nil || fd.Recv != nil || fd.Type.Params == nil || fd.Type.Results == nil || fd.Type.Results.NumFields() != 1 {
			continue
		}
		res := vinfo.TypeOf(fd.Type.Results.List[0].Type)
		sl, ok := res.(*types.Slice)
		if !ok || !types.Identical(sl.Elem(), types.Typ[types.Int]) {
			continue
		}
		var params []types.Object
		for _, f := range fd.Type.Params.List {
			for _, nm := range f.Names {
				params = append(params, vinfo.Defs[nm])
			}
		}
		if len(params) != 2 {
			continue
		}
		is := func(o types.Object) func(ast.Expr) bool {
			return func(e ast.Expr) bool {
				id, ok := eng.Unparen(e).(*ast.Ident)
				return ok && objOf(vinfo, id) == o
			}
		}
		retSink := func(st ast.Stmt) (ast.Expr, bool) {
			if rs, ok := st.(*ast.ReturnStmt); ok && len(rs.Results) == 1 {
				return rs.Results[0], true
			}
			return nil, false
		}
		if jb := jointRangeBuilder(p, vinfo, fd, params, retSink); jb != nil {
			rt = jb
			continue
		}
		rb := readRangeBuilder(vinfo, fd.Body, core.FuncName("vm", fd), is(params[0]), is(params[1]), retSink)
		rt = &rb
	}
	// compile-time builder: the optimizer pass under `Operator == ".."` with IntegerNode bounds
	oinfo := p.Pkg("optimizer").TypesInfo
	for _, fd := range p.FuncDecls("optimizer") {
		if fd.Body == nil {
			continue
		}
		al := eng.BuildAliases(oinfo, fd.Body)
		isBound := func(side string) func(ast.Expr) bool {
			return func(e ast.Expr) bool {
				sel, ok := eng.Unparen(e).(*ast.SelectorExpr)
				return ok && sel.Sel.Name == "Value" && al.Norm(sel.X) == "*node."+side
			}
		}
		makesInts := false
		ast.Inspect(fd.Body, func(n ast.Node) bool {
			if c, ok := n.(*ast.CallExpr); ok && isBuiltinCall(oinfo, c, "make") && (len(c.Args) == 2 || len(c.Args) == 3) {
				// sized by a computed quantity: the length, or the capacity of a slice filled by append
				sz := c.Args[len(c.Args)-1]
				if sl, ok := oinfo.TypeOf(c).(*types.Slice); ok && types.Identical(sl.Elem(), types.Typ[types.Int]) && eng.ExprStr(sz) != "0" && !strings.HasPrefix(eng.ExprStr(sz), "len(") {
					makesInts = true
				}
			}
			return true
		})
		if !makesInts {
			continue
		}
		// the slice reaches the tree as the Value of a ConstantNode literal in a statement
		sink := func(st ast.Stmt) (ast.Expr, bool) {
			es, ok := st.(*ast.ExprStmt)
			if !ok {
				return nil, false
			}
			var val ast.Expr
			ast.Inspect(es, func(n ast.Node) bool {
				if cl, ok := n.(*ast.CompositeLit); ok && val == nil {
					if nt, ok := oinfo.TypeOf(cl).(*types.Named); ok && nt.Obj().Name() == "ConstantNode" {
						for _, el := range cl.Elts {
							if kv, ok := el.(*ast.KeyValueExpr); ok && eng.ExprStr(kv.Key) == "Value" {
								val = kv.Value
							}
						}
						if val == nil && len(cl.Elts) > 0 {
							if _, isKV := cl.Elts[len(cl.Elts)-1].(*ast.KeyValueExpr); !isKV {
								val = cl.Elts[len(cl.Elts)-1]
							}
						}
					}
				}
				return true
			})
			return val, val != nil
		}
		rb := readRangeBuilder(oinfo, fd.Body, core.FuncName("optimizer", fd), isBound("Left"), isBound("Right"), sink)
		if len(rb.pos1.Results) > 0 {
			ct = &rb
		}
	}
	if rt == nil || ct == nil {
		r.Unk("R2.7", "range builders", "", fmt.Sprintf("run-time builder found: %v, compile-time builder found: %v", rt != nil, ct != nil))
		return
	}
	want := eng.AffConst(1).Add(eng.AffSym("MAX"), 1).Add(eng.AffSym("MIN"), -1)
	elem := eng.AffSym("MIN").Add(eng.AffSym("I"), 1)
	for _, b := range []*rangeBuilder{rt, ct} {
		if len(b.problems) > 0 {
			r.Unk("R2.7", b.where+"/range builder shape", p.Pos(b.pos), strings.Join(b.problems, "; "))
			return
		}
		// region size >= 1: every delivered slice has size elements, all stored, element i = min + i
		okLen, okCov, okElem := len(b.pos1.Results) > 0, true, true
		gotLen, gotElem, note := "", "", ""
		for _, res := range b.pos1.Results {
			if !res.LenOK || !res.Len.Equal(want) {
				okLen = false
				gotLen = res.Len.String()
				if !res.LenOK {
					gotLen = "a length this analysis cannot express"
				}
			}
			if !res.Covered {
				okCov = false
				note = res.Note
			}
			if !res.HasElem || !res.Elem.Equal(elem) {
				okElem = false
				gotElem = res.Elem.String()
				if !res.HasElem {
					gotElem = "not stored by an unconditional statement of the loop" + res.Note
				}
			}
		}
		r.Check(okLen, "R2.7", b.where+"/size is max - min + 1", p.Pos(b.pos), fmt.Sprintf("%d delivering path(s) with max >= min, each of length max - min + 1", len(b.pos1.Results)), "for max >= min the builder delivers a slice of length `"+gotLen+"`, not max - min + 1: `a..b` has one element too many or too few")
		r.Check(okCov, "R2.7", b.where+"/slice has size elements", p.Pos(b.pos), "every index below the length is stored by the loop", "not every index below the slice's length is stored unconditionally by the loop ("+note+"): trailing or skipped elements stay 0")
		r.Check(okElem, "R2.7", b.where+"/element i is min + i", p.Pos(b.pos), "min + i", "element i of the range is `"+gotElem+"`, not min + i")
		// region size <= 0: whatever is delivered is empty
		okEmpty, gotE := true, ""
		for _, res := range b.nonpos.Results {
			if !res.LenOK || !res.Len.IsConst() || res.Len.C != 0 {
				okEmpty = false
				gotE = res.Len.String()
			}
		}
		r.Check(okEmpty, "R2.7", b.where+"/empty exactly when size <= 0", p.Pos(b.pos), fmt.Sprintf("for max < min: %d path(s) deliver an empty slice, %d leave the node to the other builder", len(b.nonpos.Results), b.nonpos.Skips), "for max < min the builder delivers a slice of length `"+gotE+"` (a negative make length panics; a positive one is not the empty range): the boundary case max = min-1 differs from the other builder")
	}
	r.Floor("R2.7", 8)
}
