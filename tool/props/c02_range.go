package props

import (
	"fmt"
	"go/ast"
	"go/token"
	"go/types"
	"strings"

	"verif/exprlint/core"
	"verif/exprlint/eng"
)

// R2.7 — sibling range builders. `a..b` with literal bounds is built at compile time by the
// constant-range pass and at run time by the VM's range helper; the optimized and the
// unoptimized program agree only if both build the same slice: the same size formula
// max - min + 1, the same emptiness threshold, the same element min + i over 0 <= i < size.
// Each builder is a five-line function; its three facts are read by affine evaluation.

type rangeBuilder struct {
	where     string
	pos       token.Pos
	size      eng.Aff // over symbols MIN, MAX
	emptyLE   int64   // empty iff size <= emptyLE
	hasEmpty  bool
	elem      eng.Aff // over MIN, I
	hasElem   bool
	lenIsSize bool
	problem   string
}

// readRangeBuilder: fd builds an []int; minE / maxE are the expressions of the bounds.
func readRangeBuilder(info *types.Info, body ast.Node, where string, isMin, isMax func(ast.Expr) bool) rangeBuilder {
	rb := rangeBuilder{where: where, pos: body.Pos()}
	env := &eng.AffEnv{Info: info, Vars: map[types.Object]eng.Aff{}}
	env.Sym = func(e ast.Expr) (string, bool) {
		if isMin(e) {
			return "MIN", true
		}
		if isMax(e) {
			return "MAX", true
		}
		return "", false
	}
	var sizeObj types.Object
	var sliceObj types.Object
	ast.Inspect(body, func(n ast.Node) bool {
		switch x := n.(type) {
		case *ast.AssignStmt:
			if len(x.Lhs) == 1 && len(x.Rhs) == 1 && x.Tok == token.DEFINE {
				id, ok := x.Lhs[0].(*ast.Ident)
				if !ok {
					return true
				}
				// size := max - min + 1
				if a, ok := env.Eval(x.Rhs[0]); ok && len(a.T) == 2 && a.T["MIN"] != 0 && a.T["MAX"] != 0 && sizeObj == nil {
					sizeObj = objOf(info, id)
					rb.size = a
					env.Vars[sizeObj] = eng.AffSym("SIZE")
				}
				// s := make([]int, size)
				if c, ok := eng.Unparen(x.Rhs[0]).(*ast.CallExpr); ok && isBuiltinCall(info, c, "make") && len(c.Args) == 2 {
					if sid, ok := eng.Unparen(c.Args[1]).(*ast.Ident); ok && sizeObj != nil && objOf(info, sid) == sizeObj {
						rb.lenIsSize = true
						sliceObj = objOf(info, id)
					}
				}
			}
			// s[i] = min + i
			if len(x.Lhs) == 1 && len(x.Rhs) == 1 && x.Tok == token.ASSIGN {
				if ix, ok := x.Lhs[0].(*ast.IndexExpr); ok {
					if sid, ok := eng.Unparen(ix.X).(*ast.Ident); ok && sliceObj != nil && objOf(info, sid) == sliceObj {
						if iid, ok := eng.Unparen(ix.Index).(*ast.Ident); ok {
							e2 := &eng.AffEnv{Info: info, Vars: map[types.Object]eng.Aff{objOf(info, iid): eng.AffSym("I")}, Sym: env.Sym}
							if a, ok := e2.Eval(x.Rhs[0]); ok {
								rb.elem, rb.hasElem = a, true
							}
						}
					}
				}
			}
		case *ast.IfStmt:
			// if size < 1 / size <= 0 { …empty… }
			b, ok := eng.Unparen(x.Cond).(*ast.BinaryExpr)
			if !ok || sizeObj == nil {
				return true
			}
			id, ok := eng.Unparen(b.X).(*ast.Ident)
			if !ok || objOf(info, id) != sizeObj {
				return true
			}
			k, ok := runeConst(info, b.Y)
			if !ok {
				return true
			}
			// is the then-branch the empty result? (a make/literal of length 0)
			empty := false
			ast.Inspect(x.Body, func(m ast.Node) bool {
				switch y := m.(type) {
				case *ast.CompositeLit:
					if len(y.Elts) == 0 {
						empty = true
					}
				case *ast.CallExpr:
					if isBuiltinCall(info, y, "make") && len(y.Args) == 2 && eng.ExprStr(y.Args[1]) == "0" {
						empty = true
					}
				}
				return true
			})
			if !empty {
				return true
			}
			switch b.Op {
			case token.LSS:
				rb.emptyLE, rb.hasEmpty = k-1, true
			case token.LEQ:
				rb.emptyLE, rb.hasEmpty = k, true
			}
		}
		return true
	})
	if sizeObj == nil {
		rb.problem = "no `size := max - min + 1`-like definition"
	}
	return rb
}

func rangeBuilderRule(p *core.Program, r *core.Report) {
	// run-time builder: the vm function with two int parameters returning []int
	var rt, ct *rangeBuilder
	vinfo := p.Pkg("vm").TypesInfo
	for _, fd := range p.FuncDecls("vm") {
		if fd.Body == nil || fd.Recv != nil || fd.Type.Params == nil || fd.Type.Results == nil || fd.Type.Results.NumFields() != 1 {
			continue
		}
		res := vinfo.TypeOf(fd.Type.Results.List[0].Type)
		sl, ok := res.(*types.Slice)
		if !ok || !types.Identical(sl.Elem(), types.Typ[types.Int]) {
			continue
		}
		var params []types.Object
		for _, f := range fd.Type.Params.List {
			for _, nm := range f.Names {
				params = append(params, vinfo.Defs[nm])
			}
		}
		if len(params) != 2 {
			continue
		}
		is := func(o types.Object) func(ast.Expr) bool {
			return func(e ast.Expr) bool {
				id, ok := eng.Unparen(e).(*ast.Ident)
				return ok && objOf(vinfo, id) == o
			}
		}
		rb := readRangeBuilder(vinfo, fd.Body, core.FuncName("vm", fd), is(params[0]), is(params[1]))
		rt = &rb
	}
	// compile-time builder: the optimizer pass under `Operator == ".."` with IntegerNode bounds
	oinfo := p.Pkg("optimizer").TypesInfo
	for _, fd := range p.FuncDecls("optimizer") {
		if fd.Body == nil {
			continue
		}
		al := eng.BuildAliases(oinfo, fd.Body)
		isBound := func(side string) func(ast.Expr) bool {
			return func(e ast.Expr) bool {
				sel, ok := eng.Unparen(e).(*ast.SelectorExpr)
				return ok && sel.Sel.Name == "Value" && al.Norm(sel.X) == "*node."+side
			}
		}
		makesInts := false
		ast.Inspect(fd.Body, func(n ast.Node) bool {
			if c, ok := n.(*ast.CallExpr); ok && isBuiltinCall(oinfo, c, "make") && len(c.Args) == 2 {
				if sl, ok := oinfo.TypeOf(c).(*types.Slice); ok && types.Identical(sl.Elem(), types.Typ[types.Int]) && eng.ExprStr(c.Args[1]) != "0" && !strings.HasPrefix(eng.ExprStr(c.Args[1]), "len(") {
					makesInts = true
				}
			}
			return true
		})
		if !makesInts {
			continue
		}
		rb := readRangeBuilder(oinfo, fd.Body, core.FuncName("optimizer", fd), isBound("Left"), isBound("Right"))
		if rb.problem == "" {
			ct = &rb
		}
	}
	if rt == nil || ct == nil {
		r.Unk("R2.7", "range builders", "", fmt.Sprintf("run-time builder found: %v, compile-time builder found: %v", rt != nil, ct != nil))
		return
	}
	for _, b := range []*rangeBuilder{rt, ct} {
		if b.problem != "" {
			r.Unk("R2.7", b.where+"/range builder shape", p.Pos(b.pos), b.problem)
			return
		}
	}
	want := eng.AffConst(1).Add(eng.AffSym("MAX"), 1).Add(eng.AffSym("MIN"), -1)
	for _, b := range []*rangeBuilder{rt, ct} {
		r.Check(b.size.Equal(want), "R2.7", b.where+"/size is max - min + 1", p.Pos(b.pos), b.size.String(), "the range's size is computed as `"+b.size.String()+"`, not max - min + 1: `a..b` has one element too many or too few")
		r.Check(b.lenIsSize, "R2.7", b.where+"/slice has size elements", p.Pos(b.pos), "make([]int, size)", "the slice is not made with the computed size")
		r.Check(b.hasElem && b.elem.Equal(eng.AffSym("MIN").Add(eng.AffSym("I"), 1)), "R2.7", b.where+"/element i is min + i", p.Pos(b.pos), "min + i", "element i of the range is `"+b.elem.String()+"`, not min + i")
		r.Check(b.hasEmpty && b.emptyLE == 0, "R2.7", b.where+"/empty exactly when size <= 0", p.Pos(b.pos), "empty iff size <= 0", fmt.Sprintf("the builder returns the empty range iff size <= %d (found: %v): the boundary case max = min-1 or max = min differs from the other builder", b.emptyLE, b.hasEmpty))
	}
	r.Floor("R2.7", 8)
}
