package props

import (
	"fmt"
	"go/ast"
	"go/token"
	"go/types"
	"sort"
	"strings"

	"verif/exprlint/core"
	"verif/exprlint/eng"
)

// C03 — soundness of the type checker over all accepted programs and all values is not decided.
// Decided are agreement clauses between what the checker SAYS and what the VM DOES, which is
// where the suite has no coverage (no accepted program is ever run by it).

func init() {
	register(&Prop{ID: "C03", Run: runC03, Controls: c03Controls})
}

func runC03(p *core.Program, r *core.Report) {
	r.Explanation = "Decides agreement clauses between the type checker and the machine that runs what it accepts: (R3.1) every binary and unary operator and every builtin the parser can build a node for has a case in the checker's and in the code generator's operator switch, so an accepted expression cannot die with `unknown operator`; (R3.3) each result directive is carried from the option to the instruction and to the conversion whose result has the promised kind (AsInt64 → cast 0 → an int64-valued conversion, AsFloat64 → cast 1 → float64; AsBool: no cast, the checker requires kind bool); (R3.5) on every path of every checker clause that does not already record an error, every child slot of the node is type-checked — an ill-typed sub-expression cannot hide in a position the checker skips; (R3.7) the predicate that decides whether an argument is retyped and the function that retypes agree on the operators they descend through, and an integer literal is retyped only to a numeric (or dynamic) parameter type, for which the typed push has a case; (R3.8) ADMISSION ⊆ HANDLER DOMAIN: for every operator, the operand type shapes under which the checker's rule returns a type — obtained by abstract interpretation of the rule and of the predicates it calls over a finite universe of shapes (nil, dynamic, predeclared / named / pointer-to numeric kinds, string, bool, containers) — are compared with the domain of the primitive its instruction applies (the case types of the generated helper, the type a handler asserts, the cases of the conversion helper): a statically typed pair that is admitted and outside the domain is an accepted program that fails at run time for a type reason; (R3.2) where the primitive's result has a concrete Go type, the checker's result type for the admitted pairs is that type."
	r.NotDecided = []string{"soundness itself (every accepted program on every value)", "member and call typing (fieldType, methodType, checkFunc's assignability test) beyond the retyping guard", "the static type of closures and of the loop builtins' results (filter/map are typed []T and built as []interface{}: finding F16 of DESIGN.md, observed, no rule)", "that the checker is not too strict"}
	e := loadEngines(p, r, "R3.1")
	if e == nil {
		return
	}
	c03OperatorSets(p, r, e)
	c03Directives(p, r, e)
	c03VisitsAll(p, r, e)
	c03Retyping(p, r, e)
	typedPushRule(p, r, e, "R3.7") // every numeric kind a literal can be retyped to is pushed as that kind
	c03Admission(p, r, e)
	r.Floor("R3.1", 27+8)
	stackFieldBalanceRule(p, r, "R3.5", "checker", "visitor", "[]reflect.Type")
	r.Floor("R3.3", 3)
	r.Floor("R3.5", 23)
	r.Floor("R3.7", 2)
	r.Floor("R3.8", 20)
}

// checkerOperatorLabels: string case labels of `switch node.Operator` / `switch node.Name` in a
// checker method.
func checkerLabels(p *core.Program, method, field string) map[string]bool {
	out := map[string]bool{}
	info := p.Pkg("checker").TypesInfo
	for _, fd := range p.FuncDecls("checker") {
		if fd.Body == nil || fd.Name.Name != method {
			continue
		}
		ast.Inspect(fd.Body, func(n ast.Node) bool {
			sw, ok := n.(*ast.SwitchStmt)
			if !ok || sw.Tag == nil || !strings.HasSuffix(eng.ExprStr(sw.Tag), "."+field) {
				return true
			}
			for _, c := range sw.Body.List {
				for _, ex := range c.(*ast.CaseClause).List {
					if v, ok := constStringOf(info, ex); ok {
						out[v] = true
					}
				}
			}
			return true
		})
	}
	return out
}

func c03OperatorSets(p *core.Program, r *core.Report, e *engines) {
	tables := readOpTables(p)
	var bin, un *opTable
	for _, t := range tables {
		if _, ok := t.entries["not"]; ok {
			un = t
		} else if len(t.entries) > 10 {
			bin = t
		}
	}
	if bin == nil || un == nil {
		r.Unk("R3.1", "parser operator tables", "", "binary and unary operator tables not found")
		return
	}
	compiled := func(kind, field string) map[string]bool {
		out := map[string]bool{}
		for _, t := range e.em.Templates[kind] {
			if t.Term == "panic" {
				continue
			}
			for _, l := range templateLabels(p, t, field) {
				out[l] = true
			}
		}
		return out
	}
	chkBin, chkUn, chkBuiltin := checkerLabels(p, "BinaryNode", "Operator"), checkerLabels(p, "UnaryNode", "Operator"), checkerLabels(p, "BuiltinNode", "Name")
	cmpBin, cmpUn, cmpBuiltin := compiled("BinaryNode", "Operator"), compiled("UnaryNode", "Operator"), compiled("BuiltinNode", "Name")
	// the parser builds a MatchesNode for `matches`: a node kind of its own
	matchesKind := len(e.em.Templates["MatchesNode"]) > 0 && p.FuncDecl("checker", "visitor", "MatchesNode") != nil
	for _, op := range sortedKeys(bin.entries) {
		inChk, inCmp := chkBin[op], cmpBin[op]
		if op == "matches" && matchesKind {
			inChk, inCmp = true, true
		}
		r.Check(inChk && inCmp, "R3.1", "binary operator "+op+"/handled by checker and code generator", bin.pos[op], "case in both", fmt.Sprintf("the parser builds nodes for binary operator %s; checker has a case: %v, code generator has a case: %v — an expression using it is rejected as `unknown operator`, or accepted and then fails to compile", op, inChk, inCmp))
	}
	for _, op := range sortedKeys(un.entries) {
		r.Check(chkUn[op] && cmpUn[op], "R3.1", "unary operator "+op+"/handled by checker and code generator", un.pos[op], "case in both", fmt.Sprintf("unary operator %s: checker %v, code generator %v", op, chkUn[op], cmpUn[op]))
	}
	ar := parserBuiltinArity(p)
	var names []string
	for n := range ar {
		names = append(names, n)
	}
	sort.Strings(names)
	for _, n := range names {
		r.Check(chkBuiltin[n] && cmpBuiltin[n], "R3.1", "builtin "+n+"/handled by checker and code generator", "", "case in both", fmt.Sprintf("builtin %s: checker %v, code generator %v", n, chkBuiltin[n], cmpBuiltin[n]))
	}
}

// c03Directives (R3.3).
func c03Directives(p *core.Program, r *core.Report, e *engines) {
	info := p.Pkg("").TypesInfo
	vinfo := p.Pkg("vm").TypesInfo
	// option constructors that set Expect
	type dir struct {
		name, kind string
		pos        string
	}
	var dirs []dir
	for _, fd := range p.FuncDecls("") {
		if fd.Body == nil {
			continue
		}
		ast.Inspect(fd.Body, func(n ast.Node) bool {
			as, ok := n.(*ast.AssignStmt)
			if !ok || len(as.Lhs) != 1 || len(as.Rhs) != 1 {
				return true
			}
			if sel, ok := as.Lhs[0].(*ast.SelectorExpr); ok && sel.Sel.Name == "Expect" {
				if rs, ok := eng.Unparen(as.Rhs[0]).(*ast.SelectorExpr); ok {
					if c, ok := info.Uses[rs.Sel].(*types.Const); ok && c.Pkg() != nil && c.Pkg().Path() == "reflect" {
						dirs = append(dirs, dir{fd.Name.Name, c.Name(), p.Pos(as.Pos())})
					}
				}
			}
			return true
		})
	}
	if len(dirs) == 0 {
		r.Unk("R3.3", "result directives", "", "no option sets Config.Expect")
		return
	}
	// cast table of the code generator: cast kind -> raw operand
	castRaw := map[string]string{}
	for _, t := range e.em.Templates["<top>"] {
		// the kind this path is taken for: a case label, or an equality test that holds on the
		// path, whose operand is a constant of reflect.Kind
		kind := ""
		cinfo := p.Pkg("compiler").TypesInfo
		kindConst := func(ex ast.Expr) string {
			var id *ast.Ident
			switch x := eng.Unparen(ex).(type) {
			case *ast.SelectorExpr:
				id = x.Sel
			case *ast.Ident:
				id = x
			}
			if id != nil {
				if c, ok := cinfo.Uses[id].(*types.Const); ok && c.Pkg() != nil && c.Pkg().Path() == "reflect" {
					return c.Name()
				}
			}
			return ""
		}
		for _, c := range t.Conds {
			if c.Case != nil && c.Case.Clause != nil {
				for _, ex := range c.Case.Clause.List {
					if k := kindConst(ex); k != "" {
						kind = k
					}
				}
			}
			if b, ok := eng.Unparen(c.Expr).(*ast.BinaryExpr); ok && c.Case == nil && c.Expr != nil {
				if (b.Op == token.EQL && c.Taken) || (b.Op == token.NEQ && !c.Taken) {
					if k := kindConst(b.X); k != "" {
						kind = k
					} else if k := kindConst(b.Y); k != "" {
						kind = k
					}
				}
			}
		}
		for _, ev := range t.Events {
			if ev.Kind == "instr" && ev.Operand.Kind == "raw" && kind != "" {
				castRaw[kind] = ev.Op + " " + ev.Operand.Raw.ExactString()
			}
			// table-driven: the operand is looked up under the expected kind
			if ev.Kind == "instr" && ev.Operand.Kind == "rawtable" {
				for _, kv := range ev.Operand.Table {
					castRaw[kv[0]] = ev.Op + " " + kv[1]
				}
			}
		}
	}
	// the cast handler: raw value -> result type of the conversion pushed
	castResult := map[string]string{}
	for _, name := range e.vm.SortedNames() {
		sig := e.vm.Signature(name)
		h := e.vm.Handlers[name]
		if sig == nil || h == nil || sig.Operand != "u16" || sig.Pop != 1 || sig.Push != 1 {
			continue
		}
		for val, body := range rawDispatch(vinfo, h.Clause) {
			for _, st := range body {
				ast.Inspect(st, func(m ast.Node) bool {
					c, ok := m.(*ast.CallExpr)
					if !ok {
						return true
					}
					if fn := eng.CalleeOf(vinfo, c); fn != nil && fn.Pkg() == p.Pkg("vm").Types && fn.Type().(*types.Signature).Recv() == nil {
						if res := fn.Type().(*types.Signature).Results(); res.Len() == 1 {
							castResult[name+" "+val] = res.At(0).Type().String()
						}
					}
					return true
				})
			}
		}
	}
	for _, d := range dirs {
		key := "expr." + d.name + "/directive reaches a conversion of the promised kind"
		if d.kind == "Bool" {
			_, has := castRaw["Bool"]
			r.Check(!has, "R3.3", key, d.pos, "no cast: the checker requires kind bool", "AsBool emits a cast")
			continue
		}
		raw, ok := castRaw[d.kind]
		if !ok {
			r.Bad("R3.3", key, d.pos, "the option promises kind "+d.kind+" but the code generator emits no cast for it: the result keeps its own kind")
			continue
		}
		res := castResult[raw]
		r.Check(strings.EqualFold(res, d.kind), "R3.3", key, d.pos, d.name+" → "+raw+" → "+res, fmt.Sprintf("%s promises %s; the code generator emits %s, whose handler case converts to `%s`", d.name, d.kind, raw, res))
	}
}

// c03VisitsAll (R3.5).
func c03VisitsAll(p *core.Program, r *core.Report, e *engines) {
	ds := eng.FindDispatchers(p, e.nk, "checker")
	var d *eng.Dispatcher
	for _, x := range ds {
		if len(x.Clauses) >= len(e.nk.Kinds)/2 {
			d = x
		}
	}
	if d == nil {
		r.Unk("R3.5", "checker dispatcher", "", "not found")
		return
	}
	info := p.Pkg("checker").TypesInfo
	isErr := func(_ *types.Info, call *ast.CallExpr) bool {
		fn := eng.CalleeOf(info, call)
		return fn != nil && fn.Name() == "error" && fn.Type().(*types.Signature).Recv() != nil
	}
	cps, problems := eng.ClausePaths(p, e.nk, d, eng.ConsumeConf{IsError: isErr})
	for _, pr := range problems {
		r.Unk("R3.5", pr, "", "cannot enumerate paths")
	}
	for _, k := range e.nk.Kinds {
		cc := d.Clauses[k.Name]
		if cc == nil {
			continue
		}
		for _, s := range k.Slots {
			key := "checker.(visitor).visit/case *" + k.Name + "/slot " + s.Name + " is type-checked"
			bad := ""
			for _, cp := range cps[k.Name] {
				if cp.Error || cp.Exempt[s.Name] {
					continue
				}
				n := 0
				for _, u := range cp.Uses {
					if u.Slot == s.Name {
						n++
					}
				}
				if n == 0 {
					bad = "on the path [" + strings.Join(cp.Conds, ", ") + "] the checker returns a type without visiting " + k.Name + "." + s.Name
				}
			}
			r.Check(bad == "", "R3.5", key, p.Pos(cc.Pos()), "visited on every path that does not record an error", bad+": an ill-typed sub-expression in that position is accepted (and its node keeps a nil static type, which later stages dereference)")
		}
	}
}

// c03Retyping (R3.7).
func c03Retyping(p *core.Program, r *core.Report, e *engines) {
	info := p.Pkg("checker").TypesInfo
	// (a) the two tables agree
	opsApply, whereApply := retypableOperators(p, e.nk)
	if opsApply == nil {
		r.Unk("R3.7", "checker/literal retyping", "", "retyping function not found")
		return
	}
	// the predicate: a bool function with a type switch over the node and operator cases, no SetType
	var predOps map[string]bool
	wherePred := ""
	for _, fd := range p.FuncDecls("checker") {
		if fd.Body == nil || core.FuncName("checker", fd) == whereApply || fd.Type.Results == nil || fd.Type.Results.NumFields() != 1 {
			continue
		}
		if b, ok := info.TypeOf(fd.Type.Results.List[0].Type).(*types.Basic); !ok || b.Kind() != types.Bool {
			continue
		}
		ops, hasInt, _ := operatorsOfNodeSwitch(p, info, e.nk, fd)
		if hasInt && len(ops) > 0 {
			predOps, wherePred = ops, core.FuncName("checker", fd)
		}
	}
	if predOps == nil {
		r.Unk("R3.7", "checker/retyping predicate", "", "the predicate that decides whether an argument is an integer literal or arithmetic on literals was not found")
		return
	}
	var diff []string
	for o := range predOps {
		if !opsApply[o] {
			diff = append(diff, o+" (predicate only)")
		}
	}
	for o := range opsApply {
		if !predOps[o] {
			diff = append(diff, o+" (retyping only)")
		}
	}
	sort.Strings(diff)
	r.Check(len(diff) == 0, "R3.7", "checker/retyping predicate and retyping function agree", "", wherePred+" = "+whereApply, "the predicate "+wherePred+" and the retyping function "+whereApply+" descend through different operators: "+strings.Join(diff, ", ")+" — an argument is declared retypable whose literals are then not (all) retyped, or the reverse")
	// (b) retyping only to numeric parameter types
	var retype *types.Func
	for _, fd := range p.FuncDecls("checker") {
		if core.FuncName("checker", fd) == whereApply {
			retype, _ = info.Defs[fd.Name].(*types.Func)
		}
	}
	n := 0
	for _, fd := range p.FuncDecls("checker") {
		if fd.Body == nil {
			continue
		}
		self, _ := info.Defs[fd.Name].(*types.Func)
		if self == retype {
			continue
		}
		var stack []ast.Node
		ast.Inspect(fd.Body, func(nd ast.Node) bool {
			if nd == nil {
				stack = stack[:len(stack)-1]
				return true
			}
			stack = append(stack, nd)
			c, ok := nd.(*ast.CallExpr)
			if !ok || eng.CalleeOf(info, c) != retype || len(c.Args) != 2 {
				return true
			}
			n++
			key := fmt.Sprintf("%s/literal retyped only to a numeric parameter type#%d", core.FuncName("checker", fd), n)
			// the type argument, through `t = in`
			targ := eng.ExprStr(c.Args[1])
			al := eng.BuildAliases(info, fd.Body)
			names := map[string]bool{targ: true}
			if id, ok := eng.Unparen(c.Args[1]).(*ast.Ident); ok {
				// every variable assigned to it in the same block just before
				ast.Inspect(fd.Body, func(m ast.Node) bool {
					if as, ok := m.(*ast.AssignStmt); ok && len(as.Lhs) == 1 && len(as.Rhs) == 1 {
						if l, ok := as.Lhs[0].(*ast.Ident); ok && objOf(info, l) == objOf(info, id) {
							names[eng.ExprStr(as.Rhs[0])] = true
						}
					}
					return true
				})
			}
			_ = al
			guarded := false
			for _, anc := range stack {
				is, ok := anc.(*ast.IfStmt)
				if !ok {
					continue
				}
				ast.Inspect(is.Cond, func(m ast.Node) bool {
					cc, ok := m.(*ast.CallExpr)
					if !ok || len(cc.Args) != 1 || !names[eng.ExprStr(cc.Args[0])] {
						return true
					}
					// a predicate that is false for non-numeric, non-dynamic shapes
					fn := eng.CalleeOf(info, cc)
					if fn == nil {
						return true
					}
					_, decl := p.DeclOf(fn)
					if decl == nil {
						return true
					}
					in := eng.NewInterp(p, "checker")
					okAll := true
					for _, sh := range []*eng.MT{eng.MTString, eng.MTBool, {Kind: "Struct"}, {Kind: "Slice", Elem: eng.MTInt}, {Kind: "Map", Key: eng.MTString, Elem: eng.MTInt}, {Kind: "Func"}} {
						v := in.CallFunc("checker", decl, []eng.RV{{K: "type", T: sh}})
						if v.K != "bool" || v.B {
							okAll = false
						}
					}
					for _, sh := range []*eng.MT{eng.MTInt, eng.MTFloat64, {Kind: "Uint8"}} {
						v := in.CallFunc("checker", decl, []eng.RV{{K: "type", T: sh}})
						if v.K != "bool" || !v.B {
							okAll = false
						}
					}
					if okAll {
						guarded = true
					}
					return true
				})
			}
			r.Check(guarded, "R3.7", key, p.Pos(c.Pos()), "under a test that the target type is numeric (or dynamic)",
				"an integer literal argument is retyped to the parameter's type whatever that type is: `FS(1)` with FS func(string) is accepted (the literal now has static type string, which is assignable), the typed push has no case for string and pushes an int, and the call fails at run time with `Call using int as type string` — a type error in an accepted program")
			return true
		})
	}
	if n == 0 {
		r.Unk("R3.7", "checker/retyping sites", "", "the retyping function is never called")
	}
}

// ---- R3.8 -----------------------------------------------------------------------------------

// operandDomain: which operand shapes a primitive executes without a type error.
type opDomain struct {
	family string
	total  bool
	pairs  map[[2]string]bool // generated two-level helper: (go type, go type)
	each   []map[string]bool  // per operand: admitted go type names (nil = anything)
	kinds  bool               // `each` lists reflect kinds (named types allowed), not go types
	ok     bool
}

func goName(t *eng.MT) string { return strings.ToLower(t.Kind) }

// typeSwitchCases: the case type names of the first type switch over the i-th parameter.
func singleLevelCases(info *types.Info, fd *ast.FuncDecl) (map[string]bool, bool) {
	var ts *ast.TypeSwitchStmt
	for _, st := range fd.Body.List {
		if t, ok := st.(*ast.TypeSwitchStmt); ok {
			ts = t
			break
		}
	}
	if ts == nil {
		return nil, false
	}
	out := map[string]bool{}
	for _, c := range ts.Body.List {
		for _, ex := range c.(*ast.CaseClause).List {
			out[types.ExprString(ex)] = true
		}
	}
	// total if the function can fall out of the switch into a non-panicking return
	last := fd.Body.List[len(fd.Body.List)-1]
	total := false
	if rs, ok := last.(*ast.ReturnStmt); ok && len(rs.Results) > 0 {
		total = true
	}
	return out, total
}

func c03Domains(p *core.Program, e *engines) map[string]*opDomain {
	info := p.Pkg("vm").TypesInfo
	out := map[string]*opDomain{}
	helpers := map[string]*binaryHelper{}
	for _, h := range findBinaryHelpers(p) {
		helpers[h.fd.Name.Name] = h
	}
	convDomain := func(fn *types.Func) (map[string]bool, bool) {
		_, fd := p.DeclOf(fn)
		if fd == nil || fd.Body == nil {
			return nil, false
		}
		cases, total := singleLevelCases(info, fd)
		if cases == nil || total {
			return nil, false
		}
		return cases, true
	}
	var operandDom func(x ast.Expr, depth int) (map[string]bool, bool)
	operandDom = func(x ast.Expr, depth int) (map[string]bool, bool) {
		x = eng.Unparen(x)
		switch y := x.(type) {
		case *ast.TypeAssertExpr:
			if y.Type != nil {
				return map[string]bool{types.ExprString(y.Type): true}, true
			}
		case *ast.CallExpr:
			if fn := eng.CalleeOf(info, y); fn != nil && fn.Pkg() == p.Pkg("vm").Types && len(y.Args) == 1 && depth < 3 {
				return convDomain(fn)
			}
		}
		return nil, false
	}
	for _, name := range e.vm.SortedNames() {
		sig := e.vm.Signature(name)
		h := e.vm.Handlers[name]
		if sig == nil || h == nil || sig.Push != 1 || sig.Pop == 0 || sig.Pop > 2 || sig.Jump != "" || sig.Scope != "" || sig.SymPop != "" || sig.Operand == "u16" {
			continue
		}
		// the pushed expression (resolved through single-definition locals)
		defs := map[types.Object]ast.Expr{}
		ndef := map[types.Object]int{}
		var pushed ast.Expr
		npush := 0
		for _, st := range h.Clause.Body {
			ast.Inspect(st, func(n ast.Node) bool {
				switch x := n.(type) {
				case *ast.AssignStmt:
					for i, l := range x.Lhs {
						if id, ok := l.(*ast.Ident); ok && id.Name != "_" {
							o := objOf(info, id)
							ndef[o]++
							if len(x.Lhs) == len(x.Rhs) {
								defs[o] = x.Rhs[i]
							} else if i == 0 {
								defs[o] = x.Rhs[0]
							}
						}
					}
				case *ast.CallExpr:
					if fn := eng.CalleeOf(info, x); fn != nil && e.vm.Prims[fn] == "push" && len(x.Args) == 1 {
						pushed = x.Args[0]
						npush++
					}
				}
				return true
			})
		}
		if npush != 1 || pushed == nil {
			continue
		}
		var resolve func(x ast.Expr, d int) ast.Expr
		resolve = func(x ast.Expr, d int) ast.Expr {
			x = eng.Unparen(x)
			if id, ok := x.(*ast.Ident); ok && d < 5 {
				if o := objOf(info, id); ndef[o] == 1 && defs[o] != nil {
					return resolve(defs[o], d+1)
				}
			}
			return x
		}
		px := resolve(pushed, 0)
		dom := &opDomain{}
		var operands []ast.Expr
		switch y := px.(type) {
		case *ast.CallExpr:
			fn := eng.CalleeOf(info, y)
			if fn != nil && fn.Pkg() == p.Pkg("vm").Types {
				if bh := helpers[fn.Name()]; bh != nil {
					dom.family = "generated numeric helpers (two-level type switch over predeclared types)"
					_, fd := p.DeclOf(fn)
					last := fd.Body.List[len(fd.Body.List)-1]
					if rs, ok := last.(*ast.ReturnStmt); ok && len(rs.Results) > 0 {
						dom.total = true
					}
					dom.pairs = map[[2]string]bool{}
					for k := range bh.cases {
						dom.pairs[k] = true
					}
					dom.ok = true
					out[name] = dom
					continue
				}
				// a helper of operands converted by other helpers: math.Pow(toFloat64(a), …) inside
				_, fd := p.DeclOf(fn)
				if fd != nil && fd.Body != nil && len(fd.Body.List) == 1 {
					if rs, ok := fd.Body.List[0].(*ast.ReturnStmt); ok && len(rs.Results) == 1 {
						if inner, ok := eng.Unparen(rs.Results[0]).(*ast.CallExpr); ok {
							dom.family = "conversion helpers (single-level type switch over predeclared numeric types)"
							for _, a := range inner.Args {
								if d, ok := operandDom(a, 0); ok {
									dom.each = append(dom.each, d)
								}
							}
							dom.ok = len(dom.each) == len(y.Args) && len(dom.each) > 0
							if dom.ok {
								out[name] = dom
							}
							continue
						}
					}
				}
				if len(y.Args) == 1 {
					if d, ok := convDomain(fn); ok {
						dom.family = "conversion helpers (single-level type switch over predeclared numeric types)"
						dom.each = []map[string]bool{d}
						dom.ok = true
						out[name] = dom
						continue
					}
				}
			}
			operands = y.Args
		case *ast.BinaryExpr:
			operands = []ast.Expr{y.X, y.Y}
		case *ast.UnaryExpr:
			operands = []ast.Expr{y.X}
		}
		if len(operands) == 0 {
			continue
		}
		allAsserted := true
		for _, o := range operands {
			d, ok := operandDom(resolve(o, 0), 0)
			if !ok {
				allAsserted = false
				break
			}
			dom.each = append(dom.each, d)
		}
		if allAsserted && len(dom.each) == sig.Pop {
			fam := "handlers that assert a predeclared type on their operands"
			for _, d := range dom.each {
				if len(d) > 1 {
					fam = "conversion helpers (single-level type switch over predeclared numeric types)"
				}
			}
			dom.family = fam
			dom.ok = true
			out[name] = dom
		}
	}
	return out
}

// inDomain: are the (unnamed, non-pointer) go types of the shapes handled?
func (d *opDomain) has(shapes []*eng.MT, popOrder []int) bool {
	if d.total {
		return true
	}
	for _, s := range shapes {
		if s == nil || s.Named || s.Kind == "Ptr" {
			return false
		}
	}
	if d.pairs != nil && len(shapes) == 2 {
		return d.pairs[[2]string{goName(shapes[0]), goName(shapes[1])}]
	}
	for i, s := range shapes {
		if i < len(d.each) && d.each[i] != nil && !d.each[i][goName(s)] {
			return false
		}
	}
	return true
}

func c03Universe() []*eng.MT {
	var out []*eng.MT
	out = append(out, nil, eng.MTEmptyIface)
	for _, k := range []string{"Int", "Int8", "Int64", "Uint", "Uint8", "Float32", "Float64", "String", "Bool"} {
		b := &eng.MT{Kind: k}
		out = append(out, b, &eng.MT{Kind: k, Named: true}, &eng.MT{Kind: "Ptr", Elem: b})
	}
	out = append(out, &eng.MT{Kind: "Slice", Elem: eng.MTEmptyIface}, &eng.MT{Kind: "Map", Key: eng.MTString, Elem: eng.MTEmptyIface}, &eng.MT{Kind: "Struct"}, &eng.MT{Kind: "Func"})
	return out
}

func isDynamic(t *eng.MT) bool {
	for t != nil && t.Kind == "Ptr" {
		t = t.Elem
	}
	return t == nil || t.Kind == "Interface"
}

func c03Admission(p *core.Program, r *core.Report, e *engines) {
	info := p.Pkg("checker").TypesInfo
	domains := c03Domains(p, e)
	r.Analysed["handlers_with_a_type_domain"] = len(domains)
	universe := c03Universe()
	r.Analysed["operand_shapes"] = len(universe)
	hc := handlerClasses(p, e)
	_ = hc
	type rule struct {
		kind    string // node kind
		method  string
		slots   []string
		ops     []string // operator labels ("" for kinds without operator)
		opField string
	}
	rules := []rule{
		{"BinaryNode", "BinaryNode", []string{"Left", "Right"}, nil, "Operator"},
		{"UnaryNode", "UnaryNode", []string{"Node"}, nil, "Operator"},
		{"MatchesNode", "MatchesNode", []string{"Left", "Right"}, []string{""}, ""},
	}
	type offence struct{ op, pair, class string }
	byFamily := map[string][]offence{}
	famPos := map[string]string{}
	nOps := 0
	for _, rl := range rules {
		fd := p.FuncDecl("checker", "visitor", rl.method)
		if fd == nil || fd.Body == nil {
			r.Unk("R3.8", "checker rule for "+rl.kind, "", "method not found")
			continue
		}
		ops := rl.ops
		if ops == nil {
			for o := range checkerLabels(p, rl.method, rl.opField) {
				ops = append(ops, o)
			}
			sort.Strings(ops)
		}
		// return atoms: admitted = a return whose value is not the error recorder's result
		type retPath struct {
			atoms []eng.Atom
			err   bool
			expr  ast.Expr
		}
		var rets []retPath
		w := &eng.Walker{Info: info, MaxPaths: 20000}
		for _, atoms := range flattenPaths(w.Func(fd.Body), 60000) {
			for i, a := range atoms {
				if a.Kind != "return" {
					continue
				}
				rs := a.Node.(*ast.ReturnStmt)
				isErr := false
				if len(rs.Results) == 1 {
					if c, ok := eng.Unparen(rs.Results[0]).(*ast.CallExpr); ok {
						if fn := eng.CalleeOf(info, c); fn != nil && fn.Name() == "error" {
							isErr = true
						}
					}
				}
				var ex ast.Expr
				if len(rs.Results) == 1 {
					ex = rs.Results[0]
				}
				rets = append(rets, retPath{atoms[:i], isErr, ex})
				break
			}
		}
		for _, op := range ops {
			if op == "and" || op == "&&" || op == "or" || op == "||" || op == "in" || op == "not in" || op == "==" || op == "!=" {
				// jumps keep the left value / total helpers: no operand-type failure to speak of
				// (and/or assert bool on the LEFT operand only: checked below for the left slot)
			}
			// the instruction(s) of the operator
			var instr string
			var tpl *eng.Template
			for _, t := range e.em.Templates[rl.kind] {
				if t.Term == "panic" {
					continue
				}
				match := rl.opField == ""
				for _, l := range templateLabels(p, t, "Operator") {
					if l == op {
						match = true
					}
				}
				if !match {
					continue
				}
				// the instruction applied to the operands: the first one after the children (a
				// following negation works on the result); of the type-selected variants the
				// general one comes last
				for _, ev := range t.Events {
					if ev.Kind == "instr" {
						if domains[ev.Op] != nil {
							instr, tpl = ev.Op, t
						} else {
							instr = ""
						}
						break
					}
				}
			}
			if instr == "" {
				continue
			}
			_ = tpl
			dom := domains[instr]
			nOps++
			// operand order of the primitive relative to the slots: the first slot is compiled
			// first; the helper's first parameter is the first slot (C01 R1.3)
			n := len(rl.slots)
			var combos [][]*eng.MT
			if n == 1 {
				for _, a := range universe {
					combos = append(combos, []*eng.MT{a})
				}
			} else {
				for _, a := range universe {
					for _, b := range universe {
						combos = append(combos, []*eng.MT{a, b})
					}
				}
			}
			key := rl.kind + " operator " + op
			if op == "" {
				key = rl.kind
			}
			var other []string
			for _, shapes := range combos {
				dyn := false
				for _, s := range shapes {
					if isDynamic(s) {
						dyn = true
					}
				}
				if dyn {
					continue
				}
				in := eng.NewInterp(p, "checker")
				in.Hook = func(x ast.Expr) (eng.RV, bool) {
					switch y := x.(type) {
					case *ast.CallExpr:
						if sel, ok := y.Fun.(*ast.SelectorExpr); ok && sel.Sel.Name == "visit" && len(y.Args) == 1 {
							if as, ok := eng.Unparen(y.Args[0]).(*ast.SelectorExpr); ok {
								for i, sl := range rl.slots {
									if as.Sel.Name == sl {
										return eng.RV{K: "type", T: shapes[i]}, true
									}
								}
							}
						}
					case *ast.SelectorExpr:
						if y.Sel.Name == "Operator" && rl.opField != "" {
							return eng.RV{K: "str", S: op}, true
						}
					}
					return eng.RV{}, false
				}
				admitted := false
				for _, rp := range rets {
					if rp.err {
						continue
					}
					// skip the operator-overloading early return (it returns the overload's type)
					if rp.expr != nil {
						if id, ok := eng.Unparen(rp.expr).(*ast.Ident); ok && fromConfResolver(p, info, fd, id) {
							// `return t` of the overload lookup: only when an overload matched
							continue
						}
					}
					if feasibleUnder(in, rp.atoms) {
						admitted = true
					}
				}
				if !admitted || dom.has(shapes, nil) {
					continue
				}
				// classify
				strip := func(f func(*eng.MT) *eng.MT) []*eng.MT {
					var o []*eng.MT
					for _, s := range shapes {
						o = append(o, f(s))
					}
					return o
				}
				unname := strip(func(s *eng.MT) *eng.MT {
					if s != nil && s.Named {
						c := *s
						c.Named = false
						return &c
					}
					return s
				})
				deref := strip(func(s *eng.MT) *eng.MT {
					for s != nil && s.Kind == "Ptr" {
						s = s.Elem
					}
					return s
				})
				var ps []string
				for _, s := range shapes {
					ps = append(ps, s.String())
				}
				pair := "(" + strings.Join(ps, ", ") + ")"
				hasNamed, hasPtr := false, false
				for _, s := range shapes {
					if s != nil && s.Named {
						hasNamed = true
					}
					if s != nil && s.Kind == "Ptr" {
						hasPtr = true
					}
				}
				switch {
				case hasNamed && !hasPtr && dom.has(unname, nil):
					byFamily[dom.family] = append(byFamily[dom.family], offence{key, pair, "named"})
				case hasPtr && !hasNamed && dom.has(deref, nil):
					byFamily[dom.family] = append(byFamily[dom.family], offence{key, pair, "pointer"})
				case hasPtr && hasNamed:
					// both defects at once: already represented by the two classes
				default:
					other = append(other, pair)
				}
				famPos[dom.family] = p.Pos(e.vm.Handlers[instr].Clause.Pos())
			}
			if len(other) > 8 {
				other = append(other[:8], fmt.Sprintf("… %d more", len(other)-8))
			}
			r.Check(len(other) == 0, "R3.8", key+"/admitted operand types are executable by "+instr, p.Pos(fd.Pos()), "every admitted statically typed operand shape is in the domain of the primitive (apart from the named-type and pointer findings reported per primitive family)",
				"the checker's rule for "+key+" admits the operand types "+strings.Join(other, ", ")+", which the primitive of "+instr+" ("+dom.family+") has no case for: the expression is accepted by Compile and fails at run time with `invalid operation` — a type error in a well-typed program")
		}
	}
	r.Analysed["operators_with_domain_check"] = nOps
	var fams []string
	for f := range byFamily {
		fams = append(fams, f)
	}
	sort.Strings(fams)
	for _, f := range fams {
		for _, class := range []string{"named", "pointer"} {
			opsSeen := map[string]bool{}
			ex := ""
			for _, o := range byFamily[f] {
				if o.class == class {
					opsSeen[o.op] = true
					if ex == "" {
						ex = o.op + " on " + o.pair
					}
				}
			}
			if len(opsSeen) == 0 {
				continue
			}
			var ol []string
			for o := range opsSeen {
				ol = append(ol, strings.TrimPrefix(strings.TrimPrefix(o, "BinaryNode operator "), "UnaryNode operator "))
			}
			sort.Strings(ol)
			what := map[string]string{"named": "operands of NAMED types of an admitted kind (the checker's predicates test Kind, the primitive dispatches on predeclared types)", "pointer": "POINTERS to an admitted kind (the checker's predicates dereference, the primitive does not)"}[class]
			r.Bad("R3.8", f+"/admission by kind, dispatch by predeclared type ["+class+"]", famPos[f], "the checker admits "+what+" for the operators "+strings.Join(ol, " ")+" (e.g. "+ex+"); the primitive has no case for them: accepted by Compile, `invalid operation` at run time")
		}
	}
}

func c03Controls() []core.Mutant {
	return []core.Mutant{
		{Name: "modulo admitted for every number", File: "checker/checker.go", Old: "\tcase \"/\", \"-\", \"*\":\n\t\tif isNumber(l) && isNumber(r) {\n\t\t\treturn combined(l, r)\n\t\t}\n", New: "\tcase \"/\", \"-\", \"*\", \"%\":\n\t\tif isNumber(l) && isNumber(r) {\n\t\t\treturn combined(l, r)\n\t\t}\n", Edits: [][2]string{{"\tcase \"%\":\n\t\tif isInteger(l) && isInteger(r) {\n\t\t\treturn combined(l, r)\n\t\t}\n\n", ""}}, Rule: "R3.8", Construct: "operator %"},
		{Name: "addition admitted when one side is a number", File: "checker/checker.go", Old: "\tcase \"+\":\n\t\tif isNumber(l) && isNumber(r) {", New: "\tcase \"+\":\n\t\tif isNumber(l) || isNumber(r) {", Rule: "R3.8", Construct: "operator +"},
		{Name: "contains no longer requires a string on the right", File: "checker/checker.go", Old: "\tcase \"contains\", \"startsWith\", \"endsWith\":\n\t\tif isString(l) && isString(r) {", New: "\tcase \"contains\", \"startsWith\", \"endsWith\":\n\t\tif isString(l) {", Rule: "R3.8", Construct: "operator contains"},
		{Name: "operator known to the parser only", File: "parser/parser.go", Old: "\t\"**\":         {70, right},\n", New: "\t\"**\":         {70, right},\n\t\"<>\":         {20, left},\n", Rule: "R3.1", Construct: "binary operator <>"},
		{Name: "AsInt64 emits the float cast", File: "compiler/compiler.go", Old: "\tcase reflect.Int64:\n\t\tc.emit(OpCast, encode(0)...)", New: "\tcase reflect.Int64:\n\t\tc.emit(OpCast, encode(1)...)", Rule: "R3.3", Construct: "AsInt64"},
		{Name: "index expression no longer type-checked", File: "checker/checker.go", Old: "\tt := v.visit(node.Node)\n\ti := v.visit(node.Index)\n", New: "\tt := v.visit(node.Node)\n\tvar i reflect.Type = integerType\n", Rule: "R3.5", Construct: "IndexNode/slot Index"},
		{Name: "retyping predicate extended to modulo only", File: "checker/types.go", Old: "func isIntegerOrArithmeticOperation(node ast.Node) bool {\n\tswitch n := node.(type) {\n\tcase *ast.IntegerNode:\n\t\treturn true\n\tcase *ast.UnaryNode:\n\t\tswitch n.Operator {\n\t\tcase \"+\", \"-\":\n\t\t\treturn true\n\t\t}\n\tcase *ast.BinaryNode:\n\t\tswitch n.Operator {\n\t\tcase \"+\", \"/\", \"-\", \"*\":", New: "func isIntegerOrArithmeticOperation(node ast.Node) bool {\n\tswitch n := node.(type) {\n\tcase *ast.IntegerNode:\n\t\treturn true\n\tcase *ast.UnaryNode:\n\t\tswitch n.Operator {\n\t\tcase \"+\", \"-\":\n\t\t\treturn true\n\t\t}\n\tcase *ast.BinaryNode:\n\t\tswitch n.Operator {\n\t\tcase \"+\", \"/\", \"-\", \"*\", \"%\":", Rule: "R3.7", Construct: "agree"},
		{Name: "literals retyped to any parameter type", File: "checker/checker.go", Old: "if isIntegerOrArithmeticOperation(arg) && isNumber(in) && !v.hasOverloadedOperator(arg) {", New: "if isIntegerOrArithmeticOperation(arg) && !v.hasOverloadedOperator(arg) {", Rule: "R3.7", Construct: "numeric parameter type"},
	}
}

// fromConfResolver: id is defined (in fd) by a tuple assignment from a call of a function of
// package conf whose results are (reflect.Type, string, bool) — the operator-overload resolver:
// its early return hands out the overload's type only when an overload matched (C17's matter).
func fromConfResolver(p *core.Program, info *types.Info, fd *ast.FuncDecl, id *ast.Ident) bool {
	if fd == nil || fd.Body == nil {
		return false
	}
	obj := info.Uses[id]
	found := false
	ast.Inspect(fd.Body, func(n ast.Node) bool {
		as, ok := n.(*ast.AssignStmt)
		if !ok || len(as.Rhs) != 1 || len(as.Lhs) != 3 {
			return true
		}
		l0, ok := as.Lhs[0].(*ast.Ident)
		if !ok || objOf(info, l0) != obj {
			return true
		}
		c, ok := eng.Unparen(as.Rhs[0]).(*ast.CallExpr)
		if !ok {
			return true
		}
		if fn := eng.CalleeOf(info, c); fn != nil && fn.Pkg() == p.Pkg("conf").Types {
			res := fn.Type().(*types.Signature).Results()
			if res.Len() == 3 && strings.HasSuffix(res.At(0).Type().String(), "reflect.Type") {
				found = true
			}
		}
		return true
	})
	return found
}
