package props

import (
	"fmt"
	"go/ast"
	"go/token"
	"go/types"
	"sort"
	"strings"

	"verif/exprlint/core"
	"verif/exprlint/eng"
)

// C15 — type information only rejects. Equality of results across compilation modes is a
// value-level statement and is not decided. Decided are the places where static types SELECT
// code: a specialised instruction whose handler hard-asserts an exact Go type is a different
// meaning for every value outside that type, so the condition that selects it must imply
// identity with the asserted type. The conditions are evaluated over a finite universe of type
// shapes by the reflect.Type evaluator (eng/reflmodel.go); nothing is run.

func init() {
	register(&Prop{ID: "C15", Run: runC15, Controls: c15Controls})
}

// assertedOperandTypes: the exact Go type a handler hard-asserts on each popped operand, in pop
// order (nil = no single-value assertion on that operand).
func assertedOperandTypes(p *core.Program, e *engines, op string) []types.Type {
	h := e.vm.Handlers[op]
	if h == nil {
		return nil
	}
	info := p.Pkg("vm").TypesInfo
	isPop := func(x ast.Expr) bool {
		c, ok := eng.Unparen(x).(*ast.CallExpr)
		if !ok {
			return false
		}
		fn := eng.CalleeOf(info, c)
		return fn != nil && e.vm.Prims[fn] == "pop"
	}
	var vars []types.Object
	asserted := map[types.Object]types.Type{}
	var direct []types.Type
	for _, st := range h.Clause.Body {
		ast.Inspect(st, func(n ast.Node) bool {
			switch x := n.(type) {
			case *ast.AssignStmt:
				if len(x.Lhs) == 1 && len(x.Rhs) == 1 {
					id, ok := x.Lhs[0].(*ast.Ident)
					if !ok {
						return true
					}
					rhs := eng.Unparen(x.Rhs[0])
					if ta, ok := rhs.(*ast.TypeAssertExpr); ok && ta.Type != nil && isPop(ta.X) {
						vars = append(vars, objOf(info, id))
						asserted[objOf(info, id)] = info.TypeOf(ta.Type)
					} else if isPop(rhs) {
						vars = append(vars, objOf(info, id))
					}
				}
			case *ast.TypeAssertExpr:
				if x.Type == nil {
					return true
				}
				if id, ok := eng.Unparen(x.X).(*ast.Ident); ok {
					o := objOf(info, id)
					for _, v := range vars {
						if v == o {
							asserted[o] = info.TypeOf(x.Type)
						}
					}
				}
			}
			return true
		})
	}
	_ = direct
	var out []types.Type
	for _, v := range vars {
		out = append(out, asserted[v])
	}
	return out
}

func shapeUniverse() []*eng.MT {
	named := func(t *eng.MT) *eng.MT {
		c := *t
		c.Named = true
		c.Label = ""
		return &c
	}
	base := []*eng.MT{eng.MTInt, eng.MTString, eng.MTBool, eng.MTFloat64, {Kind: "Int64"}, {Kind: "Uint8"}}
	out := []*eng.MT{nil, eng.MTEmptyIface}
	for _, b := range base {
		out = append(out, b, named(b), &eng.MT{Kind: "Ptr", Elem: b})
	}
	out = append(out, &eng.MT{Kind: "Slice", Elem: eng.MTEmptyIface}, &eng.MT{Kind: "Map", Key: eng.MTString, Elem: eng.MTEmptyIface}, &eng.MT{Kind: "Struct"})
	return out
}

// pathsTo: flattened paths of fd cut at the first atom for which hit() is true.
// pathsToInline, when set, lets pathsTo enter helpers (same-package functions that select what
// the caller emits or flags).
var pathsToInline func(call *ast.CallExpr, depth int) (*ast.BlockStmt, *ast.FuncDecl)

func pathsTo(info *types.Info, fd *ast.FuncDecl, hit func(a eng.Atom) bool) [][]eng.Atom {
	w := &eng.Walker{Info: info, MaxPaths: 20000, Inline: pathsToInline, MaxDepth: 2}
	var out [][]eng.Atom
	for _, atoms := range flattenPaths(w.Func(fd.Body), 60000) {
		for i, a := range atoms {
			if hit(a) {
				out = append(out, atoms[:i])
				break
			}
		}
	}
	return out
}

// feasibleUnder: can the path be taken when the interpreter's hook binds the shapes?
func feasibleUnder(in *eng.Interp, atoms []eng.Atom) bool {
	in.Env = map[types.Object]eng.RV{}
	for _, a := range atoms {
		switch a.Kind {
		case "enter":
			// an inlined helper: its parameters hold the values of the arguments
			if a.Callee != nil && a.Callee.Type.Params != nil && a.Call != nil {
				i := 0
				for _, f := range a.Callee.Type.Params.List {
					for _, nm := range f.Names {
						if i < len(a.Call.Args) {
							if obj := in.Info.Defs[nm]; obj != nil {
								in.Env[obj] = in.Eval(a.Call.Args[i])
							}
						}
						i++
					}
				}
			}
		case "assign":
			in.Assign(a.Node.(*ast.AssignStmt))
		case "cond":
			v := in.Eval(a.Node.(ast.Expr))
			if v.K == "panic" {
				return false
			}
			if v.K == "bool" && v.B != a.Taken {
				return false
			}
		case "case":
			if a.Case == nil {
				continue
			}
			sw, _ := a.Case.Switch.(*ast.SwitchStmt)
			if sw == nil {
				continue
			}
			if a.Case.Tag == nil {
				// tagless switch: the chosen clause has a test that may hold, every earlier clause
				// (all other clauses for the default) only tests that may fail
				for _, cl := range sw.Body.List {
					cc := cl.(*ast.CaseClause)
					if cc == a.Case.Clause {
						if cc.List == nil {
							continue
						}
						may := false
						for _, e := range cc.List {
							if v := in.Eval(e); v.K != "bool" || v.B {
								may = true
							}
						}
						if !may {
							return false
						}
						break
					}
					for _, e := range cc.List {
						if v := in.Eval(e); v.K == "bool" && v.B {
							return false
						}
					}
				}
				continue
			}
			tag := in.Eval(a.Case.Tag)
			if tag.K != "kind" && tag.K != "str" && tag.K != "int" {
				continue
			}
			same := func(e ast.Expr) (known, eq bool) {
				v := in.Eval(e)
				if v.K != tag.K {
					return false, false
				}
				return true, v.S == tag.S && v.I == tag.I
			}
			if a.Case.Default || a.Case.Implicit {
				// taken only when no clause's value equals the tag
				for _, cl := range sw.Body.List {
					for _, e := range cl.(*ast.CaseClause).List {
						if known, eq := same(e); known && eq {
							return false
						}
					}
				}
				continue
			}
			if a.Case.Clause == nil {
				continue
			}
			hit := false
			for _, e := range a.Case.Clause.List {
				if known, eq := same(e); !known || eq {
					hit = true
				}
			}
			if !hit {
				return false
			}
		}
	}
	return true
}

func runC15(p *core.Program, r *core.Report) {
	r.Explanation = "Decides the places where static type information SELECTS code (it may otherwise only reject): (R15.1) the code-generation templates whose path conditions depend on a node's static type, on the map-environment flag or on the fast-call flag are enumerated, and each must be one of the selections examined below (a new one is undecided); (R15.2) a specialised instruction whose handler hard-asserts an exact Go type on its operands is selected only when the operands' static types ARE that type: the selecting condition is evaluated, by abstract interpretation of the scheme method over a finite universe of type shapes (nil, predeclared and named basic kinds, pointers, interfaces, containers), and every shape pair under which the specialised instruction can be emitted must be the asserted type on both sides; the fast-call flag is set only for function types that a value must have for the handler's assertion `fn.(func(...interface{}) interface{})` to succeed (evaluated over a universe of function-type shapes: named or not, variadic or not, parameter and result counts, empty / non-empty interfaces); the map-environment flag is set only under the same type assertion the map-fetch handler performs; (R15.3) the typed push of a retyped integer literal delivers a value of the kind of its static type; (R15.4) integer literals are retyped only where call arguments are checked; (R15.5) the untyped pipeline (Eval) is the typed one without checker and optimizer: same parser, same code generator with a nil configuration, same VM."
	r.NotDecided = []string{"equality of results across compilation modes (value-level)", "environments whose run-time value has another type than the declared one", "named types for retyped literals (the typed push delivers the predeclared type of the same kind: a soundness question, C03)"}
	e := loadEngines(p, r, "R15.1")
	if e == nil {
		return
	}
	cinfo := p.Pkg("compiler").TypesInfo
	// ---- R15.1 enumerate type-dependent template conditions
	var typeDep func(c eng.TCond) string
	typeDep = func(c eng.TCond) string {
		var ex ast.Expr = c.Expr
		if c.Case != nil && c.Case.Tag != nil {
			ex = c.Case.Tag
		}
		if c.Case != nil && c.Case.Tag == nil {
			// a tagless switch: the tests are the clauses' expressions (all of them decide the
			// default clause)
			var tests []ast.Expr
			if sw, ok := c.Case.Switch.(*ast.SwitchStmt); ok {
				for _, cl := range sw.Body.List {
					tests = append(tests, cl.(*ast.CaseClause).List...)
				}
			}
			for _, t := range tests {
				if d := typeDep(eng.TCond{Expr: t}); d != "" {
					return d
				}
			}
			return ""
		}
		if ex == nil {
			return ""
		}
		s := eng.ExprStr(ex)
		dep := ""
		ast.Inspect(ex, func(n ast.Node) bool {
			switch x := n.(type) {
			case *ast.SelectorExpr:
				if x.Sel.Name == "Fast" || x.Sel.Name == "mapEnv" || x.Sel.Name == "MapEnv" {
					dep = s
				}
			case *ast.CallExpr:
				if sel, ok := x.Fun.(*ast.SelectorExpr); ok && (sel.Sel.Name == "Type" || sel.Sel.Name == "Kind") {
					dep = s
				}
				// any call that yields a reflect.Kind / reflect.Type (a helper such as kind(node))
				if t := cinfo.TypeOf(x); t != nil && (strings.HasSuffix(t.String(), "reflect.Kind") || strings.HasSuffix(t.String(), "reflect.Type")) {
					dep = s
				}
			case *ast.Ident:
				// a local defined from kind(node.X) / node.Type()
				if o := objOf(cinfo, x); o != nil {
					if t := o.Type(); t != nil && (strings.HasSuffix(t.String(), "reflect.Kind") || strings.HasSuffix(t.String(), "reflect.Type")) {
						if _, isVar := o.(*types.Var); isVar {
							dep = s
						}
					}
				}
			}
			return true
		})
		return dep
	}
	selections := map[string][]string{} // kind -> distinct type-dependent conditions
	for _, t := range e.em.AllTemplates() {
		for _, c := range t.Conds {
			if d := typeDep(c); d != "" {
				found := false
				for _, x := range selections[t.Kind] {
					if x == d {
						found = true
					}
				}
				if !found {
					selections[t.Kind] = append(selections[t.Kind], d)
				}
			}
		}
	}
	known := map[string]string{"BinaryNode": "R15.2 (typed equality)", "IdentifierNode": "R15.2 (map fetch)", "FunctionNode": "R15.2 (fast call)", "IntegerNode": "R15.3 (typed push)"}
	var kinds []string
	for k := range selections {
		kinds = append(kinds, k)
	}
	sort.Strings(kinds)
	for _, k := range kinds {
		if why, ok := known[k]; ok {
			r.OK("R15.1", "compiler/"+k+"/type-directed selection is examined", "", strings.Join(selections[k], "; ")+" → "+why)
		} else {
			r.Unk("R15.1", "compiler/"+k+"/type-directed selection is examined", "", "the code generated for "+k+" depends on static type information ("+strings.Join(selections[k], "; ")+") and no rule of this check examines that selection: a new type-directed fast path must be shown to agree with the general one")
		}
	}
	r.Analysed["type_directed_kinds"] = kinds

	c15TypedOperators(p, r, e, typeDep)
	c15FastCall(p, r, e)
	c15MapEnv(p, r, e)
	c15TypedPush(p, r, e)
	c15Retyping(p, r, e)
	c15Untyped(p, r)
	// the reflective and the fast call must hand the callee the same arguments: no argument cell shared between iterations
	loopAliasRule(p, r, "R15.2", "vm")
	stackFieldBalanceRule(p, r, "R15.2", "checker", "visitor", "[]reflect.Type")
	r.Floor("R15.1", 4)
	r.Floor("R15.2", 4)
	r.Floor("R15.3", 10) // 12 kind cases today; a case the default already covers may be dropped
	r.Floor("R15.4", 1)
	r.Floor("R15.5", 3)
}

// c15TypedOperators: the operator templates with several type-selected variants.
func c15TypedOperators(p *core.Program, r *core.Report, e *engines, typeDep func(eng.TCond) string) {
	info := p.Pkg("compiler").TypesInfo
	method := p.FuncDecl("compiler", "compiler", "BinaryNode")
	if method == nil {
		// by role: the scheme method of BinaryNode
		for _, t := range e.em.Templates["BinaryNode"] {
			if t.Method != nil {
				method = t.Method
			}
		}
	}
	if method == nil {
		r.Unk("R15.2", "compiler/BinaryNode scheme", "", "scheme method not found")
		return
	}
	// opcodes emitted under a type-dependent condition: those with an asserting handler
	pathsToInline = func(call *ast.CallExpr, depth int) (*ast.BlockStmt, *ast.FuncDecl) {
		fn := eng.CalleeOf(info, call)
		if fn == nil || fn.Pkg() != p.Pkg("compiler").Types || e.em.Prims[fn] != "" || fn == e.em.Encode {
			return nil, nil
		}
		sig := fn.Type().(*types.Signature)
		if sig.Recv() != nil || sig.Results().Len() != 1 {
			return nil, nil
		}
		if b, ok := sig.Results().At(0).Type().Underlying().(*types.Basic); !ok || b.Kind() != types.Uint8 {
			return nil, nil
		}
		if _, hfd := p.DeclOf(fn); hfd != nil && hfd.Body != nil {
			return hfd.Body, hfd
		}
		return nil, nil
	}
	defer func() { pathsToInline = nil }()
	universe := shapeUniverse()
	emitted := map[string]bool{}
	for _, t := range e.em.Templates["BinaryNode"] {
		for _, ev := range t.Events {
			if ev.Kind == "instr" {
				emitted[ev.Op] = true
			}
		}
	}
	var ops []string
	for op := range emitted {
		ops = append(ops, op)
	}
	sort.Strings(ops)
	n := 0
	for _, op := range ops {
		ats := assertedOperandTypes(p, e, op)
		// is the opcode a SPECIALISED variant: emitted under a condition that was taken?
		// (emitted ONLY on paths on which a type-dependent test holds; the general instruction is
		// also reached when every such test fails)
		specialised, nEmit := true, 0
		for _, t := range e.em.Templates["BinaryNode"] {
			has := false
			for _, ev := range t.Events {
				if ev.Kind == "instr" && ev.Op == op {
					has = true
				}
			}
			if !has {
				continue
			}
			nEmit++
			holds := false
			for _, c := range t.Conds {
				// a type-dependent test that HOLDS on this path: an if taken, or a non-default case
				if typeDep(c) == "" {
					continue
				}
				if (c.Case == nil && c.Taken) || (c.Case != nil && !c.Case.Default && !c.Case.Implicit) {
					holds = true
				}
			}
			if !holds {
				specialised = false
			}
		}
		specialised = specialised && nEmit > 0
		{
			// … and the operator alone does not determine it
			alt := false
			by := map[string][2]int{}
			for _, t := range e.em.Templates["BinaryNode"] {
				if t.Term == "panic" {
					continue
				}
				has := false
				for _, ev := range t.Events {
					if ev.Kind == "instr" && ev.Op == op {
						has = true
					}
				}
				for _, l := range templateLabels(p, t, "Operator") {
					c := by[l]
					if has {
						c[0]++
					} else {
						c[1]++
					}
					by[l] = c
				}
			}
			for _, c := range by {
				if c[0] > 0 && c[1] > 0 {
					alt = true
				}
			}
			specialised = specialised && alt
		}
		if specialised {
			okAssert := len(ats) == 2 && ats[0] != nil && ats[1] != nil
			if okAssert {
				b0, ok0 := ats[0].(*types.Basic)
				b1, ok1 := ats[1].(*types.Basic)
				okAssert = ok0 && ok1 && b0 == b1
			}
			r.Check(okAssert, "R15.2", "vm.(VM).Run/case "+op+"/a type-selected instruction hard-asserts its operands' type", p.Pos(e.vm.Handlers[op].Clause.Pos()), "both operands asserted to one predeclared type",
				"the handler of "+op+", an instruction the code generator selects from static types, does not hard-assert one predeclared type on both operands (it converts or dispatches instead): when the static type was only an approximation of the run-time value (arithmetic over a dynamic operand is typed int), the typed program now computes on a converted value and SUCCEEDS with another result than the untyped program, instead of failing")
		}
		if len(ats) != 2 || ats[0] == nil || ats[1] == nil {
			continue
		}
		b0, ok0 := ats[0].(*types.Basic)
		b1, ok1 := ats[1].(*types.Basic)
		if !ok0 || !ok1 || b0 != b1 {
			continue
		}
		// is the opcode's emission type-selected? (emitted in a template with a type-dependent cond)
		// (among the templates of one operator, some emit it and some do not: what is emitted
		// depends on something besides the operator — the static types)
		selected := false
		emits := func(t *eng.Template) bool {
			for _, ev := range t.Events {
				if ev.Kind == "instr" && ev.Op == op {
					return true
				}
			}
			return false
		}
		byLabel := map[string][2]int{} // label -> (templates emitting op, templates not emitting it)
		for _, t := range e.em.Templates["BinaryNode"] {
			if t.Term == "panic" {
				continue
			}
			for _, l := range templateLabels(p, t, "Operator") {
				c := byLabel[l]
				if emits(t) {
					c[0]++
				} else {
					c[1]++
				}
				byLabel[l] = c
			}
		}
		for _, c := range byLabel {
			if c[0] > 0 && c[1] > 0 {
				selected = true
			}
		}
		if !selected {
			continue // selected by the operator alone: admission is the checker's business (C03)
		}
		n++
		want := strings.ToUpper(b0.Name()[:1]) + b0.Name()[1:]
		key := "compiler/BinaryNode/" + op + " only for operands of exactly " + b0.Name()
		opObj := p.Pkg("vm").Types.Scope().Lookup(op)
		paths := pathsTo(info, method, func(a eng.Atom) bool {
			// the opcode is handed to a call (emit) or bound to a variable that is emitted later
			isOp := func(x ast.Expr) bool {
				id, ok := eng.Unparen(x).(*ast.Ident)
				return ok && info.Uses[id] == opObj
			}
			switch {
			case a.Kind == "call" && a.Call != nil:
				for _, arg := range a.Call.Args {
					if isOp(arg) {
						return true
					}
				}
			case a.Kind == "assign":
				for _, rhs := range a.Node.(*ast.AssignStmt).Rhs {
					if isOp(rhs) {
						return true
					}
				}
			case a.Kind == "return":
				for _, res := range a.Node.(*ast.ReturnStmt).Results {
					if isOp(res) {
						return true
					}
				}
			}
			return false
		})
		if len(paths) == 0 {
			r.Unk("R15.2", key, p.Pos(method.Pos()), "no path of the scheme method emits "+op)
			continue
		}
		var bad []string
		for _, A := range universe {
			for _, B := range universe {
				in := eng.NewInterp(p, "compiler")
				in.Hook = func(x ast.Expr) (eng.RV, bool) {
					if sel, ok := x.(*ast.SelectorExpr); ok && (sel.Sel.Name == "Left" || sel.Sel.Name == "Right") && eng.ExprStr(sel.X) == "node" {
						return eng.RV{K: "node", S: sel.Sel.Name}, true
					}
					return eng.RV{}, false
				}
				in.NodeType = func(path string) (*eng.MT, bool) {
					switch path {
					case "Left":
						return A, true
					case "Right":
						return B, true
					}
					return nil, false
				}
				feasible := false
				for _, atoms := range paths {
					if feasibleUnder(in, atoms) {
						feasible = true
					}
				}
				if !feasible {
					continue
				}
				okA := A != nil && A.Kind == want && !A.Named
				okB := B != nil && B.Kind == want && !B.Named
				if !okA || !okB {
					bad = append(bad, "("+A.String()+", "+B.String()+")")
				}
			}
		}
		if len(bad) > 6 {
			bad = append(bad[:6], fmt.Sprintf("… %d more", len(bad)-6))
		}
		r.Check(len(bad) == 0, "R15.2", key, p.Pos(method.Pos()), "emitted only when both static types are the predeclared "+b0.Name(),
			op+" — whose handler asserts `.("+b0.Name()+")` on both operands — can be emitted for operands of static types "+strings.Join(bad, ", ")+": for a named type of the same kind the typed program fails the assertion at run time where the untyped program compares and succeeds")
	}
	r.Analysed["type_selected_asserting_opcodes"] = n
}

// funcShapes: a universe of function-type shapes around func(...interface{}) interface{}.
func funcShapes() []*eng.MT {
	ei := eng.MTEmptyIface
	ni := &eng.MT{Kind: "Interface", NumMethod: 1}
	namedEI := &eng.MT{Kind: "Interface", Named: true}
	sl := func(t *eng.MT) *eng.MT { return &eng.MT{Kind: "Slice", Elem: t} }
	params := []*eng.MT{ei, ni, eng.MTInt, sl(ei), sl(ni), sl(eng.MTInt), sl(namedEI)}
	outs := [][]*eng.MT{{}, {ei}, {ni}, {eng.MTInt}, {namedEI}, {ei, ei}}
	var out []*eng.MT
	for _, named := range []bool{false, true} {
		for _, o := range outs {
			// 0..3 parameters; the last decides variadic-ness
			var rec func(ps []*eng.MT, depth int)
			rec = func(ps []*eng.MT, depth int) {
				out = append(out, &eng.MT{Kind: "Func", Named: named, In: append([]*eng.MT{}, ps...), Out: o})
				if len(ps) > 0 && ps[len(ps)-1].Kind == "Slice" {
					out = append(out, &eng.MT{Kind: "Func", Named: named, In: append([]*eng.MT{}, ps...), Out: o, Variadic: true})
				}
				if depth == 3 {
					return
				}
				for _, q := range params {
					if depth >= 1 && q != ei && q != sl(ei) && q.Kind != "Slice" {
						continue // keep the universe small: vary the non-last parameters little
					}
					rec(append(append([]*eng.MT{}, ps...), q), depth+1)
				}
			}
			rec(nil, 0)
		}
	}
	return out
}

func c15FastCall(p *core.Program, r *core.Report, e *engines) {
	info := p.Pkg("checker").TypesInfo
	// the asserted type of the fast-call handler
	var asserted *types.Signature
	for _, name := range e.vm.SortedNames() {
		h := e.vm.Handlers[name]
		if h == nil {
			continue
		}
		ast.Inspect(h.Clause, func(n ast.Node) bool {
			if ta, ok := n.(*ast.TypeAssertExpr); ok && ta.Type != nil {
				if sig, ok := p.Pkg("vm").TypesInfo.TypeOf(ta.Type).(*types.Signature); ok {
					asserted = sig
				}
			}
			return true
		})
	}
	if asserted == nil {
		r.Unk("R15.2", "vm/fast call assertion", "", "no handler asserts a function type")
		return
	}
	// assignments of the Fast flag
	var sites []*ast.AssignStmt
	var fds []*ast.FuncDecl
	for _, fd := range p.FuncDecls("checker") {
		if fd.Body == nil {
			continue
		}
		ast.Inspect(fd.Body, func(n ast.Node) bool {
			as, ok := n.(*ast.AssignStmt)
			if !ok || len(as.Lhs) != 1 {
				return true
			}
			if sel, ok := as.Lhs[0].(*ast.SelectorExpr); ok && sel.Sel.Name == "Fast" {
				sites = append(sites, as)
				fds = append(fds, fd)
			}
			return true
		})
	}
	if len(sites) == 0 {
		r.Unk("R15.2", "checker/fast-call flag", "", "no assignment of the Fast flag found in the checker")
		return
	}
	shapes := funcShapes()
	r.Analysed["function_shapes"] = len(shapes)
	for i, as := range sites {
		fd := fds[i]
		key := fmt.Sprintf("%s/fast-call flag only for func(...interface{}) interface{}#%d", core.FuncName("checker", fd), i+1)
		paths := pathsTo(info, fd, func(a eng.Atom) bool { return a.Kind == "assign" && a.Node == ast.Node(as) })
		if len(paths) == 0 {
			r.Unk("R15.2", key, p.Pos(as.Pos()), "no path reaches the assignment")
			continue
		}
		var bad []string
		nFeasible := 0
		for _, m := range []bool{false, true} {
			for _, S := range shapes {
				in := eng.NewInterp(p, "checker")
				in.Hook = func(x ast.Expr) (eng.RV, bool) {
					if sel, ok := x.(*ast.SelectorExpr); ok {
						if t := info.TypeOf(sel.X); t != nil && strings.HasSuffix(t.String(), "conf.Tag") {
							switch sel.Sel.Name {
							case "Type":
								return eng.RV{K: "type", T: S}, true
							case "Method":
								return eng.RV{K: "bool", B: m}, true
							}
						}
					}
					return eng.RV{}, false
				}
				feasible := false
				for _, atoms := range paths {
					if feasibleUnder(in, atoms) {
						feasible = true
					}
				}
				if !feasible {
					continue
				}
				nFeasible++
				// the value the VM asserts: the function itself, or the bound method (receiver dropped)
				ins := S.In
				if m {
					if len(ins) == 0 {
						bad = append(bad, S.String()+" (method without receiver)")
						continue
					}
					ins = ins[1:]
				}
				ok := !S.Named && S.Variadic == asserted.Variadic() && len(ins) == asserted.Params().Len() && len(S.Out) == asserted.Results().Len()
				if ok {
					for j := range ins {
						want, _ := goTypeShape(asserted.Params().At(j).Type())
						if !ins[j].Same(want) {
							ok = false
						}
					}
					for j := range S.Out {
						want, _ := goTypeShape(asserted.Results().At(j).Type())
						if !S.Out[j].Same(want) {
							ok = false
						}
					}
				}
				if m && S.Named {
					ok = !false && ok // a method's type is never a named func type; unreachable shape
				}
				if !ok {
					tag := ""
					if m {
						tag = " as a method"
					}
					bad = append(bad, S.String()+tag)
				}
			}
		}
		if nFeasible == 0 {
			r.Unk("R15.2", key, p.Pos(as.Pos()), "the flag can be set for no function shape of the universe: the condition was not understood")
			continue
		}
		if len(bad) > 5 {
			bad = append(bad[:5], fmt.Sprintf("… %d more", len(bad)-5))
		}
		r.Check(len(bad) == 0, "R15.2", key, p.Pos(as.Pos()), fmt.Sprintf("set for %d shapes, all assertable to %s", nFeasible, asserted.String()),
			"the fast-call flag can be set for function types "+strings.Join(bad, "; ")+" — the fast-call handler asserts exactly `"+asserted.String()+"`, so for these the typed program panics in the assertion where the untyped program calls the function reflectively and succeeds")
	}
}

// goTypeShape: model of a go/types type (parameters/results of the asserted signature).
func goTypeShape(t types.Type) (*eng.MT, bool) {
	switch x := t.(type) {
	case *types.Slice:
		e, ok := goTypeShape(x.Elem())
		return &eng.MT{Kind: "Slice", Elem: e}, ok
	case *types.Interface:
		return &eng.MT{Kind: "Interface", NumMethod: x.NumMethods()}, true
	case *types.Basic:
		n := x.Name()
		return &eng.MT{Kind: strings.ToUpper(n[:1]) + n[1:]}, true
	}
	return nil, false
}

// c15MapEnv: the map-fetch instruction asserts env.(T); the flag that selects it is true only
// under the same assertion.
func c15MapEnv(p *core.Program, r *core.Report, e *engines) {
	vinfo := p.Pkg("vm").TypesInfo
	// the asserted type on the environment in a fetch-like handler with a const operand
	var assertedT types.Type
	var opName string
	for _, name := range e.vm.SortedNames() {
		h := e.vm.Handlers[name]
		if h == nil {
			continue
		}
		ast.Inspect(h.Clause, func(n ast.Node) bool {
			ta, ok := n.(*ast.TypeAssertExpr)
			if !ok || ta.Type == nil {
				return true
			}
			if id, ok := eng.Unparen(ta.X).(*ast.Ident); ok && e.vm.EnvParam != nil && objOf(vinfo, id) == e.vm.EnvParam {
				assertedT, opName = vinfo.TypeOf(ta.Type), name
			}
			return true
		})
	}
	if assertedT == nil {
		r.Unk("R15.2", "vm/environment assertion", "", "no handler asserts a type on the environment")
		return
	}
	// every write of a field named MapEnv / mapEnv
	n := 0
	for _, rel := range []string{"", "conf", "compiler", "checker", "optimizer"} {
		info := p.Pkg(rel).TypesInfo
		for _, fd := range p.FuncDecls(rel) {
			if fd.Body == nil {
				continue
			}
			var stack []ast.Node
			ast.Inspect(fd.Body, func(nd ast.Node) bool {
				if nd == nil {
					stack = stack[:len(stack)-1]
					return true
				}
				stack = append(stack, nd)
				var val ast.Expr
				switch x := nd.(type) {
				case *ast.AssignStmt:
					if len(x.Lhs) == 1 && len(x.Rhs) == 1 {
						if sel, ok := x.Lhs[0].(*ast.SelectorExpr); ok && strings.EqualFold(sel.Sel.Name, "mapenv") {
							val = x.Rhs[0]
						}
					}
				case *ast.KeyValueExpr:
					if id, ok := x.Key.(*ast.Ident); ok && strings.EqualFold(id.Name, "mapenv") {
						val = x.Value
					}
				}
				if val == nil {
					return true
				}
				n++
				key := fmt.Sprintf("%s/map-environment flag write#%d", core.FuncName(rel, fd), n)
				pos := p.Pos(nd.Pos())
				// resolve a local bool to its assignments
				ok, why := mapEnvValueOK(info, fd, stack, val, assertedT)
				r.Check(ok, "R15.2", key, pos, why, opName+" asserts `env.("+assertedT.String()+")`; the flag that selects it is set here from `"+eng.ExprStr(val)+"`: "+why+" — for an environment of another map type the typed program fails the assertion where the untyped one fetches reflectively")
				return true
			})
		}
	}
	if n == 0 {
		r.Unk("R15.2", "map-environment flag", "", "no write of the map-environment flag found")
	}
}

func mapEnvValueOK(info *types.Info, fd *ast.FuncDecl, stack []ast.Node, val ast.Expr, want types.Type) (bool, string) {
	val = eng.Unparen(val)
	// copied from another flag field
	if sel, ok := val.(*ast.SelectorExpr); ok && strings.EqualFold(sel.Sel.Name, "mapenv") {
		return true, "copied from the configuration's flag"
	}
	underAssert := func(stack []ast.Node) bool {
		for _, anc := range stack {
			is, ok := anc.(*ast.IfStmt)
			if !ok || is.Init == nil {
				continue
			}
			as, ok := is.Init.(*ast.AssignStmt)
			if !ok || len(as.Lhs) != 2 || len(as.Rhs) != 1 {
				continue
			}
			ta, ok := eng.Unparen(as.Rhs[0]).(*ast.TypeAssertExpr)
			if !ok || ta.Type == nil || !types.Identical(info.TypeOf(ta.Type), want) {
				continue
			}
			okID, isID := as.Lhs[1].(*ast.Ident)
			cid, isC := eng.Unparen(is.Cond).(*ast.Ident)
			if isID && isC && objOf(info, okID) == objOf(info, cid) {
				return true
			}
		}
		return false
	}
	if tv, ok := info.Types[val]; ok && tv.Value != nil {
		if tv.Value.ExactString() == "false" {
			return true, "constant false"
		}
		if underAssert(stack) {
			return true, "true under the same assertion env.(" + want.String() + ")"
		}
		return false, "set to true outside a successful assertion to " + want.String()
	}
	if id, ok := val.(*ast.Ident); ok {
		obj := objOf(info, id)
		allOK := true
		var st []ast.Node
		ast.Inspect(fd.Body, func(nd ast.Node) bool {
			if nd == nil {
				st = st[:len(st)-1]
				return true
			}
			st = append(st, nd)
			as, ok := nd.(*ast.AssignStmt)
			if !ok || len(as.Lhs) != 1 || len(as.Rhs) != 1 {
				return true
			}
			lid, ok := as.Lhs[0].(*ast.Ident)
			if !ok || objOf(info, lid) != obj {
				return true
			}
			tv, isConst := info.Types[as.Rhs[0]]
			if !isConst || tv.Value == nil {
				allOK = false
				return true
			}
			if tv.Value.ExactString() == "true" && !underAssert(st) {
				allOK = false
			}
			return true
		})
		if allOK {
			return true, "a local that becomes true only under the same assertion env.(" + want.String() + ")"
		}
		return false, "a local that can become true outside a successful assertion to " + want.String()
	}
	return false, "value not understood"
}

// c15TypedPush (R15.3): each kind case of the literal's typed push delivers that kind.
func c15TypedPush(p *core.Program, r *core.Report, e *engines) { typedPushRule(p, r, e, "R15.3") }

func typedPushRule(p *core.Program, r *core.Report, e *engines, rule string) {
	info := p.Pkg("compiler").TypesInfo
	for _, t := range e.em.Templates["IntegerNode"] {
		var kinds []string
		for _, c := range t.Conds {
			if c.Case != nil && c.Case.Clause != nil {
				for _, ex := range c.Case.Clause.List {
					if sel, ok := eng.Unparen(ex).(*ast.SelectorExpr); ok {
						kinds = append(kinds, sel.Sel.Name)
					}
				}
			}
		}
		for _, ev := range t.Events {
			if ev.Kind != "instr" || ev.Operand.Kind != "const" {
				continue
			}
			pt := ev.Operand.ConstType
			if pt == nil && ev.Operand.ConstExpr != nil {
				pt = info.TypeOf(ev.Operand.ConstExpr)
			}
			for _, k := range kinds {
				key := "compiler/IntegerNode/literal retyped to kind " + k + " is pushed as that kind"
				b, ok := pt.(*types.Basic)
				got := ""
				if ok {
					got = strings.ToUpper(b.Name()[:1]) + b.Name()[1:]
				}
				r.Check(got == k, rule, key, tplPos(p, e, t), "pushes "+got, "a literal whose static type has kind "+k+" is pushed as `"+eng.ExprStr(ev.Operand.ConstExpr)+"` of type "+fmt.Sprint(pt)+": the typed program hands the callee a value of another type than the checker promised")
			}
		}
	}
}

// c15Retyping (R15.4): who may retype integer literals.
func c15Retyping(p *core.Program, r *core.Report, e *engines) {
	info := p.Pkg("checker").TypesInfo
	_, where := retypableOperators(p, e.nk)
	if where == "" {
		r.Unk("R15.4", "checker/literal retyping", "", "the function that retypes integer literals was not found")
		return
	}
	var retype *types.Func
	for _, fd := range p.FuncDecls("checker") {
		if core.FuncName("checker", fd) == where {
			retype, _ = info.Defs[fd.Name].(*types.Func)
		}
	}
	n := 0
	for _, fd := range p.FuncDecls("checker") {
		if fd.Body == nil {
			continue
		}
		self, _ := info.Defs[fd.Name].(*types.Func)
		ast.Inspect(fd.Body, func(nd ast.Node) bool {
			c, ok := nd.(*ast.CallExpr)
			if !ok || eng.CalleeOf(info, c) != retype || self == retype {
				return true
			}
			n++
			// the argument position: inside the function that iterates call arguments and
			// computes the parameter type `in`
			inArgs := false
			ast.Inspect(fd.Body, func(m ast.Node) bool {
				if rs, ok := m.(*ast.RangeStmt); ok && strings.Contains(strings.ToLower(eng.ExprStr(rs.X)), "argument") && c.Pos() > rs.Pos() && c.End() < rs.End() {
					inArgs = true
				}
				return true
			})
			r.Check(inArgs, "R15.4", fmt.Sprintf("%s/literal retyping site#%d", core.FuncName("checker", fd), n), p.Pos(c.Pos()), "inside the loop over call arguments: the literal takes the parameter's type",
				"integer literals are retyped outside the checking of call arguments: the compiler converts a retyped literal to its new type at compile time (300 as uint8 is 44), so an operator whose literal operand is retyped to the other operand's type computes on another value than the untyped program, which keeps the literal an int")
			return true
		})
	}
	// SetType on an integer literal anywhere else in the checker is retyping by another name
	for _, fd := range p.FuncDecls("checker") {
		if fd.Body == nil {
			continue
		}
		self, _ := info.Defs[fd.Name].(*types.Func)
		if self == retype {
			continue
		}
		k := 0
		ast.Inspect(fd.Body, func(nd ast.Node) bool {
			c, ok := nd.(*ast.CallExpr)
			if !ok {
				return true
			}
			sel, ok := c.Fun.(*ast.SelectorExpr)
			if !ok || sel.Sel.Name != "SetType" {
				return true
			}
			if kk := e.nk.KindOfType(info.TypeOf(sel.X)); kk != nil && kk.Name == "IntegerNode" {
				k++
				r.Bad("R15.4", fmt.Sprintf("%s/direct retyping of an integer literal#%d", core.FuncName("checker", fd), k), p.Pos(c.Pos()),
					"the checker sets the static type of an integer literal outside the function that retypes call arguments: the compiler converts a retyped literal to its new type at compile time (300 as uint8 is 44), so `Small == 300` compares with 44 when compiled with a declared environment and with 300 without")
			}
			return true
		})
	}
	if n == 0 {
		r.Unk("R15.4", "checker/literal retyping sites", "", "the retyping function is never called")
	}
}

// c15Untyped (R15.5).
func c15Untyped(p *core.Program, r *core.Report) {
	fd := p.FuncDecl("", "", "Eval")
	if fd == nil {
		r.Unk("R15.5", "expr.Eval", "", "not found")
		return
	}
	info := p.Pkg("").TypesInfo
	want := []struct{ rel, name string }{{"parser", "Parse"}, {"compiler", "Compile"}, {"vm", "Run"}}
	var got []string
	nilConfig := false
	ast.Inspect(fd.Body, func(n ast.Node) bool {
		c, ok := n.(*ast.CallExpr)
		if !ok {
			return true
		}
		fn := eng.CalleeOf(info, c)
		if fn == nil || fn.Pkg() == nil {
			return true
		}
		if rel, lib := p.RelOf(fn.Pkg()); lib && rel != "" {
			got = append(got, rel+"."+fn.Name())
			if rel == "compiler" && len(c.Args) == 2 && isNilIdent(info, c.Args[1]) {
				nilConfig = true
			}
		}
		return true
	})
	var ws []string
	for _, w := range want {
		ws = append(ws, w.rel+"."+w.name)
	}
	r.Check(strings.Join(got, ",") == strings.Join(ws, ","), "R15.5", "expr.Eval/stages", p.Pos(fd.Pos()), strings.Join(got, " → "), "Eval runs "+strings.Join(got, " → ")+"; the untyped pipeline is "+strings.Join(ws, " → "))
	r.Check(nilConfig, "R15.5", "expr.Eval/no configuration", p.Pos(fd.Pos()), "compiler.Compile(tree, nil)", "Eval hands the code generator a configuration: type-directed selection is then possible without a declared environment")
	// the typed pipeline uses the same three
	cfd := p.FuncDecl("", "", "Compile")
	rfd := p.FuncDecl("", "", "Run")
	okTyped := false
	if cfd != nil && rfd != nil {
		seen := map[string]bool{}
		for _, f := range []*ast.FuncDecl{cfd, rfd} {
			ast.Inspect(f.Body, func(n ast.Node) bool {
				if c, ok := n.(*ast.CallExpr); ok {
					if fn := eng.CalleeOf(info, c); fn != nil && fn.Pkg() != nil {
						if rel, lib := p.RelOf(fn.Pkg()); lib {
							seen[rel+"."+fn.Name()] = true
						}
					}
				}
				return true
			})
		}
		okTyped = seen["parser.Parse"] && seen["compiler.Compile"] && seen["vm.Run"]
	}
	r.Check(okTyped, "R15.5", "expr.Compile+Run/same parser, code generator and VM", "", "parser.Parse, compiler.Compile, vm.Run", "the typed pipeline does not use the same parser, code generator and VM entry points as Eval")
	_ = token.NoPos
}

func c15Controls() []core.Mutant {
	return []core.Mutant{
		{Name: "integer equality instruction converts instead of asserting", File: "vm/vm.go", Old: "vm.push(a.(int) == b.(int))", New: "vm.push(toInt(a) == toInt(b))", Rule: "R15.2", Construct: "OpEqualInt/a type-selected instruction hard-asserts"},
		{Name: "integer equality selected by kind alone", File: "compiler/compiler.go", Old: "if simple && l == r && l == reflect.Int {", New: "if l == r && l == reflect.Int {", Rule: "R15.2", Construct: "OpEqualInt"},
		{Name: "fast call for every variadic function with an interface result", File: "checker/checker.go", Old: "fn.Out(0) == interfaceType {", New: "fn.Out(0).Kind() == reflect.Interface {", Rule: "R15.2", Construct: "fast-call flag"},
		{Name: "fast call also for named function types", File: "checker/checker.go", Old: "if rest == arrayType && fn.Name() == \"\" {", New: "if rest == arrayType {", Rule: "R15.2", Construct: "fast-call flag"},
		{Name: "map environment recognised by kind", File: "expr.go", Old: "\t\tif _, ok := env.(map[string]interface{}); ok {\n\t\t\tc.MapEnv = true", New: "\t\tif reflect.ValueOf(env).Kind() == reflect.Map {\n\t\t\tc.MapEnv = true", Rule: "R15.2", Construct: "map-environment flag"},
		{Name: "float32 literal pushed as float64", File: "compiler/compiler.go", Old: "\tcase reflect.Float32:\n\t\tc.emitPush(float32(node.Value))", New: "\tcase reflect.Float32:\n\t\tc.emitPush(float64(node.Value))", Rule: "R15.3", Construct: "Float32"},
		{Name: "literal operand of == takes the other operand's type", File: "checker/checker.go", Old: "\tcase \"==\", \"!=\":\n\t\tif isNumber(l) && isNumber(r) {\n", New: "\tcase \"==\", \"!=\":\n\t\tif isNumber(l) && isNumber(r) {\n\t\t\tif isIntegerOrArithmeticOperation(node.Right) && isInteger(l) {\n\t\t\t\tsetTypeForIntegers(node.Right, l)\n\t\t\t}\n", Rule: "R15.4", Construct: "literal retyping site"},
		{Name: "new float equality fast path selected by kind", File: "compiler/compiler.go", Old: "\t\t} else if simple && l == r && l == reflect.String {\n\t\t\tc.emit(OpEqualString)", New: "\t\t} else if simple && l == r && l == reflect.String {\n\t\t\tc.emit(OpEqualString)\n\t\t} else if l == r && l == reflect.Float64 {\n\t\t\tc.emit(OpEqualString)", Rule: "R15.2", Construct: "OpEqualString"},
		{Name: "Eval type-checks against the value", File: "expr.go", Old: "\tprogram, err := compiler.Compile(tree, nil)\n\tif err != nil {\n\t\treturn nil, err\n\t}\n\n\toutput, err := vm.Run(program, env)", New: "\tprogram, err := compiler.Compile(tree, conf.New(env))\n\tif err != nil {\n\t\treturn nil, err\n\t}\n\n\toutput, err := vm.Run(program, env)", Rule: "R15.5", Construct: "no configuration"},
		{Name: "argument cell hoisted out of the reflective call loop", File: "vm/vm.go", Old: "\t\tcase OpCall:\n\t\t\tcall := vm.constant().(Call)\n\t\t\tin := make([]reflect.Value, call.Size)\n\t\t\tfor i := call.Size - 1; i >= 0; i-- {\n\t\t\t\tparam := vm.pop()", New: "\t\tcase OpCall:\n\t\t\tcall := vm.constant().(Call)\n\t\t\tin := make([]reflect.Value, call.Size)\n\t\t\tvar param interface{}\n\t\t\tfor i := call.Size - 1; i >= 0; i-- {\n\t\t\t\tparam = vm.pop()", Rule: "R15.2", Construct: "address of `param`"},
	}
}
