// Package props: one file per property; each registers its rules here.
package props

import "verif/exprlint/core"

type Prop struct {
	ID       string
	Run      func(p *core.Program, r *core.Report)
	Controls func() []core.Mutant // first entries double as quick-tier positive controls
}

var Registry = map[string]*Prop{}

func register(p *Prop) { Registry[p.ID] = p }
