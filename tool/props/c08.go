package props

import (
	"fmt"
	"go/token"
	"go/types"
	"sort"
	"strings"

	"golang.org/x/tools/go/callgraph"
	"golang.org/x/tools/go/callgraph/cha"
	"golang.org/x/tools/go/callgraph/vta"
	"golang.org/x/tools/go/ssa"
	"golang.org/x/tools/go/ssa/ssautil"

	"verif/exprlint/core"
	"verif/exprlint/eng"
)

// runSide computes the library functions reachable from vm.Run / (*VM).Run (VTA call graph;
// closures nested in a reachable function are reachable; Error/String methods of the
// packages involved are added because fmt reaches them reflectively).
func runSide(p *core.Program, ef *eng.Effects) (map[*ssa.Function]bool, []string) {
	prog, pkgs := p.SSA()
	all := ssautil.AllFunctions(prog)
	cg := vta.CallGraph(all, cha.CallGraph(prog))
	var roots []*ssa.Function
	var names []string
	if vp := pkgs["vm"]; vp != nil {
		if f := vp.Func("Run"); f != nil {
			roots = append(roots, f)
		}
		if t := vp.Type("VM"); t != nil {
			for _, m := range []string{"Run"} {
				if f := prog.LookupMethod(typesPointer(t), vp.Pkg, m); f != nil {
					roots = append(roots, f)
				}
			}
		}
	}
	reach := map[*ssa.Function]bool{}
	var work []*ssa.Function
	push := func(f *ssa.Function) {
		if f == nil || reach[f] || f.Blocks == nil || f.Package() == nil {
			return
		}
		if rel, ok := p.RelOf(f.Package().Pkg); !ok || !core.IsLib(rel) {
			return
		}
		reach[f] = true
		work = append(work, f)
	}
	for _, r := range roots {
		push(r)
		names = append(names, ef.FuncKey(r))
	}
	for len(work) > 0 {
		f := work[len(work)-1]
		work = work[:len(work)-1]
		for _, an := range f.AnonFuncs {
			push(an)
		}
		if n := cg.Nodes[f]; n != nil {
			for _, ed := range n.Out {
				push(ed.Callee.Func)
			}
		}
	}
	// Error / String methods of the packages touched so far
	touched := map[string]bool{}
	for f := range reach {
		touched[ef.Rel(f)] = true
	}
	for _, f := range ef.Funcs {
		if touched[ef.Rel(f)] && f.Signature.Recv() != nil && (f.Name() == "Error" || f.Name() == "String") {
			push(f)
		}
	}
	for len(work) > 0 {
		f := work[len(work)-1]
		work = work[:len(work)-1]
		for _, an := range f.AnonFuncs {
			push(an)
		}
		if n := cg.Nodes[f]; n != nil {
			for _, ed := range n.Out {
				push(ed.Callee.Func)
			}
		}
	}
	_ = callgraph.GraphVisitEdges
	return reach, names
}

func init() {
	dumpers["effects"] = func(p *core.Program) {
		ef := eng.BuildEffects(p)
		reach, _ := runSide(p, ef)
		fmt.Println(len(ef.Funcs), "library functions;", len(reach), "on the run side")
		for _, fn := range ef.Funcs {
			for _, e := range ef.EffectsOf(fn) {
				var rs []string
				interesting := false
				for _, r := range e.Roots {
					rs = append(rs, r.String())
					if r.Kind != eng.RootFresh && r.Kind != eng.RootNil {
						interesting = true
					}
				}
				if !interesting {
					continue
				}
				tag := "      "
				if reach[fn] {
					tag = "[run] "
				}
				fmt.Printf("%s%-50s %-10s %s  %s\n", tag, ef.FuncKey(fn), e.What, strings.Join(rs, ","), p.Pos(e.Pos))
			}
			for _, s := range ef.SourcesOf(fn) {
				tag := "      "
				if reach[fn] {
					tag = "[run] "
				}
				fmt.Printf("%s%-50s SOURCE %s %s\n", tag, ef.FuncKey(fn), s.What, p.Pos(s.Pos))
			}
		}
		var names []string
		for f := range reach {
			names = append(names, ef.FuncKey(f))
		}
		sort.Strings(names)
		fmt.Println("run side:", names)
	}
}

func init() {
	register(&Prop{ID: "C08", Run: runC08, Controls: c08Controls})
}

// perRunReceivers: receiver types whose instances belong to one run (reason per entry).
var perRunReceivers = map[string]string{
	"vm.VM":      "the per-call machine: vm.Run creates one per call; a caller-owned VM is by contract used by one goroutine",
	"file.Error": "built fresh by Run's recover handler",
}

func recvTypeKey(ef *eng.Effects, fn *ssa.Function) string {
	for f := fn; f != nil; f = f.Parent() {
		if r := f.Signature.Recv(); r != nil {
			t := r.Type()
			if pt, ok := t.(*types.Pointer); ok {
				t = pt.Elem()
			}
			if n, ok := t.(*types.Named); ok {
				return n.Obj().Pkg().Name() + "." + n.Obj().Name()
			}
		}
	}
	return ""
}

// borrowedFields: fields of a per-run receiver that are assigned a value coming from a
// non-receiver parameter (the program's code and constants): the object behind such a field
// is shared with other runs.
func borrowedFields(ef *eng.Effects, fns map[*ssa.Function]bool) map[string]bool {
	out := map[string]bool{}
	for fn := range fns {
		for _, b := range fn.Blocks {
			for _, in := range b.Instrs {
				st, ok := in.(*ssa.Store)
				if !ok {
					continue
				}
				fa, ok := st.Addr.(*ssa.FieldAddr)
				if !ok {
					continue
				}
				isRecv := false
				for _, r := range ef.RootsOf(fa.X) {
					if r.Kind == eng.RootRecv && r.Detail == "" {
						isRecv = true
					}
				}
				if !isRecv {
					continue
				}
				for _, r := range ef.RootsOf(st.Val) {
					if r.Kind == eng.RootParam || r.Kind == eng.RootGlobal {
						for _, rr := range ef.RootsOf(st.Addr) {
							if rr.Kind == eng.RootRecv {
								out[recvTypeKey(ef, fn)+"."+rr.Detail] = true
							}
						}
					}
				}
			}
		}
	}
	return out
}

func runC08(p *core.Program, r *core.Report) {
	r.Explanation = "Decides freedom from writes to shared state as an effect property over the SSA form of every library function: (R8.4) no function other than a package initialiser has a write effect (store, map update, append, copy, delete, send, close, sort, reflect setter) whose target is rooted at a package-level variable; (R8.1) every write effect of every function reachable from vm.Run / (*VM).Run is rooted at a fresh object or at the per-run receiver (the VM, the fresh file.Error), never at a parameter (program, env), never behind a field borrowed from the program (code, constants), never behind a dynamic value taken from the stack; (R8.2) fields of vm.Program are stored only into a Program allocated in the same function; (R8.5) pointer-receiver methods of foreign packages that the run side calls on non-fresh objects are in a reasoned allow-list."
	r.NotDecided = []string{"data races inside environment functions, user visitors, or reflect-invoked methods", "that every run returns what it returns alone (follows from C07's argument, not from this check)"}
	ef := eng.BuildEffects(p)
	reach, roots := runSide(p, ef)
	r.Analysed["library_functions"] = len(ef.Funcs)
	r.Analysed["run_side_functions"] = len(reach)
	r.Analysed["run_side_roots"] = roots
	if len(roots) < 2 {
		r.Unk("R8.1", "run-side roots", "", "vm.Run and (*VM).Run not both found")
	}
	borrowed := borrowedFields(ef, reach)
	var bl []string
	for b := range borrowed {
		bl = append(bl, b)
	}
	sort.Strings(bl)
	r.Analysed["borrowed_fields"] = bl

	// R8.4: no global writes outside initialisers
	for _, fn := range ef.Funcs {
		key := ef.FuncKey(fn)
		isInit := fn.Name() == "init" || strings.HasPrefix(fn.Name(), "init#")
		effs := ef.EffectsOf(fn)
		var bad []string
		pos := p.Pos(fn.Pos())
		for _, e := range effs {
			for _, rt := range e.Roots {
				if rt.Kind == eng.RootGlobal && !isInit {
					bad = append(bad, fmt.Sprintf("%s of %s at %s", e.What, rt.Detail, p.Pos(e.Pos)))
					pos = p.Pos(e.Pos)
				}
			}
		}
		if isInit {
			continue
		}
		r.Check(len(bad) == 0, "R8.4", key+"/writes no package-level state", pos, fmt.Sprintf("%d write effects, none rooted at a package-level variable", len(effs)),
			"writes package-level state: "+strings.Join(bad, "; ")+" — two goroutines compiling or running at the same time race on it")
	}

	// R8.3: an option's closure does not store a caller-owned slice or map (one of the option
	// constructor's own arguments, captured by the closure) into the configuration by alias: Compile
	// appends to / updates the configuration's collections, and the option value is shared by every
	// Compile call that reuses it
	for _, fn := range ef.Funcs {
		if fn.Parent() == nil {
			continue
		}
		key := ef.FuncKey(fn) + "/stores no captured collection by alias"
		var bad []string
		pos := p.Pos(fn.Pos())
		check := func(v ssa.Value, at token.Pos) {
			switch v.Type().Underlying().(type) {
			case *types.Slice, *types.Map:
			default:
				return
			}
			for _, rt := range ef.RootsOf(v) {
				if rt.Kind == eng.RootParam && !strings.HasPrefix(rt.Detail, fn.Name()+".") {
					bad = append(bad, fmt.Sprintf("%s (argument %s of the enclosing function) stored at %s", v.Name(), rt.Detail, p.Pos(at)))
					pos = p.Pos(at)
				}
			}
		}
		for _, b := range fn.Blocks {
			for _, in := range b.Instrs {
				switch x := in.(type) {
				case *ssa.Store:
					if _, isAlloc := x.Addr.(*ssa.Alloc); !isAlloc {
						check(x.Val, x.Pos())
					}
				case *ssa.MapUpdate:
					check(x.Value, x.Pos())
				}
			}
		}
		r.Check(len(bad) == 0, "R8.3", key, pos, "no slice or map captured from the enclosing function is stored into a longer-lived object", strings.Join(bad, "; ")+" — the configuration now shares its backing array with the caller's option value; a later append or update during Compile writes into memory that every Compile call reusing the option shares: an unsynchronised write")
	}
	r.Floor("R8.3", 10)
	globalEscapeRule(p, r, ef, "R8.6", "two goroutines compiling or running at the same time share it, and what one call does depends on what earlier calls left there")

	// R8.1: run side
	rs := runSideWriteRule(p, r, ef, reach, borrowed, "R8.1", "concurrent runs of one program (or a run and its caller) race on that object, and a run modifies its inputs")
	for _, fn := range rs {
		key := ef.FuncKey(fn)
		// R8.5 foreign pointer-receiver methods on non-fresh objects
		for _, b := range fn.Blocks {
			for _, in := range b.Instrs {
				ci, ok := in.(ssa.CallInstruction)
				if !ok {
					continue
				}
				callee := ci.Common().StaticCallee()
				if callee == nil || callee.Package() == nil || callee.Signature.Recv() == nil || len(ci.Common().Args) == 0 {
					continue
				}
				if _, lib := p.RelOf(callee.Package().Pkg); lib {
					continue
				}
				if _, isPtr := callee.Signature.Recv().Type().(*types.Pointer); !isPtr {
					continue
				}
				fresh := true
				for _, root := range ef.RootsOf(ci.Common().Args[0]) {
					if root.Kind != eng.RootFresh && root.Kind != eng.RootNil {
						fresh = false
					}
				}
				if fresh {
					continue
				}
				name := callee.String()
				reason, ok := sharedSafeMethods[name]
				r.Check(ok, "R8.5", key+"/calls "+name+" on a shared object", p.Pos(in.Pos()), reason, "a pointer-receiver method of a foreign package is called on an object that is not fresh in this run and is not in the allow-list of concurrency-safe methods")
			}
		}
	}

	// R8.2 Program fields
	var progT *types.Named
	if o := p.Pkg("vm").Types.Scope().Lookup("Program"); o != nil {
		progT, _ = o.Type().(*types.Named)
	}
	if progT == nil {
		r.Unk("R8.2", "vm.Program", "", "type not found")
	} else {
		n := 0
		for _, fn := range ef.Funcs {
			for _, b := range fn.Blocks {
				for _, in := range b.Instrs {
					st, ok := in.(*ssa.Store)
					if !ok {
						continue
					}
					fa, ok := st.Addr.(*ssa.FieldAddr)
					if !ok {
						continue
					}
					pt, ok := fa.X.Type().Underlying().(*types.Pointer)
					if !ok || !types.Identical(pt.Elem(), progT) {
						continue
					}
					n++
					fresh := true
					for _, root := range ef.RootsOf(fa.X) {
						if root.Kind != eng.RootFresh {
							fresh = false
						}
					}
					fname := fieldNameOf(progT, fa.Field)
					r.Check(fresh, "R8.2", ef.FuncKey(fn)+"/store to Program."+fname, p.Pos(st.Pos()), "stored into a Program allocated in this function (construction)", "a field of an existing vm.Program is overwritten: programs are shared between concurrent runs")
				}
			}
		}
		r.Analysed["program_field_stores"] = n
		r.Floor("R8.2", 4)
	}
	r.Floor("R8.4", 200)
	r.Floor("R8.1", 30)
}

// runSideWriteRule (R8.1 = R9.5): every write effect of every run-side function is rooted at a
// fresh object or at per-run receiver state.
func runSideWriteRule(p *core.Program, r *core.Report, ef *eng.Effects, reach map[*ssa.Function]bool, borrowed map[string]bool, rule, consequence string) []*ssa.Function {
	var rs []*ssa.Function
	for f := range reach {
		rs = append(rs, f)
	}
	sort.Slice(rs, func(i, j int) bool { return ef.FuncKey(rs[i]) < ef.FuncKey(rs[j]) })
	for _, fn := range rs {
		key := ef.FuncKey(fn)
		rt := recvTypeKey(ef, fn)
		var bad, und []string
		pos := p.Pos(fn.Pos())
		effs := ef.EffectsOf(fn)
		for _, e := range effs {
			for _, root := range e.Roots {
				why := ""
				switch root.Kind {
				case eng.RootFresh, eng.RootNil:
				case eng.RootRecv:
					switch {
					case perRunReceivers[rt] == "":
						why = "receiver of type " + rt + " is not per-run state"
					case strings.Contains(root.Detail, "(dyn)"):
						why = "a run-time value taken from the VM (" + root.Detail + "), which may be part of the environment or a program constant"
					default:
						first := strings.FieldsFunc(root.Detail, func(c rune) bool { return c == '.' || c == '→' })
						if len(first) > 0 && borrowed[rt+"."+first[0]] && strings.Contains(root.Detail, "→") {
							why = "the object behind the borrowed field " + first[0] + " (it belongs to the shared program)"
						}
					}
				case eng.RootParam:
					why = "parameter " + root.Detail
				case eng.RootGlobal:
					why = "package-level " + root.Detail
				case eng.RootResult:
					why = "the result of " + root.Detail
				default:
					und = append(und, fmt.Sprintf("%s at %s: target not classified (%s)", e.What, p.Pos(e.Pos), root))
				}
				if why != "" {
					bad = append(bad, fmt.Sprintf("%s at %s writes %s", e.What, p.Pos(e.Pos), why))
					pos = p.Pos(e.Pos)
				}
			}
		}
		switch {
		case len(bad) > 0:
			r.Bad(rule, key+"/writes only per-run state", pos, strings.Join(bad, "; ")+" — "+consequence)
		case len(und) > 0:
			r.Unk(rule, key+"/writes only per-run state", pos, strings.Join(und, "; "))
		default:
			r.OK(rule, key+"/writes only per-run state", pos, fmt.Sprintf("%d write effects, all rooted at fresh objects or per-run receiver state", len(effs)))
		}
	}
	return rs
}

// globalEscapeRule (R8.6 = R9.6): no library function hands the address of a package-level
// variable to anything but a load: package-level state is immutable after initialisation
// (with R8.4: never stored to) and never used through foreign pointer-receiver methods
// (sync.Map, sync.Mutex, sync.Once, atomic.*: the marks of a process-wide cache).
func globalEscapeRule(p *core.Program, r *core.Report, ef *eng.Effects, rule, consequence string) {
	n := 0
	for _, fn := range ef.Funcs {
		if fn.Name() == "init" || strings.HasPrefix(fn.Name(), "init#") {
			continue
		}
		n++
		esc := ef.GlobalEscapes(fn)
		key := ef.FuncKey(fn) + "/package-level state only loaded"
		if len(esc) == 0 {
			r.OK(rule, key, p.Pos(fn.Pos()), "every use of a package-level variable is a plain load")
			continue
		}
		var ds []string
		for _, e := range esc {
			ds = append(ds, fmt.Sprintf("%s: %s at %s", e.Global, e.How, p.Pos(e.Pos)))
		}
		r.Bad(rule, key, p.Pos(esc[0].Pos), strings.Join(ds, "; ")+" — a package-level object that is used through its address is process-wide mutable state (a cache, a lock, a lazily filled table): "+consequence)
	}
	r.Floor(rule, 200)
}

func fieldNameOf(n *types.Named, i int) string {
	if s, ok := n.Underlying().(*types.Struct); ok && i < s.NumFields() {
		return s.Field(i).Name()
	}
	return fmt.Sprint(i)
}

// sharedSafeMethods: foreign pointer-receiver methods the run side may call on shared objects.
var sharedSafeMethods = map[string]string{
	"(*regexp.Regexp).MatchString": "regexp.Regexp is documented safe for concurrent use by multiple goroutines",
}

func c08Controls() []core.Mutant {
	return []core.Mutant{
		{Name: "Operator option stores the caller's slice", File: "expr.go", Old: "\t\tc.Operators[operator] = append(c.Operators[operator], fn...)", New: "\t\tif len(c.Operators[operator]) == 0 {\n\t\t\tc.Operators[operator] = fn\n\t\t\treturn\n\t\t}\n\t\tc.Operators[operator] = append(c.Operators[operator], fn...)", Rule: "R8.3", Construct: "expr.Operator$1"},
		{Name: "struct field tables memoised in a package-level sync.Map", File: "conf/types_table.go", Old: "func FieldsFromStruct(t reflect.Type) TypesTable {\n", New: "var fieldsCache sync.Map\n\nfunc FieldsFromStruct(t reflect.Type) TypesTable {\n\tif c, ok := fieldsCache.Load(t); ok {\n\t\tif tt, ok := c.(TypesTable); ok {\n\t\t\treturn tt\n\t\t}\n\t}\n", Edits: [][2]string{{"import \"reflect\"\n", "import (\n\t\"reflect\"\n\t\"sync\"\n)\n"}}, Rule: "R8.6", Construct: "conf.FieldsFromStruct"},
		{Name: "package-level cache written by fetch", File: "vm/runtime.go", Old: "func fetch(from, i interface{}, nilsafe bool) interface{} {\n", New: "var fetchCache = map[interface{}]interface{}{}\n\nfunc fetch(from, i interface{}, nilsafe bool) interface{} {\n\tfetchCache[i] = from\n", Rule: "R8.4", Construct: "vm.fetch"},
		{Name: "memo field on Program written by Run", File: "vm/program.go", Old: "type Program struct {\n", New: "type Program struct {\n\tRuns int\n", More: []core.FileEdit{{File: "vm/vm.go", Old: "\tvm.limit = MemoryBudget\n", New: "\tvm.limit = MemoryBudget\n\tprogram.Runs++\n"}}, Rule: "R8.1", Construct: "vm.(*VM).Run"},
		{Name: "VM patches the shared bytecode", File: "vm/vm.go", Old: "\t\tcase OpJumpBackward:\n\t\t\toffset := vm.arg()\n", New: "\t\tcase OpJumpBackward:\n\t\t\toffset := vm.arg()\n\t\t\tvm.bytecode[vm.pp] = OpJumpBackward\n", Rule: "R8.1", Construct: "vm.(*VM).Run"},
		{Name: "OpStore writes into a map found on the stack", File: "vm/vm.go", Old: "\t\tcase OpLen:\n\t\t\tvm.push(length(vm.current()))\n", New: "\t\tcase OpLen:\n\t\t\tif m, ok := vm.current().(map[string]interface{}); ok {\n\t\t\t\tm[\"len\"] = len(m)\n\t\t\t}\n\t\t\tvm.push(length(vm.current()))\n", Rule: "R8.1", Construct: "vm.(*VM).Run"},
		{Name: "MemoryBudget adjusted by the library", File: "vm/vm.go", Old: "\tvm.limit = MemoryBudget\n", New: "\tif MemoryBudget <= 0 {\n\t\tMemoryBudget = 1e6\n\t}\n\tvm.limit = MemoryBudget\n", Rule: "R8.4", Construct: "vm.(*VM).Run"},
		{Name: "refactor: push through a local alias", File: "vm/vm.go", Old: "\tvm.stack = append(vm.stack, value)\n", New: "\ts := vm.stack\n\ts = append(s, value)\n\tvm.stack = s\n", Silent: true},
	}
}
