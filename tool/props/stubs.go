package props

import (
	"fmt"
	"strings"

	"verif/exprlint/core"
	"verif/exprlint/eng"
)

// rewriteSites returns the sites of the optimizer passes and the patcher.
func rewriteSites(p *core.Program) ([]*eng.RewriteSite, *eng.NodeKinds, string) {
	nk, msg := eng.FindNodeKinds(p)
	if nk == nil {
		return nil, nil, msg
	}
	var out []*eng.RewriteSite
	for _, rel := range []string{"optimizer", "compiler"} {
		out = append(out, eng.FindRewriteSites(p, nk, rel)...)
	}
	return out, nk, ""
}

// linearityRules (R1.5 = R2.3 = R10.6): no replacement uses an operand of the matched node twice.
func linearityRules(p *core.Program, r *core.Report, rule string) {
	sites, _, msg := rewriteSites(p)
	if sites == nil {
		r.Unk(rule, "rewrite sites", "", "cannot enumerate rewrite sites: "+msg)
		return
	}
	for _, s := range sites {
		n := map[string]int{}
		for _, o := range s.Operands {
			n[o.Path]++
		}
		var dups []string
		for path, c := range n {
			if c > 1 {
				dups = append(dups, fmt.Sprintf("%s ×%d", path, c))
			}
		}
		var ops []string
		for _, o := range s.Operands {
			ops = append(ops, o.Path)
		}
		r.Check(len(dups) == 0, rule, s.Key+"/linear", p.Pos(s.Call.Pos()),
			"each reused operand appears once: ["+strings.Join(ops, ", ")+"]",
			"the replacement contains "+strings.Join(dups, ", ")+": the shared sub-tree is evaluated twice (a call in it happens twice) and the tree becomes a DAG whose shared node visitors enter twice")
	}
}

// Dump prints engine results for debugging.
func Dump(what string) int {
	p, err := core.Load(core.LoadConf{})
	if err != nil {
		fmt.Println(err)
		return 2
	}
	switch what {
	case "rewrites":
		sites, _, _ := rewriteSites(p)
		for _, s := range sites {
			fmt.Printf("%s  %s via %s\n", p.Pos(s.Call.Pos()), s.Key, s.Via)
			for _, o := range s.Operands {
				fmt.Printf("     operand %-28s in %s.%s  (%s)\n", o.Path, o.In, o.Slot, eng.ExprStr(o.Expr))
			}
		}
	default:
		if f := dumpers[what]; f != nil {
			f(p)
		} else {
			fmt.Println("unknown dump", what)
		}
	}
	return 0
}

var dumpers = map[string]func(p *core.Program){}
