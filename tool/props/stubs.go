package props

import (
	"fmt"
	"go/types"
	"golang.org/x/tools/go/ssa"
	"strings"

	"verif/exprlint/core"
	"verif/exprlint/eng"
)

// rewriteSites returns the sites of the optimizer passes and the patcher.
func rewriteSites(p *core.Program) ([]*eng.RewriteSite, *eng.NodeKinds, string) {
	nk, msg := eng.FindNodeKinds(p)
	if nk == nil {
		return nil, nil, msg
	}
	var out []*eng.RewriteSite
	for _, rel := range []string{"optimizer", "compiler"} {
		out = append(out, eng.FindRewriteSites(p, nk, rel)...)
	}
	return out, nk, ""
}

// linearityRules (R1.5 = R2.3 = R10.6): no replacement uses an operand of the matched node twice.
func linearityRules(p *core.Program, r *core.Report, rule string) {
	sites, _, msg := rewriteSites(p)
	if sites == nil {
		r.Unk(rule, "rewrite sites", "", "cannot enumerate rewrite sites: "+msg)
		return
	}
	for _, s := range sites {
		n := map[string]int{}
		for _, o := range s.Operands {
			n[o.Path]++
		}
		var dups []string
		for path, c := range n {
			if c > 1 {
				dups = append(dups, fmt.Sprintf("%s ×%d", path, c))
			}
		}
		var ops []string
		for _, o := range s.Operands {
			ops = append(ops, o.Path)
		}
		r.Check(len(dups) == 0, rule, s.Key+"/linear", p.Pos(s.Call.Pos()),
			"each reused operand appears once: ["+strings.Join(ops, ", ")+"]",
			"the replacement contains "+strings.Join(dups, ", ")+": the shared sub-tree is evaluated twice (a call in it happens twice) and the tree becomes a DAG whose shared node visitors enter twice")
	}
}

// Dump prints engine results for debugging.
func Dump(what string) int {
	p, err := core.Load(core.LoadConf{})
	if err != nil {
		fmt.Println(err)
		return 2
	}
	switch what {
	case "rewrites":
		sites, _, _ := rewriteSites(p)
		for _, s := range sites {
			fmt.Printf("%s  %s via %s\n", p.Pos(s.Call.Pos()), s.Key, s.Via)
			for _, o := range s.Operands {
				fmt.Printf("     operand %-28s in %s.%s  (%s)\n", o.Path, o.In, o.Slot, eng.ExprStr(o.Expr))
			}
		}
	default:
		if f := dumpers[what]; f != nil {
			f(p)
		} else {
			fmt.Println("unknown dump", what)
		}
	}
	return 0
}

var dumpers = map[string]func(p *core.Program){}

func init() {
	dumpers["vmsig"] = func(p *core.Program) {
		m, msg := eng.BuildVMModel(p)
		if m == nil {
			fmt.Println("ERR", msg)
			return
		}
		fmt.Println("prims:")
		for f, k := range m.Prims {
			fmt.Println("  ", f.Name(), k)
		}
		for _, n := range m.SortedNames() {
			s := m.Signature(n)
			if s == nil {
				fmt.Println(n, "NO HANDLER")
				continue
			}
			fmt.Println(s.String())
		}
		fmt.Println("problems:", m.Problems, "default:", m.HasDefault, m.DefaultPanics)
	}
	dumpers["vmevents"] = func(p *core.Program) {
		m, _ := eng.BuildVMModel(p)
		for _, n := range m.SortedNames() {
			h := m.Handlers[n]
			if h == nil {
				continue
			}
			for i, hp := range h.Paths {
				fmt.Printf("%s path %d term=%s conds=%v\n", n, i, hp.Term, hp.Conds)
				for _, e := range hp.Events {
					extra := ""
					if e.Val != nil {
						extra += " val=" + e.Val.String()
					}
					for _, a := range e.Args {
						extra += " arg=" + a.String()
					}
					if e.Key != nil {
						extra += " key=" + e.Key.String()
					}
					if e.Kind == "loop" {
						extra += fmt.Sprintf(" count=%s origin=%s bodies=%d", e.Count, e.CountOrigin, len(e.Body))
					}
					if e.Assert != nil {
						extra += " assert=" + e.Assert.String()
					}
					fmt.Printf("    %-10s %s %s%s\n", e.Kind, e.Callee, e.Dir, extra)
				}
			}
		}
	}
}

func buildEngines(p *core.Program) (*eng.NodeKinds, *eng.VMModel, *eng.Emitter, string) {
	nk, msg := eng.FindNodeKinds(p)
	if nk == nil {
		return nil, nil, nil, msg
	}
	vm, msg := eng.BuildVMModel(p)
	if vm == nil {
		return nk, nil, nil, msg
	}
	em, msg := eng.BuildEmitter(p, nk, vm)
	if em == nil {
		return nk, vm, nil, msg
	}
	return nk, vm, em, ""
}

func init() {
	dumpers["templates"] = func(p *core.Program) {
		_, _, em, msg := buildEngines(p)
		if em == nil {
			fmt.Println("ERR", msg)
			return
		}
		n := 0
		for _, t := range append(em.AllTemplates(), em.Templates["<top>"]...) {
			n++
			fmt.Printf("%-16s [%s] term=%s\n      %s\n", t.Kind, t.CondText(), t.Term, t.String())
			for _, pr := range t.Problems {
				fmt.Println("      PROBLEM:", pr)
			}
		}
		fmt.Println(n, "templates; problems:", em.Problems)
	}
}

func typesPointer(t *ssa.Type) types.Type { return types.NewPointer(t.Type()) }
