package props

import (
	"fmt"
	"go/ast"
	"go/constant"
	"go/token"
	"go/types"
	"sort"
	"strings"

	"verif/exprlint/core"
	"verif/exprlint/eng"
)

// R12.2 — escape tables. A string literal lexes back to the string it denotes only if (a) the
// decoder maps every single-character escape to the code point Go assigns to that letter, (b)
// every escape letter the scanner accepts has a decoder case (or the decoder raises an error
// for it: no silent pass-through), and (c) scanner and decoder agree on the number of digits of
// the numeric escapes. Both sides are small switch tables; they are read as constants.

var goEscapes = map[rune]int64{'a': 7, 'b': 8, 'f': 12, 'n': 10, 'r': 13, 't': 9, 'v': 11, '\\': 92, '\'': 39, '"': 34}

func runeConst(info *types.Info, e ast.Expr) (int64, bool) {
	tv, ok := info.Types[e]
	if !ok || tv.Value == nil || tv.Value.Kind() != constant.Int {
		return 0, false
	}
	return constant.Int64Val(tv.Value)
}

// intByLetter evaluates an integer expression that may depend on the escape letter held by
// the variable tag, for one letter: a constant; a local bound once; a lookup `M[tag]` in a
// package-level map literal with constant keys (a missing key reads as 0); a call `f(tag)` of
// a function of the package whose body is a switch over its parameter with constant returns
// and a final constant return.
func intByLetter(p *core.Program, info *types.Info, defs *eng.LocalDefs, e ast.Expr, tag types.Object, letter rune, depth int) (int64, bool) {
	if depth > 4 || e == nil {
		return 0, false
	}
	e = eng.Unparen(e)
	if v, ok := runeConst(info, e); ok {
		return v, true
	}
	isTag := func(x ast.Expr) bool {
		id, ok := eng.Unparen(x).(*ast.Ident)
		return ok && tag != nil && info.Uses[id] == tag
	}
	switch x := e.(type) {
	case *ast.Ident:
		if defs != nil {
			if d := defs.Def(info.Uses[x]); d != nil {
				return intByLetter(p, info, defs, d, tag, letter, depth+1)
			}
		}
	case *ast.IndexExpr:
		id, ok := eng.Unparen(x.X).(*ast.Ident)
		if !ok || !isTag(x.Index) {
			return 0, false
		}
		v, ok := info.Uses[id].(*types.Var)
		if !ok || v.Parent() != v.Pkg().Scope() {
			return 0, false
		}
		for _, f := range p.Pkg("parser/lexer").Syntax {
			for _, d := range f.Decls {
				gd, ok := d.(*ast.GenDecl)
				if !ok {
					continue
				}
				for _, sp := range gd.Specs {
					vs, ok := sp.(*ast.ValueSpec)
					if !ok || len(vs.Names) != 1 || len(vs.Values) != 1 || info.Defs[vs.Names[0]] != types.Object(v) {
						continue
					}
					cl, ok := eng.Unparen(vs.Values[0]).(*ast.CompositeLit)
					if !ok {
						return 0, false
					}
					if _, isMap := info.TypeOf(cl).Underlying().(*types.Map); !isMap {
						return 0, false
					}
					// the map must never be written
					written := false
					for _, fd := range p.FuncDecls("parser/lexer") {
						if fd.Body == nil {
							continue
						}
						ast.Inspect(fd.Body, func(n ast.Node) bool {
							if as, ok := n.(*ast.AssignStmt); ok {
								for _, l := range as.Lhs {
									base := eng.Unparen(l)
									if ix, ok := base.(*ast.IndexExpr); ok {
										base = eng.Unparen(ix.X)
									}
									if bid, ok := base.(*ast.Ident); ok && info.Uses[bid] == types.Object(v) {
										written = true
									}
								}
							}
							return true
						})
					}
					if written {
						return 0, false
					}
					for _, el := range cl.Elts {
						kv, ok := el.(*ast.KeyValueExpr)
						if !ok {
							return 0, false
						}
						k, ok1 := runeConst(info, kv.Key)
						val, ok2 := runeConst(info, kv.Value)
						if !ok1 || !ok2 {
							return 0, false
						}
						if rune(k) == letter {
							return val, true
						}
					}
					return 0, true
				}
			}
		}
	case *ast.CallExpr:
		if len(x.Args) != 1 || !isTag(x.Args[0]) {
			return 0, false
		}
		fn := eng.CalleeOf(info, x)
		if fn == nil {
			return 0, false
		}
		_, hfd := p.DeclOf(fn)
		if hfd == nil || hfd.Body == nil || hfd.Type.Params == nil || hfd.Type.Params.NumFields() != 1 || len(hfd.Type.Params.List[0].Names) != 1 {
			return 0, false
		}
		param := info.Defs[hfd.Type.Params.List[0].Names[0]]
		for _, st := range hfd.Body.List {
			switch s := st.(type) {
			case *ast.ReturnStmt:
				if len(s.Results) != 1 {
					return 0, false
				}
				return runeConst(info, s.Results[0])
			case *ast.SwitchStmt:
				tid, ok := eng.Unparen(s.Tag).(*ast.Ident)
				if s.Tag == nil || s.Init != nil || !ok || info.Uses[tid] != param {
					return 0, false
				}
				var hit, def *ast.CaseClause
				for _, c := range s.Body.List {
					cc := c.(*ast.CaseClause)
					if cc.List == nil {
						def = cc
					}
					for _, ex := range cc.List {
						k, ok := runeConst(info, ex)
						if !ok {
							return 0, false
						}
						if rune(k) == letter {
							hit = cc
						}
					}
				}
				if hit == nil {
					hit = def
				}
				if hit == nil {
					continue
				}
				if len(hit.Body) != 1 {
					return 0, false
				}
				rs, ok := hit.Body[0].(*ast.ReturnStmt)
				if !ok || len(rs.Results) != 1 {
					return 0, false
				}
				return runeConst(info, rs.Results[0])
			default:
				return 0, false
			}
		}
	}
	return 0, false
}

func escapeRules(p *core.Program, r *core.Report) {
	info := p.Pkg("parser/lexer").TypesInfo
	// ---- the decoder: the function with a switch whose single-value cases assign a rune constant
	type decCase struct {
		ch  rune
		val int64
		pos token.Pos
	}
	var dec []decCase
	decDigits := map[rune]int64{} // x,X,u,U -> digit count
	var decFn *ast.FuncDecl
	decDefaultErrors := false
	for _, fd := range p.FuncDecls("parser/lexer") {
		if fd.Body == nil {
			continue
		}
		var best []decCase
		// the same table written as two parallel constant strings: `i := strings.IndexByte(KEYS, c)`
		// … `VALUES[i]`: escape letter KEYS[j] decodes to VALUES[j]
		var extra []decCase
		var extraKey types.Object
		ast.Inspect(fd.Body, func(n ast.Node) bool {
			as, ok := n.(*ast.AssignStmt)
			if !ok || len(as.Lhs) != 1 || len(as.Rhs) != 1 {
				return true
			}
			c, ok := eng.Unparen(as.Rhs[0]).(*ast.CallExpr)
			iv, ok2 := as.Lhs[0].(*ast.Ident)
			if !ok || !ok2 || len(c.Args) != 2 {
				return true
			}
			fn := eng.CalleeOf(info, c)
			if fn == nil || fn.Pkg() == nil || fn.Pkg().Path() != "strings" || (fn.Name() != "IndexByte" && fn.Name() != "IndexRune") {
				return true
			}
			keys, ok := constStringOf(info, c.Args[0])
			if !ok {
				return true
			}
			ivObj := objOf(info, iv)
			ast.Inspect(fd.Body, func(m ast.Node) bool {
				ix, ok := m.(*ast.IndexExpr)
				if !ok {
					return true
				}
				id, ok := eng.Unparen(ix.Index).(*ast.Ident)
				if !ok || info.Uses[id] != ivObj {
					return true
				}
				vals, ok := constStringOf(info, ix.X)
				if !ok || len(vals) != len(keys) {
					return true
				}
				for j := 0; j < len(keys); j++ {
					if keys[j] >= 0x80 || vals[j] >= 0x80 {
						return true // byte and rune positions differ: not read
					}
				}
				for j := 0; j < len(keys); j++ {
					extra = append(extra, decCase{rune(keys[j]), int64(vals[j]), ix.Pos()})
				}
				if kid, ok := eng.Unparen(c.Args[1]).(*ast.Ident); ok {
					extraKey = info.Uses[kid]
				}
				return true
			})
			return true
		})
		ast.Inspect(fd.Body, func(n ast.Node) bool {
			sw, ok := n.(*ast.SwitchStmt)
			if !ok || sw.Tag == nil {
				return true
			}
			var cs []decCase
			if tid, ok := eng.Unparen(sw.Tag).(*ast.Ident); ok && extraKey != nil && info.Uses[tid] == extraKey {
				cs = append(cs, extra...)
			}
			defErr := false
			for _, c := range sw.Body.List {
				cc := c.(*ast.CaseClause)
				if cc.List == nil {
					// default: must set an error
					ast.Inspect(cc, func(m ast.Node) bool {
						if as, ok := m.(*ast.AssignStmt); ok && len(as.Lhs) == 1 && eng.ExprStr(as.Lhs[0]) == "err" {
							defErr = true
						}
						return true
					})
					continue
				}
				if len(cc.Body) != 1 {
					continue
				}
				as, ok := cc.Body[0].(*ast.AssignStmt)
				if !ok || len(as.Lhs) != 1 || len(as.Rhs) != 1 || as.Tok != token.ASSIGN {
					continue
				}
				v, ok := runeConst(info, as.Rhs[0])
				if !ok {
					continue
				}
				// the decoded character is a rune (a digit count `n = 2` is not a decoding)
				if b, isB := info.TypeOf(as.Lhs[0]).Underlying().(*types.Basic); !isB || b.Kind() != types.Int32 {
					continue
				}
				for _, ex := range cc.List {
					if ch, ok := runeConst(info, ex); ok {
						cs = append(cs, decCase{rune(ch), v, cc.Pos()})
					}
				}
			}
			if len(cs) > len(best) {
				best = cs
				decDefaultErrors = defErr
				// digit counts: nested switch assigning n = k under case letters
				// (in the decoder itself or in an unexported helper it calls: `n = k` or `return k`)
				var defaultK *int64
				var defaultAt token.Pos
				eng.InspectInlined(p, info, p.Pkg("parser/lexer").Types, sw, 2, func(fn *types.Func, _ *ast.FuncDecl) bool { return !fn.Exported() }, func(m ast.Node, ctx *eng.InlineCtx, _ int) bool {
					// a helper's count for "every other introducer": the return after its switch,
					// or its default clause
					if ctx != nil && ctx.Callee != nil && ctx.Depth == 1 {
						if rs, ok := m.(*ast.ReturnStmt); ok && len(rs.Results) == 1 {
							top := false
							for _, st := range ctx.Callee.Body.List {
								if st == ast.Stmt(rs) {
									top = true
								}
							}
							if k, ok := runeConst(info, rs.Results[0]); ok && top {
								defaultK, defaultAt = &k, ctx.Call.Pos()
							}
						}
						if cc, ok := m.(*ast.CaseClause); ok && cc.List == nil && len(cc.Body) == 1 {
							if rs, ok := cc.Body[0].(*ast.ReturnStmt); ok && len(rs.Results) == 1 {
								if k, ok := runeConst(info, rs.Results[0]); ok {
									defaultK, defaultAt = &k, ctx.Call.Pos()
								}
							}
						}
					}
					in, ok := m.(*ast.SwitchStmt)
					if !ok || in == sw {
						return true
					}
					for _, c := range in.Body.List {
						cc := c.(*ast.CaseClause)
						if len(cc.Body) != 1 {
							continue
						}
						var val ast.Expr
						switch st := cc.Body[0].(type) {
						case *ast.AssignStmt:
							if len(st.Rhs) == 1 {
								val = st.Rhs[0]
							}
						case *ast.ReturnStmt:
							if len(st.Results) == 1 {
								val = st.Results[0]
							}
						}
						if val == nil {
							continue
						}
						if k, ok := runeConst(info, val); ok {
							for _, ex := range cc.List {
								if ch, ok := runeConst(info, ex); ok {
									decDigits[rune(ch)] = k
								}
							}
						}
					}
					return true
				})
				// the digit count as a function of the letter: `n := hexEscapeLen[c]`, `n := hexLen(c)`
				if tid, ok := eng.Unparen(sw.Tag).(*ast.Ident); ok {
					tagObj := info.Uses[tid]
					for _, c := range sw.Body.List {
						cc := c.(*ast.CaseClause)
						ast.Inspect(cc, func(m ast.Node) bool {
							as, ok := m.(*ast.AssignStmt)
							if !ok || len(as.Lhs) != 1 || len(as.Rhs) != 1 {
								return true
							}
							switch eng.Unparen(as.Rhs[0]).(type) {
							case *ast.IndexExpr, *ast.CallExpr:
							default:
								return true
							}
							for _, ex := range cc.List {
								if ch, ok := runeConst(info, ex); ok {
									if _, set := decDigits[rune(ch)]; !set {
										if k, ok := intByLetter(p, info, nil, as.Rhs[0], tagObj, rune(ch), 0); ok {
											decDigits[rune(ch)] = k
										}
									}
								}
							}
							return true
						})
					}
				}
				if defaultK != nil {
					for _, c := range sw.Body.List {
						cc := c.(*ast.CaseClause)
						if cc.Pos() <= defaultAt && defaultAt < cc.End() {
							for _, ex := range cc.List {
								if ch, ok := runeConst(info, ex); ok {
									if _, set := decDigits[rune(ch)]; !set {
										decDigits[rune(ch)] = *defaultK
									}
								}
							}
						}
					}
				}
			}
			return true
		})
		if len(best) > len(dec) {
			dec, decFn = best, fd
		}
	}
	if len(dec) < 8 {
		r.Unk("R12.2", "escape decoder", "", "no switch with single-character escape cases assigning rune constants found in parser/lexer")
		return
	}
	dname := core.FuncName("parser/lexer", decFn)
	seen := map[rune]bool{}
	for _, c := range dec {
		seen[c.ch] = true
		key := fmt.Sprintf("%s/escape \\%c decodes to Go's code point", dname, c.ch)
		want, known := goEscapes[c.ch]
		if !known {
			// escapes outside Go's table (\` \?): they must denote the character itself
			r.Check(c.val == int64(c.ch), "R12.2", key, p.Pos(c.pos), "denotes the character itself", fmt.Sprintf("the escape \\%c decodes to U+%04X; an escape Go does not define can only denote the character itself", c.ch, c.val))
			continue
		}
		r.Check(c.val == want, "R12.2", key, p.Pos(c.pos), fmt.Sprintf("U+%04X", want), fmt.Sprintf("the escape \\%c decodes to U+%04X; Go (and the documentation's string syntax) assigns it U+%04X: a literal containing it lexes to another string", c.ch, c.val, want))
	}
	r.Check(decDefaultErrors, "R12.2", dname+"/unknown escapes raise an error", p.Pos(decFn.Pos()), "the default clause sets the error", "the decoder's default clause does not raise an error: an escape it does not know passes through silently")

	// ---- the scanner: the lexer method with a switch over the character after the backslash
	// whose cases call a digit scanner with (base, count)
	type scanNum struct{ base, count int64 }
	scanDigits := map[rune]scanNum{}
	scanSingles := map[rune]bool{}
	quoteCase := false
	var scanFn *ast.FuncDecl
	for _, fd := range p.FuncDecls("parser/lexer") {
		if fd.Body == nil || fd.Recv == nil {
			continue
		}
		ast.Inspect(fd.Body, func(n ast.Node) bool {
			sw, ok := n.(*ast.SwitchStmt)
			if !ok || sw.Tag == nil {
				return true
			}
			nums := map[rune]scanNum{}
			singles := map[rune]bool{}
			q := false
			sdefs := eng.SingleDefs(info, fd.Body)
			var tagObj types.Object
			if tid, ok := eng.Unparen(sw.Tag).(*ast.Ident); ok {
				tagObj = info.Uses[tid]
			}
			for _, c := range sw.Body.List {
				cc := c.(*ast.CaseClause)
				// the digit-run call of the clause: (first rune, base, count); base and count
				// may depend on the letter (`width := escapeDigits(ch)`)
				var numCall *ast.CallExpr
				ast.Inspect(cc, func(m ast.Node) bool {
					call, ok := m.(*ast.CallExpr)
					if !ok || len(call.Args) != 3 {
						return true
					}
					if _, ok1 := runeConst(info, call.Args[1]); ok1 {
						numCall = call
					}
					return true
				})
				for _, ex := range cc.List {
					ch, ok := runeConst(info, ex)
					if !ok {
						if _, isID := ex.(*ast.Ident); isID {
							q = true // the quote parameter
						}
						continue
					}
					if numCall != nil {
						b, ok1 := intByLetter(p, info, sdefs, numCall.Args[1], tagObj, rune(ch), 0)
						k, ok2 := intByLetter(p, info, sdefs, numCall.Args[2], tagObj, rune(ch), 0)
						if ok1 && ok2 {
							nums[rune(ch)] = scanNum{b, k}
							continue
						}
					}
					singles[rune(ch)] = true
				}
			}
			if len(nums) >= 3 && len(nums)+len(singles) > len(scanDigits)+len(scanSingles) {
				scanDigits, scanSingles, quoteCase, scanFn = nums, singles, q, fd
			}
			return true
		})
	}
	if scanFn == nil {
		r.Unk("R12.2", "escape scanner", "", "no lexer method with a switch over the escape letter and digit-run calls found")
		return
	}
	sname := core.FuncName("parser/lexer", scanFn)
	var ss []string
	for ch := range scanSingles {
		ss = append(ss, string(ch))
	}
	sort.Strings(ss)
	r.Analysed["scanner_single_escapes"] = strings.Join(ss, " ")
	for _, s := range ss {
		ch := []rune(s)[0]
		r.Check(seen[ch], "R12.2", fmt.Sprintf("%s/escape \\%c accepted by the scanner is decoded", sname, ch), p.Pos(scanFn.Pos()), "decoder has a case", fmt.Sprintf("the scanner accepts \\%c, the decoder has no case for it (it raises an error: a literal the scanner accepted is rejected)", ch))
	}
	if quoteCase {
		r.Check(seen['\''] && seen['"'], "R12.2", sname+"/escaped quote is decoded", p.Pos(scanFn.Pos()), "decoder has cases for both quotes", "the scanner accepts an escaped quote, the decoder does not decode both quote characters")
	}
	// numeric escapes: digit counts agree
	for ch, sn := range scanDigits {
		key := fmt.Sprintf("%s/numeric escape \\%c has the same digit count in scanner and decoder", sname, ch)
		switch {
		case ch >= '0' && ch <= '7':
			// octal: the scanner's count includes the first digit; the decoder reads the first
			// digit from the case and two more in its loop (checked by shape: a loop bound of 2)
			two := false
			ast.Inspect(decFn.Body, func(m ast.Node) bool {
				if fs, ok := m.(*ast.ForStmt); ok {
					if be, ok := fs.Cond.(*ast.BinaryExpr); ok && be.Op == token.LSS {
						if k, ok := runeConst(info, be.Y); ok && k == sn.count-1 {
							two = true
						}
					}
				}
				return true
			})
			r.Check(sn.base == 8 && two, "R12.2", key, p.Pos(scanFn.Pos()), fmt.Sprintf("%d octal digits", sn.count), fmt.Sprintf("the scanner reads %d digits in base %d for an octal escape; the decoder reads one digit plus a loop that does not run %d times", sn.count, sn.base, sn.count-1))
		default:
			dn, ok := decDigits[ch]
			r.Check(ok && dn == sn.count && sn.base == 16, "R12.2", key, p.Pos(scanFn.Pos()), fmt.Sprintf("%d hex digits", sn.count), fmt.Sprintf("the scanner reads %d digits in base %d after \\%c, the decoder %d: the literal's tail is decoded from the wrong offset", sn.count, sn.base, ch, dn))
		}
	}
	r.Floor("R12.2", 18)
}

// decodedStringRule (R12.2, second half): the function that drives the escape decoder returns,
// on success, the decode buffer converted to a string and nothing else — any transformation
// applied AFTER decoding (a newline normaliser, a trim) also rewrites characters that were
// written as escapes ("\r" must stay a carriage return) — and transformations of the raw
// literal text happen before the first decoder call.
func decodedStringRule(p *core.Program, r *core.Report) {
	info := p.Pkg("parser/lexer").TypesInfo
	// the per-character decoder: found by escapeRules' criterion (many single-character cases);
	// here: the function called in a loop by exactly one other function of the package with a string argument
	var driver *ast.FuncDecl
	var decCall *ast.CallExpr
	for _, fd := range p.FuncDecls("parser/lexer") {
		if fd.Body == nil {
			continue
		}
		ast.Inspect(fd.Body, func(n ast.Node) bool {
			fs, ok := n.(*ast.ForStmt)
			if !ok {
				return true
			}
			ast.Inspect(fs.Body, func(m ast.Node) bool {
				c, ok := m.(*ast.CallExpr)
				if !ok {
					return true
				}
				fn := eng.CalleeOf(info, c)
				if fn == nil || fn.Pkg() != p.Pkg("parser/lexer").Types {
					return true
				}
				sig := fn.Type().(*types.Signature)
				if sig.Results().Len() == 4 && sig.Params().Len() == 1 {
					driver, decCall = fd, c
				}
				return true
			})
			return true
		})
	}
	if driver == nil {
		r.Unk("R12.2", "escape decoding driver", "", "no function that calls the per-character decoder in a loop")
		return
	}
	dname := core.FuncName("parser/lexer", driver)
	// success returns: last result nil
	bad := ""
	n := 0
	ast.Inspect(driver.Body, func(nd ast.Node) bool {
		rs, ok := nd.(*ast.ReturnStmt)
		if !ok || len(rs.Results) != 2 || !isNilIdent(info, rs.Results[1]) {
			return true
		}
		n++
		e := eng.Unparen(rs.Results[0])
		// string(buf) — a conversion of a local byte/rune buffer
		okConv := false
		if c, isC := e.(*ast.CallExpr); isC && len(c.Args) == 1 {
			if tv, isT := info.Types[c.Fun]; isT && tv.IsType() {
				if _, isID := eng.Unparen(c.Args[0]).(*ast.Ident); isID {
					okConv = true
				}
			}
		}
		if !okConv && rs.Pos() > decCall.Pos() {
			bad = "returns `" + eng.ExprStr(e) + "` at " + p.Pos(rs.Pos())
		}
		if !okConv && rs.Pos() < decCall.Pos() {
			// a success return before the decoding loop: the raw text is returned undecoded
			bad = "returns `" + eng.ExprStr(e) + "` at " + p.Pos(rs.Pos()) + " before any decoding (a shortcut that skips the decoder must be shown equivalent)"
		}
		return true
	})
	r.Check(bad == "" && n > 0, "R12.2", dname+"/returns the decoded buffer untransformed", p.Pos(driver.Pos()), "success returns string(buffer)", dname+" "+bad+": a transformation applied after (or instead of) escape decoding also rewrites characters that were written as escapes — \"\\r\" no longer lexes to a carriage return")
	// transformations of the input happen before the first decoder call
	late := ""
	var param types.Object
	if driver.Type.Params != nil && len(driver.Type.Params.List) > 0 && len(driver.Type.Params.List[0].Names) > 0 {
		param = info.Defs[driver.Type.Params.List[0].Names[0]]
	}
	ast.Inspect(driver.Body, func(nd ast.Node) bool {
		c, ok := nd.(*ast.CallExpr)
		if !ok || c.Pos() < decCall.Pos() {
			return true
		}
		if sel, ok := c.Fun.(*ast.SelectorExpr); ok && (sel.Sel.Name == "Replace" || sel.Sel.Name == "ReplaceAll" || strings.HasPrefix(sel.Sel.Name, "Trim")) {
			late = eng.ExprStr(c) + " at " + p.Pos(c.Pos())
		}
		return true
	})
	_ = param
	r.Check(late == "", "R12.2", dname+"/text transformations precede decoding", p.Pos(driver.Pos()), "none after the decoder loop starts", "the text is transformed by "+late+" after decoding has begun")
}
