package props

import (
	"fmt"
	"go/ast"
	"go/token"
	"go/types"
	"sort"
	"strings"

	"golang.org/x/tools/go/ssa"

	"verif/exprlint/core"
	"verif/exprlint/eng"
)

func init() {
	register(&Prop{ID: "C09", Run: runC09, Controls: c09Controls})
}

// compileSidePkgs: the library packages in the import closure of the root package (what
// expr.Compile can reach at most), as rel names.
func compileSidePkgs(p *core.Program) map[string]bool {
	out := map[string]bool{}
	var visit func(path string)
	seen := map[string]bool{}
	byPath := map[string]*struct{ imports []string }{}
	for _, pk := range p.All {
		e := &struct{ imports []string }{}
		for ip := range pk.Imports {
			e.imports = append(e.imports, ip)
		}
		byPath[pk.PkgPath] = e
	}
	visit = func(path string) {
		if seen[path] {
			return
		}
		seen[path] = true
		e := byPath[path]
		if e == nil {
			return
		}
		if path == core.ModPath {
			out[""] = true
		} else if strings.HasPrefix(path, core.ModPath+"/") {
			out[strings.TrimPrefix(path, core.ModPath+"/")] = true
		}
		for _, ip := range e.imports {
			visit(ip)
		}
	}
	visit(core.ModPath)
	return out
}

type mapLoop struct {
	rel   string
	fd    *ast.FuncDecl
	rs    *ast.RangeStmt
	how   string // "range over map" | "reflect MapKeys"
	index int
}

// findMapLoops lists every iteration over a map's entries in the given packages.
func findMapLoops(p *core.Program, rels map[string]bool) ([]*mapLoop, []string) {
	var out []*mapLoop
	var other []string // iterations that are not range statements (MapRange, MapKeys used otherwise)
	var names []string
	for rel := range rels {
		names = append(names, rel)
	}
	sort.Strings(names)
	for _, rel := range names {
		info := p.Pkg(rel).TypesInfo
		for _, fd := range p.FuncDecls(rel) {
			if fd.Body == nil {
				continue
			}
			n := 0
			ranged := map[ast.Expr]bool{}
			ast.Inspect(fd.Body, func(nd ast.Node) bool {
				rs, ok := nd.(*ast.RangeStmt)
				if !ok {
					return true
				}
				t := info.TypeOf(rs.X)
				if t == nil {
					return true
				}
				if _, isMap := t.Underlying().(*types.Map); isMap {
					n++
					out = append(out, &mapLoop{rel, fd, rs, "range over map", n})
					return true
				}
				if c, ok := eng.Unparen(rs.X).(*ast.CallExpr); ok {
					if fn := eng.CalleeOf(info, c); fn != nil && fn.Pkg() != nil && fn.Pkg().Path() == "reflect" && fn.Name() == "MapKeys" {
						n++
						ranged[c] = true
						out = append(out, &mapLoop{rel, fd, rs, "reflect MapKeys", n})
					}
				}
				return true
			})
			ast.Inspect(fd.Body, func(nd ast.Node) bool {
				c, ok := nd.(*ast.CallExpr)
				if !ok || ranged[c] {
					return true
				}
				if fn := eng.CalleeOf(info, c); fn != nil && fn.Pkg() != nil && fn.Pkg().Path() == "reflect" && (fn.Name() == "MapKeys" || fn.Name() == "MapRange") {
					other = append(other, core.FuncName(rel, fd)+" uses reflect."+fn.Name()+" at "+p.Pos(c.Pos()))
				}
				return true
			})
		}
	}
	return out, other
}

// orderInsensitive decides whether executing the loop body once per entry in ANY order gives
// the same final state; returns the offending statements.
func orderInsensitive(p *core.Program, ef *eng.Effects, ml *mapLoop) []string {
	info := p.Pkg(ml.rel).TypesInfo
	var bad []string
	inBody := func(obj types.Object) bool {
		return obj != nil && obj.Pos() >= ml.rs.Pos() && obj.Pos() < ml.rs.End()
	}
	keyDerived := map[types.Object]bool{}
	for _, e := range []ast.Expr{ml.rs.Key, ml.rs.Value} {
		if id, ok := e.(*ast.Ident); ok && id.Name != "_" {
			keyDerived[objOf(info, id)] = true
		}
	}
	var keyObj types.Object
	if id, ok := ml.rs.Key.(*ast.Ident); ok && id.Name != "_" {
		keyObj = objOf(info, id)
	}
	if ml.how == "reflect MapKeys" {
		if id, ok := ml.rs.Value.(*ast.Ident); ok {
			keyObj = objOf(info, id)
		}
	}
	mentionsKey := func(e ast.Expr) bool {
		found := false
		ast.Inspect(e, func(n ast.Node) bool {
			if id, ok := n.(*ast.Ident); ok && keyObj != nil && info.Uses[id] == keyObj {
				found = true
			}
			return true
		})
		return found
	}
	sig, _ := info.Defs[ml.fd.Name].Type().(*types.Signature)
	lastIsError := sig != nil && sig.Results().Len() > 0 && types.Identical(sig.Results().At(sig.Results().Len()-1).Type(), types.Universe.Lookup("error").Type())
	checkCalls := func(n ast.Node) {
		ast.Inspect(n, func(m ast.Node) bool {
			c, ok := m.(*ast.CallExpr)
			if !ok {
				return true
			}
			if id, ok := c.Fun.(*ast.Ident); ok {
				if _, isB := info.Uses[id].(*types.Builtin); isB {
					if id.Name == "append" || id.Name == "copy" || id.Name == "delete" {
						// append to a variable declared in the body is fine
						if len(c.Args) > 0 {
							if aid, ok := eng.Unparen(c.Args[0]).(*ast.Ident); ok && inBody(info.Uses[aid]) {
								return true
							}
						}
						bad = append(bad, fmt.Sprintf("%s at %s grows or edits an object that outlives the iteration in entry order", id.Name, p.Pos(c.Pos())))
					}
					return true
				}
			}
			fn := eng.CalleeOf(info, c)
			if fn == nil {
				if tv, ok := info.Types[c.Fun]; ok && tv.IsType() {
					return true
				}
				bad = append(bad, "dynamic call at "+p.Pos(c.Pos())+" (its effects are unknown)")
				return true
			}
			if _, lib := p.RelOf(fn.Pkg()); !lib {
				return true // standard library: readers and constructors (reflect, fmt)
			}
			// a library callee must have no lasting write effect
			for _, f := range ef.Funcs {
				if f.Object() == types.Object(fn) {
					for _, e := range ef.EffectsOf(f) {
						for _, rt := range e.Roots {
							if rt.Kind != eng.RootFresh && rt.Kind != eng.RootNil {
								bad = append(bad, fmt.Sprintf("call of %s at %s, which writes %s", fn.Name(), p.Pos(c.Pos()), rt))
							}
						}
					}
				}
			}
			return true
		})
	}
	var stmts func(list []ast.Stmt)
	stmts = func(list []ast.Stmt) {
		for _, st := range list {
			switch s := st.(type) {
			case *ast.AssignStmt:
				for _, rhs := range s.Rhs {
					checkCalls(rhs)
				}
				for _, l := range s.Lhs {
					switch x := l.(type) {
					case *ast.Ident:
						if x.Name == "_" {
							continue
						}
						if s.Tok == token.DEFINE || inBody(objOf(info, x)) {
							continue
						}
						bad = append(bad, fmt.Sprintf("assignment to the outer variable %s at %s (the last entry visited wins)", x.Name, p.Pos(s.Pos())))
					case *ast.IndexExpr:
						if _, isMap := info.TypeOf(x.X).Underlying().(*types.Map); isMap && mentionsKey(x.Index) {
							continue // distinct entries write distinct keys
						}
						bad = append(bad, fmt.Sprintf("store at %s whose index does not depend on the entry's key", p.Pos(s.Pos())))
					default:
						if id := rootIdent(l); id != nil && inBody(objOf(info, id)) {
							continue
						}
						bad = append(bad, fmt.Sprintf("store to %s at %s", eng.ExprStr(l), p.Pos(s.Pos())))
					}
				}
			case *ast.DeclStmt:
				checkCalls(s)
			case *ast.ExprStmt:
				checkCalls(s.X)
			case *ast.IfStmt:
				if s.Init != nil {
					stmts([]ast.Stmt{s.Init})
				}
				checkCalls(s.Cond)
				stmts(s.Body.List)
				switch e := s.Else.(type) {
				case *ast.BlockStmt:
					stmts(e.List)
				case *ast.IfStmt:
					stmts([]ast.Stmt{e})
				}
			case *ast.BlockStmt:
				stmts(s.List)
			case *ast.ForStmt:
				stmts(s.Body.List)
			case *ast.RangeStmt:
				checkCalls(s.X)
				stmts(s.Body.List)
			case *ast.SwitchStmt:
				for _, c := range s.Body.List {
					stmts(c.(*ast.CaseClause).Body)
				}
			case *ast.ReturnStmt:
				okRet := false
				if lastIsError && len(s.Results) > 0 {
					last := eng.Unparen(s.Results[len(s.Results)-1])
					if !isNilIdent(info, last) {
						if _, isCall := last.(*ast.CallExpr); isCall {
							okRet = true
						}
						if id, ok := last.(*ast.Ident); ok && id.Name == "err" {
							okRet = true
						}
					}
				}
				if !okRet {
					bad = append(bad, fmt.Sprintf("return at %s that is not an error return: the result depends on which entry is visited first", p.Pos(s.Pos())))
				}
			case *ast.BranchStmt:
				if s.Tok != token.CONTINUE {
					bad = append(bad, fmt.Sprintf("%s at %s ends the iteration at an order-dependent entry", s.Tok, p.Pos(s.Pos())))
				}
			case *ast.IncDecStmt:
				if id := rootIdent(s.X); id == nil || !inBody(objOf(info, id)) {
					// a commutative counter would be fine; none exists today
					bad = append(bad, fmt.Sprintf("update of an outer variable at %s", p.Pos(s.Pos())))
				}
			case *ast.EmptyStmt:
			default:
				bad = append(bad, fmt.Sprintf("statement %T at %s not understood", st, p.Pos(st.Pos())))
			}
		}
	}
	stmts(ml.rs.Body.List)
	return bad
}

func rootIdent(e ast.Expr) *ast.Ident {
	for {
		switch x := eng.Unparen(e).(type) {
		case *ast.Ident:
			return x
		case *ast.SelectorExpr:
			e = x.X
		case *ast.IndexExpr:
			e = x.X
		case *ast.StarExpr:
			e = x.X
		default:
			return nil
		}
	}
}

func runC09(p *core.Program, r *core.Report) {
	r.Explanation = "Decides the absence of nondeterminism sources and of writes to inputs, over every library function in the import closure of the root package (an over-approximation of what expr.Compile and vm.Run can reach): no `go` statement, `select`, or call into time, math/rand, crypto/rand or the process environment; every iteration over a map's entries (range over a map, reflect MapKeys) on the compile side has an order-insensitive body (stores keyed by the entry's key, definitions of body-local variables, error returns) and none exists on the run side (functions reachable from vm.Run / (*VM).Run); no reflect.Value setter anywhere in the library; the run side sorts or edits no object that is not fresh in the run (shared with C08 R8.1); the constant pool is appended in emission order and its index map is never iterated (its only map loop would be caught by the rule above)."
	r.NotDecided = []string{"byte-for-byte equality itself", "determinism of environment functions and user visitors", "which of several errors is reported when an option set is invalid in more than one way (map order decides)"}
	ef := eng.BuildEffects(p)
	side := compileSidePkgs(p)
	var sl []string
	for s := range side {
		if s == "" {
			s = "expr"
		}
		sl = append(sl, s)
	}
	sort.Strings(sl)
	r.Analysed["compile_side_packages"] = sl
	if !side["compiler"] || !side["vm"] || !side["conf"] {
		r.Unk("R9.1", "import closure of the root package", "", "the root package does not import compiler, vm and conf: the package set is not what this rule was confirmed on")
		return
	}
	reach, _ := runSide(p, ef)
	r.Analysed["run_side_functions"] = len(reach)

	// R9.1 sources, R9.5 setters, per function
	nf := 0
	for _, fn := range ef.Funcs {
		if !side[ef.Rel(fn)] {
			continue
		}
		nf++
		key := ef.FuncKey(fn)
		var bad []string
		pos := p.Pos(fn.Pos())
		for _, s := range ef.SourcesOf(fn) {
			if s.What == "range over map" || strings.HasPrefix(s.What, "reflect map iteration") {
				if reach[fn] {
					r.Bad("R9.3", key+"/no map iteration on the run side", p.Pos(s.Pos), s.What+" in a function reachable from Run: the order of the entries differs from run to run")
				}
				continue
			}
			bad = append(bad, s.What+" at "+p.Pos(s.Pos))
			pos = p.Pos(s.Pos)
		}
		for _, e := range ef.EffectsOf(fn) {
			if e.What == "reflect-set" {
				bad = append(bad, e.Desc+" at "+p.Pos(e.Pos)+" (a setter can modify the environment value)")
				pos = p.Pos(e.Pos)
			}
		}
		r.Check(len(bad) == 0, "R9.1", key+"/no nondeterminism source, no reflect setter", pos, "none of: go, select, time, math/rand, crypto/rand, process environment, reflect setters", strings.Join(bad, "; "))
		if reach[fn] {
			r.OK("R9.3", key+"/no map iteration on the run side", p.Pos(fn.Pos()), "no range over a map, MapKeys or MapRange")
		}
	}
	r.Analysed["compile_side_functions"] = nf

	// R9.2 map loops on the compile side
	loops, other := findMapLoops(p, side)
	for _, o := range other {
		r.Bad("R9.2", "map iteration not in a range statement: "+o, "", o+": entries are obtained in an unspecified order outside a loop this rule can examine")
	}
	for _, ml := range loops {
		key := fmt.Sprintf("%s/map loop#%d (%s)", core.FuncName(ml.rel, ml.fd), ml.index, ml.how)
		bad := orderInsensitive(p, ef, ml)
		r.Check(len(bad) == 0, "R9.2", key, p.Pos(ml.rs.Pos()), "body is order-insensitive: stores keyed by the entry's key, body-local definitions, error returns only",
			"the result of this loop depends on the map's iteration order: "+strings.Join(bad, "; ")+" — compiling the same source twice can yield different programs")
	}
	// R9.5: a run modifies nothing that is not fresh in the run or per-run machine state —
	// in particular not the program, the environment value or the constants (= C08 R8.1)
	runSideWriteRule(p, r, ef, reach, borrowedFields(ef, reach), "R9.5", "running the program modifies the program, the environment value or another object that outlives the run: a second run on an equal environment sees different inputs")
	// R9.6: no process-wide mutable state (= C08 R8.6): what a call computes cannot depend on earlier calls
	globalEscapeRule(p, r, ef, "R9.6", "compiling the same source with the same options can yield a different program depending on what the process did before")
	_ = ssa.Function{}
	r.Floor("R9.5", 30)
	r.Floor("R9.1", 200)
	r.Floor("R9.2", 4)
	r.Floor("R9.3", 30)
}

func c09Controls() []core.Mutant {
	return []core.Mutant{
		{Name: "constants emitted in index-map order", File: "compiler/compiler.go", Old: "\tprogram = &Program{\n", New: "\tfor k := range c.index {\n\t\tc.constants = append(c.constants, k)\n\t}\n\tprogram = &Program{\n", Rule: "R9.2", Construct: "compiler.Compile"},
		{Name: "map membership by iteration in the VM", File: "vm/runtime.go", Old: "func in(needle interface{}, array interface{}) bool {\n", New: "func in(needle interface{}, array interface{}) bool {\n\tif m, ok := array.(map[string]interface{}); ok {\n\t\tfor k := range m {\n\t\t\tif k == needle {\n\t\t\t\treturn true\n\t\t\t}\n\t\t}\n\t}\n", Rule: "R9.3", Construct: "vm.in"},
		{Name: "first operator of the map wins", File: "conf/config.go", Old: "\tfor op, fns := range c.Operators {\n", New: "\tfor op, fns := range c.Operators {\n\t\tc.DefaultType = nil\n\t\tif len(fns) == 0 {\n\t\t\tbreak\n\t\t}\n", Rule: "R9.2", Construct: "conf.(Config).Check"},
		{Name: "time-dependent constant folding", File: "optimizer/fold.go", Old: "func (fold *fold) Exit(node *Node) {\n", New: "func (fold *fold) Exit(node *Node) {\n\tif time.Now().Unix() == 0 {\n\t\treturn\n\t}\n", Edits: [][2]string{{"import (\n", "import (\n\t\"time\"\n"}}, Rule: "R9.1", Construct: "optimizer.(*fold).Exit"},
		{Name: "fetch sets a field of the environment", File: "vm/runtime.go", Old: "func fetch(from, i interface{}, nilsafe bool) interface{} {\n", New: "func fetch(from, i interface{}, nilsafe bool) interface{} {\n\tif rv := reflect.ValueOf(from); rv.Kind() == reflect.Ptr && rv.Elem().Kind() == reflect.Int {\n\t\trv.Elem().SetInt(0)\n\t}\n", Rule: "R9.1", Construct: "vm.fetch"},
		{Name: "membership test sorts the environment's slice", File: "vm/runtime.go", Old: "func in(needle interface{}, array interface{}) bool {\n", New: "func in(needle interface{}, array interface{}) bool {\n\tif xs, ok := array.([]int); ok {\n\t\tsort.Ints(xs)\n\t}\n", Edits: [][2]string{{"import (\n", "import (\n\t\"sort\"\n"}}, Rule: "R9.5", Construct: "vm.in"},
		{Name: "types table cached per process", File: "conf/types_table.go", Old: "func CreateTypesTable(i interface{}) TypesTable {\n", New: "var tableCache sync.Map\n\nfunc CreateTypesTable(i interface{}) TypesTable {\n\tif c, ok := tableCache.Load(reflect.TypeOf(i)); ok {\n\t\tif tt, ok := c.(TypesTable); ok {\n\t\t\treturn tt\n\t\t}\n\t}\n", Edits: [][2]string{{"import \"reflect\"\n", "import (\n\t\"reflect\"\n\t\"sync\"\n)\n"}}, Rule: "R9.6", Construct: "conf.CreateTypesTable"},
		{Name: "refactor: Check loops swapped", File: "conf/config.go", Old: "\t// Check that all ConstExprFns are functions.\n\tfor name, fn := range c.ConstExprFns {\n\t\tif fn.Kind() != reflect.Func {\n\t\t\treturn fmt.Errorf(\"const expression %q must be a function\", name)\n\t\t}\n\t}\n", New: "\tfor name, fn := range c.ConstExprFns {\n\t\tkind := fn.Kind()\n\t\tif kind != reflect.Func {\n\t\t\treturn fmt.Errorf(\"const expression %q must be a function\", name)\n\t\t}\n\t}\n", Silent: true},
	}
}
