package props

import (
	"fmt"
	"go/ast"
	"go/constant"
	"go/token"
	"go/types"
	"sort"
	"strings"

	"verif/exprlint/core"
	"verif/exprlint/eng"
)

// C11 — the binding relation of the operator-precedence parser.
//
// Nothing here runs the parser. The two operator tables are read as constants, the
// climbing function's three uses of them (continuation test, recursive minimum, unary
// operand minimum) are evaluated per table entry by constant propagation along the syntactic
// paths of the function, and the resulting *binding relation* — "in `x a y b z` the operator b
// is absorbed into a's right operand" for all 23×23 pairs, "in `u y b z` b is absorbed into
// u's operand" for all 4×23 pairs — is compared with the reference relation below, which states
// classes and associativity, not numbers.

func init() {
	register(&Prop{ID: "C11", Run: runC11, Controls: c11Controls})
}

// The reference grammar's binding classes, loosest first (docs/Language-Definition.md lists
// the operator families; the order is the one of every C-like expression language and the
// one the documentation's examples rely on: `not` binds tighter than `matches`, unary minus
// tighter than `**`).
var c11Classes = [][]string{
	{"or", "||"},
	{"and", "&&"},
	{"==", "!=", "<", ">", ">=", "<=", "not in", "in", "matches", "contains", "startsWith", "endsWith"},
	{".."},
	{"+", "-"},
	{"*", "/", "%"},
	{"**"},
}
var c11RightAssoc = map[string]bool{"**": true}

// A unary operator absorbs exactly the binary classes with index >= the value given here.
var c11Unary = map[string]int{"not": 5, "!": 5, "-": 7, "+": 7}

func c11Class(op string) int {
	for i, c := range c11Classes {
		for _, o := range c {
			if o == op {
				return i
			}
		}
	}
	return -1
}

type opTable struct {
	v       types.Object // the package-level map, or the lookup function that stands for it
	name    string
	fields  []string                    // integer-typed fields of the entry struct, in order
	entries map[string]map[string]int64 // operator -> field -> value
	pos     map[string]string
	dup     []string
	problem string
}

// readOpTables: package-level `var X = map[string]S{…}` of package parser with S a struct of
// two or more integer-kinded fields, every entry a constant.
func readOpTables(p *core.Program) []*opTable {
	pk := p.Pkg("parser")
	info := pk.TypesInfo
	var out []*opTable
	for _, f := range pk.Syntax {
		for _, d := range f.Decls {
			gd, ok := d.(*ast.GenDecl)
			if !ok || gd.Tok != token.VAR {
				continue
			}
			for _, sp := range gd.Specs {
				vs := sp.(*ast.ValueSpec)
				if len(vs.Names) != 1 || len(vs.Values) != 1 {
					continue
				}
				v, _ := info.Defs[vs.Names[0]].(*types.Var)
				if v == nil {
					continue
				}
				mt, ok := v.Type().Underlying().(*types.Map)
				if !ok {
					continue
				}
				if b, ok := mt.Key().Underlying().(*types.Basic); !ok || b.Kind() != types.String {
					continue
				}
				st, ok := mt.Elem().Underlying().(*types.Struct)
				if !ok || st.NumFields() < 2 {
					continue
				}
				allInt := true
				var fields []string
				for i := 0; i < st.NumFields(); i++ {
					b, ok := st.Field(i).Type().Underlying().(*types.Basic)
					if !ok || b.Info()&types.IsInteger == 0 {
						allInt = false
					}
					fields = append(fields, st.Field(i).Name())
				}
				if !allInt {
					continue
				}
				t := &opTable{v: v, name: v.Name(), fields: fields, entries: map[string]map[string]int64{}, pos: map[string]string{}}
				cl, ok := eng.Unparen(vs.Values[0]).(*ast.CompositeLit)
				if !ok {
					t.problem = "initialiser is not a composite literal"
					out = append(out, t)
					continue
				}
				for _, el := range cl.Elts {
					kv, ok := el.(*ast.KeyValueExpr)
					if !ok {
						t.problem = "entry without key"
						continue
					}
					key, ok := constStringOf(info, kv.Key)
					if !ok {
						t.problem = "non-constant key " + eng.ExprStr(kv.Key)
						continue
					}
					vl, ok := eng.Unparen(kv.Value).(*ast.CompositeLit)
					if !ok {
						t.problem = "entry " + key + " is not a literal"
						continue
					}
					ent := map[string]int64{}
					for _, fn := range fields {
						ent[fn] = 0
					}
					for i, fe := range vl.Elts {
						name := ""
						val := fe
						if fkv, ok := fe.(*ast.KeyValueExpr); ok {
							name = eng.ExprStr(fkv.Key)
							val = fkv.Value
						} else if i < len(fields) {
							name = fields[i]
						}
						tv, ok := info.Types[val]
						if !ok || tv.Value == nil || tv.Value.Kind() != constant.Int {
							t.problem = "entry " + key + ": non-constant field " + name
							continue
						}
						n, _ := constant.Int64Val(tv.Value)
						ent[name] = n
					}
					if _, dup := t.entries[key]; dup {
						t.dup = append(t.dup, key)
					}
					t.entries[key] = ent
					t.pos[key] = p.Pos(kv.Pos())
				}
				out = append(out, t)
			}
		}
	}
	// the same table written as a lookup function: `func f(k string) (S, bool) { switch k {
	// case "a", "b": return S{…}, true … } return S{}, false }`
	for _, fd := range p.FuncDecls("parser") {
		if fd.Body == nil || fd.Recv != nil || fd.Type.Params == nil || fd.Type.Results == nil {
			continue
		}
		fn, _ := info.Defs[fd.Name].(*types.Func)
		if fn == nil {
			continue
		}
		sig := fn.Type().(*types.Signature)
		if sig.Params().Len() != 1 || sig.Results().Len() < 1 || sig.Results().Len() > 2 {
			continue
		}
		if b, ok := sig.Params().At(0).Type().Underlying().(*types.Basic); !ok || b.Kind() != types.String {
			continue
		}
		st, ok := sig.Results().At(0).Type().Underlying().(*types.Struct)
		if !ok || st.NumFields() < 2 {
			continue
		}
		allInt := true
		var fields []string
		for i := 0; i < st.NumFields(); i++ {
			b, ok := st.Field(i).Type().Underlying().(*types.Basic)
			if !ok || b.Info()&types.IsInteger == 0 {
				allInt = false
			}
			fields = append(fields, st.Field(i).Name())
		}
		if !allInt {
			continue
		}
		if sig.Results().Len() == 2 {
			if b, ok := sig.Results().At(1).Type().Underlying().(*types.Basic); !ok || b.Kind() != types.Bool {
				continue
			}
		}
		var sw *ast.SwitchStmt
		for _, st := range fd.Body.List {
			if x, ok := st.(*ast.SwitchStmt); ok && sw == nil {
				sw = x
			}
		}
		if sw == nil || sw.Tag == nil || sw.Init != nil {
			continue
		}
		if id, ok := eng.Unparen(sw.Tag).(*ast.Ident); !ok || info.Uses[id] != types.Object(sig.Params().At(0)) {
			continue
		}
		t := &opTable{v: fn, name: fn.Name(), fields: fields, entries: map[string]map[string]int64{}, pos: map[string]string{}}
		for _, st := range fd.Body.List {
			switch x := st.(type) {
			case *ast.SwitchStmt:
			case *ast.ReturnStmt:
				// the miss: a zero entry and false
				if cl, ok := eng.Unparen(x.Results[0]).(*ast.CompositeLit); !ok || len(cl.Elts) != 0 {
					t.problem = "the lookup function's final return is not the zero entry"
				}
				if len(x.Results) == 2 {
					if tv, ok := info.Types[x.Results[1]]; !ok || tv.Value == nil || constant.BoolVal(tv.Value) {
						t.problem = "the lookup function's final return does not report a miss"
					}
				}
			default:
				t.problem = "statement form not understood in the lookup function"
			}
		}
		for _, c := range sw.Body.List {
			cc := c.(*ast.CaseClause)
			if cc.List == nil {
				t.problem = "the lookup function's switch has a default clause"
				continue
			}
			var vl *ast.CompositeLit
			if len(cc.Body) == 1 {
				if rs, ok := cc.Body[0].(*ast.ReturnStmt); ok && len(rs.Results) == sig.Results().Len() {
					vl, _ = eng.Unparen(rs.Results[0]).(*ast.CompositeLit)
					if len(rs.Results) == 2 {
						if tv, ok := info.Types[rs.Results[1]]; !ok || tv.Value == nil || !constant.BoolVal(tv.Value) {
							vl = nil
						}
					}
				}
			}
			if vl == nil {
				t.problem = "a clause of the lookup function is not `return S{…}, true`"
				continue
			}
			ent := map[string]int64{}
			for _, fn := range fields {
				ent[fn] = 0
			}
			for i, fe := range vl.Elts {
				name := ""
				val := fe
				if fkv, ok := fe.(*ast.KeyValueExpr); ok {
					name = eng.ExprStr(fkv.Key)
					val = fkv.Value
				} else if i < len(fields) {
					name = fields[i]
				}
				tv, ok := info.Types[val]
				if !ok || tv.Value == nil || tv.Value.Kind() != constant.Int {
					t.problem = "non-constant field " + name
					continue
				}
				n, _ := constant.Int64Val(tv.Value)
				ent[name] = n
			}
			for _, ke := range cc.List {
				key, ok := constStringOf(info, ke)
				if !ok {
					t.problem = "non-constant key " + eng.ExprStr(ke)
					continue
				}
				if _, dup := t.entries[key]; dup {
					t.dup = append(t.dup, key)
				}
				cp := map[string]int64{}
				for k, v := range ent {
					cp[k] = v
				}
				t.entries[key] = cp
				t.pos[key] = p.Pos(ke.Pos())
			}
		}
		out = append(out, t)
	}
	return out
}

// lookupSite: `op, ok := T[k]` / `op := T[k]` (possibly as the init of an if) inside fd.
type lookupSite struct {
	table *opTable
	opVar types.Object
	key   ast.Expr // the index expression's key, e.g. token.Value
	stmt  *ast.AssignStmt
}

func findLookups(info *types.Info, fd *ast.FuncDecl, tables []*opTable) []lookupSite {
	var out []lookupSite
	ast.Inspect(fd.Body, func(n ast.Node) bool {
		as, ok := n.(*ast.AssignStmt)
		if !ok || len(as.Rhs) != 1 || len(as.Lhs) == 0 {
			return true
		}
		var id *ast.Ident
		var key ast.Expr
		switch x := eng.Unparen(as.Rhs[0]).(type) {
		case *ast.IndexExpr:
			id, _ = eng.Unparen(x.X).(*ast.Ident)
			key = x.Index
		case *ast.CallExpr:
			// the table as a lookup function
			if len(x.Args) == 1 {
				id, _ = eng.Unparen(x.Fun).(*ast.Ident)
				key = x.Args[0]
			}
		}
		if id == nil {
			return true
		}
		for _, t := range tables {
			if info.Uses[id] == t.v {
				if l, ok := as.Lhs[0].(*ast.Ident); ok {
					out = append(out, lookupSite{t, objOf(info, l), key, as})
				}
			}
		}
		return true
	})
	return out
}

// flattenPaths expands loop atoms (one iteration of every body path, then the loop's exit) so
// that a path is a plain atom sequence.
func flattenPaths(ps []eng.Path, limit int) [][]eng.Atom {
	var out [][]eng.Atom
	var rec func(done []eng.Atom, rest []eng.Atom)
	rec = func(done []eng.Atom, rest []eng.Atom) {
		if len(out) > limit {
			return
		}
		for i, a := range rest {
			if a.Kind == "loop" && len(a.Body) > 0 {
				for _, bp := range a.Body {
					nd := append(append([]eng.Atom{}, done...), rest[:i]...)
					nd = append(nd, eng.Atom{Kind: "loophead", Node: a.Node, Loop: a.Loop})
					body := append(append([]eng.Atom{}, bp.Atoms...), eng.Atom{Kind: "loopend:" + bp.Term, Node: a.Node})
					if bp.Term != "return" && bp.Term != "panic" {
						body = append(body, rest[i+1:]...)
					}
					rec(nd, body)
				}
				// zero iterations
				nd := append(append([]eng.Atom{}, done...), rest[:i]...)
				rec(nd, rest[i+1:])
				return
			}
		}
		out = append(out, append(append([]eng.Atom{}, done...), rest...))
	}
	for _, p := range ps {
		rec(nil, p.Atoms)
	}
	return out
}

// c11Eval evaluates an integer expression to an affine form over the symbol "P" (the
// climbing function's minimum-precedence parameter) with the looked-up entry bound.
type c11Env struct {
	info   *types.Info
	opVar  types.Object
	entry  map[string]int64
	param  types.Object
	locals map[types.Object]eng.Aff
}

func (e *c11Env) eval(x ast.Expr) (eng.Aff, bool) {
	x = eng.Unparen(x)
	if tv, ok := e.info.Types[x]; ok && tv.Value != nil && tv.Value.Kind() == constant.Int {
		if v, ok := constant.Int64Val(tv.Value); ok {
			return eng.AffConst(v), true
		}
	}
	switch x := x.(type) {
	case *ast.Ident:
		o := objOf(e.info, x)
		if o != nil && o == e.param {
			return eng.AffSym("P"), true
		}
		if a, ok := e.locals[o]; ok {
			return a, true
		}
	case *ast.SelectorExpr:
		if id, ok := eng.Unparen(x.X).(*ast.Ident); ok && e.opVar != nil && objOf(e.info, id) == e.opVar {
			if v, ok := e.entry[x.Sel.Name]; ok {
				return eng.AffConst(v), true
			}
		}
	case *ast.BinaryExpr:
		l, ok1 := e.eval(x.X)
		r, ok2 := e.eval(x.Y)
		if ok1 && ok2 {
			switch x.Op {
			case token.ADD:
				return l.Add(r, 1), true
			case token.SUB:
				return l.Add(r, -1), true
			}
		}
	case *ast.CallExpr:
		if tv, ok := e.info.Types[x.Fun]; ok && tv.IsType() && len(x.Args) == 1 {
			return e.eval(x.Args[0])
		}
	}
	return eng.Aff{}, false
}

// truth: 1 true, 0 false, -1 unknown. rel: if the condition compares a constant with P, the
// normalised fact "P <= k" (le=true) or "P >= k" that holds when the condition is TRUE is
// reported through onP.
func (e *c11Env) truth(c ast.Expr) int {
	c = eng.Unparen(c)
	switch x := c.(type) {
	case *ast.UnaryExpr:
		if x.Op == token.NOT {
			t := e.truth(x.X)
			if t < 0 {
				return -1
			}
			return 1 - t
		}
	case *ast.BinaryExpr:
		switch x.Op {
		case token.LAND:
			a, b := e.truth(x.X), e.truth(x.Y)
			if a == 0 || b == 0 {
				return 0
			}
			if a == 1 && b == 1 {
				return 1
			}
			return -1
		case token.LOR:
			a, b := e.truth(x.X), e.truth(x.Y)
			if a == 1 || b == 1 {
				return 1
			}
			if a == 0 && b == 0 {
				return 0
			}
			return -1
		case token.EQL, token.NEQ, token.LSS, token.LEQ, token.GTR, token.GEQ:
			l, ok1 := e.eval(x.X)
			r, ok2 := e.eval(x.Y)
			if !ok1 || !ok2 || !l.IsConst() || !r.IsConst() {
				return -1
			}
			var b bool
			switch x.Op {
			case token.EQL:
				b = l.C == r.C
			case token.NEQ:
				b = l.C != r.C
			case token.LSS:
				b = l.C < r.C
			case token.LEQ:
				b = l.C <= r.C
			case token.GTR:
				b = l.C > r.C
			case token.GEQ:
				b = l.C >= r.C
			}
			if b {
				return 1
			}
			return 0
		}
	}
	return -1
}

// pFact: a condition of the form (const ⋈ P) or (P ⋈ const), taken or not, as an upper
// bound on P: returns (k, true) meaning "P <= k" holds on this edge.
func (e *c11Env) pUpper(c ast.Expr, taken bool) (int64, bool) {
	x, ok := eng.Unparen(c).(*ast.BinaryExpr)
	if !ok {
		return 0, false
	}
	l, ok1 := e.eval(x.X)
	r, ok2 := e.eval(x.Y)
	if !ok1 || !ok2 {
		return 0, false
	}
	d := l.Add(r, -1) // l - r
	if len(d.T) != 1 {
		return 0, false
	}
	coef := d.T["P"]
	if coef != 1 && coef != -1 {
		return 0, false
	}
	op := x.Op
	if !taken {
		switch op {
		case token.LSS:
			op = token.GEQ
		case token.LEQ:
			op = token.GTR
		case token.GTR:
			op = token.LEQ
		case token.GEQ:
			op = token.LSS
		default:
			return 0, false
		}
	}
	// d = coef*P + C  ⋈ 0
	if coef == -1 {
		// C - P ⋈ 0  ⇔  P ⋈' C
		switch op {
		case token.GEQ: // C - P >= 0  ⇔ P <= C
			return d.C, true
		case token.GTR: // P < C ⇔ P <= C-1
			return d.C - 1, true
		}
		return 0, false
	}
	// P + C ⋈ 0 ⇔ P ⋈ -C
	switch op {
	case token.LEQ:
		return -d.C, true
	case token.LSS:
		return -d.C - 1, true
	}
	return 0, false
}

type climbUse struct {
	arg      int64 // the minimum precedence handed to the recursive call
	upper    int64 // the path requires P <= upper to reach the call (continuation test)
	hasUpper bool
	call     *ast.CallExpr
}

// evalEntry walks every flattened path of fd from the lookup statement on, with the entry
// bound, and returns what reaches each call of `climb`.
func evalEntry(info *types.Info, paths [][]eng.Atom, site lookupSite, entry map[string]int64, param types.Object, isClimb func(*ast.CallExpr) bool) (uses []climbUse, problems []string) {
	seenKey := map[string]bool{}
	for _, atoms := range paths {
		start := -1
		for i, a := range atoms {
			if a.Kind == "assign" && a.Node == ast.Node(site.stmt) {
				start = i
				break
			}
		}
		if start < 0 {
			continue
		}
		env := &c11Env{info: info, opVar: site.opVar, entry: entry, param: param, locals: map[types.Object]eng.Aff{}}
		var upper int64
		hasUpper := false
		feasible := true
		for _, a := range atoms[start+1:] {
			if !feasible {
				break
			}
			switch a.Kind {
			case "loophead":
				// a new iteration performs a new lookup: the entry is no longer this one
				feasible = false
			case "cond":
				c := a.Node.(ast.Expr)
				// `ok` of the lookup: the entry exists
				if id, ok := eng.Unparen(c).(*ast.Ident); ok && len(site.stmt.Lhs) == 2 {
					if l2, ok := site.stmt.Lhs[1].(*ast.Ident); ok && objOf(info, id) == objOf(info, l2) {
						if !a.Taken {
							feasible = false
						}
						continue
					}
				}
				if t := env.truth(c); t >= 0 {
					if (t == 1) != a.Taken {
						feasible = false
					}
					continue
				}
				if k, ok := env.pUpper(c, a.Taken); ok {
					if !hasUpper || k < upper {
						upper, hasUpper = k, true
					}
				}
			case "assign":
				as := a.Node.(*ast.AssignStmt)
				if len(as.Lhs) == len(as.Rhs) {
					for i, l := range as.Lhs {
						id, ok := l.(*ast.Ident)
						if !ok {
							continue
						}
						o := objOf(info, id)
						if o == nil {
							continue
						}
						switch as.Tok {
						case token.ASSIGN, token.DEFINE:
							if v, ok := env.eval(as.Rhs[i]); ok {
								env.locals[o] = v
							} else {
								delete(env.locals, o)
							}
						case token.ADD_ASSIGN, token.SUB_ASSIGN:
							cur, ok1 := env.locals[o]
							v, ok2 := env.eval(as.Rhs[i])
							if ok1 && ok2 {
								s := int64(1)
								if as.Tok == token.SUB_ASSIGN {
									s = -1
								}
								env.locals[o] = cur.Add(v, s)
							} else {
								delete(env.locals, o)
							}
						default:
							delete(env.locals, o)
						}
					}
				}
			case "incdec":
				st := a.Node.(*ast.IncDecStmt)
				if id, ok := st.X.(*ast.Ident); ok {
					o := objOf(info, id)
					if cur, ok := env.locals[o]; ok {
						d := int64(1)
						if st.Tok == token.DEC {
							d = -1
						}
						env.locals[o] = cur.Add(eng.AffConst(d), 1)
					}
				}
			case "call":
				if a.Call != nil && isClimb(a.Call) {
					if len(a.Call.Args) != 1 {
						problems = append(problems, "call of the climbing function with "+fmt.Sprint(len(a.Call.Args))+" arguments")
						continue
					}
					v, ok := env.eval(a.Call.Args[0])
					if !ok || !v.IsConst() {
						problems = append(problems, "the minimum precedence `"+eng.ExprStr(a.Call.Args[0])+"` of the recursive call does not evaluate to a constant for this entry")
						continue
					}
					key := fmt.Sprintf("%d|%v|%d|%d", v.C, hasUpper, upper, a.Call.Pos())
					if !seenKey[key] {
						seenKey[key] = true
						uses = append(uses, climbUse{v.C, upper, hasUpper, a.Call})
					}
				}
			}
		}
	}
	return
}

type c11Model struct {
	climb     *ast.FuncDecl
	climbFn   *types.Func
	param     types.Object
	bin, un   *opTable
	binSite   lookupSite
	unSite    lookupSite
	unFunc    *ast.FuncDecl
	binArg    map[string]int64 // operator -> minimum precedence of its right operand
	binUpper  map[string]int64 // operator is accepted iff P <= binUpper[op]
	unArg     map[string]int64
	top       int64 // the constant every other call passes
	topCalls  int
	condCalls int
}

func runC11(p *core.Program, r *core.Report) {
	r.Explanation = "Decides the BINDING RELATION of the precedence-climbing parser for all operator pairs, without running it: the operator tables are read as constants; for every table entry the climbing function's continuation test and the minimum precedence it hands to the recursive parse of the right operand (and the unary rule's operand) are evaluated by constant propagation along the syntactic paths of the function; from these the relation `b is absorbed into a's right operand` (23×23 binary pairs) and `b is absorbed into u's operand` (4×23) is computed and compared with the reference relation given as binding classes plus associativity (numbers are free: renumbering the table is silent). Also decided: every operator is accepted at the outermost level; all non-recursive uses (parentheses, arguments, brackets, closures, map values, conditional branches) restart at the outermost level; the conditional form is attached only there and never inside an operator's operand; the nodes built by the climbing loop and the unary rule take the looked-up token as operator and their operands in source order; the conditional node's three children in source order. Each of these is a necessary condition of the property: a pair whose relation differs is a two-operator expression that parses to another tree."
	r.NotDecided = []string{"print/parse round-tripping and agreement with a reference grammar on arbitrary token sequences (statements about parser results)", "postfix forms (member access, index, slice, call), array/map/closure syntax and error recovery", "that the lexer produces exactly the operator tokens of the tables (R11.3 not built)"}
	pk := p.Pkg("parser")
	info := pk.TypesInfo
	tables := readOpTables(p)
	if len(tables) < 2 {
		r.Unk("R11.1", "operator tables", "", fmt.Sprintf("expected the unary and the binary operator table (package-level map[string]struct{int…}) in package parser, found %d", len(tables)))
		return
	}
	for _, t := range tables {
		if t.problem != "" {
			r.Unk("R11.1", "table "+t.name, "", "cannot read the table as constants: "+t.problem)
			return
		}
		for _, d := range t.dup {
			r.Bad("R11.2", "table "+t.name+"/"+d, t.pos[d], "operator listed twice")
		}
	}
	// the climbing function: calls itself, has one integer parameter, looks a table up
	m := &c11Model{binArg: map[string]int64{}, binUpper: map[string]int64{}, unArg: map[string]int64{}}
	for _, fd := range p.FuncDecls("parser") {
		if fd.Body == nil {
			continue
		}
		fn, _ := info.Defs[fd.Name].(*types.Func)
		if fn == nil {
			continue
		}
		self := false
		ast.Inspect(fd.Body, func(n ast.Node) bool {
			if c, ok := n.(*ast.CallExpr); ok && eng.CalleeOf(info, c) == fn {
				self = true
			}
			return true
		})
		if !self || fd.Type.Params == nil {
			continue
		}
		var ip []types.Object
		for _, f := range fd.Type.Params.List {
			for _, nm := range f.Names {
				o := info.Defs[nm]
				if b, ok := o.Type().Underlying().(*types.Basic); ok && b.Info()&types.IsInteger != 0 {
					ip = append(ip, o)
				}
			}
		}
		ls := findLookups(info, fd, tables)
		if len(ip) != 1 || len(ls) == 0 {
			continue
		}
		if m.climb != nil {
			r.Unk("R11.4", "climbing function", p.Pos(fd.Pos()), "two candidates for the precedence-climbing function")
			return
		}
		m.climb, m.climbFn, m.param = fd, fn, ip[0]
		if len(ls) != 1 {
			r.Unk("R11.4", "climbing function", p.Pos(fd.Pos()), "the climbing function looks operator tables up at more than one place")
			return
		}
		m.binSite, m.bin = ls[0], ls[0].table
	}
	if m.climb == nil {
		r.Unk("R11.4", "climbing function", "", "no self-recursive function of package parser with one integer parameter that looks up an operator table")
		return
	}
	isClimb := func(c *ast.CallExpr) bool { return eng.CalleeOf(info, c) == m.climbFn }
	// the unary rule: another function that looks up the other table and calls the climbing function
	for _, fd := range p.FuncDecls("parser") {
		if fd.Body == nil || fd == m.climb {
			continue
		}
		for _, l := range findLookups(info, fd, tables) {
			if l.table == m.bin {
				r.Unk("R11.4", "binary table", p.Pos(l.stmt.Pos()), "the binary operator table is looked up outside the climbing function")
				return
			}
			if m.un != nil {
				r.Unk("R11.4", "unary rule", p.Pos(l.stmt.Pos()), "more than one lookup of a unary operator table")
				return
			}
			m.un, m.unSite, m.unFunc = l.table, l, fd
		}
	}
	if m.un == nil {
		r.Unk("R11.4", "unary rule", "", "no function looks up the unary operator table")
		return
	}
	r.Analysed["climbing_function"] = core.FuncName("parser", m.climb)
	r.Analysed["unary_rule"] = core.FuncName("parser", m.unFunc)
	r.Analysed["binary_operators"] = len(m.bin.entries)
	r.Analysed["unary_operators"] = len(m.un.entries)

	// --- per-entry evaluation of the climbing loop
	w := &eng.Walker{Info: info, MaxPaths: 4000}
	cpaths := flattenPaths(w.Func(m.climb.Body), 20000)
	upaths := flattenPaths((&eng.Walker{Info: info, MaxPaths: 4000}).Func(m.unFunc.Body), 20000)
	if w.Overflow {
		r.Unk("R11.4", "climbing function", p.Pos(m.climb.Pos()), "too many paths")
		return
	}
	r.Analysed["paths_climbing_function"] = len(cpaths)
	binOps := sortedKeys(m.bin.entries)
	unOps := sortedKeys(m.un.entries)
	okAll := true
	for _, op := range binOps {
		uses, probs := evalEntry(info, cpaths, m.binSite, m.bin.entries[op], m.param, isClimb)
		key := "binary " + op + "/right operand"
		switch {
		case len(probs) > 0:
			r.Unk("R11.4", key, m.bin.pos[op], probs[0])
			okAll = false
		case len(uses) == 0:
			r.Bad("R11.4", key, m.bin.pos[op], "no path of the climbing loop parses a right operand for this operator")
			okAll = false
		default:
			a, u, hu := uses[0].arg, uses[0].upper, uses[0].hasUpper
			same := true
			for _, x := range uses[1:] {
				if x.arg != a || x.upper != u || x.hasUpper != hu {
					same = false
				}
			}
			if !same {
				r.Unk("R11.4", key, m.bin.pos[op], fmt.Sprintf("paths disagree on the right operand's minimum precedence or on the continuation test: %v", describeUses(uses)))
				okAll = false
			} else if !hu {
				r.Bad("R11.4", key, m.bin.pos[op], "the right operand is parsed without a preceding comparison of the operator's precedence with the current minimum: every operator would be absorbed at every level")
				okAll = false
			} else {
				m.binArg[op], m.binUpper[op] = a, u
				r.OK("R11.4", key, m.bin.pos[op], fmt.Sprintf("accepted iff minimum <= %d; right operand parsed with minimum %d", u, a))
			}
		}
	}
	for _, op := range unOps {
		uses, probs := evalEntry(info, upaths, m.unSite, m.un.entries[op], nil, isClimb)
		key := "unary " + op + "/operand"
		switch {
		case len(probs) > 0:
			r.Unk("R11.4", key, m.un.pos[op], probs[0])
			okAll = false
		case len(uses) == 0:
			r.Bad("R11.4", key, m.un.pos[op], "the unary rule parses no operand through the climbing function for this operator")
			okAll = false
		default:
			same := true
			for _, x := range uses[1:] {
				if x.arg != uses[0].arg {
					same = false
				}
			}
			if !same {
				r.Unk("R11.4", key, m.un.pos[op], "paths disagree on the operand's minimum precedence")
				okAll = false
			} else {
				m.unArg[op] = uses[0].arg
				r.OK("R11.4", key, m.un.pos[op], fmt.Sprintf("operand parsed with minimum %d", uses[0].arg))
			}
		}
	}
	if !okAll {
		return
	}

	// --- R11.1: the binding relation against the reference
	absorbed := func(min int64, b string) bool { return min <= m.binUpper[b] }
	for _, op := range binOps {
		if c11Class(op) < 0 {
			r.Unk("R11.1", "binary "+op, m.bin.pos[op], "operator is not in the reference grammar of the checker (tool/props/c11.go): extend the reference after confirming its documented precedence")
			okAll = false
		}
	}
	for _, c := range c11Classes {
		for _, op := range c {
			_, ok := m.bin.entries[op]
			r.Check(ok, "R11.3", "binary "+op+"/in table", "", "present", "the reference grammar's binary operator "+op+" has no entry in the binary table: it can no longer be parsed")
		}
	}
	for op := range c11Unary {
		_, ok := m.un.entries[op]
		r.Check(ok, "R11.3", "unary "+op+"/in table", "", "present", "the reference grammar's unary operator "+op+" has no entry in the unary table")
	}
	for _, op := range unOps {
		if _, ok := c11Unary[op]; !ok {
			r.Unk("R11.1", "unary "+op, m.un.pos[op], "operator is not in the reference grammar of the checker")
			okAll = false
		}
	}
	if !okAll {
		return
	}
	for _, a := range binOps {
		for _, b := range binOps {
			got := absorbed(m.binArg[a], b)
			ca, cb := c11Class(a), c11Class(b)
			want := cb > ca || (cb == ca && c11RightAssoc[a])
			exp := "x " + a + " y " + b + " z"
			wt, gt := "(x "+a+" y) "+b+" z", "(x "+a+" y) "+b+" z"
			if want {
				wt = "x " + a + " (y " + b + " z)"
			}
			if got {
				gt = "x " + a + " (y " + b + " z)"
			}
			r.Check(got == want, "R11.1", "pair "+a+" , "+b, m.bin.pos[a], exp+" parses as "+gt,
				fmt.Sprintf("`%s` parses as `%s`; the reference grammar (class %d vs class %d%s) gives `%s`", exp, gt, ca, cb, map[bool]string{true: ", right-associative", false: ""}[c11RightAssoc[a]], wt))
		}
	}
	for _, u := range unOps {
		for _, b := range binOps {
			got := absorbed(m.unArg[u], b)
			want := c11Class(b) >= c11Unary[u]
			exp := u + " y " + b + " z"
			gt, wt := "("+u+" y) "+b+" z", "("+u+" y) "+b+" z"
			if got {
				gt = u + " (y " + b + " z)"
			}
			if want {
				wt = u + " (y " + b + " z)"
			}
			r.Check(got == want, "R11.1", "unary pair "+u+" , "+b, m.un.pos[u], exp+" parses as "+gt,
				fmt.Sprintf("`%s` parses as `%s`; the reference grammar gives `%s`", exp, gt, wt))
		}
	}
	// R11.2: synonyms share one entry (implied by R11.1; stated separately so that the report names the pair)
	for _, syn := range [][2]string{{"or", "||"}, {"and", "&&"}} {
		a, b := syn[0], syn[1]
		same := m.binArg[a] == m.binArg[b] && m.binUpper[a] == m.binUpper[b]
		r.Check(same, "R11.2", "synonyms "+a+" "+b, m.bin.pos[a], "same continuation bound and operand minimum", "the two spellings of one operator bind differently")
	}
	for _, syn := range [][2]string{{"not", "!"}} {
		r.Check(m.unArg[syn[0]] == m.unArg[syn[1]], "R11.2", "synonyms "+syn[0]+" "+syn[1], m.un.pos[syn[0]], "same operand minimum", "the two spellings of one operator bind differently")
	}

	// --- R11.5: every other call of the climbing function restarts at one constant level,
	// at which every operator is accepted
	topSet := map[int64]int{}
	inRecursive := map[*ast.CallExpr]bool{}
	for _, op := range binOps {
		us, _ := evalEntry(info, cpaths, m.binSite, m.bin.entries[op], m.param, isClimb)
		for _, u := range us {
			inRecursive[u.call] = true
		}
	}
	for _, op := range unOps {
		us, _ := evalEntry(info, upaths, m.unSite, m.un.entries[op], nil, isClimb)
		for _, u := range us {
			inRecursive[u.call] = true
		}
	}
	for _, fd := range p.FuncDecls("parser") {
		if fd.Body == nil {
			continue
		}
		ast.Inspect(fd.Body, func(n ast.Node) bool {
			c, ok := n.(*ast.CallExpr)
			if !ok || !isClimb(c) || inRecursive[c] {
				return true
			}
			key := fmt.Sprintf("%s/call %s#%d", core.FuncName("parser", fd), eng.ExprStr(c), countCallsBefore(fd, c, info, m.climbFn))
			if len(c.Args) != 1 {
				r.Unk("R11.5", key, p.Pos(c.Pos()), "unexpected argument count")
				return true
			}
			tv, ok := info.Types[c.Args[0]]
			if !ok || tv.Value == nil || tv.Value.Kind() != constant.Int {
				r.Bad("R11.5", key, p.Pos(c.Pos()), "a bracketed, argument, branch or top-level context parses its expression with the non-constant minimum precedence `"+eng.ExprStr(c.Args[0])+"`: operators below it are cut off there, so redundant parentheses or the position of a sub-expression change the tree")
				return true
			}
			v, _ := constant.Int64Val(tv.Value)
			topSet[v]++
			m.topCalls++
			r.OK("R11.5", key, p.Pos(c.Pos()), fmt.Sprintf("restarts at level %d", v))
			return true
		})
	}
	if len(topSet) != 1 {
		r.Bad("R11.5", "outermost level", p.Pos(m.climb.Pos()), fmt.Sprintf("contexts restart at different levels %v", topSet))
		return
	}
	for v := range topSet {
		m.top = v
	}
	for _, b := range binOps {
		r.Check(absorbed(m.top, b), "R11.5", "binary "+b+"/accepted at the outermost level", m.bin.pos[b], "accepted", fmt.Sprintf("operator %s is refused at the outermost level %d (accepted only iff minimum <= %d): `x %s y` no longer parses", b, m.top, m.binUpper[b], b))
	}
	r.Analysed["outermost_level"] = m.top
	r.Analysed["restart_calls"] = m.topCalls

	// --- R11.4b: the conditional is attached only at the outermost level
	nk, msg := eng.FindNodeKinds(p)
	if nk == nil {
		r.Unk("R11.6", "node kinds", "", msg)
		return
	}
	c11Conditional(p, r, m, nk, cpaths)
	c11Construction(p, r, m, nk)
	c11TokenMatch(p, r)

	r.Floor("R11.1", 23*23+4*23)
	r.Floor("R11.4", 27)
	r.Floor("R11.5", 10+23)
	r.Floor("R11.6", 3)
	r.Exhaustive = true
}

// c11TokenMatch (R11.7): the parser recognises punctuation, operators and brackets with the
// token predicate `Is(kind, values…)`. It must never answer true for a token of another kind:
// a string literal whose text happens to be ")" is not a bracket.
func c11TokenMatch(p *core.Program, r *core.Report) {
	pk := p.Pkg("parser/lexer")
	info := pk.TypesInfo
	n := 0
	for _, fd := range p.FuncDecls("parser/lexer") {
		if fd.Body == nil || fd.Recv == nil || fd.Type.Params == nil || fd.Type.Results == nil || fd.Type.Results.NumFields() != 1 {
			continue
		}
		if b, ok := info.TypeOf(fd.Type.Results.List[0].Type).(*types.Basic); !ok || b.Kind() != types.Bool {
			continue
		}
		// a parameter whose type is the type of a field of the receiver (the token kind)
		recvT := info.TypeOf(fd.Recv.List[0].Type)
		if pt, ok := recvT.(*types.Pointer); ok {
			recvT = pt.Elem()
		}
		st, ok := recvT.Underlying().(*types.Struct)
		if !ok {
			continue
		}
		var kindParam types.Object
		var kindField *types.Var
		for _, f := range fd.Type.Params.List {
			for _, nm := range f.Names {
				o := info.Defs[nm]
				for i := 0; i < st.NumFields(); i++ {
					if _, isNamed := o.Type().(*types.Named); isNamed && types.Identical(st.Field(i).Type(), o.Type()) {
						kindParam, kindField = o, st.Field(i)
					}
				}
			}
		}
		if kindParam == nil {
			continue
		}
		n++
		isKindEq := func(e ast.Expr) (eq, neq bool) {
			b, ok := eng.Unparen(e).(*ast.BinaryExpr)
			if !ok || (b.Op != token.EQL && b.Op != token.NEQ) {
				return
			}
			side := func(x ast.Expr) string {
				switch y := eng.Unparen(x).(type) {
				case *ast.Ident:
					if objOf(info, y) == kindParam {
						return "param"
					}
				case *ast.SelectorExpr:
					if s := info.Selections[y]; s != nil && s.Obj() == types.Object(kindField) {
						return "field"
					}
				}
				return ""
			}
			a, c := side(b.X), side(b.Y)
			if (a == "param" && c == "field") || (a == "field" && c == "param") {
				return b.Op == token.EQL, b.Op == token.NEQ
			}
			return
		}
		w := &eng.Walker{Info: info, MaxPaths: 2000}
		bad := ""
		for _, atoms := range flattenPaths(w.Func(fd.Body), 10000) {
			tested := false
			for _, a := range atoms {
				switch a.Kind {
				case "cond":
					eq, neq := isKindEq(a.Node.(ast.Expr))
					if (eq && a.Taken) || (neq && !a.Taken) {
						tested = true
					}
				case "return":
					rs := a.Node.(*ast.ReturnStmt)
					if len(rs.Results) != 1 {
						continue
					}
					e := rs.Results[0]
					if tv, ok := info.Types[e]; ok && tv.Value != nil {
						if tv.Value.ExactString() == "true" && !tested {
							bad = p.Pos(rs.Pos())
						}
						continue
					}
					// a non-constant result must itself contain the kind comparison
					has := false
					ast.Inspect(e, func(m ast.Node) bool {
						if x, ok := m.(ast.Expr); ok {
							if eq, _ := isKindEq(x); eq {
								has = true
							}
						}
						return true
					})
					if !has && !tested {
						bad = p.Pos(rs.Pos())
					}
				}
			}
		}
		r.Check(bad == "", "R11.7", core.FuncName("parser/lexer", fd)+"/true only for a token of the asked kind", p.Pos(fd.Pos()), "every path that answers true has compared the kinds",
			"the token predicate can answer true at "+bad+" without having compared the token's kind with the kind asked for: a string literal whose text is `)` , `,` or `:` is then taken for that punctuation — valid programs are rejected or parsed to another tree, invalid token sequences are accepted")
	}
	if n == 0 {
		r.Unk("R11.7", "token predicate", "", "no boolean method of the token type with a kind parameter found")
	}
}

func describeUses(us []climbUse) string {
	var s []string
	for _, u := range us {
		s = append(s, fmt.Sprintf("min=%d upper=%d(%v)", u.arg, u.upper, u.hasUpper))
	}
	return strings.Join(s, "; ")
}

func sortedKeys(m map[string]map[string]int64) []string {
	var ks []string
	for k := range m {
		ks = append(ks, k)
	}
	sort.Strings(ks)
	return ks
}

// c11Conditional: the function that builds the three-child conditional node is called from
// the climbing function only under a test that pins the minimum to the outermost level, and
// no operator's operand is parsed at that level.
func c11Conditional(p *core.Program, r *core.Report, m *c11Model, nk *eng.NodeKinds, cpaths [][]eng.Atom) {
	info := p.Pkg("parser").TypesInfo
	// the conditional builder: a function of package parser containing a literal of a node
	// kind with three single child slots
	var condFn *types.Func
	var condDecl *ast.FuncDecl
	var condKind *eng.Kind
	// candidates: functions the climbing function calls (other than itself)
	called := map[*types.Func]bool{}
	ast.Inspect(m.climb.Body, func(n ast.Node) bool {
		if c, ok := n.(*ast.CallExpr); ok {
			if fn := eng.CalleeOf(info, c); fn != nil && fn != m.climbFn {
				called[fn] = true
			}
		}
		return true
	})
	for _, fd := range p.FuncDecls("parser") {
		if fd.Body == nil {
			continue
		}
		fn, _ := info.Defs[fd.Name].(*types.Func)
		if fn == nil || !called[fn] {
			continue
		}
		ast.Inspect(fd.Body, func(n ast.Node) bool {
			e, ok := n.(ast.Expr)
			if !ok {
				return true
			}
			if cl, k := nodeLit(nk, info, e); cl != nil && len(k.Slots) == 3 && !k.Slots[0].List && !k.Slots[1].List && !k.Slots[2].List {
				condFn, condDecl, condKind = fn, fd, k
			}
			return true
		})
	}
	if condFn == nil {
		r.Unk("R11.4", "conditional/builder", "", "no function of package parser builds a node with three single child slots (the conditional)")
		return
	}
	env := &c11Env{info: info, param: m.param, locals: map[types.Object]eng.Aff{}}
	found := 0
	if condDecl == m.climb {
		r.Unk("R11.4", "conditional/attached only at the outermost level", p.Pos(condDecl.Pos()), "the conditional is built inside the climbing function itself; this shape is not understood")
		return
	}
	for _, atoms := range cpaths {
		pinned := false
		var pin int64
		for _, a := range atoms {
			if a.Kind == "cond" {
				if x, ok := eng.Unparen(a.Node.(ast.Expr)).(*ast.BinaryExpr); ok && (x.Op == token.EQL && a.Taken || x.Op == token.NEQ && !a.Taken) {
					l, ok1 := env.eval(x.X)
					rr, ok2 := env.eval(x.Y)
					if ok1 && ok2 {
						d := l.Add(rr, -1)
						if len(d.T) == 1 && (d.T["P"] == 1 || d.T["P"] == -1) {
							pinned, pin = true, -d.C*d.T["P"]
						}
					}
				}
			}
			if a.Kind == "join" {
				if is, ok := a.Owner.(*ast.IfStmt); ok {
					if x, ok := eng.Unparen(is.Cond).(*ast.BinaryExpr); ok {
						l, ok1 := env.eval(x.X)
						rr, ok2 := env.eval(x.Y)
						if ok1 && ok2 && len(l.Add(rr, -1).T) == 1 {
							pinned = false
						}
					}
				}
			}
			if a.Kind == "call" && a.Call != nil && eng.CalleeOf(info, a.Call) == condFn {
				found++
				if !pinned {
					r.Bad("R11.4", "conditional/attached only at the outermost level", p.Pos(a.Call.Pos()), "the conditional form is attached on a path that does not test the minimum precedence for the outermost level: `x + y ? a : b` would attach the conditional to an operand")
					return
				}
				if pin != m.top {
					r.Bad("R11.4", "conditional/attached only at the outermost level", p.Pos(a.Call.Pos()), fmt.Sprintf("the conditional is attached at level %d, contexts restart at level %d", pin, m.top))
					return
				}
			}
		}
	}
	if found == 0 {
		r.Bad("R11.4", "conditional/attached only at the outermost level", p.Pos(m.climb.Pos()), "the climbing function never attaches the conditional form")
		return
	}
	r.OK("R11.4", "conditional/attached only at the outermost level", p.Pos(m.climb.Pos()), fmt.Sprintf("attached only under minimum == %d", m.top))
	for op, a := range m.binArg {
		r.Check(a != m.top, "R11.4", "conditional/not inside the right operand of "+op, m.bin.pos[op], "operand level differs from the outermost level",
			"the right operand of "+op+" is parsed at the outermost level, so `x "+op+" y ? a : b` attaches the conditional to y")
	}
	for op, a := range m.unArg {
		r.Check(a != m.top, "R11.4", "conditional/not inside the operand of unary "+op, m.un.pos[op], "operand level differs from the outermost level",
			"the operand of unary "+op+" is parsed at the outermost level, so `"+op+" y ? a : b` attaches the conditional to y")
	}
	// R11.6 for the conditional: children in source order — the three slots are filled with
	// the incoming node, then the results of two successive parses
	c11CondOrder(p, r, m, nk, condDecl, condKind)
}

// c11CondOrder: on every path through the conditional builder that reaches the literal,
// slot 1 is the node the function received (or built in the previous iteration), and the
// values of slots 2 and 3 are assigned, in that order, from calls of the climbing function
// (slot 2 may also be the condition itself: the `?:` form).
func c11CondOrder(p *core.Program, r *core.Report, m *c11Model, nk *eng.NodeKinds, fd *ast.FuncDecl, k *eng.Kind) {
	info := p.Pkg("parser").TypesInfo
	key := "conditional/children in source order"
	var nodeParam types.Object
	if fd.Type.Params != nil {
		for _, f := range fd.Type.Params.List {
			for _, nm := range f.Names {
				if o := info.Defs[nm]; o != nil && nk.IsNode(o.Type()) {
					nodeParam = o
				}
			}
		}
	}
	if nodeParam == nil {
		r.Unk("R11.6", key, p.Pos(fd.Pos()), "the conditional builder takes no node parameter")
		return
	}
	// every path is interpreted over abstract node values: the incoming node, the result of
	// the k-th call of the climbing function on the path, a conditional literal built on the
	// path (its three slots filled in the literal or field by field afterwards)
	type av struct {
		kind string // in climb lit other
		id   int
	}
	type rec struct {
		slots map[string]av
		cond  av // what the carried node was when the literal was built
		pos   token.Pos
	}
	paths := flattenPaths((&eng.Walker{Info: info, MaxPaths: 4000}).Func(fd.Body), 20000)
	n := 0
	for _, atoms := range paths {
		val := map[types.Object]av{nodeParam: {"in", 0}}
		ord := map[*ast.CallExpr]int{}
		nClimb := 0
		var recs []*rec
		var eval func(e ast.Expr) av
		eval = func(e ast.Expr) av {
			e = eng.Unparen(e)
			if cl, kk := nodeLit(nk, info, e); cl != nil && kk == k {
				rc := &rec{slots: map[string]av{}, cond: val[nodeParam], pos: cl.Pos()}
				for _, el := range cl.Elts {
					if kv, ok := el.(*ast.KeyValueExpr); ok {
						rc.slots[eng.ExprStr(kv.Key)] = eval(kv.Value)
					}
				}
				recs = append(recs, rc)
				return av{"lit", len(recs) - 1}
			}
			switch x := e.(type) {
			case *ast.Ident:
				if v, ok := val[objOf(info, x)]; ok {
					return v
				}
			case *ast.CallExpr:
				if eng.CalleeOf(info, x) == m.climbFn {
					if o, ok := ord[x]; ok {
						return av{"climb", o}
					}
				}
			}
			return av{"other", 0}
		}
		for _, a := range atoms {
			switch a.Kind {
			case "call":
				if a.Call != nil && eng.CalleeOf(info, a.Call) == m.climbFn {
					nClimb++
					ord[a.Call] = nClimb
				}
			case "assign":
				as := a.Node.(*ast.AssignStmt)
				if len(as.Lhs) != len(as.Rhs) {
					continue
				}
				for j, l := range as.Lhs {
					switch lx := eng.Unparen(l).(type) {
					case *ast.Ident:
						val[objOf(info, lx)] = eval(as.Rhs[j])
					case *ast.SelectorExpr:
						if id, ok := eng.Unparen(lx.X).(*ast.Ident); ok {
							if v := val[objOf(info, id)]; v.kind == "lit" {
								recs[v.id].slots[lx.Sel.Name] = eval(as.Rhs[j])
							}
						}
					}
				}
			}
		}
		for i, rc := range recs {
			n++
			s0, s1, s2 := rc.slots[k.Slots[0].Name], rc.slots[k.Slots[1].Name], rc.slots[k.Slots[2].Name]
			if s0 != rc.cond || rc.cond.kind == "other" || val[nodeParam] != (av{"lit", i}) {
				r.Bad("R11.6", key, p.Pos(rc.pos), "the first child of the conditional is not the expression parsed before the `?`, or the result is not carried on")
				return
			}
			if s2.kind != "climb" || !(s1.kind == "climb" || s1 == rc.cond) {
				r.Bad("R11.6", key, p.Pos(rc.pos), "the branches of the conditional are not the results of the two parses following `?` and `:`")
				return
			}
			if s1.kind == "climb" && s1.id >= s2.id {
				r.Bad("R11.6", key, p.Pos(rc.pos), "the second child of the conditional is parsed after the third: `c ? a : b` would swap its branches")
				return
			}
		}
	}
	if n == 0 {
		r.Unk("R11.6", key, p.Pos(fd.Pos()), "no path builds the conditional node through an assignment")
		return
	}
	r.OK("R11.6", key, p.Pos(fd.Pos()), "condition, then-branch, else-branch are the incoming node and the results of two successive parses on every path")
}

// lastDefIs: the last assignment to v on the path so far assigns the variable w.
func lastDefIs(atoms []eng.Atom, info *types.Info, v, w types.Object) bool {
	res := false
	for _, a := range atoms {
		if a.Kind != "assign" {
			continue
		}
		as := a.Node.(*ast.AssignStmt)
		if len(as.Lhs) != len(as.Rhs) {
			continue
		}
		for j, l := range as.Lhs {
			if id, ok := l.(*ast.Ident); ok && objOf(info, id) == v {
				rid, ok := eng.Unparen(as.Rhs[j]).(*ast.Ident)
				res = ok && objOf(info, rid) == w
			}
		}
	}
	return res
}

// c11Construction (R11.6): what the climbing loop and the unary rule build.
func c11Construction(p *core.Program, r *core.Report, m *c11Model, nk *eng.NodeKinds) {
	info := p.Pkg("parser").TypesInfo
	isClimb := func(c *ast.CallExpr) bool { return eng.CalleeOf(info, c) == m.climbFn }
	// variables assigned from the recursive calls inside the climbing function
	rightVars := map[types.Object]bool{}
	var leftVar types.Object
	ast.Inspect(m.climb.Body, func(n ast.Node) bool {
		as, ok := n.(*ast.AssignStmt)
		if !ok || len(as.Lhs) != len(as.Rhs) {
			return true
		}
		for i, rhs := range as.Rhs {
			if c, ok := eng.Unparen(rhs).(*ast.CallExpr); ok && isClimb(c) {
				if id, ok := as.Lhs[i].(*ast.Ident); ok {
					rightVars[objOf(info, id)] = true
				}
			}
		}
		return true
	})
	// the accumulated left operand: the variable every return statement of the function returns
	ast.Inspect(m.climb.Body, func(n ast.Node) bool {
		if rs, ok := n.(*ast.ReturnStmt); ok && len(rs.Results) == 1 {
			if id, ok := eng.Unparen(rs.Results[0]).(*ast.Ident); ok {
				leftVar = objOf(info, id)
			}
		}
		return true
	})
	if leftVar == nil || len(rightVars) == 0 {
		r.Unk("R11.6", "climbing loop/construction", p.Pos(m.climb.Pos()), "cannot identify the accumulated left operand and the right operand variables")
		return
	}
	tokKey := eng.ExprStr(m.binSite.key) // e.g. token.Value
	n := 0
	ast.Inspect(m.climb.Body, func(nd ast.Node) bool {
		as, ok := nd.(*ast.AssignStmt)
		if !ok || len(as.Lhs) != 1 || len(as.Rhs) != 1 {
			return true
		}
		cl, k := nodeLit(nk, info, as.Rhs[0])
		if cl == nil {
			return true
		}
		usesRight := false
		ast.Inspect(cl, func(x ast.Node) bool {
			if id, ok := x.(*ast.Ident); ok && rightVars[objOf(info, id)] {
				usesRight = true
			}
			return true
		})
		if !usesRight {
			return true
		}
		n++
		key := "climbing loop/" + k.Name + " literal"
		pos := p.Pos(cl.Pos())
		lid, _ := as.Lhs[0].(*ast.Ident)
		if lid == nil || objOf(info, lid) != leftVar {
			r.Bad("R11.6", key, pos, "the node built from the two operands does not become the new left operand")
			return true
		}
		li, ri := -1, -1
		opOK := true
		for _, el := range cl.Elts {
			kv, ok := el.(*ast.KeyValueExpr)
			if !ok {
				r.Unk("R11.6", key, pos, "positional node literal")
				return true
			}
			fname := eng.ExprStr(kv.Key)
			for si, s := range k.Slots {
				if s.Name == fname {
					if id, ok := eng.Unparen(kv.Value).(*ast.Ident); ok {
						if objOf(info, id) == leftVar {
							li = si
						} else if rightVars[objOf(info, id)] {
							ri = si
						}
					}
				}
			}
			if t := info.TypeOf(kv.Value); t != nil {
				if b, ok := t.Underlying().(*types.Basic); ok && b.Kind() == types.String {
					if eng.ExprStr(kv.Value) != tokKey {
						opOK = false
					}
				}
			}
		}
		switch {
		case li < 0 || ri < 0:
			r.Bad("R11.6", key, pos, "the node does not take the accumulated left operand and the freshly parsed right operand as its children")
		case li >= ri:
			r.Bad("R11.6", key, pos, "the left operand is stored in a later child slot than the right operand: `a op b` is built as `b op a`")
		case !opOK:
			r.Bad("R11.6", key, pos, "the node's operator is not the value of the token that was looked up in the table ("+tokKey+")")
		default:
			r.OK("R11.6", key, pos, "operator = "+tokKey+", children = (left so far, right operand)")
		}
		return true
	})
	if n == 0 {
		r.Bad("R11.6", "climbing loop/construction", p.Pos(m.climb.Pos()), "the climbing loop builds no node from its two operands")
	}
	// who may build a two-operand node: every literal of a kind with a Left and a Right slot in
	// the parser is one of the literals above (its right operand is the result of the climbing
	// recursion), or sits in a helper of the parser whose Right comes from a parameter that the
	// climbing loop feeds with such a result. A right operand parsed any other way (a primary,
	// a fixed level) binds differently from the table.
	for _, fd := range p.FuncDecls("parser") {
		if fd.Body == nil {
			continue
		}
		var params []types.Object
		if fd.Type.Params != nil {
			for _, f := range fd.Type.Params.List {
				for _, nm := range f.Names {
					params = append(params, info.Defs[nm])
				}
			}
		}
		k2 := 0
		ast.Inspect(fd.Body, func(nd ast.Node) bool {
			e, ok := nd.(ast.Expr)
			if !ok {
				return true
			}
			cl, k := nodeLit(nk, info, e)
			if cl == nil || cl != eng.Unparen(stripAmp(e)) {
				return true
			}
			if _, isLit := e.(*ast.CompositeLit); isLit {
				return true
			}
			hasL, hasR := false, false
			for _, sl := range k.Slots {
				if sl.Name == "Left" {
					hasL = true
				}
				if sl.Name == "Right" {
					hasR = true
				}
			}
			if !hasL || !hasR {
				return true
			}
			var right ast.Expr
			for _, el := range cl.Elts {
				if kv, ok := el.(*ast.KeyValueExpr); ok && eng.ExprStr(kv.Key) == "Right" {
					right = kv.Value
				}
			}
			k2++
			key := fmt.Sprintf("%s/%s literal#%d takes its right operand from the climbing recursion", core.FuncName("parser", fd), k.Name, k2)
			okR, why := false, "the Right child is `"+eng.ExprStr(right)+"`"
			if id, isID := eng.Unparen(right).(*ast.Ident); isID && right != nil {
				obj := objOf(info, id)
				switch {
				case fd == m.climb && rightVars[obj]:
					okR = true
				default:
					// a parameter fed by the climbing loop with a result of the recursion
					for pi, po := range params {
						if po != obj {
							continue
						}
						fed, all := 0, true
						fnObj := info.Defs[fd.Name]
						ast.Inspect(m.climb.Body, func(x ast.Node) bool {
							c, ok := x.(*ast.CallExpr)
							if !ok || eng.CalleeOf(info, c) != fnObj || pi >= len(c.Args) {
								return true
							}
							fed++
							if aid, ok := eng.Unparen(c.Args[pi]).(*ast.Ident); !ok || !rightVars[objOf(info, aid)] {
								all = false
							}
							return true
						})
						okR = fed > 0 && all
						if !okR {
							why = "the Right child is the parameter `" + id.Name + "`, which the climbing loop does not (only) feed with a result of its recursion"
						}
					}
				}
			}
			r.Check(okR, "R11.6", key, p.Pos(cl.Pos()), "right operand = result of the climbing recursion at the operator's level", why+": the right operand of this operator is not parsed at the level the table gives it, so `a op b + c` groups differently from the documented precedence")
			return true
		})
	}
	// the loop must re-read the current token after building (else it loops on a stale operator):
	// covered by the suite immediately, not a rule here.

	// unary rule
	utok := eng.ExprStr(m.unSite.key)
	operand := map[types.Object]bool{}
	ast.Inspect(m.unFunc.Body, func(n ast.Node) bool {
		as, ok := n.(*ast.AssignStmt)
		if !ok || len(as.Lhs) != len(as.Rhs) {
			return true
		}
		for i, rhs := range as.Rhs {
			if c, ok := eng.Unparen(rhs).(*ast.CallExpr); ok && isClimb(c) && len(c.Args) == 1 {
				if _, isConst := info.Types[c.Args[0]]; isConst && info.Types[c.Args[0]].Value != nil {
					continue
				}
				if id, ok := as.Lhs[i].(*ast.Ident); ok {
					operand[objOf(info, id)] = true
				}
			}
		}
		return true
	})
	un := 0
	ast.Inspect(m.unFunc.Body, func(nd ast.Node) bool {
		e, ok := nd.(ast.Expr)
		if !ok {
			return true
		}
		cl, k := nodeLit(nk, info, e)
		if cl == nil {
			return true
		}
		if _, isAmp := e.(*ast.UnaryExpr); !isAmp {
			return true // visited again as the inner literal
		}
		uses := false
		opOK := true
		for _, el := range cl.Elts {
			kv, ok := el.(*ast.KeyValueExpr)
			if !ok {
				continue
			}
			if id, ok := eng.Unparen(kv.Value).(*ast.Ident); ok && operand[objOf(info, id)] {
				uses = true
			}
			if t := info.TypeOf(kv.Value); t != nil {
				if b, ok := t.Underlying().(*types.Basic); ok && b.Kind() == types.String && eng.ExprStr(kv.Value) != utok {
					opOK = false
				}
			}
		}
		if !uses {
			return true
		}
		un++
		r.Check(opOK, "R11.6", "unary rule/"+k.Name+" literal", p.Pos(cl.Pos()), "operator = "+utok+", child = the parsed operand", "the unary node's operator is not the value of the token that was looked up ("+utok+")")
		return true
	})
	if un == 0 {
		r.Bad("R11.6", "unary rule/construction", p.Pos(m.unFunc.Pos()), "the unary rule builds no node from the operand it parsed with the operator's precedence")
	}
}

func c11Controls() []core.Mutant {
	P := "parser/parser.go"
	return []core.Mutant{
		{Name: "** made left-associative", File: P, Old: "\"**\":         {70, right},", New: "\"**\":         {70, left},", Rule: "R11.1", Construct: "pair ** , **"},
		{Name: "and gets the precedence of or", File: P, Old: "\"and\":        {15, left},", New: "\"and\":        {10, left},", Rule: "R11.1", Construct: "pair or , and"},
		{Name: ".. moved above +", File: P, Old: "\"..\":         {25, left},", New: "\"..\":         {35, left},", Rule: "R11.1", Construct: "pair .. , +"},
		{Name: "|| and or drift apart", File: P, Old: "\"||\":         {10, left},", New: "\"||\":         {12, left},", Rule: "R11.2", Construct: "synonyms or ||"},
		{Name: ">= becomes > in the climbing test", File: P, Old: "if op.precedence >= precedence {", New: "if op.precedence > precedence {", Rule: "R11.1", Construct: "pair"},
		{Name: "the + 1 of left associativity dropped", File: P, Old: "nodeRight = p.parseExpression(op.precedence + 1)", New: "nodeRight = p.parseExpression(op.precedence)", Rule: "R11.1", Construct: "pair"},
		{Name: "unary operand parsed at the outermost level", File: P, Old: "expr := p.parseExpression(op.precedence)", New: "_ = op\n\t\t\texpr := p.parseExpression(0)", Rule: "R11.1", Construct: "unary pair"},
		{Name: "conditional attached at every level", File: P, Old: "\tif precedence == 0 {\n\t\tnodeLeft = p.parseConditionalExpression(nodeLeft)\n\t}", New: "\tnodeLeft = p.parseConditionalExpression(nodeLeft)", Rule: "R11.4", Construct: "conditional/attached only at the outermost level"},
		{Name: "not binds tighter than multiplication", File: P, Old: "\"not\": {50, left},", New: "\"not\": {65, left},", Rule: "R11.1", Construct: "unary pair not , *"},
		{Name: "parenthesised expression parsed above or", File: P, Old: "\t\texpr := p.parseExpression(0)\n\t\tp.expect(Bracket, \")\")", New: "\t\texpr := p.parseExpression(11)\n\t\tp.expect(Bracket, \")\")", Rule: "R11.5", Construct: "outermost level"},
		{Name: "binary node built with swapped operands", File: P, Old: "\t\t\t\t\t\tLeft:     nodeLeft,\n\t\t\t\t\t\tRight:    nodeRight,", New: "\t\t\t\t\t\tLeft:     nodeRight,\n\t\t\t\t\t\tRight:    nodeLeft,", Rule: "R11.6", Construct: "BinaryNode literal"},
		{Name: "conditional branches parsed in swapped order", File: P, Old: "\t\t\texpr1 = p.parseExpression(0)\n\t\t\tp.expect(Operator, \":\")\n\t\t\texpr2 = p.parseExpression(0)", New: "\t\t\texpr2 = p.parseExpression(0)\n\t\t\tp.expect(Operator, \":\")\n\t\t\texpr1 = p.parseExpression(0)", Rule: "R11.6", Construct: "conditional/children in source order"},
		{Name: "right operand of ** parsed at the outermost level", File: P, Old: "\t\t\t\t\tnodeRight = p.parseExpression(op.precedence)\n", New: "\t\t\t\t\tnodeRight = p.parseExpression(op.precedence - 70)\n", Rule: "R11.4", Construct: "conditional/not inside the right operand of **"},
		{Name: "token predicate ignores the kind when values are given", File: "parser/lexer/token.go", Old: "\t\tif v == t.Value {\n\t\t\tgoto found\n\t\t}\n\t}\n\treturn false\n\nfound:\n\treturn kind == t.Kind\n}", New: "\t\tif v == t.Value {\n\t\t\treturn true\n\t\t}\n\t}\n\treturn false\n}", Rule: "R11.7", Construct: "true only for a token of the asked kind"},
		// behaviour-preserving variants
		{Name: "REFACTORING: all precedences multiplied by ten", File: P, Silent: true,
			Old: "\"not\": {50, left},", New: "\"not\": {500, left},",
			Edits: [][2]string{{"\"!\":   {50, left},", "\"!\":   {500, left},"}, {"\"-\":   {500, left},", "\"-\":   {5000, left},"}, {"\"+\":   {500, left},", "\"+\":   {5000, left},"},
				{"{10, left},\n\t\"||\":         {10, left},", "{100, left},\n\t\"||\":         {100, left},"}, {"{15, left},\n\t\"&&\":         {15, left},", "{150, left},\n\t\"&&\":         {150, left},"},
				{"\"==\":         {20, left},", "\"==\":         {200, left},"}, {"\"!=\":         {20, left},", "\"!=\":         {200, left},"}, {"\"<\":          {20, left},", "\"<\":          {200, left},"}, {"\">\":          {20, left},", "\">\":          {200, left},"},
				{"\">=\":         {20, left},", "\">=\":         {200, left},"}, {"\"<=\":         {20, left},", "\"<=\":         {200, left},"}, {"\"not in\":     {20, left},", "\"not in\":     {200, left},"}, {"\"in\":         {20, left},", "\"in\":         {200, left},"},
				{"\"matches\":    {20, left},", "\"matches\":    {200, left},"}, {"\"contains\":   {20, left},", "\"contains\":   {200, left},"}, {"\"startsWith\": {20, left},", "\"startsWith\": {200, left},"}, {"\"endsWith\":   {20, left},", "\"endsWith\":   {200, left},"},
				{"\"..\":         {25, left},", "\"..\":         {250, left},"}, {"\"+\":          {30, left},", "\"+\":          {300, left},"}, {"\"-\":          {30, left},", "\"-\":          {300, left},"},
				{"\"*\":          {60, left},", "\"*\":          {600, left},"}, {"\"/\":          {60, left},", "\"/\":          {600, left},"}, {"\"%\":          {60, left},", "\"%\":          {600, left},"}, {"\"**\":         {70, right},", "\"**\":         {700, right},"}}},
		{Name: "REFACTORING: associativity branches swapped with the test inverted, minimum computed in a local", File: P, Silent: true,
			Old: "\t\t\t\tif op.associativity == left {\n\t\t\t\t\tnodeRight = p.parseExpression(op.precedence + 1)\n\t\t\t\t} else {\n\t\t\t\t\tnodeRight = p.parseExpression(op.precedence)\n\t\t\t\t}",
			New: "\t\t\t\tnext := op.precedence\n\t\t\t\tif op.associativity != right {\n\t\t\t\t\tnext++\n\t\t\t\t}\n\t\t\t\tnodeRight = p.parseExpression(next)"},
		{Name: "REFACTORING: continuation test written as an early break", File: P, Silent: true,
			Old: "\t\t\tif op.precedence >= precedence {\n\t\t\t\tp.next()\n", New: "\t\t\tif precedence > op.precedence {\n\t\t\t\tbreak\n\t\t\t}\n\t\t\t{\n\t\t\t\tp.next()\n"},
		{Name: "pattern of matches parsed as a primary", File: "parser/parser.go", Old: "\t\t\t\t\tnodeLeft = &MatchesNode{\n\t\t\t\t\t\tRegexp: r,\n\t\t\t\t\t\tLeft:   nodeLeft,\n\t\t\t\t\t\tRight:  nodeRight,", New: "\t\t\t\t\tpattern := p.parsePrimary()\n\t\t\t\t\tnodeLeft = &MatchesNode{\n\t\t\t\t\t\tRegexp: r,\n\t\t\t\t\t\tLeft:   nodeLeft,\n\t\t\t\t\t\tRight:  pattern,", Rule: "R11.6", Construct: "takes its right operand from the climbing recursion"},
	}
}
