package props

import (
	"fmt"
	"go/ast"
	"go/constant"
	"go/token"
	"go/types"
	"sort"
	"strings"

	"verif/exprlint/core"
	"verif/exprlint/eng"
)

func init() {
	register(&Prop{ID: "C13", Run: runC13, Controls: c13Controls})
}

// nodeLit: e is &Kind{…} (or Kind{…}) of a node kind; returns the literal and the kind.
func nodeLit(nk *eng.NodeKinds, info *types.Info, e ast.Expr) (*ast.CompositeLit, *eng.Kind) {
	e = eng.Unparen(e)
	if u, ok := e.(*ast.UnaryExpr); ok && u.Op == token.AND {
		e = eng.Unparen(u.X)
	}
	cl, ok := e.(*ast.CompositeLit)
	if !ok {
		return nil, nil
	}
	t := info.TypeOf(cl)
	if t == nil {
		return nil, nil
	}
	if k := nk.KindOfType(types.NewPointer(t)); k != nil {
		return cl, k
	}
	if k := nk.KindOfType(t); k != nil {
		return cl, k
	}
	return nil, nil
}

// locatedAfter: in the block that contains the assignment `v := <lit>`, a later statement
// calls v.SetLocation(…) before any return or reassignment of v.
func locatedAfter(info *types.Info, fd *ast.FuncDecl, as *ast.AssignStmt, v types.Object) (bool, string) {
	var list []ast.Stmt
	idx := -1
	ast.Inspect(fd.Body, func(n ast.Node) bool {
		var l []ast.Stmt
		switch b := n.(type) {
		case *ast.BlockStmt:
			l = b.List
		case *ast.CaseClause:
			l = b.Body
		}
		for i, st := range l {
			if st == ast.Stmt(as) {
				list, idx = l, i
			}
		}
		return true
	})
	if idx < 0 {
		return false, "assignment not found in a statement list"
	}
	for _, st := range list[idx+1:] {
		switch s := st.(type) {
		case *ast.ExprStmt:
			if c, ok := s.X.(*ast.CallExpr); ok {
				if sel, ok := c.Fun.(*ast.SelectorExpr); ok && sel.Sel.Name == "SetLocation" {
					if id, ok := eng.Unparen(sel.X).(*ast.Ident); ok && info.Uses[id] == v && len(c.Args) == 1 {
						if t := info.TypeOf(c.Args[0]); t != nil && strings.HasSuffix(t.String(), "file.Location") {
							if cl, ok := eng.Unparen(c.Args[0]).(*ast.CompositeLit); ok && len(cl.Elts) == 0 {
								return false, "SetLocation is given an empty location literal"
							}
							return true, "SetLocation(" + eng.ExprStr(c.Args[0]) + ")"
						}
					}
				}
			}
		case *ast.ReturnStmt:
			return false, "the node is returned before SetLocation is called on it"
		case *ast.AssignStmt:
			for _, l := range s.Lhs {
				if id, ok := l.(*ast.Ident); ok && objOf(info, id) == v {
					return false, "the variable is reassigned before SetLocation is called on it"
				}
			}
		}
	}
	return false, "no SetLocation call follows in the same block"
}

// locatedOnPaths: on every path through the function that executes the assignment, a
// SetLocation call on the variable follows it before the variable is returned or reassigned
// (the call may sit after the if/else or switch that contains the assignment).
func locatedOnPaths(info *types.Info, fd *ast.FuncDecl, as *ast.AssignStmt, v types.Object) (bool, string) {
	w := &eng.Walker{Info: info, MaxPaths: 50000}
	paths := w.Func(fd.Body)
	if w.Overflow {
		return false, "too many paths"
	}
	found, okAll := 0, true
	why := ""
	var scan func(ps []eng.Path)
	scan = func(ps []eng.Path) {
		for _, path := range ps {
			for i, a := range path.Atoms {
				if a.Kind == "loop" {
					scan(a.Body)
				}
				if a.Kind != "assign" || a.Node != ast.Node(as) {
					continue
				}
				found++
				located := false
			fwd:
				for _, b := range path.Atoms[i+1:] {
					switch b.Kind {
					case "call":
						if sel, ok := b.Call.Fun.(*ast.SelectorExpr); ok && sel.Sel.Name == "SetLocation" && len(b.Call.Args) == 1 {
							if id, ok := eng.Unparen(sel.X).(*ast.Ident); ok && info.Uses[id] == v {
								if cl, ok := eng.Unparen(b.Call.Args[0]).(*ast.CompositeLit); ok && len(cl.Elts) == 0 {
									why = "SetLocation is given an empty location literal"
									break fwd
								}
								located = true
								why = "SetLocation(" + eng.ExprStr(b.Call.Args[0]) + ") on every path after the assignment"
								break fwd
							}
						}
					case "return":
						why = "the node is returned before SetLocation is called on it"
						break fwd
					case "assign":
						for _, l := range b.Node.(*ast.AssignStmt).Lhs {
							if id, ok := l.(*ast.Ident); ok && objOf(info, id) == v {
								why = "the variable is reassigned before SetLocation is called on it"
								break fwd
							}
						}
					case "loop":
						break fwd // a loop follows: not followed
					}
				}
				if !located {
					okAll = false
					if why == "" {
						why = "a path leaves the function or the loop iteration without a SetLocation call"
					}
				}
			}
		}
	}
	scan(paths)
	if found == 0 {
		return false, "assignment not found on any path"
	}
	return okAll, why
}

func runC13(p *core.Program, r *core.Report) {
	r.Explanation = "Decides that every node, error and instruction CARRIES a location taken from the construct it describes — a necessary condition of reporting the right position: (R13.1) every node literal built by the parser has SetLocation called on it, with a non-empty location, before it is returned, stored or reassigned; (R13.2) of the node literals built by the optimizer passes and the operator patcher, the root of a replacement goes through ast.Patch (which copies the location: C10 R10.4) and every nested fresh node is either given a location explicitly or is of a kind whose code cannot fail (its templates consist of constant pushes only, by the VM signatures); (R13.4) every file.Error literal takes its Location from a node, a token, the lexer's current position or the program's location table; (R13.6) the emitter files the location of the node on top of its node stack under the offset of the opcode it appends, the node stack is pushed and popped around every dispatch, and the VM's recover handler looks the table up with the offset of the instruction being executed (affine agreement: key L0 = opcode offset = the value of pp)."
	r.NotDecided = []string{"that the location a node carries is the right one (map keys and pairs inherit the brace's position)", "column arithmetic for non-ASCII sources and the caret rendering of the snippet", "that every *file.Error leaving the API passed through Bind with the right source (R13.5 not built)"}
	e := loadEngines(p, r, "R13.2")
	if e == nil {
		return
	}
	nk := e.nk
	// infallible kinds: every template is constant pushes only
	infallible := map[string]bool{}
	for _, k := range nk.Kinds {
		ts := e.em.Templates[k.Name]
		ok := len(ts) > 0
		for _, t := range ts {
			if t.Term == "panic" {
				continue
			}
			for _, x := range t.Events {
				if x.Kind != "instr" {
					ok = false
					continue
				}
				s := e.sigs[x.Op]
				if s == nil || s.Pop != 0 || s.Push != 1 || s.Scope != "" || s.Peek || s.Jump != "" || s.SymPop != "" || !handlerCannotFail(p, e, x.Op) {
					ok = false
				}
			}
		}
		if ok {
			infallible[k.Name] = true
		}
	}
	var il []string
	for k := range infallible {
		il = append(il, k)
	}
	r.Analysed["kinds_whose_code_cannot_fail"] = il

	// R13.1 parser
	pinfo := p.Pkg("parser").TypesInfo
	nLits := 0
	for _, fd := range p.FuncDecls("parser") {
		if fd.Body == nil {
			continue
		}
		fname := core.FuncName("parser", fd)
		assigned := map[*ast.CompositeLit]bool{}
		ord := map[string]int{}
		ast.Inspect(fd.Body, func(n ast.Node) bool {
			as, ok := n.(*ast.AssignStmt)
			if !ok || len(as.Lhs) != len(as.Rhs) {
				return true
			}
			for i := range as.Rhs {
				cl, k := nodeLit(nk, pinfo, as.Rhs[i])
				if cl == nil {
					continue
				}
				assigned[cl] = true
				nLits++
				ord[k.Name]++
				key := fmt.Sprintf("%s/new %s#%d", fname, k.Name, ord[k.Name])
				id, ok := as.Lhs[i].(*ast.Ident)
				if !ok {
					r.Bad("R13.1", key, p.Pos(cl.Pos()), "a fresh node is stored directly into "+eng.ExprStr(as.Lhs[i])+" without a location")
					continue
				}
				ok2, why := locatedAfter(pinfo, fd, as, objOf(pinfo, id))
				if !ok2 {
					if ok3, why3 := locatedOnPaths(pinfo, fd, as, objOf(pinfo, id)); ok3 {
						ok2, why = true, why3
					}
				}
				r.Check(ok2, "R13.1", key, p.Pos(cl.Pos()), why, "the parser builds a "+k.Name+" that never receives a location ("+why+"): an error raised for this node is reported without line and column")
			}
			return true
		})
		ast.Inspect(fd.Body, func(n ast.Node) bool {
			ce, ok := n.(ast.Expr)
			if !ok {
				return true
			}
			if cl, k := nodeLit(nk, pinfo, ce); cl != nil && cl == eng.Unparen(stripAmp(ce)) && !assigned[cl] {
				if _, isLit := ce.(*ast.CompositeLit); isLit {
					// visited again as the operand of &: skip the inner visit
					return true
				}
				assigned[cl] = true
				nLits++
				ord[k.Name]++
				r.Bad("R13.1", fmt.Sprintf("%s/new %s#%d", fname, k.Name, ord[k.Name]), p.Pos(cl.Pos()), "a fresh "+k.Name+" is used without being bound to a variable, so no location can be set on it")
			}
			return true
		})
	}
	r.Analysed["parser_node_literals"] = nLits

	// R13.2 rewrites
	sites, _, msg := rewriteSites(p)
	if sites == nil {
		r.Unk("R13.2", "rewrite sites", "", msg)
	}
	for _, s := range sites {
		info := p.Pkg(s.Rel).TypesInfo
		// R13.7: Patch stamps the replaced node's location (and type) on the replacement; a
		// replacement that is an existing sub-tree — not a node built at the site — gets its own
		// location overwritten with that of the node it replaces
		r.Check(s.ReplKind != "" && len(s.Fresh) > 0, "R13.7", s.Key+"/replacement is built at the site", p.Pos(s.Call.Pos()), "the replacement is a fresh "+s.ReplKind+" literal",
			"the replacement `"+eng.ExprStr(s.Repl)+"` is not a node built at the rewrite site: ast.Patch overwrites the location of that existing node with the location of the node it replaces, so a run-time failure of it is reported at the replaced operator's position")
		for i, cl := range s.Fresh {
			_, k := nodeLit(nk, info, cl)
			kn := "?"
			if k != nil {
				kn = k.Name
			}
			key := fmt.Sprintf("%s/fresh#%d %s", s.Key, i+1, kn)
			switch {
			case i == 0:
				r.OK("R13.2", key, p.Pos(cl.Pos()), "root of the replacement: ast.Patch copies the replaced node's location")
			case infallible[kn]:
				r.OK("R13.2", key, p.Pos(cl.Pos()), "kind whose code is constant pushes only: no run-time error can be attributed to it")
			default:
				// bound to a variable that gets SetLocation
				okLoc, why := false, "nested in the replacement without a location"
				// a literal read out of a builder (closure or helper of the package) is located
				// where the builder locates it
				orig, home := cl, s.Func
				if o, ok := eng.SubstOrigin[cl].(*ast.CompositeLit); ok {
					orig = o
					for _, hfd := range p.FuncDecls(s.Rel) {
						if hfd.Body != nil && hfd.Body.Pos() <= o.Pos() && o.End() <= hfd.Body.End() {
							home = hfd
						}
					}
				}
				ast.Inspect(home.Body, func(n ast.Node) bool {
					as, ok := n.(*ast.AssignStmt)
					if !ok || len(as.Lhs) != len(as.Rhs) {
						return true
					}
					for j := range as.Rhs {
						if c2, _ := nodeLit(nk, info, as.Rhs[j]); c2 == orig {
							if id, ok := as.Lhs[j].(*ast.Ident); ok {
								okLoc, why = locatedAfter(info, home, as, objOf(info, id))
							}
						}
					}
					return true
				})
				r.Check(okLoc, "R13.2", key, p.Pos(cl.Pos()), why, "the rewrite builds a "+kn+" whose code can fail at run time but which carries no location ("+why+"): the run-time error of that operation has no position")
			}
		}
	}

	// R13.4 file.Error literals
	nErr := 0
	for _, rel := range core.LibPkgs {
		info := p.Pkg(rel).TypesInfo
		for _, fd := range p.FuncDecls(rel) {
			if fd.Body == nil {
				continue
			}
			n := 0
			ast.Inspect(fd.Body, func(nd ast.Node) bool {
				cl, ok := nd.(*ast.CompositeLit)
				if !ok {
					return true
				}
				t := info.TypeOf(cl)
				if t == nil || !strings.HasSuffix(t.String(), "/file.Error") {
					return true
				}
				n++
				nErr++
				key := fmt.Sprintf("%s/file.Error literal#%d", core.FuncName(rel, fd), n)
				var loc ast.Expr
				for _, el := range cl.Elts {
					if kv, ok := el.(*ast.KeyValueExpr); ok && eng.ExprStr(kv.Key) == "Location" {
						loc = kv.Value
					}
				}
				switch {
				case loc == nil:
					r.Bad("R13.4", key, p.Pos(cl.Pos()), "the error is built without a Location: it is reported at line 0, column 0")
				default:
					src := eng.Unparen(loc)
					good := false
					switch x := src.(type) {
					case *ast.CallExpr:
						if sel, ok := x.Fun.(*ast.SelectorExpr); ok && sel.Sel.Name == "Location" {
							good = true
						}
					case *ast.SelectorExpr:
						good = true // a field of a token, the lexer or a node
					case *ast.IndexExpr:
						good = true // the program's location table
					case *ast.Ident:
						_, isVar := info.Uses[x].(*types.Var)
						good = isVar
					}
					r.Check(good, "R13.4", key, p.Pos(cl.Pos()), "Location: "+eng.ExprStr(loc), "the Location `"+eng.ExprStr(loc)+"` is not taken from a node, a token, the lexer position or the location table")
				}
				return true
			})
		}
	}
	r.Analysed["file_error_literals"] = nErr

	// R13.6 emitter table key and VM lookup agree
	cinfo := p.Pkg("compiler").TypesInfo
	vinfo := p.Pkg("vm").TypesInfo
	emitFd := primDecl(p, e, "emit")
	if emitFd == nil {
		r.Unk("R13.6", "compiler emit", "", "emit primitive not found")
	} else {
		isLocMap := func(x ast.Expr) bool {
			t := cinfo.TypeOf(x)
			if t == nil {
				return false
			}
			m, ok := t.Underlying().(*types.Map)
			return ok && strings.HasSuffix(m.Elem().String(), "file.Location")
		}
		env := codeEnv(cinfo)
		lenB := eng.AffSym("L0")
		var key *eng.Aff
		topOfStack := false
		for _, st := range emitFd.Body.List {
			switch s := st.(type) {
			case *ast.AssignStmt:
				if len(s.Lhs) == 1 && len(s.Rhs) == 1 {
					if isByteSliceField(cinfo, s.Lhs[0]) {
						if c, ok := s.Rhs[0].(*ast.CallExpr); ok {
							if c.Ellipsis.IsValid() {
								lenB = lenB.Add(eng.AffSym("W"), 1)
							} else {
								lenB = lenB.Add(eng.AffConst(int64(len(c.Args)-1)), 1)
							}
						}
						continue
					}
					if ix, ok := s.Lhs[0].(*ast.IndexExpr); ok && isLocMap(ix.X) {
						if a, ok := env.Eval(ix.Index); ok {
							a = substAff(a, "LEN", lenB)
							key = &a
						}
						continue
					}
					if id, ok := s.Lhs[0].(*ast.Ident); ok {
						if a, ok := env.Eval(s.Rhs[0]); ok {
							env.Vars[objOf(cinfo, id)] = substAff(a, "LEN", lenB)
						}
					}
				}
			}
		}
		emitDefs := eng.SingleDefs(cinfo, emitFd.Body)
		ast.Inspect(emitFd.Body, func(n ast.Node) bool {
			c, ok := n.(*ast.CallExpr)
			if !ok {
				return true
			}
			sel, ok := c.Fun.(*ast.SelectorExpr)
			if !ok || sel.Sel.Name != "Location" {
				return true
			}
			if ix, ok := eng.Unparen(sel.X).(*ast.IndexExpr); ok {
				// X[len(X)-1], a name given to len(X) looked through
				if b, ok := emitDefs.Resolve(ix.Index).(*ast.BinaryExpr); ok && b.Op == token.SUB && isLenOf(cinfo, emitDefs.Resolve(b.X), func(a ast.Expr) bool { return eng.ExprStr(a) == eng.ExprStr(ix.X) }) {
					if tv, ok := cinfo.Types[b.Y]; ok && tv.Value != nil && tv.Value.ExactString() == "1" {
						topOfStack = true
					}
				}
			}
			return true
		})
		r.Check(key != nil && key.Equal(eng.AffSym("L0")), "R13.6", "compiler.(compiler).emit/location filed under the opcode's offset", p.Pos(emitFd.Pos()),
			"locations[L0] where L0 is the offset at which the opcode is appended", fmt.Sprintf("the location table is keyed by %v, not by the offset L0 of the opcode just appended: run-time errors are attributed to a neighbouring instruction's node", key))
		r.Check(topOfStack, "R13.6", "compiler.(compiler).emit/location of the node being compiled", p.Pos(emitFd.Pos()), "taken from the top of the node stack", "the location is not taken from the top of the node stack")
		// the location is filed on EVERY path through emit; a path may skip it only for
		// opcodes (pinned by case labels on that path) whose handlers cannot fail
		{
			w := &eng.Walker{Info: cinfo, MaxDepth: 2, MaxPaths: 4000}
			w.Inline = func(call *ast.CallExpr, depth int) (*ast.BlockStmt, *ast.FuncDecl) {
				fn := eng.CalleeOf(cinfo, call)
				if fn == nil || fn.Pkg() != p.Pkg("compiler").Types || e.em.Prims[fn] != "" || fn == e.em.Encode {
					return nil, nil
				}
				if fn.Type().(*types.Signature).Recv() != nil {
					return nil, nil
				}
				if _, hfd := p.DeclOf(fn); hfd != nil && hfd.Body != nil {
					return hfd.Body, hfd
				}
				return nil, nil
			}
			okAll, why := true, "every path files the location"
			nSkip := 0
			for _, atoms := range flattenPaths(w.Func(emitFd.Body), 20000) {
				if !boolFlowFeasible(cinfo, atoms) {
					continue
				}
				stores, panics := false, false
				var ops []string
				unrestricted := true
				for _, a := range atoms {
					switch a.Kind {
					case "assign":
						as := a.Node.(*ast.AssignStmt)
						for _, l := range as.Lhs {
							if ix, ok := l.(*ast.IndexExpr); ok && isLocMap(ix.X) {
								stores = true
							}
						}
					case "panic":
						panics = true
					case "case":
						if a.Case != nil && a.Case.Clause != nil && !a.Case.Default {
							all := len(a.Case.Clause.List) > 0
							var here []string
							for _, ex := range a.Case.Clause.List {
								id, ok := eng.Unparen(ex).(*ast.Ident)
								if !ok {
									all = false
									continue
								}
								if c, ok := cinfo.Uses[id].(*types.Const); ok && e.vm.ByName[c.Name()] != nil {
									here = append(here, c.Name())
								} else {
									all = false
								}
							}
							if all {
								ops = append(ops, here...)
								unrestricted = false
							}
						}
					}
				}
				if stores || panics {
					continue
				}
				nSkip++
				if unrestricted {
					okAll, why = false, "a path through emit returns without filing the location, for any opcode"
					continue
				}
				for _, op := range ops {
					if !handlerCannotFail(p, e, op) {
						okAll, why = false, "emit skips the location for "+op+", whose handler can fail (a type assertion, an index, a call): an error raised there is reported at line 0, column 0"
					}
				}
			}
			r.Check(okAll, "R13.6", "compiler.(compiler).emit/location filed on every path", p.Pos(emitFd.Pos()), fmt.Sprintf("%s (%d path(s) skip it, only for instructions that cannot fail)", why, nSkip), why)
		}
	}
	// node stack discipline in the dispatcher
	d := e.em.Dispatcher
	pushFirst, popDeferred := false, false
	if d != nil && d.Func.Body != nil && len(d.Func.Body.List) >= 2 {
		if as, ok := d.Func.Body.List[0].(*ast.AssignStmt); ok && len(as.Rhs) == 1 {
			if c, ok := as.Rhs[0].(*ast.CallExpr); ok {
				if id, ok := c.Fun.(*ast.Ident); ok && id.Name == "append" && len(c.Args) == 2 && eng.ExprStr(c.Args[0]) == eng.ExprStr(as.Lhs[0]) {
					if pid, ok := eng.Unparen(c.Args[1]).(*ast.Ident); ok && d.Func.Type.Params.NumFields() == 1 && pid.Name == d.Func.Type.Params.List[0].Names[0].Name {
						pushFirst = true
					}
				}
			}
		}
		if ds, ok := d.Func.Body.List[1].(*ast.DeferStmt); ok {
			if fl, ok := ds.Call.Fun.(*ast.FuncLit); ok {
				ast.Inspect(fl.Body, func(n ast.Node) bool {
					if as, ok := n.(*ast.AssignStmt); ok && len(as.Rhs) == 1 {
						if sl, ok := as.Rhs[0].(*ast.SliceExpr); ok && eng.ExprStr(sl.X) == eng.ExprStr(as.Lhs[0]) && sl.Low == nil && sl.High != nil {
							if b, ok := eng.Unparen(sl.High).(*ast.BinaryExpr); ok && b.Op == token.SUB {
								popDeferred = true
							}
						}
					}
					return true
				})
			}
		}
	}
	if d != nil {
		r.Check(pushFirst && popDeferred, "R13.6", "compiler.(compiler).compile/node stack pushed and popped around every dispatch", p.Pos(d.Func.Pos()), "push as the first statement, pop deferred", "the dispatcher does not push the node first and pop it in a deferred call: instructions are attributed to the wrong node")
	}
	// VM lookup
	_, saved := fetchInfo(vinfo, e.vm)
	okLookup, lw := false, "no lookup of the location table in Run's recover handler"
	// Run's body and the unexported helpers it calls or defers (an extracted recover handler)
	eng.InspectInlined(p, vinfo, p.Pkg("vm").Types, e.vm.Run.Body, 2, func(fn *types.Func, _ *ast.FuncDecl) bool { return !fn.Exported() && e.vm.Prims[fn] == "" }, func(n ast.Node, _ *eng.InlineCtx, _ int) bool {
		ix, ok := n.(*ast.IndexExpr)
		if !ok {
			return true
		}
		t := vinfo.TypeOf(ix.X)
		if t == nil {
			return true
		}
		m, isMap := t.Underlying().(*types.Map)
		if !isMap || !strings.HasSuffix(m.Elem().String(), "file.Location") {
			return true
		}
		if off, ok := saved[savedKey(vinfo, ix.Index)]; ok && off == 0 {
			okLookup, lw = true, "Locations["+eng.ExprStr(ix.Index)+"], which holds the offset of the opcode being executed"
		} else {
			lw = "the table is looked up with `" + eng.ExprStr(ix.Index) + "`, which is not the saved offset of the opcode being executed"
		}
		return true
	})
	r.Check(okLookup, "R13.6", "vm.(VM).Run/location looked up with the failing opcode's offset", p.Pos(e.vm.Run.Pos()), lw, lw+": the reported position belongs to another instruction")
	// every error the recover handler hands out is the located one: each assignment of the
	// run's error result inside the deferred handler is `<located error>.Bind(<source>)`
	{
		var errObj types.Object
		if res := e.vm.Run.Type.Results; res != nil {
			for _, f := range res.List {
				for _, nm := range f.Names {
					if t := vinfo.TypeOf(nm); t != nil && types.Identical(t, types.Universe.Lookup("error").Type()) {
						errObj = vinfo.Defs[nm]
					}
				}
			}
		}
		okAll, nAssign, why := true, 0, ""
		for _, st := range e.vm.Run.Body.List {
			ds, ok := st.(*ast.DeferStmt)
			if !ok {
				continue
			}
			vmDefs := e.vm.Defs
			eng.InspectInlined(p, vinfo, p.Pkg("vm").Types, ds, 2, func(fn *types.Func, _ *ast.FuncDecl) bool { return !fn.Exported() && e.vm.Prims[fn] == "" }, func(n ast.Node, ctx *eng.InlineCtx, _ int) bool {
				as, ok := n.(*ast.AssignStmt)
				if !ok || len(as.Lhs) != len(as.Rhs) {
					return true
				}
				for i, l := range as.Lhs {
					isErr := false
					switch x := eng.Unparen(l).(type) {
					case *ast.Ident:
						isErr = errObj != nil && objOf(vinfo, x) == errObj
					case *ast.StarExpr:
						// *p where the defer statement passes &err for p
						if ctx != nil {
							if arg, _ := ctx.Resolve(vinfo, x.X); arg != nil {
								if u, ok := eng.Unparen(arg).(*ast.UnaryExpr); ok && u.Op == token.AND {
									if id, ok := eng.Unparen(u.X).(*ast.Ident); ok && errObj != nil && objOf(vinfo, id) == errObj {
										isErr = true
									}
								}
							}
						}
					}
					if !isErr {
						continue
					}
					nAssign++
					good := false
					if c, ok := eng.Unparen(as.Rhs[i]).(*ast.CallExpr); ok {
						if sel, ok := c.Fun.(*ast.SelectorExpr); ok && sel.Sel.Name == "Bind" {
							recv := vmDefs.Resolve(sel.X)
							if u, ok := recv.(*ast.UnaryExpr); ok && u.Op == token.AND {
								recv = eng.Unparen(u.X)
							}
							if cl, ok := recv.(*ast.CompositeLit); ok {
								for _, el := range cl.Elts {
									if kv, ok := el.(*ast.KeyValueExpr); ok && eng.ExprStr(kv.Key) == "Location" {
										if ix, ok := eng.Unparen(kv.Value).(*ast.IndexExpr); ok {
											if off, ok := saved[savedKey(vinfo, ix.Index)]; ok && off == 0 {
												good = true
											}
										}
									}
								}
							}
						}
					}
					if !good {
						okAll, why = false, "the handler assigns `"+eng.ExprStr(as.Rhs[i])+"` to the run's error"
					}
				}
				return true
			})
		}
		r.Check(okAll && nAssign > 0, "R13.6", "vm.(VM).Run/every recovered error is located at the failing instruction and bound to the source", p.Pos(e.vm.Run.Pos()), fmt.Sprintf("%d assignment(s) of the error in the recover handler, each `<error located by the table>.Bind(source)`", nAssign),
			why+", which is not the error located at the failing instruction and bound to this program's source: a panic value passed through keeps whatever position (or none) it carried")
	}

	r.Floor("R13.1", 20)
	r.Floor("R13.2", 19)
	recorderRules(p, r, "", "R13.5")
	lineBreakRule(p, r)
	r.Floor("R13.5", 4)
	r.Floor("R13.7", 14) // 19 sites today; merging two rewrite sites lowers the count
	// R13.8 (= C12 R12.3): every location a token, node or error carries comes from the lexer's
	// position fields, which must move in lock-step with the byte offset, one rune at a time
	positionRules(p, r, "R13.8")
	r.Floor("R13.4", 4) // 7 literals today; merging duplicates into a constructor lowers the count
	r.Floor("R13.6", 6)
}

// handlerCannotFail: the handler's clause only calls the VM's push / constant / operand
// primitives and contains no type assertion, index expression or other call.
func handlerCannotFail(p *core.Program, e *engines, op string) bool {
	h := e.vm.Handlers[op]
	if h == nil {
		return false
	}
	info := p.Pkg("vm").TypesInfo
	ok := true
	for _, st := range h.Clause.Body {
		ast.Inspect(st, func(n ast.Node) bool {
			switch x := n.(type) {
			case *ast.CallExpr:
				fn := eng.CalleeOf(info, x)
				if fn == nil || (e.vm.Prims[fn] != "push" && e.vm.Prims[fn] != "const" && e.vm.Prims[fn] != "arg") {
					ok = false
				}
			case *ast.TypeAssertExpr, *ast.IndexExpr, *ast.SliceExpr, *ast.StarExpr:
				ok = false
			case *ast.BinaryExpr:
				if x.Op == token.QUO || x.Op == token.REM {
					ok = false
				}
			}
			return true
		})
	}
	return ok
}

func stripAmp(e ast.Expr) ast.Expr {
	e = eng.Unparen(e)
	if u, ok := e.(*ast.UnaryExpr); ok && u.Op == token.AND {
		return u.X
	}
	return e
}

// lineBreakRule (R13.9): two components decide what "line N" is — the lexer's stepping
// primitive, which starts a new line when it steps over certain characters, and the source's
// line table, from which the snippet of a reported line is cut. A reported (line, column) and its
// snippet belong together only if both break lines at the same characters.
func lineBreakRule(p *core.Program, r *core.Report) {
	breaks := func(rel string, fd *ast.FuncDecl) map[rune]bool {
		info := p.Pkg(rel).TypesInfo
		out := map[rune]bool{}
		ast.Inspect(fd.Body, func(n ast.Node) bool {
			e, ok := n.(ast.Expr)
			if !ok {
				return true
			}
			tv, ok := info.Types[e]
			if !ok || tv.Value == nil {
				return true
			}
			switch tv.Value.Kind() {
			case constant.String:
				for _, c := range constant.StringVal(tv.Value) {
					if c == '\n' || c == '\r' || c == '\u2028' || c == '\u2029' || c == '\f' || c == '\v' {
						out[c] = true
					}
				}
			case constant.Int:
				if _, isLit := e.(*ast.BasicLit); isLit {
					if v, ok := constant.Int64Val(tv.Value); ok && (v == '\n' || v == '\r' || v == 0x2028 || v == 0x2029) && e.(*ast.BasicLit).Kind == token.CHAR {
						out[rune(v)] = true
					}
				}
			}
			return true
		})
		return out
	}
	// the lexer's stepping primitive: the method that decodes runes
	var stepper *ast.FuncDecl
	linfo := p.Pkg("parser/lexer").TypesInfo
	for _, fd := range p.FuncDecls("parser/lexer") {
		if fd.Body == nil || fd.Recv == nil {
			continue
		}
		ast.Inspect(fd.Body, func(n ast.Node) bool {
			if c, ok := n.(*ast.CallExpr); ok {
				if fn := eng.CalleeOf(linfo, c); fn != nil && fn.Pkg() != nil && fn.Pkg().Path() == "unicode/utf8" && strings.HasPrefix(fn.Name(), "DecodeRune") {
					stepper = fd
				}
			}
			return true
		})
	}
	// the source's line table builder: the method of package file that assigns the offsets field
	var table *ast.FuncDecl
	finfo := p.Pkg("file").TypesInfo
	for _, fd := range p.FuncDecls("file") {
		if fd.Body == nil || fd.Recv == nil {
			continue
		}
		ast.Inspect(fd.Body, func(n ast.Node) bool {
			as, ok := n.(*ast.AssignStmt)
			if !ok {
				return true
			}
			for _, l := range as.Lhs {
				if sel, ok := l.(*ast.SelectorExpr); ok {
					if t := finfo.TypeOf(sel); t != nil {
						if sl, ok := t.(*types.Slice); ok {
							if b, ok := sl.Elem().(*types.Basic); ok && b.Info()&types.IsInteger != 0 {
								table = fd
							}
						}
					}
				}
			}
			return true
		})
	}
	if stepper == nil || table == nil {
		r.Unk("R13.9", "line breaks", "", fmt.Sprintf("lexer stepping primitive found: %v, source line table builder found: %v", stepper != nil, table != nil))
		return
	}
	lb, tb := breaks("parser/lexer", stepper), breaks("file", table)
	str := func(m map[rune]bool) string {
		var s []string
		for c := range m {
			s = append(s, fmt.Sprintf("%q", c))
		}
		sort.Strings(s)
		return strings.Join(s, " ")
	}
	same := len(lb) == len(tb) && len(lb) > 0
	for c := range lb {
		if !tb[c] {
			same = false
		}
	}
	r.Check(same, "R13.9", "lexer and source line table break lines at the same characters", p.Pos(table.Pos()), "both at "+str(lb),
		"the lexer ("+core.FuncName("parser/lexer", stepper)+") starts a new line at "+str(lb)+", the source's line table ("+core.FuncName("file", table)+") at "+str(tb)+": after a character only one of them treats as a line break, the reported line number and the snippet shown for it are different lines")
}

func c13Controls() []core.Mutant {
	return []core.Mutant{
		{Name: "refactor: emit computes the opcode offset before appending", File: "compiler/compiler.go", Old: "\tc.bytecode = append(c.bytecode, op)\n\tcurrent := len(c.bytecode)\n\tc.bytecode = append(c.bytecode, b...)\n", New: "\tat := len(c.bytecode)\n\tc.bytecode = append(c.bytecode, op)\n\tcurrent := at + 1\n\tc.bytecode = append(c.bytecode, b...)\n", Silent: true},
		{Name: "source line table also breaks at carriage returns", File: "file/source.go", Old: "\tlines := strings.Split(string(s.contents), \"\\n\")", New: "\tlines := strings.Split(strings.ReplaceAll(string(s.contents), \"\\r\", \"\\n\"), \"\\n\")", Rule: "R13.9", Construct: "break lines at the same characters"},
		{Name: "checker returns its error unbound", File: "checker/checker.go", Old: "return t, v.err.Bind(tree.Source)", New: "return t, v.err", Rule: "R13.5", Construct: "checker.Check"},
		{Name: "Compile passes the optimizer's error on unbound", File: "expr.go", Old: "return nil, fileError.Bind(tree.Source)", New: "return nil, fileError", Rule: "R13.5", Construct: "optimizer.Optimize"},
		{Name: "conditional node loses its location", File: "parser/parser.go", Old: "\t\t\tExp2: expr2,\n\t\t}\n\t\tnode.SetLocation(token.Location)\n", New: "\t\t\tExp2: expr2,\n\t\t}\n\t\t_ = token\n", Rule: "R13.1", Construct: "ConditionalNode"},
		{Name: "location table keyed by the operand position", File: "compiler/compiler.go", Old: "\tc.locations[current-1] = loc\n", New: "\tc.locations[current] = loc\n", Rule: "R13.6", Construct: "emit/location filed"},
		{Name: "VM looks the location up with ip", File: "vm/vm.go", Old: "Location: program.Locations[vm.pp],", New: "Location: program.Locations[vm.ip],", Rule: "R13.6", Construct: "vm.(VM).Run"},
		{Name: "checker error without location", File: "checker/checker.go", Old: "\t\tv.err = &file.Error{\n\t\t\tLocation: node.Location(),\n", New: "\t\tv.err = &file.Error{\n", Rule: "R13.4", Construct: "checker.(visitor).error"},
		{Name: "string scanner fast path advances the column by a byte count", File: "parser/lexer/lexer.go", Old: "func (l *lexer) scanString(quote rune) (n int) {\n", New: "func (l *lexer) scanString(quote rune) (n int) {\n\tif i := strings.IndexRune(l.input[l.end:], quote); i > 0 && !strings.ContainsAny(l.input[l.end:l.end+i], \"\\\\\\n\") {\n\t\tl.end += i\n\t\tl.loc.Column += i\n\t\tn += i\n\t}\n", Rule: "R13.8", Construct: "scanString"},
		{Name: "unary plus folded away for any operand", File: "optimizer/fold.go", Old: "\t\tcase \"+\":\n\t\t\tif i, ok := n.Node.(*IntegerNode); ok && plain(i) {", New: "\t\tcase \"+\":\n\t\t\tif _, isInt := n.Node.(*IntegerNode); !isInt {\n\t\t\t\tpatchWithType(n.Node, n.Node.Type())\n\t\t\t\treturn\n\t\t\t}\n\t\t\tif i, ok := n.Node.(*IntegerNode); ok && plain(i) {", Rule: "R13.7", Construct: "fold"},
		{Name: "inRange comparison loses its location", File: "optimizer/in_range.go", Old: "\t\t\t\t\t\tge.SetLocation(n.Location())\n", New: "", Rule: "R13.2", Construct: "inRange"},
		{Name: "node stack not popped", File: "compiler/compiler.go", Old: "\tdefer func() {\n\t\tc.nodes = c.nodes[:len(c.nodes)-1]\n\t}()\n", New: "", Rule: "R13.6", Construct: "node stack"},
		{Name: "recover handler passes a recovered *file.Error through", File: "vm/vm.go", Old: "\t\tif r := recover(); r != nil {\n\t\t\tf := &file.Error{", New: "\t\tif r := recover(); r != nil {\n\t\t\tif fe, ok := r.(*file.Error); ok {\n\t\t\t\terr = fe\n\t\t\t\treturn\n\t\t\t}\n\t\t\tf := &file.Error{", Rule: "R13.6", Construct: "every recovered error is located"},
		{Name: "emit files no location for jumps", File: "compiler/compiler.go", Old: "\tvar loc file.Location\n\tif len(c.nodes) > 0 {", New: "\tif op == OpJumpIfTrue || op == OpJumpIfFalse {\n\t\treturn current\n\t}\n\tvar loc file.Location\n\tif len(c.nodes) > 0 {", Rule: "R13.6", Construct: "location filed on every path"},
	}
}
