// Package core: loading of /repo's current working tree, obligations, evidence, known findings.
package core

import (
	"fmt"
	"go/ast"
	"go/token"
	"go/types"
	"os"
	"path/filepath"
	"sort"
	"strings"

	"golang.org/x/tools/go/packages"
	"golang.org/x/tools/go/ssa"
	"golang.org/x/tools/go/ssa/ssautil"
)

const ModPath = "github.com/antonmedv/expr"

// RepoDir is the tree that is analysed: /repo unless VERIF_REPO names another checkout
// (used only for self-tests against scratch worktrees; registered commands never set it).
func RepoDir() string {
	if d := os.Getenv("VERIF_REPO"); d != "" {
		return d
	}
	return "/repo"
}

// LibPkgs are the library packages subject to rules (relative to the module path).
var LibPkgs = []string{"", "ast", "checker", "compiler", "conf", "file", "optimizer", "parser", "parser/lexer", "vm", "docgen"}

type Program struct {
	Dir   string
	Fset  *token.FileSet
	All   []*packages.Package
	ByRel map[string]*packages.Package // "" = root package expr, "vm", "parser/lexer", ...
	Conf  LoadConf

	ssaProg *ssa.Program
	ssaPkgs map[string]*ssa.Package
}

type LoadConf struct {
	GOOS, GOARCH string
	Tags         string
	Overlay      map[string][]byte
}

// Load type-checks ./... of the repo. Any type error in a library package is fatal
// (an analyser that cannot see the program must not pass).
func Load(conf LoadConf) (*Program, error) {
	dir := RepoDir()
	env := append(os.Environ(), "GOFLAGS=-mod=mod", "GOPROXY=off", "GOSUMDB=off", "GOTOOLCHAIN=local", "GOWORK=off")
	if conf.GOOS != "" {
		env = append(env, "GOOS="+conf.GOOS)
	}
	if conf.GOARCH != "" {
		env = append(env, "GOARCH="+conf.GOARCH, "CGO_ENABLED=0")
	}
	cfg := &packages.Config{
		Mode: packages.NeedName | packages.NeedFiles | packages.NeedCompiledGoFiles | packages.NeedImports |
			packages.NeedTypes | packages.NeedSyntax | packages.NeedTypesInfo | packages.NeedTypesSizes | packages.NeedModule,
		Dir:     dir,
		Env:     env,
		Fset:    token.NewFileSet(),
		Tests:   false,
		Overlay: conf.Overlay,
	}
	if conf.Tags != "" {
		cfg.BuildFlags = []string{"-tags=" + conf.Tags}
	}
	pkgs, err := packages.Load(cfg, "./...")
	if err != nil {
		return nil, fmt.Errorf("packages.Load: %v", err)
	}
	if len(pkgs) == 0 {
		return nil, fmt.Errorf("packages.Load: zero packages in %s", dir)
	}
	p := &Program{Dir: dir, Fset: cfg.Fset, All: pkgs, ByRel: map[string]*packages.Package{}, Conf: conf}
	for _, pk := range pkgs {
		if pk.PkgPath == ModPath {
			p.ByRel[""] = pk
		} else if strings.HasPrefix(pk.PkgPath, ModPath+"/") {
			p.ByRel[strings.TrimPrefix(pk.PkgPath, ModPath+"/")] = pk
		}
	}
	// every package of the module must type-check: SSA construction is undefined on ill-typed code
	for _, pk := range pkgs {
		if len(pk.Errors) > 0 {
			return nil, fmt.Errorf("package %s has errors: %v", pk.PkgPath, pk.Errors[0])
		}
		if pk.IllTyped {
			return nil, fmt.Errorf("package %s is ill-typed", pk.PkgPath)
		}
	}
	for _, rel := range append(append([]string{}, LibPkgs...), "vm/generate") {
		pk := p.ByRel[rel]
		if pk == nil {
			return nil, fmt.Errorf("library package %q not found in %s", rel, dir)
		}
		if len(pk.Errors) > 0 {
			return nil, fmt.Errorf("package %s has errors: %v", pk.PkgPath, pk.Errors[0])
		}
		if pk.Types == nil || pk.TypesInfo == nil || len(pk.Syntax) == 0 {
			return nil, fmt.Errorf("package %s: no syntax/types", pk.PkgPath)
		}
	}
	return p, nil
}

func (p *Program) Pkg(rel string) *packages.Package { return p.ByRel[rel] }

// Pos renders a position relative to the repo dir.
func (p *Program) Pos(pos token.Pos) string {
	if !pos.IsValid() {
		return "?"
	}
	ps := p.Fset.Position(pos)
	f := ps.Filename
	if r, err := filepath.Rel(p.Dir, f); err == nil {
		f = r
	}
	return fmt.Sprintf("%s:%d", f, ps.Line)
}

// FuncDecl finds a function or method declaration: recv "" for functions, else the
// receiver's type name (pointer or not).
func (p *Program) FuncDecl(rel, recv, name string) *ast.FuncDecl {
	pk := p.ByRel[rel]
	if pk == nil {
		return nil
	}
	for _, f := range pk.Syntax {
		for _, d := range f.Decls {
			fd, ok := d.(*ast.FuncDecl)
			if !ok || fd.Name.Name != name {
				continue
			}
			if RecvName(fd) == recv {
				return fd
			}
		}
	}
	return nil
}

// RecvName returns the receiver's named type ("" for plain functions).
func RecvName(fd *ast.FuncDecl) string {
	if fd.Recv == nil || len(fd.Recv.List) == 0 {
		return ""
	}
	t := fd.Recv.List[0].Type
	if s, ok := t.(*ast.StarExpr); ok {
		t = s.X
	}
	if id, ok := t.(*ast.Ident); ok {
		return id.Name
	}
	return "?"
}

// FuncDecls lists all function declarations of a package, sorted by position.
func (p *Program) FuncDecls(rel string) []*ast.FuncDecl {
	pk := p.ByRel[rel]
	var out []*ast.FuncDecl
	if pk == nil {
		return nil
	}
	for _, f := range pk.Syntax {
		for _, d := range f.Decls {
			if fd, ok := d.(*ast.FuncDecl); ok {
				out = append(out, fd)
			}
		}
	}
	sort.Slice(out, func(i, j int) bool { return out[i].Pos() < out[j].Pos() })
	return out
}

// FuncName renders pkg.(recv).name of a declaration.
func FuncName(rel string, fd *ast.FuncDecl) string {
	if rel == "" {
		rel = "expr"
	}
	if r := RecvName(fd); r != "" {
		return rel + ".(" + r + ")." + fd.Name.Name
	}
	return rel + "." + fd.Name.Name
}

// DeclOf returns the FuncDecl (in any library package) of a *types.Func, with its package rel.
func (p *Program) DeclOf(fn *types.Func) (string, *ast.FuncDecl) {
	if fn == nil || fn.Pkg() == nil {
		return "", nil
	}
	for rel, pk := range p.ByRel {
		if pk.Types != fn.Pkg() {
			continue
		}
		for _, f := range pk.Syntax {
			for _, d := range f.Decls {
				if fd, ok := d.(*ast.FuncDecl); ok && pk.TypesInfo.Defs[fd.Name] == fn {
					return rel, fd
				}
			}
		}
	}
	return "", nil
}

// RelOf returns the rel name of the package owning obj ("" and false for foreign).
func (p *Program) RelOf(pkg *types.Package) (string, bool) {
	if pkg == nil {
		return "", false
	}
	if pkg.Path() == ModPath {
		return "", true
	}
	if strings.HasPrefix(pkg.Path(), ModPath+"/") {
		return strings.TrimPrefix(pkg.Path(), ModPath+"/"), true
	}
	return "", false
}

// Info returns the types.Info of the package containing pos.
func (p *Program) InfoFor(rel string) *types.Info { return p.ByRel[rel].TypesInfo }

// SSA builds (once) the SSA program for all loaded packages.
func (p *Program) SSA() (*ssa.Program, map[string]*ssa.Package) {
	if p.ssaProg != nil {
		return p.ssaProg, p.ssaPkgs
	}
	prog, pkgs := ssautil.Packages(p.All, ssa.InstantiateGenerics)
	prog.Build()
	p.ssaProg = prog
	p.ssaPkgs = map[string]*ssa.Package{}
	for i, pk := range p.All {
		if rel, ok := p.relOfPath(pk.PkgPath); ok && pkgs[i] != nil {
			p.ssaPkgs[rel] = pkgs[i]
		}
	}
	return p.ssaProg, p.ssaPkgs
}

func (p *Program) relOfPath(path string) (string, bool) {
	if path == ModPath {
		return "", true
	}
	if strings.HasPrefix(path, ModPath+"/") {
		return strings.TrimPrefix(path, ModPath+"/"), true
	}
	return "", false
}

// IsLib reports whether rel is a library package subject to rules.
func IsLib(rel string) bool {
	for _, l := range LibPkgs {
		if l == rel {
			return true
		}
	}
	return false
}

// ReadRepoFile reads a file of the analysed tree (docs, for oracle cross-checks).
func ReadRepoFile(rel string) ([]byte, error) { return os.ReadFile(filepath.Join(RepoDir(), rel)) }
