package core

import (
	"bytes"
	"os"
	"path/filepath"
)

// Mutant is a single-edit variant of one repo file, applied as an in-memory overlay.
// Expect "fire": Rule must report a non-discharged obligation (whose construct contains
// Construct, if given). Expect "silent": the whole property check must stay clean
// (a behaviour-preserving refactoring).
type Mutant struct {
	Name      string
	File      string // relative to the repo
	Old, New  string
	Edits     [][2]string // further (old,new) pairs in the same file
	More      []FileEdit  // edits in other files
	Rule      string
	Construct string
	Silent    bool
}

type FileEdit struct {
	File     string
	Old, New string
}

// Overlay builds the overlay map; ok=false if an anchor text is not (uniquely) present.
func (m Mutant) Overlay() (map[string][]byte, bool) {
	ov := map[string][]byte{}
	apply := func(file, old, new string) bool {
		abs := filepath.Join(RepoDir(), file)
		src, have := ov[abs]
		if !have {
			b, err := os.ReadFile(abs)
			if err != nil {
				return false
			}
			src = b
		}
		if bytes.Count(src, []byte(old)) != 1 {
			return false
		}
		ov[abs] = bytes.Replace(src, []byte(old), []byte(new), 1)
		return true
	}
	if !apply(m.File, m.Old, m.New) {
		return nil, false
	}
	for _, e := range m.Edits {
		if !apply(m.File, e[0], e[1]) {
			return nil, false
		}
	}
	for _, e := range m.More {
		if !apply(e.File, e.Old, e.New) {
			return nil, false
		}
	}
	return ov, true
}
