package core

import (
	"encoding/json"
	"fmt"
	"os"
	"path/filepath"
	"sort"
	"strconv"
	"strings"
	"time"
)

// VerifDir is where evidence, known findings and replays live.
func VerifDir() string {
	if d := os.Getenv("VERIF_DIR"); d != "" {
		return d
	}
	return "/verif"
}

const (
	Discharged   = "discharged"
	Violated     = "violated"
	Undecided    = "undecided"
	NotEvaluated = "not_evaluated" // listed, never counted as discharged, never a violation
)

type Obligation struct {
	Property  string `json:"property"`
	Rule      string `json:"rule"`
	Construct string `json:"construct"`
	Verdict   string `json:"verdict"`
	Detail    string `json:"detail,omitempty"`
	Pos       string `json:"pos,omitempty"`
	Known     bool   `json:"known,omitempty"`
}

type Control struct {
	Name   string `json:"name"`
	Rule   string `json:"rule"`
	Fired  bool   `json:"fired"`
	Status string `json:"status"` // fired | missed | skipped
	Detail string `json:"detail,omitempty"`
}

// Report collects everything one check run establishes.
type Report struct {
	Property    string
	Tier        string
	Seed        int
	Start       time.Time
	Obs         []Obligation
	Floors      map[string]int // rule -> minimum number of obligations
	Analysed    map[string]interface{}
	Explanation string
	NotDecided  []string
	Assumptions []string
	Trusted     []string
	Controls    []Control
	Configs     []string
	Exhaustive  bool
	CrossRef    map[string]interface{}
	seen        map[string]bool
}

func NewReport(prop, tier string) *Report {
	seed, _ := strconv.Atoi(os.Getenv("VERIF_SEED"))
	return &Report{Property: prop, Tier: tier, Seed: seed, Start: time.Now(), Floors: map[string]int{}, Analysed: map[string]interface{}{}, seen: map[string]bool{}, CrossRef: map[string]interface{}{}}
}

func (r *Report) add(rule, construct, verdict, pos, detail string) {
	key := rule + "|" + construct
	if r.seen[key] {
		// Same construct reported twice under one rule: keep the worst verdict.
		for i := range r.Obs {
			if r.Obs[i].Rule == rule && r.Obs[i].Construct == construct {
				if rank(verdict) > rank(r.Obs[i].Verdict) {
					r.Obs[i].Verdict, r.Obs[i].Detail, r.Obs[i].Pos = verdict, detail, pos
				}
			}
		}
		return
	}
	r.seen[key] = true
	r.Obs = append(r.Obs, Obligation{Property: r.Property, Rule: rule, Construct: construct, Verdict: verdict, Detail: detail, Pos: pos})
}

// Add records an obligation with a computed verdict.
func (r *Report) Add(rule, construct, verdict, pos, detail string) {
	r.add(rule, construct, verdict, pos, detail)
}

func rank(v string) int {
	switch v {
	case Violated:
		return 3
	case Undecided:
		return 2
	case NotEvaluated:
		return 1
	}
	return 0
}

func (r *Report) OK(rule, construct, pos, detail string) {
	r.add(rule, construct, Discharged, pos, detail)
}
func (r *Report) Bad(rule, construct, pos, detail string) {
	r.add(rule, construct, Violated, pos, detail)
}
func (r *Report) Unk(rule, construct, pos, detail string) {
	r.add(rule, construct, Undecided, pos, detail)
}
func (r *Report) Skip(rule, construct, pos, detail string) {
	r.add(rule, construct, NotEvaluated, pos, detail)
}

// Check records discharged/violated according to cond.
func (r *Report) Check(cond bool, rule, construct, pos, okDetail, badDetail string) bool {
	if cond {
		r.OK(rule, construct, pos, okDetail)
	} else {
		r.Bad(rule, construct, pos, badDetail)
	}
	return cond
}

func (r *Report) Floor(rule string, n int) { r.Floors[rule] = n }

func (r *Report) Count(rule string) int {
	n := 0
	for _, o := range r.Obs {
		if o.Rule == rule {
			n++
		}
	}
	return n
}

// --- known findings ---------------------------------------------------------------------

type Finding struct {
	Status     string `json:"status"` // known | fixed
	Property   string `json:"property"`
	Rule       string `json:"rule,omitempty"`
	Construct  string `json:"construct,omitempty"`
	WhatFails  string `json:"what_fails,omitempty"`
	Commit     string `json:"commit,omitempty"`
	WhatFailed string `json:"what_failed,omitempty"`
	Why        string `json:"why_not_fixed,omitempty"`
}

func LoadFindings() ([]Finding, error) {
	b, err := os.ReadFile(filepath.Join(VerifDir(), "known-findings.json"))
	if err != nil {
		if os.IsNotExist(err) {
			return nil, nil
		}
		return nil, err
	}
	var doc struct {
		Findings []Finding `json:"findings"`
	}
	if err := json.Unmarshal(b, &doc); err != nil {
		return nil, fmt.Errorf("known-findings.json: %v", err)
	}
	return doc.Findings, nil
}

// Finish applies floors and known findings, writes evidence and replay files, prints the
// verdict lines and returns the process exit code.
func (r *Report) Finish() int {
	findings, ferr := LoadFindings()
	if ferr != nil {
		r.Unk("meta", "known-findings.json", "", ferr.Error())
	}
	// floors: a rule that matches fewer instances than confirmed by hand is vacuous.
	rules := make([]string, 0, len(r.Floors))
	for rule := range r.Floors {
		rules = append(rules, rule)
	}
	sort.Strings(rules)
	for _, rule := range rules {
		if n := r.Count(rule); n < r.Floors[rule] {
			r.Unk("floor", rule, "", fmt.Sprintf("rule %s produced %d obligations, fewer than the %d instances confirmed by hand: the rule has gone (partly) vacuous", rule, n, r.Floors[rule]))
		}
	}
	sort.SliceStable(r.Obs, func(i, j int) bool {
		if r.Obs[i].Rule != r.Obs[j].Rule {
			return r.Obs[i].Rule < r.Obs[j].Rule
		}
		return r.Obs[i].Construct < r.Obs[j].Construct
	})
	var knownLines []string
	usedKnown := map[int]bool{}
	var viol []*Obligation
	discharged, notEval := 0, 0
	for i := range r.Obs {
		o := &r.Obs[i]
		switch o.Verdict {
		case Discharged:
			discharged++
			continue
		case NotEvaluated:
			notEval++
			continue
		}
		matched := false
		for k, f := range findings {
			if f.Status == "known" && f.Property == r.Property && f.Rule == o.Rule && f.Construct == o.Construct {
				matched = true
				if !usedKnown[k] {
					usedKnown[k] = true
					knownLines = append(knownLines, fmt.Sprintf("KNOWN-FINDING: property=%s %s %s — %s", r.Property, o.Rule, o.Construct, f.WhatFails))
				}
			}
		}
		if matched {
			o.Known = true
			continue
		}
		viol = append(viol, o)
	}
	for _, c := range r.Controls {
		if c.Status == "missed" {
			o := Obligation{Property: r.Property, Rule: "control", Construct: c.Name, Verdict: Undecided, Detail: "positive control did not fire: the rule " + c.Rule + " no longer detects the breakage it is meant to detect (" + c.Detail + ")"}
			r.Obs = append(r.Obs, o)
			viol = append(viol, &r.Obs[len(r.Obs)-1])
		}
	}

	// evidence
	evDir := filepath.Join(VerifDir(), "evidence")
	os.MkdirAll(filepath.Join(evDir, "replay"), 0o755)
	// remove stale replays of this property
	if old, _ := filepath.Glob(filepath.Join(evDir, "replay", r.Property+"-*.json")); old != nil {
		for _, f := range old {
			os.Remove(f)
		}
	}
	for _, l := range knownLines {
		fmt.Println(l)
	}
	for i, o := range viol {
		path := filepath.Join(evDir, "replay", fmt.Sprintf("%s-%d.json", r.Property, i+1))
		b, _ := json.MarshalIndent(map[string]interface{}{"property": r.Property, "rule": o.Rule, "construct": o.Construct, "verdict": o.Verdict, "detail": o.Detail, "pos": o.Pos, "tier": r.Tier,
			"replay": "exprlint replay " + path + " re-evaluates this obligation on the current tree"}, "", " ")
		os.WriteFile(path, b, 0o644)
		fmt.Printf("%s: %s [%s] %s: %s\n", o.Pos, strings.ToUpper(o.Verdict), o.Rule, o.Construct, o.Detail)
		fmt.Printf("VIOLATION property=%s replay=%s\n", r.Property, path)
	}

	distinct := map[string]bool{}
	perRule := map[string]int{}
	for _, o := range r.Obs {
		distinct[o.Rule+"|"+o.Construct] = true
		perRule[o.Rule]++
	}
	var samples []Obligation
	// samples: every non-discharged obligation first, then a spread of discharged ones
	for _, o := range r.Obs {
		if o.Verdict != Discharged && len(samples) < 12 {
			samples = append(samples, o)
		}
	}
	lastRule := ""
	for _, o := range r.Obs {
		if o.Verdict == Discharged && o.Rule != lastRule && len(samples) < 40 {
			samples = append(samples, o)
			lastRule = o.Rule
		}
	}
	if len(samples) == 0 {
		samples = append(samples, Obligation{Property: r.Property, Rule: "none", Construct: "none", Verdict: Undecided})
	}
	knownList := []string{}
	for _, o := range r.Obs {
		if o.Known {
			knownList = append(knownList, o.Rule+" "+o.Construct)
		}
	}
	expl := r.Explanation
	if len(r.NotDecided) > 0 {
		expl += " NOT DECIDED by this check: " + strings.Join(r.NotDecided, "; ") + "."
	}
	cov := map[string]interface{}{
		"explanation":         expl,
		"obligations":         len(r.Obs),
		"discharged":          discharged,
		"not_evaluated":       notEval,
		"evaluations":         len(r.Obs),
		"distinct_nontrivial": len(distinct),
		"rule":                "obligations are enumerated by the rules of DESIGN.md §4 for " + r.Property + " over the type-checked current working tree of the repository; one obligation per (rule, construct key); distinct = distinct (rule, construct) pairs; every one is a statement about a named construct of the code, none is an execution",
		"samples":             samples,
		"exhaustive":          r.Exhaustive,
		"analysed":            r.Analysed,
		"per_rule":            perRule,
		"floors":              r.Floors,
		"controls":            r.Controls,
		"known_findings":      knownList,
		"configs":             r.Configs,
		"checker_cmd":         "./bin/exprlint check " + r.Property + " --tier " + r.Tier,
		"trusted_base":        append([]string{"go/types, go/ssa, go/cfg, x/tools v0.29.0 call-graph builders", "the Go specification's meaning of conversions and operators"}, r.Trusted...),
	}
	if len(r.CrossRef) > 0 {
		cov["cross_reference_only"] = r.CrossRef
	}
	ev := map[string]interface{}{
		"property_id": r.Property,
		"tier":        r.Tier,
		"seed":        r.Seed,
		"level":       "other",
		"coverage":    cov,
		"assumptions": append([]string{"trees contain only the module's node kinds", "programs given to Run come from Compile", "environment functions and user visitors are not analysed"}, r.Assumptions...),
		"wall_s":      time.Since(r.Start).Seconds(),
		"violations":  len(viol),
	}
	b, _ := json.MarshalIndent(ev, "", " ")
	if err := os.WriteFile(filepath.Join(evDir, r.Property+".json"), b, 0o644); err != nil {
		fmt.Println("cannot write evidence:", err)
		return 2
	}
	fmt.Printf("%s %s: %d obligations, %d discharged, %d not evaluated, %d known, %d violations (%.1fs)\n", r.Property, r.Tier, len(r.Obs), discharged, notEval, len(knownList), len(viol), time.Since(r.Start).Seconds())
	if len(viol) > 0 {
		return 1
	}
	return 0
}
