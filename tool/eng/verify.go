package eng

import (
	"fmt"
	"go/ast"
	"go/types"
	"sort"
	"strings"
)

// Template verifier (V1, V2, V4, V5 of DESIGN.md §3 E3): a bytecode-verifier-style typestate
// analysis of each template against the VM's instruction signatures.

type Finding struct {
	Rule   string // V1 V2 V4 V5
	At     int    // event index (-1: whole template)
	Detail string
}

type VerifyResult struct {
	Findings []Finding
	A, B     int              // chosen coefficients of the loop index / counter
	Exit     int              // constant stack effect at the template's end
	ScopeReq []string         // scope variables read at relative scope depth 0 (needs an enclosing scope)
	ChildAt  map[int]ChildCtx // per child event: scope depth and defined variables
	Defined  map[int][]string
}

type ChildCtx struct {
	ScopeDepth int
	Defined    []string
	StackRel   string // rendered abstract depth at the child's entry
}

// form: depth = K + CI*I + CC*C + Σ L[slot]*|slot|
type form struct {
	K          int
	CI, CC     int
	L          map[string]int
	Top        string          // symbolic value on top of the stack: "var:size", "len:Nodes", "int:0"…
	SD         int             // relative scope depth
	IMin, CMin int             // proven lower bounds of the loop index / counter on every path reaching this point
	Def        map[string]bool // scope variables certainly stored since the innermost Begin (flattened per depth by prefix)
	DefStack   []map[string]bool
}

func (f form) clone() form {
	g := f
	g.L = map[string]int{}
	for k, v := range f.L {
		if v != 0 {
			g.L[k] = v
		}
	}
	g.DefStack = nil
	for _, d := range f.DefStack {
		c := map[string]bool{}
		for k := range d {
			c[k] = true
		}
		g.DefStack = append(g.DefStack, c)
	}
	return g
}

func (f form) same(g form) bool {
	if f.K != g.K || f.CI != g.CI || f.CC != g.CC || f.SD != g.SD {
		return false
	}
	for k, v := range f.L {
		if g.L[k] != v {
			return false
		}
	}
	for k, v := range g.L {
		if f.L[k] != v {
			return false
		}
	}
	return true
}

func (f form) String() string {
	s := fmt.Sprint(f.K)
	if f.CI != 0 {
		s += fmt.Sprintf("%+d·i", f.CI)
	}
	if f.CC != 0 {
		s += fmt.Sprintf("%+d·count", f.CC)
	}
	var ks []string
	for k := range f.L {
		ks = append(ks, k)
	}
	sort.Strings(ks)
	for _, k := range ks {
		if f.L[k] != 0 {
			s += fmt.Sprintf("%+d·|%s|", f.L[k], k)
		}
	}
	return s
}

// lowerBoundOK: the form is certainly ≥ 0 (all symbols are ≥ 0).
func (f form) nonNegative() bool {
	if f.CI < 0 || f.CC < 0 || f.K+f.CI*f.IMin+f.CC*f.CMin < 0 {
		return false
	}
	for _, v := range f.L {
		if v < 0 {
			return false
		}
	}
	return true
}

// ChildEffect: stack effect of compiling a child of the given template kind's slot.
func childEffect(nk *NodeKinds, parentKind, slot string, pairSlots map[string]bool) int {
	if pairSlots[parentKind+"."+slot] {
		return 2
	}
	return 1
}

type VerifyConf struct {
	Sigs                        map[string]*OpSig
	PairSlots                   map[string]bool // "MapNode.Pairs": children have effect +2
	Effect                      func(kind string) int
	IndexVar, SizeVar, CountVar string // scope variable names playing the loop roles (derived by the caller)
}

// constString returns the string value of a constant operand ("" if not a constant string).
func constString(o TOperand) string {
	if o.Kind == "const" && o.ConstVal != nil && o.ConstVal.Kind().String() == "String" {
		s := o.ConstVal.ExactString()
		if len(s) >= 2 {
			return s[1 : len(s)-1]
		}
	}
	return ""
}

// sizeSymbol: for a call constant Call{…, Size: len(node.X)} the list slot X.
func callSizeSlot(em *Emitter, o TOperand, field string) string {
	cl, ok := Unparen(o.ConstExpr).(*ast.CompositeLit)
	if !ok {
		return ""
	}
	info := em.Prog.Pkg("compiler").TypesInfo
	for _, el := range cl.Elts {
		kv, ok := el.(*ast.KeyValueExpr)
		if !ok || ExprStr(kv.Key) != field {
			continue
		}
		return lenSlot(em, info, kv.Value)
	}
	return ""
}

func lenSlot(em *Emitter, info *types.Info, e ast.Expr) string {
	c, ok := Unparen(e).(*ast.CallExpr)
	if !ok || len(c.Args) != 1 {
		return ""
	}
	if id, ok := c.Fun.(*ast.Ident); !ok || id.Name != "len" {
		return ""
	}
	_, slot, indexed, _, ok := em.NK.SlotRef(info, c.Args[0])
	if !ok || indexed {
		return ""
	}
	return slot
}

// Verify runs the typestate analysis; it tries the four (a,b) choices and returns the first
// that verifies, else the findings of the choice with the fewest findings.
func Verify(em *Emitter, t *Template, conf VerifyConf) *VerifyResult {
	var best *VerifyResult
	for _, ab := range [][2]int{{0, 0}, {1, 0}, {0, 1}, {1, 1}} {
		r := verifyWith(em, t, conf, ab[0], ab[1])
		if len(r.Findings) == 0 {
			return r
		}
		if best == nil || len(r.Findings) < len(best.Findings) {
			best = r
		}
	}
	return best
}

func verifyWith(em *Emitter, t *Template, conf VerifyConf, a, b int) *VerifyResult {
	res := &VerifyResult{A: a, B: b, ChildAt: map[int]ChildCtx{}}
	info := em.Prog.Pkg("compiler").TypesInfo
	add := func(rule string, at int, format string, args ...interface{}) {
		res.Findings = append(res.Findings, Finding{Rule: rule, At: at, Detail: fmt.Sprintf(format, args...)})
	}
	ev := t.Events
	n := len(ev)

	// ---- V2: placeholders patched exactly once; targets
	target := map[int]int{} // instr index -> event index of its label
	for i, e := range ev {
		if e.Kind == "label" {
			if _, dup := target[e.PatchOf]; dup {
				add("V2", i, "placeholder of instruction %d (%s) is patched twice", e.PatchOf, ev[e.PatchOf].Op)
			}
			if e.PatchOf >= i {
				add("V2", i, "patch of an instruction emitted later")
			}
			target[e.PatchOf] = i
			if ev[e.PatchOf].Kind != "instr" || ev[e.PatchOf].Operand.Kind != "placeholder" {
				add("V2", i, "patchJump applied to %s, which carries no placeholder operand: its operand bytes are overwritten", ev[e.PatchOf].Op)
			}
		}
	}
	capAt := map[int]int{}
	for i, e := range ev {
		if e.Kind == "capture" {
			capAt[e.CapID] = i
		}
	}
	for i, e := range ev {
		if e.Kind != "instr" {
			continue
		}
		sig := conf.Sigs[e.Op]
		if sig == nil {
			add("V1", i, "instruction %s has no handler signature", e.Op)
			continue
		}
		// ---- V1 operand kind / width
		switch e.Operand.Kind {
		case "none":
			if sig.Operand != "none" {
				add("V1", i, "%s is emitted without operand but its handler reads a %s operand", e.Op, sig.Operand)
			}
		case "const":
			if sig.Operand != "const" {
				add("V1", i, "%s is emitted with a constant-pool operand but its handler reads %s", e.Op, sig.Operand)
			} else if sig.ConstType != nil && e.Operand.ConstType != nil {
				ct := e.Operand.ConstType
				if b, ok := ct.(*types.Basic); ok && b.Info()&types.IsUntyped != 0 {
					ct = types.Default(ct)
				}
				if !types.Identical(ct, sig.ConstType) {
					add("V1", i, "%s: the constant %s has static type %s but the handler asserts %s", e.Op, ExprStr(e.Operand.ConstExpr), ct, sig.ConstType)
				}
			}
		case "raw":
			if sig.Operand != "u16" || strings.HasPrefix(sig.Jump, "fwd") || sig.Jump == "back" {
				add("V1", i, "%s is emitted with a raw operand but its handler reads %s (jump=%q)", e.Op, sig.Operand, sig.Jump)
			}
		case "placeholder":
			if !strings.HasPrefix(sig.Jump, "fwd") {
				add("V1", i, "%s carries a forward-jump placeholder but its handler is not a forward jump", e.Op)
			}
			if _, ok := target[i]; !ok {
				add("V2", i, "the placeholder of %s is never patched on this path: the jump keeps offset 0xFFFF", e.Op)
			}
		case "back":
			if sig.Jump != "back" {
				add("V1", i, "%s carries a backward offset but its handler does not jump backward", e.Op)
			}
			if c, ok := capAt[e.Operand.Label]; !ok || c > i {
				add("V2", i, "backward jump to a label that was not captured earlier in this template")
			}
		default:
			add("V1", i, "%s: operand not understood (%s)", e.Op, e.Operand.Detail)
		}
		if (strings.HasPrefix(sig.Jump, "fwd") && e.Operand.Kind != "placeholder") || (sig.Jump == "back" && e.Operand.Kind != "back") {
			add("V1", i, "jump instruction %s emitted without a jump operand", e.Op)
		}
	}
	if len(res.Findings) > 0 {
		return res
	}

	// ---- V4/V5: dataflow over the template's control-flow graph
	succ := func(i int) []int {
		e := ev[i]
		if e.Kind != "instr" {
			return []int{i + 1}
		}
		sig := conf.Sigs[e.Op]
		switch {
		case sig.Jump == "fwd":
			return []int{target[i]}
		case sig.Jump == "back":
			return []int{capAt[e.Operand.Label]}
		case strings.HasPrefix(sig.Jump, "fwd-if"):
			return []int{i + 1, target[i]}
		}
		return []int{i + 1}
	}
	in := make([]*form, n+1)
	start := form{L: map[string]int{}}
	in[0] = &start
	work := []int{0}
	conflict := map[int]bool{}
	// loop-shape facts for the I = size substitution
	shape := loopShape(t, conf)
	steps := 0
	for len(work) > 0 && steps < 10000 {
		steps++
		i := work[len(work)-1]
		work = work[:len(work)-1]
		if i >= n {
			continue
		}
		cur := in[i].clone()
		e := ev[i]
		outs := succ(i)
		apply := func(f form) (form, bool) {
			switch e.Kind {
			case "label", "capture":
				return f, true
			case "child":
				res.ChildAt[i] = ChildCtx{ScopeDepth: f.SD, Defined: defList(f), StackRel: f.String()}
				f.K += childEffect(em.NK, t.Kind, e.Slot, conf.PairSlots)
				f.Top = ""
				return f, true
			case "childlist":
				res.ChildAt[i] = ChildCtx{ScopeDepth: f.SD, Defined: defList(f), StackRel: f.String()}
				f.L[e.Slot] += childEffect(em.NK, t.Kind, e.Slot, conf.PairSlots)
				f.Top = ""
				return f, true
			}
			sig := conf.Sigs[e.Op]
			// scope effects first (V5)
			key := constString(e.Operand)
			switch sig.Scope {
			case "open":
				f.SD++
				f.DefStack = append(f.DefStack, map[string]bool{})
			case "close":
				if f.SD == 0 {
					add("V5", i, "%s closes a scope this template did not open", e.Op)
					return f, false
				}
				f.SD--
				f.DefStack = f.DefStack[:len(f.DefStack)-1]
			case "store", "inc", "load":
				if key == "" {
					add("V5", i, "%s with a scope-variable name that is not a constant string", e.Op)
					return f, false
				}
			}
			// pops
			pops := sig.Pop
			if sig.Peek && pops == 0 {
				tmp := f
				tmp.K--
				if !tmp.nonNegative() {
					add("V4", i, "%s reads the top of a stack that may be empty here (depth %s relative to the template's entry)", e.Op, f.String())
					return f, false
				}
			}
			topBefore := f.Top
			f.K -= pops
			switch {
			case strings.HasPrefix(sig.SymPop, "callsize:"):
				slot := callSizeSlot(em, e.Operand, strings.TrimPrefix(sig.SymPop, "callsize:"))
				if slot == "" {
					add("V4", i, "%s pops as many values as its call constant says, and that count is not len(<list slot>): %s", e.Op, ExprStr(e.Operand.ConstExpr))
					return f, false
				}
				f.L[slot] -= sig.SymFactor
			case sig.SymPop == "top":
				switch {
				case strings.HasPrefix(topBefore, "len:"):
					f.L[strings.TrimPrefix(topBefore, "len:")] -= sig.SymFactor
				case topBefore == "var:"+conf.SizeVar && conf.SizeVar != "":
					// depth = K + CI·I …, pops size = I at a regular loop exit
					if !shape.regular {
						add("V4", i, "%s pops `%s` values but the loop is not of the recognised shape (%s), so i = size cannot be assumed", e.Op, conf.SizeVar, shape.why)
						return f, false
					}
					if f.CI != sig.SymFactor {
						add("V4", i, "%s pops %d·size values but the stack holds %d per iteration above the template's base (form %s)", e.Op, sig.SymFactor, f.CI, f.String())
						return f, false
					}
					f.CI = 0
				case topBefore == "var:"+conf.CountVar && conf.CountVar != "":
					if f.CC != sig.SymFactor {
						add("V4", i, "%s pops %d·count values but the stack holds %d per counted element (form %s)", e.Op, sig.SymFactor, f.CC, f.String())
						return f, false
					}
					f.CC = 0
				default:
					add("V4", i, "%s pops a number of values given by the top of the stack, whose origin is not known here (%q)", e.Op, topBefore)
					return f, false
				}
			}
			if !f.nonNegative() {
				add("V4", i, "%s pops below the template's entry depth (depth after pops %s): a run pops an empty stack or consumes values of the enclosing expression", e.Op, f.String())
				return f, false
			}
			f.K += sig.Push
			// symbolic top
			switch {
			case sig.Push == 0 && sig.Pop == 0 && sig.SymPop == "" && !strings.HasPrefix(sig.Jump, "fwd") && sig.Jump != "back":
				// no stack effect: top survives (OpEnd, OpInc, OpBegin)
			case e.Op != "" && sig.Push == 1 && sig.Pop == 0 && sig.Operand == "const" && sig.Scope == "" && isLoad(sig):
				f.Top = "var:" + key
			default:
				f.Top = ""
			}
			if sig.Scope == "load" || isLoad(sig) {
				f.Top = "var:" + key
			}
			if e.Op != "" && sig.Operand == "const" && sig.Push == 1 && sig.Pop == 0 && !isLoad(sig) && sig.Scope == "" {
				// a pushed constant
				if s := lenSlot(em, info, e.Operand.ConstExpr); s != "" {
					f.Top = "len:" + s
				} else if e.Operand.ConstVal != nil {
					f.Top = "int:" + e.Operand.ConstVal.ExactString()
				}
			}
			// scope variable typing
			switch {
			case sig.Scope == "store":
				if f.SD == 0 {
					add("V5", i, "%s %q outside any scope opened by this template: it writes a variable of the enclosing builtin's scope (or no scope at all)", e.Op, key)
					return f, false
				}
				f.DefStack[len(f.DefStack)-1][key] = true
				if key == conf.IndexVar {
					f.IMin = 0
					if topBefore == "int:0" {
						f.CI = a
					} else {
						add("V4", i, "the loop index %q is stored from something other than the constant 0", key)
						return f, false
					}
				}
				if key == conf.CountVar {
					f.CMin = 0
					if topBefore == "int:0" {
						f.CC = b
					} else {
						add("V4", i, "the counter %q is stored from something other than the constant 0", key)
						return f, false
					}
				}
			case sig.Scope == "inc":
				if f.SD == 0 {
					add("V5", i, "%s %q outside any scope opened by this template", e.Op, key)
					return f, false
				}
				if !f.DefStack[len(f.DefStack)-1][key] {
					add("V5", i, "%s %q before the variable is stored in this scope", e.Op, key)
					return f, false
				}
				// depth = K + CI·I + CC·C is unchanged by the increment: K absorbs it, and the
				// incremented variable is now at least one more than its proven lower bound
				if key == conf.IndexVar {
					f.K -= f.CI
					f.IMin++
				}
				if key == conf.CountVar {
					f.K -= f.CC
					f.CMin++
				}
			case isLoad(sig):
				if f.SD == 0 {
					res.ScopeReq = appendUniq(res.ScopeReq, key)
				} else if !f.DefStack[len(f.DefStack)-1][key] {
					add("V5", i, "%s %q reads a scope variable that is not stored on every path since the scope was opened", e.Op, key)
					return f, false
				}
			}
			return f, true
		}
		out, ok := apply(cur)
		if !ok {
			return res
		}
		for k, s := range outs {
			o := out.clone()
			// the value a conditional jump leaves on the stack is kept on both edges
			_ = k
			if s > n {
				s = n
			}
			if in[s] == nil {
				c := o
				in[s] = &c
				work = append(work, s)
				continue
			}
			if !in[s].same(o) {
				if !conflict[s] {
					conflict[s] = true
					what := "stack depth"
					if in[s].SD != o.SD {
						what = "scope depth"
					}
					add(map[bool]string{true: "V5", false: "V4"}[in[s].SD != o.SD], s, "two paths reach %s with different %s: %s (scopes %d) vs %s (scopes %d)", describe(ev, s), what, in[s].String(), in[s].SD, o.String(), o.SD)
				}
				continue
			}
			// meet of definedness
			changed := false
			for d := range in[s].DefStack {
				if d < len(o.DefStack) {
					for v := range in[s].DefStack[d] {
						if !o.DefStack[d][v] {
							delete(in[s].DefStack[d], v)
							changed = true
						}
					}
				}
			}
			if o.IMin < in[s].IMin {
				in[s].IMin = o.IMin
				changed = true
			}
			if o.CMin < in[s].CMin {
				in[s].CMin = o.CMin
				changed = true
			}
			if in[s].Top != o.Top && in[s].Top != "" {
				in[s].Top = ""
				changed = true
			}
			if changed {
				work = append(work, s)
			}
		}
	}
	if len(res.Findings) > 0 {
		return res
	}
	end := in[n]
	if end == nil {
		if t.Term != "panic" {
			add("V4", -1, "the end of the template is not reachable")
		}
		return res
	}
	want := conf.Effect(t.Kind)
	if end.CI != 0 || end.CC != 0 || len(nonZero(end.L)) > 0 || end.K != want {
		add("V4", -1, "the template leaves depth %s relative to its entry, expected exactly %+d", end.String(), want)
	}
	if end.SD != 0 {
		add("V5", -1, "the template ends with %d scope(s) still open", end.SD)
	}
	res.Exit = end.K
	return res
}

func nonZero(m map[string]int) []string {
	var out []string
	for k, v := range m {
		if v != 0 {
			out = append(out, k)
		}
	}
	return out
}

func isLoad(sig *OpSig) bool                { return sig != nil && sig.Scope == "load" }
func isScopeLoad(sig *OpSig, e TEvent) bool { return false }

func appendUniq(s []string, v string) []string {
	for _, x := range s {
		if x == v {
			return s
		}
	}
	return append(s, v)
}

func defList(f form) []string {
	if len(f.DefStack) == 0 {
		return nil
	}
	var out []string
	for k := range f.DefStack[len(f.DefStack)-1] {
		out = append(out, k)
	}
	sort.Strings(out)
	return out
}

func describe(ev []TEvent, i int) string {
	if i >= len(ev) {
		return "the template's end"
	}
	e := ev[i]
	switch e.Kind {
	case "instr":
		return fmt.Sprintf("instruction #%d (%s)", i, e.Op)
	case "label":
		return fmt.Sprintf("the target of jump #%d", e.PatchOf)
	case "capture":
		return "the loop head"
	}
	return fmt.Sprintf("event #%d (%s)", i, e.Kind)
}

type loopShapeInfo struct {
	regular bool
	why     string
}

// loopShape checks the recognised loop skeleton: index stored once (from 0) before the single
// captured head, incremented exactly once on every path from the head back to the backward
// jump, exit test `i < size` by a conditional forward jump, size stored once from a length.
func loopShape(t *Template, conf VerifyConf) loopShapeInfo {
	ev := t.Events
	head, back := -1, -1
	nStoreI, nStoreSize, nIncI := 0, 0, 0
	for i, e := range ev {
		switch {
		case e.Kind == "capture":
			if head >= 0 {
				return loopShapeInfo{false, "more than one loop head"}
			}
			head = i
		case e.Kind == "instr" && e.Operand.Kind == "back":
			if back >= 0 {
				return loopShapeInfo{false, "more than one backward jump"}
			}
			back = i
		case e.Kind == "instr":
			sig := conf.Sigs[e.Op]
			if sig == nil {
				continue
			}
			k := constString(e.Operand)
			if sig.Scope == "store" && k == conf.IndexVar {
				nStoreI++
				if head >= 0 {
					return loopShapeInfo{false, "index stored inside the loop"}
				}
			}
			if sig.Scope == "store" && k == conf.SizeVar {
				nStoreSize++
				if head >= 0 {
					return loopShapeInfo{false, "size stored inside the loop"}
				}
				// must be stored from the length instruction: previous instr pushes a length
				if i == 0 || ev[i-1].Kind != "instr" || !conf.Sigs[ev[i-1].Op].Peek || conf.Sigs[ev[i-1].Op].Push != 1 {
					return loopShapeInfo{false, "size is not stored from the length of the collection"}
				}
			}
			if sig.Scope == "inc" && k == conf.IndexVar {
				nIncI++
				if head < 0 || back >= 0 {
					return loopShapeInfo{false, "index incremented outside the loop body"}
				}
			}
		}
	}
	if head < 0 || back < 0 {
		return loopShapeInfo{false, "no loop"}
	}
	if nStoreI != 1 || nStoreSize != 1 {
		return loopShapeInfo{false, "index/size not stored exactly once"}
	}
	if nIncI != 1 {
		return loopShapeInfo{false, fmt.Sprintf("index incremented %d times per iteration", nIncI)}
	}
	// the increment must be the instruction right before the backward jump (so that every
	// path of the body that returns to the head passes it); the head must be
	// Load i, Load size, Less, JumpIfFalse
	if !(back >= 1 && ev[back-1].Kind == "instr" && conf.Sigs[ev[back-1].Op] != nil && conf.Sigs[ev[back-1].Op].Scope == "inc" && constString(ev[back-1].Operand) == conf.IndexVar) {
		// allow labels between
		j := back - 1
		for j >= 0 && ev[j].Kind == "label" {
			j--
		}
		if !(j >= 0 && ev[j].Kind == "instr" && conf.Sigs[ev[j].Op] != nil && conf.Sigs[ev[j].Op].Scope == "inc" && constString(ev[j].Operand) == conf.IndexVar) {
			return loopShapeInfo{false, "the index increment does not immediately precede the backward jump"}
		}
	}
	if head+4 >= len(ev) {
		return loopShapeInfo{false, "loop head too short"}
	}
	h := ev[head+1 : head+5]
	okHead := h[0].Kind == "instr" && isLoad(conf.Sigs[h[0].Op]) && constString(h[0].Operand) == conf.IndexVar &&
		h[1].Kind == "instr" && isLoad(conf.Sigs[h[1].Op]) && constString(h[1].Operand) == conf.SizeVar &&
		h[2].Kind == "instr" && h[2].Op == conf.lessOp() &&
		h[3].Kind == "instr" && conf.Sigs[h[3].Op] != nil && conf.Sigs[h[3].Op].Jump == "fwd-if-false"
	if !okHead {
		return loopShapeInfo{false, "the loop head is not `load i; load size; less; jump-if-false`"}
	}
	return loopShapeInfo{true, ""}
}

// lessOp: the opcode whose handler applies `<` (set by the caller through Sigs' side table).
var LessOpName = "OpLess"

func (c VerifyConf) lessOp() string { return LessOpName }
