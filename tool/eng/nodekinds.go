package eng

import (
	"go/ast"
	"go/types"
	"sort"

	"verif/exprlint/core"
)

// E1 — node kinds, child slots, dispatchers.

type Slot struct {
	Name string
	List bool // []ast.Node
}

type Kind struct {
	Name  string
	Named *types.Named
	Slots []Slot
	Pos   ast.Node
}

type NodeKinds struct {
	NodeIface *types.Named // ast.Node
	Kinds     []*Kind      // declaration order
	ByName    map[string]*Kind
}

// FindNodeKinds: exported struct types of package ast whose pointer implements ast.Node.
func FindNodeKinds(p *core.Program) (*NodeKinds, string) {
	pk := p.Pkg("ast")
	obj := pk.Types.Scope().Lookup("Node")
	if obj == nil {
		return nil, "ast.Node not found"
	}
	named, ok := obj.Type().(*types.Named)
	if !ok {
		return nil, "ast.Node is not a named type"
	}
	iface, ok := named.Underlying().(*types.Interface)
	if !ok {
		return nil, "ast.Node is not an interface"
	}
	nk := &NodeKinds{NodeIface: named, ByName: map[string]*Kind{}}
	type ent struct {
		k   *Kind
		pos int
	}
	var es []ent
	for _, name := range pk.Types.Scope().Names() {
		tn, ok := pk.Types.Scope().Lookup(name).(*types.TypeName)
		if !ok || !tn.Exported() {
			continue
		}
		n, ok := tn.Type().(*types.Named)
		if !ok {
			continue
		}
		st, ok := n.Underlying().(*types.Struct)
		if !ok {
			continue
		}
		if !types.Implements(types.NewPointer(n), iface) {
			continue
		}
		k := &Kind{Name: name, Named: n}
		for i := 0; i < st.NumFields(); i++ {
			f := st.Field(i)
			if types.Identical(f.Type(), named) {
				k.Slots = append(k.Slots, Slot{Name: f.Name()})
			} else if sl, ok := f.Type().(*types.Slice); ok && types.Identical(sl.Elem(), named) {
				k.Slots = append(k.Slots, Slot{Name: f.Name(), List: true})
			}
		}
		es = append(es, ent{k, int(tn.Pos())})
	}
	sort.Slice(es, func(i, j int) bool { return es[i].pos < es[j].pos })
	for _, e := range es {
		nk.Kinds = append(nk.Kinds, e.k)
		nk.ByName[e.k.Name] = e.k
	}
	if len(nk.Kinds) == 0 {
		return nil, "no node kinds found"
	}
	return nk, ""
}

// KindOfType returns the kind a type (pointer to a kind struct) denotes.
func (nk *NodeKinds) KindOfType(t types.Type) *Kind {
	if t == nil {
		return nil
	}
	if pt, ok := t.(*types.Pointer); ok {
		t = pt.Elem()
	}
	if n, ok := t.(*types.Named); ok {
		for _, k := range nk.Kinds {
			if k.Named.Obj() == n.Obj() {
				return k
			}
		}
	}
	return nil
}

func (nk *NodeKinds) IsNode(t types.Type) bool {
	return t != nil && types.Identical(t, nk.NodeIface)
}

func (nk *NodeKinds) IsNodeList(t types.Type) bool {
	if sl, ok := t.(*types.Slice); ok {
		return types.Identical(sl.Elem(), nk.NodeIface)
	}
	return false
}

// Dispatcher: a type switch over an ast.Node value whose default clause panics.
type Dispatcher struct {
	Rel     string
	Func    *ast.FuncDecl
	Switch  *ast.TypeSwitchStmt
	Bind    *ast.Ident                 // the n of `switch n := x.(type)`, or nil
	Clauses map[string]*ast.CaseClause // kind name -> clause
	Default *ast.CaseClause
}

// FindDispatchers returns all dispatchers of a package (type switch over a Node-typed
// expression with a panicking default).
func FindDispatchers(p *core.Program, nk *NodeKinds, rel string) []*Dispatcher {
	pk := p.Pkg(rel)
	var out []*Dispatcher
	for _, fd := range p.FuncDecls(rel) {
		if fd.Body == nil {
			continue
		}
		ast.Inspect(fd.Body, func(n ast.Node) bool {
			ts, ok := n.(*ast.TypeSwitchStmt)
			if !ok {
				return true
			}
			var x ast.Expr
			var bind *ast.Ident
			switch a := ts.Assign.(type) {
			case *ast.AssignStmt:
				x = a.Rhs[0].(*ast.TypeAssertExpr).X
				bind, _ = a.Lhs[0].(*ast.Ident)
			case *ast.ExprStmt:
				x = a.X.(*ast.TypeAssertExpr).X
			}
			if !nk.IsNode(pk.TypesInfo.TypeOf(x)) {
				return true
			}
			d := &Dispatcher{Rel: rel, Func: fd, Switch: ts, Bind: bind, Clauses: map[string]*ast.CaseClause{}}
			for _, c := range ts.Body.List {
				cc := c.(*ast.CaseClause)
				if cc.List == nil {
					d.Default = cc
					continue
				}
				for _, te := range cc.List {
					if k := nk.KindOfType(pk.TypesInfo.TypeOf(te)); k != nil {
						d.Clauses[k.Name] = cc
					}
				}
			}
			if d.Default == nil || !bodyPanics(d.Default.Body) {
				return true
			}
			out = append(out, d)
			return true
		})
	}
	return out
}

func bodyPanics(stmts []ast.Stmt) bool {
	for _, s := range stmts {
		if es, ok := s.(*ast.ExprStmt); ok {
			if c, ok := es.X.(*ast.CallExpr); ok {
				if id, ok := c.Fun.(*ast.Ident); ok && id.Name == "panic" {
					return true
				}
			}
		}
	}
	return false
}

// SlotRef recognises n.F, n.F[i] (optionally behind &) for a variable of a kind type;
// returns kind, slot name, whether indexed, whether address taken.
func (nk *NodeKinds) SlotRef(info *types.Info, e ast.Expr) (k *Kind, slot string, indexed, addr bool, ok bool) {
	e = Unparen(e)
	if u, isU := e.(*ast.UnaryExpr); isU && u.Op.String() == "&" {
		addr = true
		e = Unparen(u.X)
	}
	if ix, isIx := e.(*ast.IndexExpr); isIx {
		indexed = true
		e = Unparen(ix.X)
	}
	sel, isSel := e.(*ast.SelectorExpr)
	if !isSel {
		return nil, "", false, false, false
	}
	k = nk.KindOfType(info.TypeOf(sel.X))
	if k == nil {
		return nil, "", false, false, false
	}
	for _, s := range k.Slots {
		if s.Name == sel.Sel.Name {
			if indexed && !s.List {
				return nil, "", false, false, false
			}
			return k, s.Name, indexed, addr, true
		}
	}
	return nil, "", false, false, false
}
