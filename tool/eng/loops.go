package eng

import (
	"go/ast"
	"go/token"
	"go/types"
)

// Counted loops. `for i := N-1; i >= 0; i--`, `for i := len(a); i > 0; i--`,
// `for i := 0; i < N; i++`, `for i := range a` and `for range N` are the same thing to a rule
// that asks how often the body runs and what the loop variable holds in iteration T
// (T = 0, 1, …): CountedLoop gives both as affine forms.

type CountedLoop struct {
	OK    bool
	Why   string
	Var   types.Object // nil when the loop has no variable (or it is blank)
	Val   Aff          // value of Var in iteration T, in the symbol "T"
	Trips Aff          // number of iterations (when non-negative)
	Body  *ast.BlockStmt
}

// AnalyseCountedLoop reads the header of a for / range statement. env evaluates the bounds
// (its Sym names opaque quantities); lenOf gives the length of a slice-valued expression when
// the caller knows it (a slice made with that length in the same function).
func AnalyseCountedLoop(info *types.Info, env *AffEnv, loop ast.Stmt, lenOf func(ast.Expr) (Aff, bool)) CountedLoop {
	T := AffSym("T")
	eval := func(e ast.Expr) (Aff, bool) {
		e = Unparen(e)
		if c, ok := e.(*ast.CallExpr); ok && len(c.Args) == 1 {
			if id, ok := c.Fun.(*ast.Ident); ok && id.Name == "len" {
				if _, isB := info.Uses[id].(*types.Builtin); isB && lenOf != nil {
					if a, ok := lenOf(c.Args[0]); ok {
						return a, true
					}
				}
			}
		}
		return env.Eval(e)
	}
	if lenOf != nil {
		// len(made slice) also inside a larger expression (`len(in) - 1`)
		cp := *env
		prev := env.Val
		cp.Val = func(e ast.Expr) (Aff, bool) {
			if c, ok := Unparen(e).(*ast.CallExpr); ok && len(c.Args) == 1 {
				if id, ok := c.Fun.(*ast.Ident); ok && id.Name == "len" {
					if _, isB := info.Uses[id].(*types.Builtin); isB {
						if a, ok := lenOf(c.Args[0]); ok {
							return a, true
						}
					}
				}
			}
			if prev != nil {
				return prev(e)
			}
			return Aff{}, false
		}
		env = &cp
	}
	switch x := loop.(type) {
	case *ast.RangeStmt:
		cl := CountedLoop{Body: x.Body}
		if x.Value != nil {
			if id, ok := x.Value.(*ast.Ident); !ok || id.Name != "_" {
				cl.Why = "range loop with a value variable"
				return cl
			}
		}
		var trips Aff
		ok := false
		if t := info.TypeOf(x.X); t != nil {
			switch u := t.Underlying().(type) {
			case *types.Slice, *types.Array:
				if lenOf != nil {
					trips, ok = lenOf(x.X)
				}
			case *types.Basic:
				if u.Info()&types.IsInteger != 0 {
					trips, ok = eval(x.X)
				}
			}
		}
		if !ok {
			cl.Why = "the length of the ranged expression is not known"
			return cl
		}
		cl.OK, cl.Trips, cl.Val = true, trips, T
		if id, ok := x.Key.(*ast.Ident); ok && id.Name != "_" {
			cl.Var = info.Defs[id]
			if cl.Var == nil {
				cl.Var = info.Uses[id]
			}
		}
		return cl
	case *ast.ForStmt:
		cl := CountedLoop{Body: x.Body}
		as, ok := x.Init.(*ast.AssignStmt)
		if !ok || len(as.Lhs) != 1 || len(as.Rhs) != 1 {
			cl.Why = "unrecognised loop initialisation"
			return cl
		}
		id, ok := as.Lhs[0].(*ast.Ident)
		if !ok {
			cl.Why = "unrecognised loop initialisation"
			return cl
		}
		v := info.Defs[id]
		if v == nil {
			v = info.Uses[id]
		}
		start, ok := eval(as.Rhs[0])
		if !ok {
			cl.Why = "the loop's start value is not an affine expression"
			return cl
		}
		step := int64(0)
		switch p := x.Post.(type) {
		case *ast.IncDecStmt:
			if pid, ok := Unparen(p.X).(*ast.Ident); ok && info.Uses[pid] == v {
				step = 1
				if p.Tok == token.DEC {
					step = -1
				}
			}
		case *ast.AssignStmt:
			if len(p.Lhs) == 1 && len(p.Rhs) == 1 {
				if pid, ok := Unparen(p.Lhs[0]).(*ast.Ident); ok && info.Uses[pid] == v {
					if c, ok := constInt(info, p.Rhs[0]); ok && c == 1 {
						switch p.Tok {
						case token.ADD_ASSIGN:
							step = 1
						case token.SUB_ASSIGN:
							step = -1
						}
					}
				}
			}
		}
		if step == 0 {
			cl.Why = "the loop variable does not move by one per iteration"
			return cl
		}
		// the body must not write the loop variable
		written := false
		ast.Inspect(x.Body, func(n ast.Node) bool {
			switch s := n.(type) {
			case *ast.AssignStmt:
				for _, l := range s.Lhs {
					if lid, ok := Unparen(l).(*ast.Ident); ok && info.Uses[lid] == v {
						written = true
					}
				}
			case *ast.IncDecStmt:
				if lid, ok := Unparen(s.X).(*ast.Ident); ok && info.Uses[lid] == v {
					written = true
				}
			}
			return true
		})
		if written {
			cl.Why = "the body writes the loop variable"
			return cl
		}
		c, ok := Unparen(x.Cond).(*ast.BinaryExpr)
		if !ok {
			cl.Why = "unrecognised loop condition"
			return cl
		}
		op, lhs, rhs := c.Op, c.X, c.Y
		if rid, ok := Unparen(rhs).(*ast.Ident); ok && info.Uses[rid] == v {
			// B REL v  ≡  v REL' B
			lhs, rhs = rhs, lhs
			op = map[token.Token]token.Token{token.LSS: token.GTR, token.GTR: token.LSS, token.LEQ: token.GEQ, token.GEQ: token.LEQ, token.NEQ: token.NEQ}[op]
		}
		lid, ok := Unparen(lhs).(*ast.Ident)
		if !ok || info.Uses[lid] != v {
			cl.Why = "the loop condition does not test the loop variable"
			return cl
		}
		bound, ok := eval(rhs)
		if !ok {
			cl.Why = "the loop's bound is not an affine expression"
			return cl
		}
		var trips Aff
		switch {
		case step == -1 && op == token.GEQ:
			trips = start.Add(bound, -1).Add(AffConst(1), 1)
		case step == -1 && (op == token.GTR || op == token.NEQ):
			trips = start.Add(bound, -1)
		case step == 1 && op == token.LSS, step == 1 && op == token.NEQ:
			trips = bound.Add(start, -1)
		case step == 1 && op == token.LEQ:
			trips = bound.Add(start, -1).Add(AffConst(1), 1)
		default:
			cl.Why = "the loop's direction and its condition do not fit"
			return cl
		}
		cl.OK, cl.Var, cl.Trips = true, v, trips
		cl.Val = start.Add(T, step)
		return cl
	}
	return CountedLoop{Why: "not a for or range statement"}
}

// MadeLengths: for the locals of a statement list that are bound by `x := make([]T, n…)`, the
// affine value of n under env (for lenOf callbacks).
func MadeLengths(info *types.Info, env *AffEnv, list []ast.Stmt) func(ast.Expr) (Aff, bool) {
	made := map[types.Object]Aff{}
	for _, st := range list {
		as, ok := st.(*ast.AssignStmt)
		if !ok || len(as.Lhs) != 1 || len(as.Rhs) != 1 {
			continue
		}
		id, ok := as.Lhs[0].(*ast.Ident)
		if !ok {
			continue
		}
		c, ok := Unparen(as.Rhs[0]).(*ast.CallExpr)
		if !ok || len(c.Args) < 2 {
			continue
		}
		if fid, ok := c.Fun.(*ast.Ident); !ok || fid.Name != "make" {
			continue
		}
		if _, isSlice := info.TypeOf(c.Args[0]).Underlying().(*types.Slice); !isSlice {
			continue
		}
		if a, ok := env.Eval(c.Args[1]); ok {
			obj := info.Defs[id]
			if obj == nil {
				obj = info.Uses[id]
			}
			made[obj] = a
		}
	}
	return func(e ast.Expr) (Aff, bool) {
		if id, ok := Unparen(e).(*ast.Ident); ok {
			a, ok := made[info.Uses[id]]
			return a, ok
		}
		return Aff{}, false
	}
}
