package eng

import (
	"fmt"
	"go/ast"
	"go/constant"
	"go/token"
	"go/types"
	"sort"
	"strings"

	"verif/exprlint/core"
)

// E3 — emitter templates: abstract interpretation of the compiler's scheme methods.

type TOperand struct {
	Kind      string // none const raw placeholder back unknown
	ConstExpr ast.Expr
	ConstType types.Type
	ConstVal  constant.Value
	Raw       constant.Value
	Label     int    // back: capture id
	Detail    string // unknown: why
	// rawtable: the operand is the value found in a constant package-level table under a
	// key expression; Table lists (key constant name or value, operand value)
	Table   [][2]string
	TableOn ast.Expr
}

type TEvent struct {
	Kind    string // instr child childlist label capture
	Op      string // instr: opcode name
	Operand TOperand
	Site    ast.Node
	Slot    string // child / childlist
	Index   string // child: "" or constant index into a list slot
	PatchOf int    // label: index (in Events) of the instruction whose placeholder is patched here
	CapID   int    // capture id
	Depth   int    // inlining depth at which the event was produced
}

type TCond struct {
	Expr  ast.Expr
	Taken bool
	Case  *CaseInfo
	Text  string
}

type Template struct {
	Kind     string
	Method   *ast.FuncDecl
	Conds    []TCond
	Events   []TEvent
	Term     string // fall | panic
	Problems []string
	Index    int // ordinal among the kind's templates
}

func (t *Template) CondText() string {
	var s []string
	for _, c := range t.Conds {
		s = append(s, c.Text)
	}
	return strings.Join(s, ", ")
}

func (t *Template) Key() string {
	return fmt.Sprintf("compiler/%s[%s]", t.Kind, t.CondText())
}

// String renders the template compactly (for evidence samples and diagnostics).
func (t *Template) String() string {
	var s []string
	for i, e := range t.Events {
		switch e.Kind {
		case "instr":
			o := ""
			switch e.Operand.Kind {
			case "const":
				o = " const(" + ExprStr(e.Operand.ConstExpr) + ")"
			case "raw":
				o = " raw(" + e.Operand.Raw.ExactString() + ")"
			case "placeholder":
				o = fmt.Sprintf(" →L%d", i)
			case "back":
				o = fmt.Sprintf(" ←C%d", e.Operand.Label)
			case "unknown":
				o = " ?" + e.Operand.Detail
			}
			s = append(s, strings.TrimPrefix(e.Op, "Op")+o)
		case "child":
			if e.Index != "" {
				s = append(s, "<"+e.Slot+"["+e.Index+"]>")
			} else {
				s = append(s, "<"+e.Slot+">")
			}
		case "childlist":
			s = append(s, "<"+e.Slot+"…>")
		case "label":
			s = append(s, fmt.Sprintf("L%d:", e.PatchOf))
		case "capture":
			s = append(s, fmt.Sprintf("C%d:", e.CapID))
		}
	}
	return strings.Join(s, " ")
}

type Emitter struct {
	Prog       *core.Program
	NK         *NodeKinds
	VM         *VMModel
	Dispatcher *Dispatcher
	CompType   *types.Named
	Prims      map[*types.Func]string // emit makeconst placeholder patch calcback
	Encode     *types.Func
	Templates  map[string][]*Template // by kind
	Problems   []string
	Top        *Template // what Compile emits after the root (casts)
	EmitSites  int
	Defs       *LocalDefs // single-definition locals of package compiler (looked through)
}

// BuildEmitter extracts one template per (kind, path).
func BuildEmitter(p *core.Program, nk *NodeKinds, vm *VMModel) (*Emitter, string) {
	pk := p.Pkg("compiler")
	info := pk.TypesInfo
	ds := FindDispatchers(p, nk, "compiler")
	if len(ds) != 1 {
		return nil, fmt.Sprintf("expected one compile dispatcher in package compiler, found %d", len(ds))
	}
	em := &Emitter{Prog: p, NK: nk, VM: vm, Dispatcher: ds[0], Prims: map[*types.Func]string{}, Templates: map[string][]*Template{}}
	recv := ds[0].Func.Recv.List[0].Type
	if se, ok := recv.(*ast.StarExpr); ok {
		recv = se.X
	}
	ct, ok := info.TypeOf(recv).(*types.Named)
	if !ok {
		return nil, "compiler type not found"
	}
	em.CompType = ct
	var files []ast.Node
	for _, f := range pk.Syntax {
		files = append(files, f)
	}
	em.Defs = SingleDefsOf(info, files...)
	if msg := em.classify(); msg != "" {
		return nil, msg
	}
	self, _ := info.Defs[ds[0].Func.Name].(*types.Func)
	methods := map[*types.Func]*ast.FuncDecl{}
	for _, fd := range p.FuncDecls("compiler") {
		if fd.Body == nil {
			continue
		}
		f, ok := info.Defs[fd.Name].(*types.Func)
		if !ok {
			continue
		}
		if fd.Recv == nil {
			// a plain function that selects an opcode (returns a byte) is part of the scheme
			if res := f.Type().(*types.Signature).Results(); res.Len() == 1 && isByte(res.At(0).Type()) && f != em.Encode {
				methods[f] = fd
			}
			continue
		}
		if core.RecvName(fd) == ct.Obj().Name() {
			methods[f] = fd
		}
	}
	for kname, cc := range ds[0].Clauses {
		w := &Walker{Info: info, MaxDepth: 4, InlineLits: true}
		w.Inline = func(call *ast.CallExpr, depth int) (*ast.BlockStmt, *ast.FuncDecl) {
			fn := CalleeOf(info, call)
			if fn == nil || fn == self || em.Prims[fn] != "" {
				return nil, nil
			}
			if fd := methods[fn]; fd != nil {
				return fd.Body, fd
			}
			return nil, nil
		}
		paths := w.list(cc.Body, []Path{{}}, 0)
		if w.Overflow {
			em.Problems = append(em.Problems, "path overflow in scheme of "+kname)
		}
		for i, path := range paths {
			if path.Term == "" {
				path.Term = "fall"
			}
			t := em.interpret(kname, path, self)
			t.Index = i
			if contradictoryStringTests(info, t) {
				continue // e.g. node.Name == "any" and node.Name == "none" both taken: no run takes this path
			}
			em.Templates[kname] = append(em.Templates[kname], t)
		}
	}
	// top level: what compiler.Compile emits around the root
	if fd := p.FuncDecl("compiler", "", "Compile"); fd != nil && fd.Body != nil {
		w := &Walker{Info: info, MaxDepth: 2}
		w.Inline = func(call *ast.CallExpr, depth int) (*ast.BlockStmt, *ast.FuncDecl) {
			fn := CalleeOf(info, call)
			if fn == nil || fn == self || em.Prims[fn] != "" {
				return nil, nil
			}
			if fd := methods[fn]; fd != nil {
				return fd.Body, fd
			}
			return nil, nil
		}
		for _, path := range w.Func(fd.Body) {
			t := em.interpret("<top>", path, self)
			em.Templates["<top>"] = append(em.Templates["<top>"], t)
		}
	}
	return em, ""
}

// classify finds the emitter primitives by role.
func (em *Emitter) classify() string {
	p := em.Prog
	info := p.Pkg("compiler").TypesInfo
	st, ok := em.CompType.Underlying().(*types.Struct)
	if !ok {
		return "compiler type is not a struct"
	}
	var byteField, constField *types.Var
	for i := 0; i < st.NumFields(); i++ {
		f := st.Field(i)
		if sl, ok := f.Type().(*types.Slice); ok {
			if b, ok := sl.Elem().(*types.Basic); ok && b.Kind() == types.Uint8 {
				byteField = f
			}
			if it, ok := sl.Elem().Underlying().(*types.Interface); ok && it.NumMethods() == 0 {
				constField = f
			}
		}
	}
	if byteField == nil || constField == nil {
		return "compiler struct: bytecode / constants fields not found"
	}
	isField := func(e ast.Expr, f *types.Var) bool {
		sel, ok := Unparen(e).(*ast.SelectorExpr)
		if !ok {
			return false
		}
		s := info.Selections[sel]
		return s != nil && s.Obj() == types.Object(f)
	}
	for _, fd := range p.FuncDecls("compiler") {
		if fd.Body == nil {
			continue
		}
		fn, _ := info.Defs[fd.Name].(*types.Func)
		if fn == nil {
			continue
		}
		sig := fn.Type().(*types.Signature)
		if fd.Recv == nil {
			// encode: func(uint16) []byte
			if sig.Params().Len() == 1 && sig.Results().Len() == 1 {
				if b, ok := sig.Params().At(0).Type().(*types.Basic); ok && b.Kind() == types.Uint16 {
					if sl, ok := sig.Results().At(0).Type().(*types.Slice); ok {
						if eb, ok := sl.Elem().(*types.Basic); ok && eb.Kind() == types.Uint8 {
							em.Encode = fn
						}
					}
				}
			}
			continue
		}
		if core.RecvName(fd) != em.CompType.Obj().Name() {
			continue
		}
		appendsByte, appendsConst, writesByteAt := false, false, false
		ast.Inspect(fd.Body, func(n ast.Node) bool {
			as, ok := n.(*ast.AssignStmt)
			if !ok || len(as.Lhs) != 1 || len(as.Rhs) != 1 {
				return true
			}
			if c, ok := as.Rhs[0].(*ast.CallExpr); ok {
				if id, ok := c.Fun.(*ast.Ident); ok && id.Name == "append" && len(c.Args) >= 1 {
					if isField(as.Lhs[0], byteField) && isField(c.Args[0], byteField) {
						appendsByte = true
					}
					if isField(as.Lhs[0], constField) && isField(c.Args[0], constField) {
						appendsConst = true
					}
				}
			}
			if ix, ok := as.Lhs[0].(*ast.IndexExpr); ok && isField(ix.X, byteField) {
				writesByteAt = true
			}
			return true
		})
		// the pool may be appended by a helper the primitive delegates to
		if !appendsConst {
			ast.Inspect(fd.Body, func(n ast.Node) bool {
				if c, ok := n.(*ast.CallExpr); ok {
					if callee := CalleeOf(info, c); callee != nil && callee != fn {
						if _, hfd := p.DeclOf(callee); hfd != nil && hfd.Body != nil && core.RecvName(hfd) == em.CompType.Obj().Name() {
							ast.Inspect(hfd.Body, func(m ast.Node) bool {
								if as, ok := m.(*ast.AssignStmt); ok && len(as.Lhs) == 1 && len(as.Rhs) == 1 {
									if ac, ok := as.Rhs[0].(*ast.CallExpr); ok {
										if id, ok := ac.Fun.(*ast.Ident); ok && id.Name == "append" && len(ac.Args) >= 1 && isField(as.Lhs[0], constField) && isField(ac.Args[0], constField) {
											appendsConst = true
										}
									}
								}
								return true
							})
						}
					}
				}
				return true
			})
		}
		np := sig.Params().Len()
		isBytes := func(t types.Type) bool {
			sl, ok := t.(*types.Slice)
			if !ok {
				return false
			}
			b, ok := sl.Elem().(*types.Basic)
			return ok && b.Kind() == types.Uint8
		}
		switch {
		case appendsByte && np >= 1 && isByte(sig.Params().At(0).Type()) && sig.Variadic():
			em.Prims[fn] = "emit"
		case appendsConst && np == 1 && sig.Results().Len() == 1 && isBytes(sig.Results().At(0).Type()) && isEmptyInterface(sig.Params().At(0).Type()):
			em.Prims[fn] = "makeconst"
		case writesByteAt && np == 1 && sig.Results().Len() == 0:
			em.Prims[fn] = "patch"
		case np == 0 && sig.Results().Len() == 1 && isBytes(sig.Results().At(0).Type()) && !appendsByte:
			em.Prims[fn] = "placeholder"
		case np == 1 && sig.Results().Len() == 1 && isBytes(sig.Results().At(0).Type()) && isInt(sig.Params().At(0).Type()) && !appendsByte && !appendsConst:
			em.Prims[fn] = "calcback"
		}
	}
	need := map[string]bool{"emit": false, "makeconst": false, "patch": false, "placeholder": false, "calcback": false}
	for _, k := range em.Prims {
		need[k] = true
	}
	for k, ok := range need {
		if !ok {
			return "emitter primitive not found by role: " + k
		}
	}
	if em.Encode == nil {
		return "operand encoder func(uint16) []byte not found"
	}
	return ""
}

func isEmptyInterface(t types.Type) bool {
	it, ok := t.Underlying().(*types.Interface)
	return ok && it.NumMethods() == 0
}

func isByte(t types.Type) bool {
	b, ok := t.Underlying().(*types.Basic)
	return ok && b.Kind() == types.Uint8
}
func isInt(t types.Type) bool {
	b, ok := t.Underlying().(*types.Basic)
	return ok && b.Kind() == types.Int
}

// PrimDecl returns the declaration of a primitive by role.
func (em *Emitter) PrimDecl(role string) *ast.FuncDecl {
	for fn, k := range em.Prims {
		if k == role {
			_, fd := em.Prog.DeclOf(fn)
			return fd
		}
	}
	return nil
}

// --- interpretation of one path ----------------------------------------------------------

type tval struct {
	kind  string // pos label operand opcode
	instr int    // pos: index of the instruction event
	cap   int    // label
	opnd  TOperand
	op    string
}

type tinterp struct {
	em      *Emitter
	info    *types.Info
	t       *Template
	vars    map[types.Object]*tval
	callV   map[*ast.CallExpr]*tval
	callVN  map[*ast.CallExpr][]*tval // calls of inlined helpers with several results
	exprs   map[types.Object]ast.Expr // the expression last assigned to a local on this path
	frames  []*ast.CallExpr
	callees []*ast.FuncDecl
	binds   []map[types.Object]ast.Expr // parameter -> argument expr of inlined calls
	caps    int
	self    *types.Func
	tables  map[types.Object]*TOperand // locals bound by `v, ok := <constant table>[key]`
}

func (em *Emitter) interpret(kind string, path Path, self *types.Func) *Template {
	t := &Template{Kind: kind, Term: path.Term}
	if path.Term == "return" {
		t.Term = "fall"
	}
	it := &tinterp{em: em, info: em.Prog.Pkg("compiler").TypesInfo, t: t, vars: map[types.Object]*tval{}, callV: map[*ast.CallExpr]*tval{}, self: self}
	it.run(path.Atoms, "")
	return t
}

func (it *tinterp) problem(format string, a ...interface{}) {
	it.t.Problems = append(it.t.Problems, fmt.Sprintf(format, a...))
}

func (it *tinterp) objOf(id *ast.Ident) types.Object {
	if o := it.info.Defs[id]; o != nil {
		return o
	}
	return it.info.Uses[id]
}

// subst resolves parameters of inlined methods to the caller's expressions.
func (it *tinterp) subst(e ast.Expr) ast.Expr {
	e = Unparen(e)
	for n := 0; n < 8; n++ {
		id, ok := e.(*ast.Ident)
		if !ok {
			return e
		}
		obj := it.info.Uses[id]
		found := false
		for i := len(it.binds) - 1; i >= 0; i-- {
			if r, ok := it.binds[i][obj]; ok {
				e = Unparen(r)
				found = true
				break
			}
		}
		if !found {
			return e
		}
	}
	return e
}

// deepSubst: e with the parameters of the inlined helpers replaced by the caller's
// expressions, also inside e.
func (it *tinterp) deepSubst(e ast.Expr) ast.Expr {
	e = it.subst(e)
	if len(it.binds) == 0 {
		return e
	}
	all := map[types.Object]ast.Expr{}
	for _, m := range it.binds {
		for k, v := range m {
			all[k] = v
		}
	}
	if len(all) == 0 {
		return e
	}
	return SubstCopy(it.info, e, all)
}

func (it *tinterp) value(e ast.Expr) *tval {
	e = Unparen(e)
	switch x := e.(type) {
	case *ast.Ident:
		obj := it.objOf(x)
		if v, ok := it.vars[obj]; ok {
			return v
		}
		if op := it.em.opcodeOf(obj); op != "" {
			return &tval{kind: "opcode", op: op}
		}
		// parameter of an inlined method bound to a caller expression
		if s := it.subst(x); s != ast.Expr(x) {
			return it.value(s)
		}
	case *ast.CallExpr:
		if v, ok := it.callV[x]; ok {
			return v
		}
	}
	return nil
}

func (em *Emitter) opcodeOf(obj types.Object) string {
	for _, o := range em.VM.Opcodes {
		if types.Object(o.Obj) == obj {
			return o.Name
		}
	}
	return ""
}

func (it *tinterp) operand(args []ast.Expr) TOperand {
	if len(args) == 0 {
		return TOperand{Kind: "none"}
	}
	if len(args) > 1 {
		return TOperand{Kind: "unknown", Detail: "several operand arguments"}
	}
	if v := it.value(args[0]); v != nil && v.kind == "operand" {
		return v.opnd
	}
	return TOperand{Kind: "unknown", Detail: ExprStr(args[0])}
}

func (it *tinterp) run(atoms []Atom, loopSlot string) {
	info := it.info
	em := it.em
	for _, a := range atoms {
		switch a.Kind {
		case "enter":
			m := map[types.Object]ast.Expr{}
			if a.Callee != nil && a.Callee.Type.Params != nil {
				i := 0
				for _, f := range a.Callee.Type.Params.List {
					for _, nm := range f.Names {
						if i < len(a.Call.Args) {
							m[info.Defs[nm]] = it.deepSubst(a.Call.Args[i])
						}
						i++
					}
				}
			}
			it.binds = append(it.binds, m)
			it.frames = append(it.frames, a.Call)
			it.callees = append(it.callees, a.Callee)
		case "leave":
			if len(it.frames) > 0 {
				it.frames = it.frames[:len(it.frames)-1]
				it.binds = it.binds[:len(it.binds)-1]
				it.callees = it.callees[:len(it.callees)-1]
			}
		case "enterlit", "leavelit":
			// the literal's body is interpreted in place
		case "return":
			if len(it.frames) > 0 {
				rs := a.Node.(*ast.ReturnStmt)
				if len(rs.Results) == 1 {
					if v := it.value(rs.Results[0]); v != nil {
						it.callV[it.frames[len(it.frames)-1]] = v
					}
				}
				// several results (`return i, size, cond, end`), or a bare return of named ones
				var many []*tval
				if len(rs.Results) > 1 {
					for _, e := range rs.Results {
						many = append(many, it.value(e))
					}
				} else if cd := it.callees[len(it.callees)-1]; len(rs.Results) == 0 && cd != nil && cd.Type.Results != nil {
					for _, f := range cd.Type.Results.List {
						for _, nm := range f.Names {
							many = append(many, it.vars[info.Defs[nm]])
						}
					}
				}
				if len(many) > 1 {
					if it.callVN == nil {
						it.callVN = map[*ast.CallExpr][]*tval{}
					}
					it.callVN[it.frames[len(it.frames)-1]] = many
				}
			}
		case "cond":
			c := a.Node.(ast.Expr)
			it.t.Conds = append(it.t.Conds, TCond{Expr: c, Taken: a.Taken, Text: fmt.Sprintf("%s=%v", ExprStr(c), a.Taken)})
		case "case":
			if a.Case == nil {
				continue
			}
			lab := "<none>"
			if a.Case.Clause != nil {
				var ls []string
				for _, e := range a.Case.Clause.List {
					ls = append(ls, ExprStr(e))
				}
				lab = strings.Join(ls, ",")
				if a.Case.Default {
					lab = "default"
				}
			}
			it.t.Conds = append(it.t.Conds, TCond{Case: a.Case, Text: ExprStr(a.Case.Tag) + "~" + lab})
		case "panic":
			it.t.Term = "panic"
		case "call":
			call := a.Call
			fn := CalleeOf(info, call)
			switch {
			case fn != nil && fn == it.self:
				it.child(call, loopSlot, a.Depth)
			case fn != nil && em.Prims[fn] == "emit":
				ev := TEvent{Kind: "instr", Site: call, Depth: a.Depth}
				if len(call.Args) == 0 {
					it.problem("emit without opcode")
					continue
				}
				if v := it.value(call.Args[0]); v != nil && v.kind == "opcode" {
					ev.Op = v.op
				} else {
					it.problem("emit with an opcode that is not a known constant: %s", ExprStr(call.Args[0]))
					ev.Op = "?"
				}
				ev.Operand = it.operand(call.Args[1:])
				idx := len(it.t.Events)
				it.t.Events = append(it.t.Events, ev)
				it.callV[call] = &tval{kind: "pos", instr: idx}
			case fn != nil && em.Prims[fn] == "makeconst":
				o := TOperand{Kind: "const"}
				if len(call.Args) == 1 {
					// the constant may have been given a name first (`call := Call{…}`)
					// … and is read in the scheme method's terms when built inside a helper
					// (`Call{Name: name, Size: len(arguments)}` with the helper's parameters)
					arg := it.subst(it.em.Defs.Resolve(it.subst(call.Args[0])))
					// … or assigned on this path (`value = float32(node.Value)` … `emitPush(value)`)
					for n := 0; n < 4; n++ {
						id, ok := Unparen(arg).(*ast.Ident)
						if !ok {
							break
						}
						ex, ok := it.exprs[it.objOf(id)]
						if !ok {
							break
						}
						arg = it.subst(ex)
					}
					arg = it.deepSubst(arg)
					o.ConstExpr = arg
					if tv, ok := info.Types[arg]; ok {
						o.ConstType = tv.Type
						o.ConstVal = tv.Value
					}
				}
				it.callV[call] = &tval{kind: "operand", opnd: o}
			case fn != nil && em.Prims[fn] == "placeholder":
				it.callV[call] = &tval{kind: "operand", opnd: TOperand{Kind: "placeholder"}}
			case fn != nil && em.Prims[fn] == "calcback":
				o := TOperand{Kind: "unknown", Detail: "backward jump to an unknown label"}
				if len(call.Args) == 1 {
					if v := it.value(call.Args[0]); v != nil && v.kind == "label" {
						o = TOperand{Kind: "back", Label: v.cap}
					}
				}
				it.callV[call] = &tval{kind: "operand", opnd: o}
			case fn != nil && fn == em.Encode:
				o := TOperand{Kind: "unknown", Detail: "non-constant raw operand " + ExprStr(call)}
				if len(call.Args) == 1 {
					if tv, ok := info.Types[call.Args[0]]; ok && tv.Value != nil {
						o = TOperand{Kind: "raw", Raw: tv.Value}
					} else if id, ok := Unparen(call.Args[0]).(*ast.Ident); ok {
						if tb := it.tables[it.objOf(id)]; tb != nil {
							o = *tb
						}
					}
				}
				it.callV[call] = &tval{kind: "operand", opnd: o}
			case fn != nil && em.Prims[fn] == "patch":
				if len(call.Args) == 1 {
					if v := it.value(call.Args[0]); v != nil && v.kind == "pos" {
						it.t.Events = append(it.t.Events, TEvent{Kind: "label", PatchOf: v.instr, Site: call, Depth: a.Depth})
						continue
					}
				}
				it.problem("patchJump of something that is not the position of an emitted instruction: %s", ExprStr(call))
			default:
				// len(c.bytecode) and other builtins are handled at the assignment
			}
		case "assign":
			as := a.Node.(*ast.AssignStmt)
			// a scheme method (or a helper inlined into it) must not touch the compiler's state
			// except through the emit primitives: a direct write to the instruction stream, the
			// constant pool or the location table is outside what the templates describe
			for _, l := range as.Lhs {
				base := Unparen(l)
				for {
					switch x := base.(type) {
					case *ast.IndexExpr:
						base = Unparen(x.X)
						continue
					case *ast.SliceExpr:
						base = Unparen(x.X)
						continue
					case *ast.StarExpr:
						base = Unparen(x.X)
						continue
					}
					break
				}
				if sel, ok := base.(*ast.SelectorExpr); ok {
					if s := info.Selections[sel]; s != nil && s.Kind() == types.FieldVal {
						if rt := s.Recv(); rt != nil && strings.Contains(rt.String(), em.CompType.Obj().Name()) {
							it.problem("direct write to the compiler's state outside the emit primitives: %s", ExprStr(as.Lhs[0])+" "+as.Tok.String()+" …")
						}
					}
				}
			}
			if len(as.Lhs) == 2 && len(as.Rhs) == 1 {
				if ix, ok := Unparen(as.Rhs[0]).(*ast.IndexExpr); ok {
					if id, ok := as.Lhs[0].(*ast.Ident); ok {
						if tb := em.constTable(info, ix.X); tb != nil {
							if it.tables == nil {
								it.tables = map[types.Object]*TOperand{}
							}
							it.tables[it.objOf(id)] = &TOperand{Kind: "rawtable", Table: tb, TableOn: ix.Index}
						}
					}
				}
			}
			if len(as.Lhs) > 1 && len(as.Rhs) == 1 {
				// i, size, cond, end := c.emitLoopHead()
				if c, ok := Unparen(as.Rhs[0]).(*ast.CallExpr); ok {
					if many := it.callVN[c]; len(many) == len(as.Lhs) {
						for i, l := range as.Lhs {
							if id, ok := l.(*ast.Ident); ok && id.Name != "_" {
								if many[i] != nil {
									it.vars[it.objOf(id)] = many[i]
								} else {
									delete(it.vars, it.objOf(id))
								}
							}
						}
					}
				}
			}
			if len(as.Lhs) == len(as.Rhs) {
				for i, l := range as.Lhs {
					id, ok := l.(*ast.Ident)
					if !ok || id.Name == "_" {
						continue
					}
					obj := it.objOf(id)
					r := Unparen(as.Rhs[i])
					if as.Tok == token.ASSIGN || as.Tok == token.DEFINE {
						if it.exprs == nil {
							it.exprs = map[types.Object]ast.Expr{}
						}
						it.exprs[obj] = r
					} else {
						delete(it.exprs, obj)
					}
					// cond := len(c.bytecode)
					if c, ok := r.(*ast.CallExpr); ok {
						if fid, ok := c.Fun.(*ast.Ident); ok && fid.Name == "len" && len(c.Args) == 1 && it.isBytecode(c.Args[0]) {
							it.caps++
							it.t.Events = append(it.t.Events, TEvent{Kind: "capture", CapID: it.caps, Site: as, Depth: a.Depth})
							it.vars[obj] = &tval{kind: "label", cap: it.caps}
							continue
						}
					}
					if v := it.value(r); v != nil {
						it.vars[obj] = v
					} else {
						delete(it.vars, obj)
					}
				}
			}
		case "decl":
			// var loopBreak int : nothing to do; var value interface{} = node.Value : the
			// expression the variable holds on this path
			if ds, ok := a.Node.(*ast.DeclStmt); ok {
				if gd, ok := ds.Decl.(*ast.GenDecl); ok {
					for _, sp := range gd.Specs {
						if vs, ok := sp.(*ast.ValueSpec); ok && len(vs.Values) == len(vs.Names) {
							for i, nm := range vs.Names {
								if it.exprs == nil {
									it.exprs = map[types.Object]ast.Expr{}
								}
								it.exprs[info.Defs[nm]] = Unparen(vs.Values[i])
							}
						}
					}
				}
			}
		case "loop":
			rs, ok := a.Loop.(*ast.RangeStmt)
			if !ok {
				it.problem("loop form not understood in a scheme method")
				continue
			}
			x := it.subst(rs.X)
			_, slot, indexed, _, ok := em.NK.SlotRef(info, x)
			if !ok || indexed {
				it.problem("range over something that is not a list slot: %s", ExprStr(rs.X))
				continue
			}
			if len(a.Body) != 1 {
				it.problem("loop body with several paths in a scheme method")
				continue
			}
			// the body must be exactly one compile of the range value
			n := 0
			okBody := true
			for _, ba := range a.Body[0].Atoms {
				if ba.Kind == "call" {
					if CalleeOf(info, ba.Call) == it.self && len(ba.Call.Args) == 1 {
						if id, ok := Unparen(ba.Call.Args[0]).(*ast.Ident); ok {
							if v, ok := rs.Value.(*ast.Ident); ok && it.objOf(id) == it.objOf(v) {
								n++
								continue
							}
						}
					}
					okBody = false
				}
			}
			if n != 1 || !okBody {
				it.problem("range loop over %s does not consist of exactly one compile of its element", slot)
				continue
			}
			it.t.Events = append(it.t.Events, TEvent{Kind: "childlist", Slot: slot, Site: a.Node, Depth: a.Depth})
		case "defer", "go", "send", "other":
			it.problem("statement form not understood in a scheme method: %s", a.Kind)
		}
	}
}

func (it *tinterp) isBytecode(e ast.Expr) bool {
	sel, ok := Unparen(e).(*ast.SelectorExpr)
	if !ok {
		return false
	}
	s := it.info.Selections[sel]
	if s == nil {
		return false
	}
	sl, ok := s.Obj().Type().(*types.Slice)
	if !ok {
		return false
	}
	b, ok := sl.Elem().(*types.Basic)
	return ok && b.Kind() == types.Uint8
}

func (it *tinterp) child(call *ast.CallExpr, loopSlot string, depth int) {
	if len(call.Args) != 1 {
		it.problem("compile call without argument")
		return
	}
	arg := it.subst(call.Args[0])
	// tree.Node at top level
	if it.t.Kind == "<top>" {
		it.t.Events = append(it.t.Events, TEvent{Kind: "child", Slot: "<root>", Site: call, Depth: depth})
		return
	}
	_, slot, indexed, _, ok := it.em.NK.SlotRef(it.info, arg)
	if !ok {
		it.problem("compile of something that is not a child slot: %s", ExprStr(call.Args[0]))
		it.t.Events = append(it.t.Events, TEvent{Kind: "child", Slot: "?", Site: call, Depth: depth})
		return
	}
	ev := TEvent{Kind: "child", Slot: slot, Site: call, Depth: depth}
	if indexed {
		ix := Unparen(arg).(*ast.IndexExpr)
		if tv, ok := it.info.Types[ix.Index]; ok && tv.Value != nil {
			ev.Index = tv.Value.ExactString()
		} else {
			it.problem("compile of a list element with a non-constant index: %s", ExprStr(arg))
			ev.Index = "?"
		}
	}
	it.t.Events = append(it.t.Events, ev)
}

// AllTemplates in a stable order.
func (em *Emitter) AllTemplates() []*Template {
	var ks []string
	for k := range em.Templates {
		if k != "<top>" {
			ks = append(ks, k)
		}
	}
	sort.Strings(ks)
	var out []*Template
	for _, k := range ks {
		out = append(out, em.Templates[k]...)
	}
	return out
}

var _ = token.ADD

// contradictoryStringTests: the path's tests of one string-valued expression against constants
// cannot all hold — two different equalities taken, an equality taken whose constant is not
// among the labels of the enclosing case clause, or every label excluded by failed equalities.
func contradictoryStringTests(info *types.Info, t *Template) bool {
	type st struct {
		allowed map[string]bool // nil = unconstrained
		must    map[string]bool
		not     map[string]bool
	}
	by := map[string]*st{}
	get := func(k string) *st {
		if by[k] == nil {
			by[k] = &st{must: map[string]bool{}, not: map[string]bool{}}
		}
		return by[k]
	}
	constStr := func(e ast.Expr) (string, bool) {
		if tv, ok := info.Types[e]; ok && tv.Value != nil && tv.Value.Kind() == constant.String {
			return constant.StringVal(tv.Value), true
		}
		return "", false
	}
	for _, c := range t.Conds {
		if c.Case != nil && c.Case.Tag != nil && c.Case.Clause != nil && !c.Case.Default {
			all := true
			set := map[string]bool{}
			for _, e := range c.Case.Clause.List {
				if v, ok := constStr(e); ok {
					set[v] = true
				} else {
					all = false
				}
			}
			if all && len(set) > 0 {
				x := get(ExprStr(c.Case.Tag))
				if x.allowed == nil {
					x.allowed = set
				} else {
					for k := range x.allowed {
						if !set[k] {
							delete(x.allowed, k)
						}
					}
				}
			}
			continue
		}
		if c.Case != nil || c.Expr == nil {
			continue
		}
		for _, atom := range Conjuncts(c.Expr, !c.Taken) {
			b, ok := Unparen(atom).(*ast.BinaryExpr)
			if !ok || (b.Op != token.EQL && b.Op != token.NEQ) {
				continue
			}
			var subj ast.Expr
			var lit string
			if v, ok := constStr(b.Y); ok {
				subj, lit = b.X, v
			} else if v, ok := constStr(b.X); ok {
				subj, lit = b.Y, v
			} else {
				continue
			}
			x := get(ExprStr(subj))
			if b.Op == token.EQL {
				x.must[lit] = true
			} else {
				x.not[lit] = true
			}
		}
	}
	for _, x := range by {
		if len(x.must) > 1 {
			return true
		}
		for m := range x.must {
			if x.not[m] || (x.allowed != nil && !x.allowed[m]) {
				return true
			}
		}
		if x.allowed != nil {
			left := 0
			for k := range x.allowed {
				if !x.not[k] {
					left++
				}
			}
			if left == 0 {
				return true
			}
		}
	}
	return false
}

// constTable: e names a package-level map variable of the compiler package that is initialised
// by a literal with constant keys and values and never written afterwards: its (key, value)
// pairs, keys rendered by constant name where they have one.
func (em *Emitter) constTable(info *types.Info, e ast.Expr) [][2]string {
	id, ok := Unparen(e).(*ast.Ident)
	if !ok {
		return nil
	}
	v, ok := info.Uses[id].(*types.Var)
	if !ok || v.Pkg() == nil || v.Parent() != v.Pkg().Scope() {
		return nil
	}
	pk := em.Prog.Pkg("compiler")
	var lit *ast.CompositeLit
	written := false
	for _, f := range pk.Syntax {
		ast.Inspect(f, func(n ast.Node) bool {
			switch x := n.(type) {
			case *ast.ValueSpec:
				for i, nm := range x.Names {
					if info.Defs[nm] == types.Object(v) && i < len(x.Values) {
						lit, _ = Unparen(x.Values[i]).(*ast.CompositeLit)
					}
				}
			case *ast.AssignStmt:
				for _, l := range x.Lhs {
					base := Unparen(l)
					if ix, ok := base.(*ast.IndexExpr); ok {
						base = Unparen(ix.X)
					}
					if bid, ok := base.(*ast.Ident); ok && info.Uses[bid] == types.Object(v) {
						written = true
					}
				}
			case *ast.CallExpr:
				if fid, ok := x.Fun.(*ast.Ident); ok && fid.Name == "delete" && len(x.Args) == 2 {
					if bid, ok := Unparen(x.Args[0]).(*ast.Ident); ok && info.Uses[bid] == types.Object(v) {
						written = true
					}
				}
			}
			return true
		})
	}
	if lit == nil || written {
		return nil
	}
	var out [][2]string
	for _, el := range lit.Elts {
		kv, ok := el.(*ast.KeyValueExpr)
		if !ok {
			return nil
		}
		ktv, ok1 := info.Types[kv.Key]
		vtv, ok2 := info.Types[kv.Value]
		if !ok1 || !ok2 || ktv.Value == nil || vtv.Value == nil {
			return nil
		}
		name := ktv.Value.ExactString()
		switch k := Unparen(kv.Key).(type) {
		case *ast.SelectorExpr:
			name = k.Sel.Name
		case *ast.Ident:
			name = k.Name
		}
		out = append(out, [2]string{name, vtv.Value.ExactString()})
	}
	return out
}
