package eng

import (
	"go/ast"
	"go/token"
	"go/types"
)

// Single-definition locals. A refactoring that names a sub-expression (`top := len(s) - 1`)
// must not change what a matcher sees: matchers look through a local that is bound exactly
// once (by := or var with one value) and never written, incremented or address-taken again.
// The resolved expression denotes the value AT THE DEFINITION; a rule for which evaluation
// order matters uses the definition's position (DefPos) as the point of the read.

type LocalDefs struct {
	info *types.Info
	def  map[types.Object]ast.Expr
	pos  map[types.Object]token.Pos
}

// SingleDefs collects the single-definition locals of a function body (or any subtree).
func SingleDefs(info *types.Info, body ast.Node) *LocalDefs {
	ld := &LocalDefs{info: info, def: map[types.Object]ast.Expr{}, pos: map[types.Object]token.Pos{}}
	if body == nil || body == ast.Node((*ast.BlockStmt)(nil)) {
		return ld
	}
	ld.collect(body)
	return ld
}

// SingleDefsOf: the same over several subtrees (e.g. all files of a package).
func SingleDefsOf(info *types.Info, nodes ...ast.Node) *LocalDefs {
	ld := &LocalDefs{info: info, def: map[types.Object]ast.Expr{}, pos: map[types.Object]token.Pos{}}
	for _, n := range nodes {
		if n != nil {
			ld.collect(n)
		}
	}
	return ld
}

func (ld *LocalDefs) collect(body ast.Node) {
	info := ld.info
	writes := map[types.Object]int{}
	cand := map[types.Object]ast.Expr{}
	note := func(id *ast.Ident, rhs ast.Expr, define bool) {
		if id == nil || id.Name == "_" {
			return
		}
		obj := info.Defs[id]
		if obj == nil {
			obj = info.Uses[id]
		}
		if obj == nil {
			return
		}
		writes[obj]++
		if define && info.Defs[id] != nil && rhs != nil {
			cand[obj] = rhs
			ld.pos[obj] = id.Pos()
		}
	}
	ast.Inspect(body, func(n ast.Node) bool {
		switch s := n.(type) {
		case *ast.AssignStmt:
			for i, l := range s.Lhs {
				id, _ := Unparen(l).(*ast.Ident)
				var rhs ast.Expr
				if len(s.Lhs) == len(s.Rhs) && s.Tok == token.DEFINE {
					rhs = s.Rhs[i]
				}
				note(id, rhs, s.Tok == token.DEFINE)
				if s.Tok != token.DEFINE && s.Tok != token.ASSIGN && id != nil {
					writes[info.Uses[id]]++ // op-assign: never single-def
				}
			}
		case *ast.ValueSpec:
			for i, nm := range s.Names {
				var rhs ast.Expr
				if len(s.Names) == len(s.Values) {
					rhs = s.Values[i]
				}
				note(nm, rhs, true)
				if rhs == nil {
					writes[info.Defs[nm]]++ // zero-initialised then assigned: not a plain name
				}
			}
		case *ast.IncDecStmt:
			if id, ok := Unparen(s.X).(*ast.Ident); ok {
				writes[info.Uses[id]] += 2
			}
		case *ast.UnaryExpr:
			if s.Op == token.AND {
				if id, ok := Unparen(s.X).(*ast.Ident); ok {
					writes[info.Uses[id]] += 2
				}
			}
		case *ast.RangeStmt:
			for _, e := range []ast.Expr{s.Key, s.Value} {
				if id, ok := e.(*ast.Ident); ok {
					note(id, nil, false)
					writes[info.Defs[id]]++
				}
			}
		}
		return true
	})
	for obj, rhs := range cand {
		if writes[obj] == 1 {
			ld.def[obj] = rhs
		}
	}
}

// Resolve strips parentheses and follows single-definition locals.
func (ld *LocalDefs) Resolve(e ast.Expr) ast.Expr {
	for i := 0; i < 8; i++ {
		e = Unparen(e)
		id, ok := e.(*ast.Ident)
		if !ok || ld == nil {
			return e
		}
		obj := ld.info.Uses[id]
		if obj == nil {
			return e
		}
		r, ok := ld.def[obj]
		if !ok {
			return e
		}
		e = r
	}
	return e
}

// Def returns the defining expression of a single-definition local (nil otherwise).
func (ld *LocalDefs) Def(obj types.Object) ast.Expr {
	if ld == nil {
		return nil
	}
	return ld.def[obj]
}

// DefPos is where the single-definition local named by e was bound (NoPos if e is not one).
func (ld *LocalDefs) DefPos(e ast.Expr) token.Pos {
	if id, ok := Unparen(e).(*ast.Ident); ok && ld != nil {
		if obj := ld.info.Uses[id]; obj != nil {
			if _, ok := ld.def[obj]; ok {
				return ld.pos[obj]
			}
		}
	}
	return token.NoPos
}

// ---------------------------------------------------------------------------------------
// Inlined inspection. A rule that looks for constructs in one function must see through a
// helper the constructs were extracted into: InspectInlined walks a body in source order and,
// after visiting a static call of a function of the same package that `inline` accepts,
// walks the callee's body with its parameters bound to the caller's argument expressions
// (depth-bounded, never recursive). Seq numbers give the order of the visited nodes in this
// expanded walk (positions of different functions do not compare).

type InlineCtx struct {
	Parent *InlineCtx
	Call   *ast.CallExpr
	Callee *ast.FuncDecl
	Bind   map[types.Object]ast.Expr
	Depth  int
}

// Resolve follows parameter bindings outwards: the expression, in the root function's terms,
// that e denotes (e itself when it is not a bound parameter).
func (c *InlineCtx) Resolve(info *types.Info, e ast.Expr) (ast.Expr, *InlineCtx) {
	ctx := c
	for ctx != nil && ctx.Bind != nil {
		id, ok := Unparen(e).(*ast.Ident)
		if !ok {
			return e, ctx
		}
		arg, ok := ctx.Bind[info.Uses[id]]
		if !ok {
			return e, ctx
		}
		e, ctx = arg, ctx.Parent
	}
	return e, ctx
}

type DeclFinder interface {
	DeclOf(fn *types.Func) (string, *ast.FuncDecl)
}

func InspectInlined(df DeclFinder, info *types.Info, pkg *types.Package, body ast.Node, maxDepth int, inline func(*types.Func, *ast.FuncDecl) bool, visit func(n ast.Node, ctx *InlineCtx, seq int) bool) {
	seq := 0
	var rec func(n ast.Node, ctx *InlineCtx, active map[*ast.FuncDecl]bool)
	rec = func(n ast.Node, ctx *InlineCtx, active map[*ast.FuncDecl]bool) {
		if n == nil {
			return
		}
		seq++
		if !visit(n, ctx, seq) {
			return
		}
		// children in source order
		var kids []ast.Node
		first := true
		ast.Inspect(n, func(c ast.Node) bool {
			if first {
				first = false
				return true
			}
			if c != nil {
				kids = append(kids, c)
			}
			return false
		})
		for _, k := range kids {
			rec(k, ctx, active)
		}
		c, ok := n.(*ast.CallExpr)
		if !ok {
			return
		}
		depth := 0
		if ctx != nil {
			depth = ctx.Depth
		}
		if depth >= maxDepth {
			return
		}
		fn := CalleeOf(info, c)
		if fn == nil || fn.Pkg() != pkg {
			return
		}
		_, fd := df.DeclOf(fn)
		if fd == nil || fd.Body == nil || active[fd] || (inline != nil && !inline(fn, fd)) {
			return
		}
		bind := map[types.Object]ast.Expr{}
		i := 0
		if fd.Type.Params != nil {
			for _, f := range fd.Type.Params.List {
				for _, nm := range f.Names {
					if i < len(c.Args) {
						bind[info.Defs[nm]] = c.Args[i]
					}
					i++
				}
			}
		}
		if fd.Recv != nil && len(fd.Recv.List) == 1 && len(fd.Recv.List[0].Names) == 1 {
			if sel, ok := Unparen(c.Fun).(*ast.SelectorExpr); ok {
				bind[info.Defs[fd.Recv.List[0].Names[0]]] = sel.X
			}
		}
		// a parameter the callee writes (or takes the address of) no longer denotes the
		// caller's argument: it is not bound, and Resolve stops at it
		ast.Inspect(fd.Body, func(m ast.Node) bool {
			drop := func(e ast.Expr) {
				if id, ok := Unparen(e).(*ast.Ident); ok {
					if obj := info.Uses[id]; obj != nil {
						if _, bound := bind[obj]; bound {
							delete(bind, obj)
						}
					}
				}
			}
			switch x := m.(type) {
			case *ast.AssignStmt:
				for _, l := range x.Lhs {
					drop(l)
				}
			case *ast.IncDecStmt:
				drop(x.X)
			case *ast.UnaryExpr:
				if x.Op == token.AND {
					drop(x.X)
				}
			case *ast.RangeStmt:
				if x.Tok == token.ASSIGN {
					drop(x.Key)
					if x.Value != nil {
						drop(x.Value)
					}
				}
			}
			return true
		})
		active[fd] = true
		rec(fd.Body, &InlineCtx{Parent: ctx, Call: c, Callee: fd, Bind: bind, Depth: depth + 1}, active)
		delete(active, fd)
	}
	rec(body, nil, map[*ast.FuncDecl]bool{})
}

// ---------------------------------------------------------------------------------------
// Ordered decision chains. `if a {…} else if b {…} else {…}`, a tagless `switch { case a: …
// case b: … default: … }` and a run of early-leaving ifs `if a { return … }; if b { return … };
// rest` are the same ordered classification; BranchChain reads any of them as a list of
// (condition, body), the last one possibly unconditional.

type Branch struct {
	Cond ast.Expr // nil: the final else / default / remaining statements
	Body []ast.Stmt
	Pos  token.Pos
}

func stmtsLeave(list []ast.Stmt) bool {
	if len(list) == 0 {
		return false
	}
	switch s := list[len(list)-1].(type) {
	case *ast.ReturnStmt:
		return true
	case *ast.BranchStmt:
		return s.Tok == token.CONTINUE || s.Tok == token.BREAK || s.Tok == token.GOTO
	case *ast.ExprStmt:
		if c, ok := s.X.(*ast.CallExpr); ok {
			if id, ok := c.Fun.(*ast.Ident); ok && id.Name == "panic" {
				return true
			}
		}
	case *ast.BlockStmt:
		return stmtsLeave(s.List)
	}
	return false
}

// BranchChain reads the chain that starts at list[i]; nil if list[i] starts none.
func BranchChain(list []ast.Stmt, i int) []Branch {
	var out []Branch
	switch s := list[i].(type) {
	case *ast.IfStmt:
		cur := s
		for cur != nil {
			if cur.Init != nil {
				return nil
			}
			out = append(out, Branch{Cond: cur.Cond, Body: cur.Body.List, Pos: cur.Pos()})
			switch e := cur.Else.(type) {
			case *ast.IfStmt:
				cur = e
				continue
			case *ast.BlockStmt:
				out = append(out, Branch{Body: e.List, Pos: e.Pos()})
				return out
			}
			// no else: when the body leaves, what follows is the else
			if !stmtsLeave(cur.Body.List) || i+1 >= len(list) {
				return out
			}
			i++
			if next, ok := list[i].(*ast.IfStmt); ok {
				cur = next
				continue
			}
			if sw, ok := list[i].(*ast.SwitchStmt); ok && sw.Tag == nil && sw.Init == nil {
				return append(out, BranchChain(list, i)...)
			}
			out = append(out, Branch{Body: list[i:], Pos: list[i].Pos()})
			return out
		}
	case *ast.SwitchStmt:
		if s.Tag != nil {
			return nil
		}
		// (an init statement — `switch r := next(); { … }` — runs once before the tests)
		var def *ast.CaseClause
		for _, c := range s.Body.List {
			cc := c.(*ast.CaseClause)
			if cc.List == nil {
				def = cc
				continue
			}
			for _, st := range cc.Body {
				if b, ok := st.(*ast.BranchStmt); ok && b.Tok == token.FALLTHROUGH {
					return nil
				}
			}
			for _, e := range cc.List {
				out = append(out, Branch{Cond: e, Body: cc.Body, Pos: cc.Pos()})
			}
		}
		if def != nil {
			out = append(out, Branch{Body: def.Body, Pos: def.Pos()})
		} else if i+1 < len(list) {
			all := true
			for _, b := range out {
				if !stmtsLeave(b.Body) {
					all = false
				}
			}
			if all {
				out = append(out, Branch{Body: list[i+1:], Pos: list[i+1].Pos()})
			}
		}
	}
	return out
}

// StmtLists enumerates every statement list of a body (blocks and case clauses).
func StmtLists(body ast.Node, f func(list []ast.Stmt)) {
	ast.Inspect(body, func(n ast.Node) bool {
		switch b := n.(type) {
		case *ast.BlockStmt:
			f(b.List)
		case *ast.CaseClause:
			f(b.Body)
		case *ast.CommClause:
			f(b.Body)
		}
		return true
	})
}

// ---------------------------------------------------------------------------------------
// Conditions as disjunctions. `!ok || t == nil || k != Func` and `!(ok && t != nil && k == Func)`
// are the same test; Disjuncts reads either as the list of atoms one of which must hold,
// with negations pushed inwards (De Morgan) and comparisons negated in place.

// Disjuncts returns expressions d1 … dn with  e ≡ d1 || … || dn  (neg: ¬e instead of e).
// Atoms that had to be negated are synthesised nodes (`!x`, or the comparison with the
// complementary operator) whose operands are the original nodes.
func Disjuncts(e ast.Expr, neg bool) []ast.Expr {
	e = Unparen(e)
	if u, ok := e.(*ast.UnaryExpr); ok && u.Op == token.NOT {
		return Disjuncts(u.X, !neg)
	}
	if b, ok := e.(*ast.BinaryExpr); ok {
		if (b.Op == token.LOR && !neg) || (b.Op == token.LAND && neg) {
			return append(Disjuncts(b.X, neg), Disjuncts(b.Y, neg)...)
		}
		if neg {
			if op, ok := negatedCmp[b.Op]; ok {
				return []ast.Expr{&ast.BinaryExpr{X: b.X, OpPos: b.OpPos, Op: op, Y: b.Y}}
			}
		}
	}
	if neg {
		return []ast.Expr{&ast.UnaryExpr{OpPos: e.Pos(), Op: token.NOT, X: e}}
	}
	return []ast.Expr{e}
}

// Conjuncts: e ≡ c1 && … && cn (neg: ¬e).
func Conjuncts(e ast.Expr, neg bool) []ast.Expr {
	e = Unparen(e)
	if u, ok := e.(*ast.UnaryExpr); ok && u.Op == token.NOT {
		return Conjuncts(u.X, !neg)
	}
	if b, ok := e.(*ast.BinaryExpr); ok {
		if (b.Op == token.LAND && !neg) || (b.Op == token.LOR && neg) {
			return append(Conjuncts(b.X, neg), Conjuncts(b.Y, neg)...)
		}
		if neg {
			if op, ok := negatedCmp[b.Op]; ok {
				return []ast.Expr{&ast.BinaryExpr{X: b.X, OpPos: b.OpPos, Op: op, Y: b.Y}}
			}
		}
	}
	if neg {
		return []ast.Expr{&ast.UnaryExpr{OpPos: e.Pos(), Op: token.NOT, X: e}}
	}
	return []ast.Expr{e}
}

var negatedCmp = map[token.Token]token.Token{
	token.EQL: token.NEQ, token.NEQ: token.EQL,
	token.LSS: token.GEQ, token.GEQ: token.LSS,
	token.GTR: token.LEQ, token.LEQ: token.GTR,
}

// MirroredCmp: the comparison with its operands exchanged (a < b ≡ b > a).
var MirroredCmp = map[token.Token]token.Token{
	token.EQL: token.EQL, token.NEQ: token.NEQ,
	token.LSS: token.GTR, token.GTR: token.LSS,
	token.LEQ: token.GEQ, token.GEQ: token.LEQ,
}

// CmpOn orients a comparison so that the operand accepted by subject is on the left:
// returns (subject, other, op) with  e ≡ subject op other.
func CmpOn(e ast.Expr, subject func(ast.Expr) bool) (ast.Expr, ast.Expr, token.Token, bool) {
	b, ok := Unparen(e).(*ast.BinaryExpr)
	if !ok {
		return nil, nil, token.ILLEGAL, false
	}
	if _, isCmp := MirroredCmp[b.Op]; !isCmp {
		return nil, nil, token.ILLEGAL, false
	}
	if subject(Unparen(b.X)) {
		return Unparen(b.X), Unparen(b.Y), b.Op, true
	}
	if subject(Unparen(b.Y)) {
		return Unparen(b.Y), Unparen(b.X), MirroredCmp[b.Op], true
	}
	return nil, nil, token.ILLEGAL, false
}

// ---------------------------------------------------------------------------------------
// FactsAt: the atomic conditions that hold when control reaches target inside root, by
// structure alone: the conditions of enclosing ifs (negated in their else branch), and the
// negations of earlier guard clauses `if C { continue | return | break | panic }` in the
// enclosing statement lists. Conjunctions are split, negations pushed inwards (Conjuncts).
// Assignments between a test and the target are not tracked: callers use it for variables
// bound once per iteration or call.
func FactsAt(root ast.Node, target ast.Node) []ast.Expr {
	var facts []ast.Expr
	var path []ast.Node
	var find func(n ast.Node) bool
	find = func(n ast.Node) bool {
		if n == nil {
			return false
		}
		if n == target {
			path = append(path, n)
			return true
		}
		if n.Pos() > target.Pos() || n.End() < target.End() {
			return false
		}
		found := false
		first := true
		ast.Inspect(n, func(c ast.Node) bool {
			if first {
				first = false
				return true
			}
			if c == nil || found {
				return false
			}
			if find(c) {
				found = true
			}
			return false
		})
		if found {
			path = append(path, n)
		}
		return found
	}
	if !find(root) {
		return nil
	}
	// path is target … root; walk from the root inwards
	for i := len(path) - 1; i >= 1; i-- {
		outer, inner := path[i], path[i-1]
		switch x := outer.(type) {
		case *ast.IfStmt:
			if inner == ast.Node(x.Body) {
				facts = append(facts, Conjuncts(x.Cond, false)...)
			} else if x.Else != nil && inner == ast.Node(x.Else) {
				facts = append(facts, Conjuncts(x.Cond, true)...)
			}
		}
		// a clause of a tagless switch: its own test holds, every earlier clause's tests failed
		// (for the default clause: all of them failed)
		if sw, ok := outer.(*ast.BlockStmt); ok && i+1 < len(path) {
			if ss, ok := path[i+1].(*ast.SwitchStmt); ok && ss.Tag == nil && ss.Body == sw {
				if cc, ok := inner.(*ast.CaseClause); ok {
					for _, c := range ss.Body.List {
						oc := c.(*ast.CaseClause)
						if oc == cc {
							if len(cc.List) == 1 {
								facts = append(facts, Conjuncts(cc.List[0], false)...)
							}
							if cc.List != nil {
								break
							}
							continue
						}
						if cc.List == nil || oc.Pos() < cc.Pos() {
							for _, e := range oc.List {
								facts = append(facts, Conjuncts(e, true)...)
							}
						}
					}
				}
			}
		}
		var list []ast.Stmt
		switch x := outer.(type) {
		case *ast.BlockStmt:
			list = x.List
		case *ast.CaseClause:
			list = x.Body
		}
		for _, st := range list {
			if ast.Node(st) == inner {
				break
			}
			switch g := st.(type) {
			case *ast.IfStmt:
				// if A { leave } [else if B { leave }]…: every test of the leaving prefix of the
				// chain failed (a later branch that does not leave says nothing about its own test,
				// but was only reached because the earlier ones failed)
				for is := g; is != nil; {
					if !stmtsLeave(is.Body.List) {
						break
					}
					facts = append(facts, Conjuncts(is.Cond, true)...)
					next, _ := is.Else.(*ast.IfStmt)
					is = next
				}
			case *ast.SwitchStmt:
				// the same written as a tagless switch: the tests of the leaving clauses that
				// precede the first clause that does not leave all failed
				if g.Tag != nil {
					break
				}
				for _, c := range g.Body.List {
					cc := c.(*ast.CaseClause)
					if cc.List == nil {
						continue
					}
					if !stmtsLeave(cc.Body) {
						break
					}
					if br, ok := cc.Body[len(cc.Body)-1].(*ast.BranchStmt); ok && br.Tok == token.BREAK && br.Label == nil {
						break // leaves the switch only
					}
					for _, e := range cc.List {
						facts = append(facts, Conjuncts(e, true)...)
					}
				}
			}
		}
	}
	return facts
}
