package eng

import (
	"fmt"
	"go/token"
	"go/types"
	"sort"
	"strings"

	"golang.org/x/tools/go/ssa"
	"golang.org/x/tools/go/ssa/ssautil"

	"verif/exprlint/core"
)

// E4 — effects. Every write effect of a library function (store, map update, append, copy,
// delete, channel send/close, reflect setter, sort) is attributed to the *roots* of the
// object it writes: where the written memory can come from.

type RootKind string

const (
	RootFresh   RootKind = "fresh"  // allocated in this function (local, make, new, literal)
	RootRecv    RootKind = "recv"   // reached from the method's receiver
	RootParam   RootKind = "param"  // reached from a non-receiver parameter
	RootGlobal  RootKind = "global" // a package-level variable (or reached from one)
	RootResult  RootKind = "result" // value returned by a call (see Detail)
	RootUnknown RootKind = "unknown"
	RootNil     RootKind = "nil"
)

type Root struct {
	Kind   RootKind
	Detail string // global name, parameter name, receiver field path, callee
}

func (r Root) String() string {
	if r.Detail == "" {
		return string(r.Kind)
	}
	return string(r.Kind) + ":" + r.Detail
}

type Effect struct {
	Fn    *ssa.Function
	Pos   token.Pos
	What  string // store | mapupdate | append | copy | delete | send | close | reflect-set | sort
	Roots []Root
	Desc  string
}

type Effects struct {
	Prog  *core.Program
	SSA   *ssa.Program
	Funcs []*ssa.Function // library functions incl. closures, sorted by position
	memo  map[*ssa.Function][]Root
	// call-site index: a non-receiver parameter of an unexported function that is only ever
	// called statically designates what its callers pass (an extracted helper is judged by its
	// call sites)
	sites   map[*ssa.Function][]ssa.CallInstruction
	escaped map[*ssa.Function]bool
	invoked map[string]bool
}

func (e *Effects) buildSites() {
	e.sites = map[*ssa.Function][]ssa.CallInstruction{}
	e.escaped = map[*ssa.Function]bool{}
	e.invoked = map[string]bool{}
	for fn := range ssautil.AllFunctions(e.SSA) {
		for _, b := range fn.Blocks {
			for _, in := range b.Instrs {
				var calleeOp *ssa.Value
				if ci, ok := in.(ssa.CallInstruction); ok {
					com := ci.Common()
					if com.IsInvoke() {
						e.invoked[com.Method.Name()] = true
					} else {
						calleeOp = &com.Value
						if callee := com.StaticCallee(); callee != nil {
							e.sites[callee] = append(e.sites[callee], ci)
						}
					}
				}
				for _, op := range in.Operands(nil) {
					if op == nil || *op == nil {
						continue
					}
					if f, ok := (*op).(*ssa.Function); ok {
						if calleeOp != nil && op == calleeOp {
							continue
						}
						if calleeOp != nil && *op == *calleeOp && isCalleeOperand(in, op) {
							continue
						}
						e.escaped[f] = true
					}
				}
			}
		}
	}
}

// isCalleeOperand: op is the function position of the call instruction in.
func isCalleeOperand(in ssa.Instruction, op *ssa.Value) bool {
	ci, ok := in.(ssa.CallInstruction)
	if !ok {
		return false
	}
	ops := in.Operands(nil)
	return len(ops) > 0 && ops[0] == op && *op == ci.Common().Value
}

func BuildEffects(p *core.Program) *Effects {
	prog, _ := p.SSA()
	e := &Effects{Prog: p, SSA: prog, memo: map[*ssa.Function][]Root{}}
	e.buildSites()
	for fn := range ssautil.AllFunctions(prog) {
		if fn.Blocks == nil || fn.Synthetic != "" && !strings.HasPrefix(fn.Synthetic, "package init") {
			if fn.Synthetic != "" {
				continue
			}
		}
		if fn.Blocks == nil {
			continue
		}
		pk := fn.Package()
		if pk == nil || pk.Pkg == nil {
			continue
		}
		if rel, ok := p.RelOf(pk.Pkg); ok && core.IsLib(rel) {
			e.Funcs = append(e.Funcs, fn)
		}
	}
	sort.Slice(e.Funcs, func(i, j int) bool {
		if e.Funcs[i].Pos() != e.Funcs[j].Pos() {
			return e.Funcs[i].Pos() < e.Funcs[j].Pos()
		}
		return e.Funcs[i].String() < e.Funcs[j].String()
	})
	return e
}

// Rel returns the library-relative package of fn.
func (e *Effects) Rel(fn *ssa.Function) string {
	rel, _ := e.Prog.RelOf(fn.Package().Pkg)
	return rel
}

func uniqRoots(rs []Root) []Root {
	seen := map[string]bool{}
	var out []Root
	for _, r := range rs {
		if !seen[r.String()] {
			seen[r.String()] = true
			out = append(out, r)
		}
	}
	sort.Slice(out, func(i, j int) bool { return out[i].String() < out[j].String() })
	return out
}

// RootsOf classifies where the object designated by v can come from.
func (e *Effects) RootsOf(v ssa.Value) []Root {
	return uniqRoots(e.roots(v, map[ssa.Value]bool{}, 0))
}

func (e *Effects) roots(v ssa.Value, seen map[ssa.Value]bool, depth int) []Root {
	if v == nil {
		return []Root{{Kind: RootUnknown, Detail: "nil value"}}
	}
	if seen[v] {
		return nil
	}
	seen[v] = true
	if depth > 40 {
		return []Root{{Kind: RootUnknown, Detail: "depth"}}
	}
	switch x := v.(type) {
	case *ssa.Global:
		return []Root{{RootGlobal, x.Pkg.Pkg.Name() + "." + x.Name()}}
	case *ssa.Alloc, *ssa.MakeSlice, *ssa.MakeMap, *ssa.MakeChan, *ssa.MakeClosure:
		return []Root{{Kind: RootFresh}}
	case *ssa.Const:
		return []Root{{Kind: RootNil}}
	case *ssa.Function, *ssa.Builtin:
		return []Root{{Kind: RootNil}}
	case *ssa.Parameter:
		fn := x.Parent()
		if fn.Signature.Recv() != nil && len(fn.Params) > 0 && fn.Params[0] == x {
			return []Root{{RootRecv, ""}}
		}
		if fn.Parent() == nil && !token.IsExported(fn.Name()) && !e.escaped[fn] && !e.invoked[fn.Name()] && len(e.sites[fn]) > 0 && depth < 12 {
			idx := -1
			for i, prm := range fn.Params {
				if prm == x {
					idx = i
				}
			}
			var out []Root
			ok := idx >= 0
			for _, site := range e.sites[fn] {
				args := site.Common().Args
				if idx >= len(args) {
					ok = false
					break
				}
				out = append(out, e.roots(args[idx], seen, depth+1)...)
			}
			if ok {
				return out
			}
		}
		return []Root{{RootParam, fn.Name() + "." + x.Name()}}
	case *ssa.FreeVar:
		// the binding made by the enclosing function's MakeClosure
		fn := x.Parent()
		idx := -1
		for i, fv := range fn.FreeVars {
			if fv == x {
				idx = i
			}
		}
		par := fn.Parent()
		if par == nil || idx < 0 {
			return []Root{{RootUnknown, "free variable " + x.Name()}}
		}
		var out []Root
		for _, b := range par.Blocks {
			for _, in := range b.Instrs {
				if mc, ok := in.(*ssa.MakeClosure); ok && mc.Fn == ssa.Value(fn) && idx < len(mc.Bindings) {
					out = append(out, e.roots(mc.Bindings[idx], seen, depth+1)...)
				}
			}
		}
		if out == nil {
			return []Root{{RootUnknown, "free variable " + x.Name()}}
		}
		// a captured local of the parent is fresh from the closure's point of view only if it
		// is the parent's own allocation
		return out
	case *ssa.FieldAddr:
		rs := e.roots(x.X, seen, depth+1)
		return qualify(rs, fieldName(x.X.Type(), x.Field))
	case *ssa.Field:
		rs := e.roots(x.X, seen, depth+1)
		return qualify(rs, fieldName(x.X.Type(), x.Field))
	case *ssa.IndexAddr:
		return e.roots(x.X, seen, depth+1)
	case *ssa.Index:
		return e.roots(x.X, seen, depth+1)
	case *ssa.Lookup:
		return hop(e.roots(x.X, seen, depth+1), "→")
	case *ssa.Slice:
		return e.roots(x.X, seen, depth+1)
	case *ssa.ChangeType:
		return e.roots(x.X, seen, depth+1)
	case *ssa.Convert:
		return e.roots(x.X, seen, depth+1)
	case *ssa.ChangeInterface:
		return e.roots(x.X, seen, depth+1)
	case *ssa.MakeInterface:
		return e.roots(x.X, seen, depth+1)
	case *ssa.TypeAssert:
		return hop(e.roots(x.X, seen, depth+1), "(dyn)")
	case *ssa.SliceToArrayPointer:
		return e.roots(x.X, seen, depth+1)
	case *ssa.Extract:
		return e.roots(x.Tuple, seen, depth+1)
	case *ssa.Phi:
		var out []Root
		for _, ed := range x.Edges {
			out = append(out, e.roots(ed, seen, depth+1)...)
		}
		return out
	case *ssa.UnOp:
		if x.Op != token.MUL {
			if x.Op == token.ARROW {
				return []Root{{RootResult, "channel receive"}}
			}
			return []Root{{Kind: RootNil}}
		}
		// a load: the object is whatever was stored at that address
		switch a := x.X.(type) {
		case *ssa.Alloc:
			var out []Root
			n := 0
			if refs := a.Referrers(); refs != nil {
				for _, ref := range *refs {
					if st, ok := ref.(*ssa.Store); ok && st.Addr == ssa.Value(a) {
						n++
						out = append(out, e.roots(st.Val, seen, depth+1)...)
					}
				}
			}
			// closures may store into a captured local; those stores are seen when the
			// closure's own effects are classified. A value-typed local (struct) is itself fresh.
			if !pointerLike(x.Type()) {
				return []Root{{Kind: RootFresh}}
			}
			if n == 0 {
				return []Root{{Kind: RootNil}}
			}
			return out
		case *ssa.FreeVar:
			// a load through a captured variable: what the enclosing function stored into the
			// captured cell (a captured parameter is copied into a cell by the parent)
			fn := a.Parent()
			idx := -1
			for i, fv := range fn.FreeVars {
				if fv == a {
					idx = i
				}
			}
			par := fn.Parent()
			var out []Root
			if par != nil && idx >= 0 {
				for _, b := range par.Blocks {
					for _, in := range b.Instrs {
						mc, ok := in.(*ssa.MakeClosure)
						if !ok || mc.Fn != ssa.Value(fn) || idx >= len(mc.Bindings) {
							continue
						}
						if cell, ok := mc.Bindings[idx].(*ssa.Alloc); ok {
							if refs := cell.Referrers(); refs != nil {
								for _, ref := range *refs {
									if st, ok := ref.(*ssa.Store); ok && st.Addr == ssa.Value(cell) {
										out = append(out, e.roots(st.Val, seen, depth+1)...)
									}
								}
							}
						} else {
							out = append(out, hop(e.roots(mc.Bindings[idx], seen, depth+1), "→")...)
						}
					}
				}
			}
			if out == nil {
				return hop(e.roots(x.X, seen, depth+1), "→")
			}
			return out
		default:
			return hop(e.roots(x.X, seen, depth+1), "→")
		}
	case *ssa.Call:
		return e.callRoots(x, seen, depth)
	case *ssa.BinOp:
		return []Root{{Kind: RootNil}}
	case *ssa.Next, *ssa.Range:
		if r, ok := v.(*ssa.Range); ok {
			return e.roots(r.X, seen, depth+1)
		}
		return e.roots(v.(*ssa.Next).Iter, seen, depth+1)
	}
	return []Root{{RootUnknown, fmt.Sprintf("%T", v)}}
}

// hop records on receiver/parameter/global roots that the designated object is reached through a
// load (→) or a dynamic type assertion ((dyn): a run-time value of unknown provenance).
func hop(rs []Root, mark string) []Root {
	out := make([]Root, len(rs))
	for i, r := range rs {
		out[i] = r
		if r.Kind == RootRecv || r.Kind == RootParam || r.Kind == RootGlobal {
			out[i].Detail = r.Detail + mark
		}
	}
	return out
}

func pointerLike(t types.Type) bool {
	switch t.Underlying().(type) {
	case *types.Pointer, *types.Slice, *types.Map, *types.Chan, *types.Interface, *types.Signature:
		return true
	}
	return false
}

func fieldName(t types.Type, i int) string {
	if p, ok := t.Underlying().(*types.Pointer); ok {
		t = p.Elem()
	}
	if s, ok := t.Underlying().(*types.Struct); ok && i < s.NumFields() {
		return s.Field(i).Name()
	}
	return fmt.Sprint(i)
}

func qualify(rs []Root, field string) []Root {
	out := make([]Root, len(rs))
	for i, r := range rs {
		out[i] = r
		if r.Kind == RootRecv || r.Kind == RootParam || r.Kind == RootGlobal {
			if r.Detail == "" {
				out[i].Detail = field
			} else {
				out[i].Detail = r.Detail + "." + field
			}
		}
	}
	return out
}

// callRoots: the object a call returns. Library callees are summarised from their return
// statements (receiver-rooted results stay receiver-rooted at the call site when the call's
// receiver is itself receiver-rooted, and so on); builtins and allocating standard functions
// return fresh objects.
func (e *Effects) callRoots(c *ssa.Call, seen map[ssa.Value]bool, depth int) []Root {
	com := c.Common()
	if b, ok := com.Value.(*ssa.Builtin); ok {
		switch b.Name() {
		case "append":
			// the result may alias the first argument's backing array
			return e.roots(com.Args[0], seen, depth+1)
		case "new", "make":
			return []Root{{Kind: RootFresh}}
		}
		return []Root{{Kind: RootNil}}
	}
	callee := com.StaticCallee()
	if callee == nil {
		return []Root{{RootResult, "dynamic call"}}
	}
	if callee.Blocks == nil || callee.Package() == nil {
		return []Root{{RootResult, callee.String()}}
	}
	if _, ok := e.Prog.RelOf(callee.Package().Pkg); !ok {
		return []Root{{RootResult, callee.String()}}
	}
	sum := e.summary(callee, depth)
	var out []Root
	for _, r := range sum {
		switch r.Kind {
		case RootRecv:
			if len(com.Args) > 0 {
				for _, rr := range e.roots(com.Args[0], seen, depth+1) {
					if (rr.Kind == RootRecv || rr.Kind == RootParam || rr.Kind == RootGlobal) && r.Detail != "" {
						if rr.Detail == "" {
							rr.Detail = r.Detail
						} else {
							rr.Detail += "." + r.Detail
						}
					}
					out = append(out, rr)
				}
			}
		case RootParam:
			// map the callee's parameter to the actual argument
			found := false
			for i, prm := range callee.Params {
				if callee.Name()+"."+prm.Name() == r.Detail && i < len(com.Args) {
					out = append(out, e.roots(com.Args[i], seen, depth+1)...)
					found = true
				}
			}
			if !found {
				out = append(out, Root{RootUnknown, "parameter of " + callee.Name()})
			}
		default:
			out = append(out, r)
		}
	}
	if out == nil {
		out = []Root{{Kind: RootNil}}
	}
	return out
}

func (e *Effects) summary(fn *ssa.Function, depth int) []Root {
	if s, ok := e.memo[fn]; ok {
		return s
	}
	e.memo[fn] = []Root{{RootResult, "recursive " + fn.Name()}}
	var out []Root
	for _, b := range fn.Blocks {
		for _, in := range b.Instrs {
			if ret, ok := in.(*ssa.Return); ok {
				for _, res := range ret.Results {
					if pointerLike(res.Type()) {
						out = append(out, e.roots(res, map[ssa.Value]bool{}, depth+1)...)
					}
				}
			}
		}
	}
	out = uniqRoots(out)
	e.memo[fn] = out
	return out
}

// EffectsOf lists the write effects of one function.
func (e *Effects) EffectsOf(fn *ssa.Function) []Effect {
	var out []Effect
	add := func(pos token.Pos, what string, target ssa.Value, desc string) {
		out = append(out, Effect{Fn: fn, Pos: pos, What: what, Roots: e.RootsOf(target), Desc: desc})
	}
	for _, b := range fn.Blocks {
		for _, in := range b.Instrs {
			switch x := in.(type) {
			case *ssa.Store:
				// initialising stores into a fresh local are the bulk; they classify as fresh
				add(x.Pos(), "store", x.Addr, "")
			case *ssa.MapUpdate:
				add(x.Pos(), "mapupdate", x.Map, "")
			case *ssa.Send:
				add(x.Pos(), "send", x.Chan, "")
			case ssa.CallInstruction:
				com := x.Common()
				if bi, ok := com.Value.(*ssa.Builtin); ok {
					switch bi.Name() {
					case "append", "copy", "delete", "close", "clear":
						if len(com.Args) > 0 {
							add(x.Pos(), bi.Name(), com.Args[0], "")
						}
					}
					continue
				}
				callee := com.StaticCallee()
				if callee == nil || callee.Package() == nil {
					continue
				}
				path := callee.Package().Pkg.Path()
				name := callee.Name()
				switch {
				case path == "reflect" && callee.Signature.Recv() != nil && (strings.HasPrefix(name, "Set") || name == "Clear" || name == "Grow"):
					out = append(out, Effect{Fn: fn, Pos: x.Pos(), What: "reflect-set", Roots: []Root{{RootUnknown, "reflect.Value." + name}}, Desc: "reflect.Value." + name})
				case path == "sort" || path == "slices" && (strings.HasPrefix(name, "Sort") || name == "Reverse"):
					if len(com.Args) > 0 {
						add(x.Pos(), "sort", com.Args[0], callee.String())
					}
				}
			}
		}
	}
	return out
}

// Sources lists nondeterminism / concurrency sources used by fn.
type Source struct {
	Fn   *ssa.Function
	Pos  token.Pos
	What string
}

var bannedPkgs = map[string]bool{"time": true, "math/rand": true, "math/rand/v2": true, "crypto/rand": true}
var bannedOS = map[string]bool{"Getenv": true, "LookupEnv": true, "Environ": true, "Getpid": true, "Hostname": true, "Getwd": true, "ReadFile": true, "Open": true}

func (e *Effects) SourcesOf(fn *ssa.Function) []Source {
	var out []Source
	for _, b := range fn.Blocks {
		for _, in := range b.Instrs {
			switch x := in.(type) {
			case *ssa.Go:
				out = append(out, Source{fn, x.Pos(), "go statement"})
			case *ssa.Select:
				out = append(out, Source{fn, x.Pos(), "select"})
			case *ssa.Range:
				if _, ok := x.X.Type().Underlying().(*types.Map); ok {
					out = append(out, Source{fn, x.Pos(), "range over map"})
				}
			case ssa.CallInstruction:
				callee := x.Common().StaticCallee()
				if callee == nil || callee.Package() == nil {
					continue
				}
				path, name := callee.Package().Pkg.Path(), callee.Name()
				switch {
				case bannedPkgs[path]:
					out = append(out, Source{fn, x.Pos(), "call of " + path + "." + name})
				case path == "os" && bannedOS[name]:
					out = append(out, Source{fn, x.Pos(), "call of os." + name})
				case path == "reflect" && (name == "MapKeys" || name == "MapRange"):
					out = append(out, Source{fn, x.Pos(), "reflect map iteration (" + name + ")"})
				}
			}
		}
	}
	return out
}

// FuncKey names a function stably: pkg.(Recv).name, closures as parent$n.
func (e *Effects) FuncKey(fn *ssa.Function) string {
	rel := e.Rel(fn)
	if rel == "" {
		rel = "expr"
	}
	s := fn.RelString(fn.Package().Pkg)
	return rel + "." + s
}

// GlobalEscape: the address of a package-level variable (or of a part of it) is used other
// than for a plain load or a store: handed to a call (e.g. as the receiver of a
// pointer-receiver method such as (*sync.Map).Load), captured, merged or converted. Such a
// variable is shared mutable state whose accesses this analysis cannot follow.
type GlobalEscape struct {
	Fn     *ssa.Function
	Global string
	Pos    token.Pos
	How    string
}

// GlobalEscapes lists the escapes in one function. Loads, stores (reported separately as write
// effects) and address arithmetic (field / element addresses, followed recursively) are fine.
func (e *Effects) GlobalEscapes(fn *ssa.Function) []GlobalEscape {
	var out []GlobalEscape
	seen := map[ssa.Value]bool{}
	var follow func(addr ssa.Value, g *ssa.Global)
	follow = func(addr ssa.Value, g *ssa.Global) {
		if seen[addr] {
			return
		}
		seen[addr] = true
		var refs []ssa.Instruction
		if addr == ssa.Value(g) {
			for _, b := range fn.Blocks {
				for _, in := range b.Instrs {
					for _, op := range in.Operands(nil) {
						if *op == addr {
							refs = append(refs, in)
						}
					}
				}
			}
		} else if r := addr.Referrers(); r != nil {
			refs = *r
		}
		name := g.Pkg.Pkg.Name() + "." + g.Name()
		for _, in := range refs {
			switch x := in.(type) {
			case *ssa.UnOp:
				if x.Op == token.MUL {
					continue
				}
				out = append(out, GlobalEscape{fn, name, x.Pos(), "operand of " + x.Op.String()})
			case *ssa.Store:
				if x.Addr == addr {
					continue // a write effect, reported by the write rules
				}
				out = append(out, GlobalEscape{fn, name, x.Pos(), "its address is stored"})
			case *ssa.FieldAddr:
				follow(x, g)
			case *ssa.IndexAddr:
				follow(x, g)
			case *ssa.DebugRef:
			case ssa.CallInstruction:
				callee := "a dynamic call"
				if sc := x.Common().StaticCallee(); sc != nil {
					callee = sc.String()
				}
				pos := x.Pos()
				if !pos.IsValid() {
					pos = fn.Pos()
				}
				out = append(out, GlobalEscape{fn, name, pos, "its address is passed to " + callee})
			default:
				out = append(out, GlobalEscape{fn, name, in.Pos(), fmt.Sprintf("its address is used by %T", in)})
			}
		}
	}
	globals := map[*ssa.Global]bool{}
	for _, b := range fn.Blocks {
		for _, in := range b.Instrs {
			for _, op := range in.Operands(nil) {
				if g, ok := (*op).(*ssa.Global); ok {
					globals[g] = true
				}
			}
		}
	}
	var gs []*ssa.Global
	for g := range globals {
		gs = append(gs, g)
	}
	sort.Slice(gs, func(i, j int) bool { return gs[i].String() < gs[j].String() })
	for _, g := range gs {
		follow(g, g)
	}
	return out
}
