package eng

import (
	"fmt"
	"go/ast"
	"go/constant"
	"go/token"
	"go/types"
	"sort"
)

// Aff is an affine form C + Σ T[sym]·sym over opaque integer symbols.
type Aff struct {
	C int64
	T map[string]int64
}

func AffConst(c int64) Aff { return Aff{C: c, T: map[string]int64{}} }
func AffSym(s string) Aff  { return Aff{T: map[string]int64{s: 1}} }

func (a Aff) Add(b Aff, sign int64) Aff {
	r := Aff{C: a.C + sign*b.C, T: map[string]int64{}}
	for k, v := range a.T {
		r.T[k] = v
	}
	for k, v := range b.T {
		r.T[k] += sign * v
		if r.T[k] == 0 {
			delete(r.T, k)
		}
	}
	return r
}

func (a Aff) IsConst() bool { return len(a.T) == 0 }

func (a Aff) Equal(b Aff) bool {
	d := a.Add(b, -1)
	return d.C == 0 && len(d.T) == 0
}

func (a Aff) String() string {
	var ks []string
	for k := range a.T {
		ks = append(ks, k)
	}
	sort.Strings(ks)
	s := ""
	for _, k := range ks {
		v := a.T[k]
		switch {
		case v == 1:
			s += "+" + k
		case v == -1:
			s += "-" + k
		default:
			s += fmt.Sprintf("%+d·%s", v, k)
		}
	}
	if a.C != 0 || s == "" {
		s += fmt.Sprintf("%+d", a.C)
	}
	if len(s) > 0 && s[0] == '+' {
		s = s[1:]
	}
	return s
}

// AffEnv evaluates integer expressions to affine forms. Sym names an opaque sub-expression
// (e.g. len(c.bytecode) -> "len(bytecode)"); Vars binds local variables.
type AffEnv struct {
	Info *types.Info
	Vars map[types.Object]Aff
	Sym  func(e ast.Expr) (string, bool)
	// Val, when set, is consulted first: the affine value of an expression the caller knows
	// (e.g. len(x) of a slice made with a known length).
	Val func(e ast.Expr) (Aff, bool)
}

func (env *AffEnv) Eval(e ast.Expr) (Aff, bool) {
	e = Unparen(e)
	if env.Val != nil {
		if a, ok := env.Val(e); ok {
			return a, true
		}
	}
	if tv, ok := env.Info.Types[e]; ok && tv.Value != nil && tv.Value.Kind() == constant.Int {
		if v, ok := constant.Int64Val(tv.Value); ok {
			return AffConst(v), true
		}
	}
	if tv, ok := env.Info.Types[e]; ok && tv.Value != nil && tv.Value.Kind() == constant.Float {
		if f, ok := constant.Float64Val(tv.Value); ok && f == float64(int64(f)) {
			return AffConst(int64(f)), true
		}
	}
	if env.Sym != nil {
		if s, ok := env.Sym(e); ok {
			return AffSym(s), true
		}
	}
	switch x := e.(type) {
	case *ast.Ident:
		obj := env.Info.Uses[x]
		if obj == nil {
			obj = env.Info.Defs[x]
		}
		if a, ok := env.Vars[obj]; ok {
			return a, true
		}
		if obj != nil {
			return AffSym(x.Name), true
		}
	case *ast.BinaryExpr:
		l, ok1 := env.Eval(x.X)
		r, ok2 := env.Eval(x.Y)
		if !ok1 || !ok2 {
			return Aff{}, false
		}
		switch x.Op {
		case token.ADD:
			return l.Add(r, 1), true
		case token.SUB:
			return l.Add(r, -1), true
		case token.MUL:
			if l.IsConst() {
				out := AffConst(l.C * r.C)
				for k, v := range r.T {
					out.T[k] = v * l.C
				}
				return out, true
			}
			if r.IsConst() {
				out := AffConst(l.C * r.C)
				for k, v := range l.T {
					out.T[k] = v * r.C
				}
				return out, true
			}
		}
	case *ast.CallExpr:
		// integer conversions are transparent here (narrowing is checked separately)
		if tv, ok := env.Info.Types[x.Fun]; ok && tv.IsType() && len(x.Args) == 1 {
			if b, ok := tv.Type.Underlying().(*types.Basic); ok && b.Info()&types.IsInteger != 0 {
				return env.Eval(x.Args[0])
			}
		}
	}
	return Aff{}, false
}
