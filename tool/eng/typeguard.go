package eng

import (
	"go/ast"
	"go/constant"
	"go/token"
	"go/types"
	"sort"
	"strings"
)

// Type guards. Several rules (C02 rewrite guards, C15 selection guards) ask the same
// question: on every path to a program point, what do the conditions passed on the way say
// about the STATIC TYPE of one node-valued expression — is it known to be non-nil, of one
// reflect.Kind, and unnamed (predeclared)? The conditions of this code base that speak about a
// reflect.Type are few: comparisons with nil, Kind() ==/!= reflect.K, PkgPath() ==/!= "",
// Name() ==/!= "", identity with a package-level type variable initialised from
// reflect.TypeOf(<literal>), and local predicate closures / helper functions built from these.
// The question is decided by enumerating the finitely many abstract types
//
//	nil | (kind ∈ kinds mentioned ∪ {other}) × (named | unnamed)
//
// and keeping those under which every condition on the path can have the polarity the path
// took (three-valued evaluation with short-circuit; a condition that does not speak about the
// type is unknown and excludes nothing).

type AbsType struct {
	Nil   bool
	Kind  string // "Int", "String", …, or "other"
	Named bool
}

func (a AbsType) String() string {
	if a.Nil {
		return "nil"
	}
	s := "kind " + a.Kind
	if a.Named {
		return s + " (named)"
	}
	return s + " (predeclared)"
}

// TypeGuard evaluates conditions about the type designated by Is.
type TypeGuard struct {
	Info *types.Info
	// Is reports whether e denotes the type under consideration (e.g. `t`, `n.Left.Type()`).
	Is func(e ast.Expr) bool
	// Pred resolves a call to a predicate whose single argument is the node or the type: it
	// returns the predicate's parameter object, its body, and whether the argument denotes the
	// node (then the predicate's own `x.Type()` denotes the type) — or nil.
	Pred func(call *ast.CallExpr) *PredInfo
	// TypeVar resolves an expression to the abstract type of a package-level type variable
	// (integerType = reflect.TypeOf(0)), if it is one.
	TypeVar func(e ast.Expr) (AbsType, bool)
	// Defs, when set, lets Eval enter a call of a local closure (`unnamed := func(k Kind) bool
	// { return t != nil && t.Kind() == k … }`): a name bound once to a function literal whose
	// body is a single return; its parameters stand for the arguments.
	Defs  *LocalDefs
	subst map[types.Object]ast.Expr
	depth int
}

func (g *TypeGuard) resolve(e ast.Expr) ast.Expr {
	e = Unparen(e)
	for i := 0; i < 4; i++ {
		id, ok := e.(*ast.Ident)
		if !ok {
			return e
		}
		if r, ok := g.subst[g.Info.Uses[id]]; ok {
			e = Unparen(r)
			continue
		}
		// a local bound once to a question about the type (`kind := t.Kind()`)
		if g.Defs != nil && !g.Is(id) {
			if d, ok := Unparen(g.Defs.Def(g.Info.Uses[id])).(*ast.CallExpr); ok {
				e = d
				continue
			}
		}
		return e
	}
	return e
}

type PredInfo struct {
	Guard *TypeGuard // evaluator for the predicate's body (its own Is)
	Body  *ast.BlockStmt
}

const (
	tvFalse = 0
	tvTrue  = 1
	tvUnk   = -1
)

func not3(v int) int {
	if v == tvUnk {
		return tvUnk
	}
	return 1 - v
}

// Eval: three-valued truth of cond under the abstract type a.
func (g *TypeGuard) Eval(cond ast.Expr, a AbsType) int {
	cond = Unparen(cond)
	switch x := cond.(type) {
	case *ast.UnaryExpr:
		if x.Op == token.NOT {
			return not3(g.Eval(x.X, a))
		}
	case *ast.BinaryExpr:
		switch x.Op {
		case token.LAND:
			l := g.Eval(x.X, a)
			if l == tvFalse {
				return tvFalse
			}
			r := g.Eval(x.Y, a)
			if r == tvFalse {
				return tvFalse
			}
			if l == tvTrue && r == tvTrue {
				return tvTrue
			}
			return tvUnk
		case token.LOR:
			l := g.Eval(x.X, a)
			if l == tvTrue {
				return tvTrue
			}
			r := g.Eval(x.Y, a)
			if r == tvTrue {
				return tvTrue
			}
			if l == tvFalse && r == tvFalse {
				return tvFalse
			}
			return tvUnk
		case token.EQL, token.NEQ:
			v := g.evalEq(x.X, x.Y, a)
			if v == tvUnk {
				v = g.evalEq(x.Y, x.X, a)
			}
			if x.Op == token.NEQ {
				return not3(v)
			}
			return v
		}
	case *ast.CallExpr:
		if g.Pred != nil && g.depth < 3 {
			if pi := g.Pred(x); pi != nil {
				pi.Guard.depth = g.depth + 1
				return pi.Guard.evalBody(pi.Body, a)
			}
		}
		// a local closure with a single return
		if id, ok := Unparen(x.Fun).(*ast.Ident); ok && g.Defs != nil && g.depth < 3 {
			if fl, ok := Unparen(g.Defs.Def(g.Info.Uses[id])).(*ast.FuncLit); ok && len(fl.Body.List) == 1 {
				if rs, ok := fl.Body.List[0].(*ast.ReturnStmt); ok && len(rs.Results) == 1 {
					saved := g.subst
					g.subst = map[types.Object]ast.Expr{}
					for k, v := range saved {
						g.subst[k] = v
					}
					i := 0
					if fl.Type.Params != nil {
						for _, f := range fl.Type.Params.List {
							for _, nm := range f.Names {
								if i < len(x.Args) {
									g.subst[g.Info.Defs[nm]] = x.Args[i]
								}
								i++
							}
						}
					}
					g.depth++
					v := g.Eval(rs.Results[0], a)
					g.depth--
					g.subst = saved
					return v
				}
			}
		}
	}
	return tvUnk
}

// evalEq: truth of `l == r` where l speaks about the type.
func (g *TypeGuard) evalEq(l, r ast.Expr, a AbsType) int {
	l, r = g.resolve(l), g.resolve(r)
	if g.Is(l) {
		if id, ok := r.(*ast.Ident); ok {
			if _, isNil := g.Info.Uses[id].(*types.Nil); isNil {
				if a.Nil {
					return tvTrue
				}
				return tvFalse
			}
		}
		if g.TypeVar != nil {
			if tv, ok := g.TypeVar(r); ok {
				// identity with a predeclared type: true only for exactly that type
				if a.Nil || a.Kind != tv.Kind || a.Named != tv.Named {
					return tvFalse
				}
				return tvUnk // same abstract class; several concrete types may share it only if named
			}
		}
		return tvUnk
	}
	c, ok := l.(*ast.CallExpr)
	if !ok || len(c.Args) != 0 {
		return tvUnk
	}
	sel, ok := c.Fun.(*ast.SelectorExpr)
	if !ok || !g.Is(sel.X) {
		return tvUnk
	}
	if a.Nil {
		// a method call on a nil type panics; the path does not continue. Treat as unknown:
		// nil-ness must be excluded by an explicit test, which is what the rules demand.
		return tvUnk
	}
	switch sel.Sel.Name {
	case "Kind":
		k := kindName(g.Info, r)
		if k == "" {
			return tvUnk
		}
		if a.Kind == k {
			return tvTrue
		}
		return tvFalse
	case "PkgPath", "Name":
		tv, ok := g.Info.Types[r]
		if !ok || tv.Value == nil || tv.Value.Kind() != constant.String {
			return tvUnk
		}
		if constant.StringVal(tv.Value) != "" {
			return tvUnk
		}
		if sel.Sel.Name == "Name" {
			// Name() == "" holds for unnamed types; predeclared basic types HAVE a name
			// ("int"), so this test says nothing about named-vs-predeclared for basic kinds.
			return tvUnk
		}
		if a.Named {
			return tvFalse
		}
		return tvTrue
	}
	return tvUnk
}

// kindName: e is reflect.K → "K".
func kindName(info *types.Info, e ast.Expr) string {
	sel, ok := Unparen(e).(*ast.SelectorExpr)
	if !ok {
		return ""
	}
	obj := info.Uses[sel.Sel]
	c, ok := obj.(*types.Const)
	if !ok || c.Pkg() == nil || c.Pkg().Path() != "reflect" {
		return ""
	}
	if n, ok := c.Type().(*types.Named); !ok || n.Obj().Name() != "Kind" {
		return ""
	}
	return c.Name()
}

// evalBody: a predicate body of the shape { [t := x.Type()]; [if C { return B }]…; return E }.
func (g *TypeGuard) evalBody(b *ast.BlockStmt, a AbsType) int {
	for _, st := range b.List {
		switch s := st.(type) {
		case *ast.AssignStmt, *ast.DeclStmt:
			continue
		case *ast.IfStmt:
			if s.Init != nil || s.Else != nil || len(s.Body.List) != 1 {
				return tvUnk
			}
			rs, ok := s.Body.List[0].(*ast.ReturnStmt)
			if !ok || len(rs.Results) != 1 {
				return tvUnk
			}
			c := g.Eval(s.Cond, a)
			switch c {
			case tvTrue:
				return g.evalBoolExpr(rs.Results[0], a)
			case tvUnk:
				return tvUnk
			}
		case *ast.ReturnStmt:
			if len(s.Results) != 1 {
				return tvUnk
			}
			return g.evalBoolExpr(s.Results[0], a)
		case *ast.SwitchStmt:
			// switch t.Kind() { case reflect.A, reflect.B: return true } return false
			if s.Init != nil || s.Tag == nil {
				return tvUnk
			}
			c, ok := Unparen(s.Tag).(*ast.CallExpr)
			if !ok {
				return tvUnk
			}
			sel, ok := c.Fun.(*ast.SelectorExpr)
			if !ok || sel.Sel.Name != "Kind" || !g.Is(sel.X) || a.Nil {
				return tvUnk
			}
			matched := false
			for _, cl := range s.Body.List {
				cc := cl.(*ast.CaseClause)
				hit := false
				for _, e := range cc.List {
					if kindName(g.Info, e) == a.Kind {
						hit = true
					}
				}
				if hit {
					matched = true
					if len(cc.Body) == 1 {
						if rs, ok := cc.Body[0].(*ast.ReturnStmt); ok && len(rs.Results) == 1 {
							return g.evalBoolExpr(rs.Results[0], a)
						}
					}
					return tvUnk
				}
			}
			_ = matched
		default:
			return tvUnk
		}
	}
	return tvUnk
}

func (g *TypeGuard) evalBoolExpr(e ast.Expr, a AbsType) int {
	if tv, ok := g.Info.Types[e]; ok && tv.Value != nil && tv.Value.Kind() == constant.Bool {
		if constant.BoolVal(tv.Value) {
			return tvTrue
		}
		return tvFalse
	}
	return g.Eval(e, a)
}

// KindsMentioned collects the reflect kinds named in the given conditions (and predicate
// bodies reached from them).
func KindsMentioned(info *types.Info, nodes ...ast.Node) []string {
	seen := map[string]bool{}
	for _, n := range nodes {
		if n == nil {
			continue
		}
		ast.Inspect(n, func(x ast.Node) bool {
			if e, ok := x.(ast.Expr); ok {
				if k := kindName(info, e); k != "" {
					seen[k] = true
				}
			}
			return true
		})
	}
	var out []string
	for k := range seen {
		out = append(out, k)
	}
	sort.Strings(out)
	return out
}

// Universe: nil, and every (kind, named) combination over kinds ∪ {other}.
func Universe(kinds []string) []AbsType {
	out := []AbsType{{Nil: true}}
	for _, k := range append(append([]string{}, kinds...), "other") {
		out = append(out, AbsType{Kind: k}, AbsType{Kind: k, Named: true})
	}
	return out
}

// Feasible: the abstract types under which every condition of the path can have been
// decided the way the path took it.
func (g *TypeGuard) Feasible(atoms []Atom, universe []AbsType) []AbsType {
	var out []AbsType
	for _, a := range universe {
		ok := true
		for _, at := range atoms {
			switch at.Kind {
			case "cond":
				v := g.Eval(at.Node.(ast.Expr), a)
				if v != tvUnk && (v == tvTrue) != at.Taken {
					ok = false
				}
			case "case":
				// switch T.Kind() { case reflect.K: … }
				if at.Case == nil || at.Case.Tag == nil {
					continue
				}
				c, isCall := Unparen(at.Case.Tag).(*ast.CallExpr)
				if !isCall {
					continue
				}
				sel, isSel := c.Fun.(*ast.SelectorExpr)
				if !isSel || sel.Sel.Name != "Kind" || !g.Is(sel.X) || a.Nil {
					continue
				}
				if at.Case.Clause != nil && !at.Case.Default {
					hit := false
					for _, e := range at.Case.Clause.List {
						if kindName(g.Info, e) == a.Kind {
							hit = true
						}
					}
					if !hit {
						ok = false
					}
				}
			}
			if !ok {
				break
			}
		}
		if ok {
			out = append(out, a)
		}
	}
	return out
}

func AbsTypesString(as []AbsType) string {
	var s []string
	for _, a := range as {
		s = append(s, a.String())
	}
	return strings.Join(s, ", ")
}
