package eng

import (
	"fmt"
	"go/ast"
	"go/constant"
	"go/token"
	"go/types"
	"sort"
	"strings"

	"verif/exprlint/core"
)

// E2 — VM instruction signatures, extracted from the dispatch switch of (*VM).Run.

type Opcode struct {
	Name  string
	Value int64
	Obj   *types.Const
}

// FindOpcodes: the byte constants of the single iota block of package vm.
func FindOpcodes(p *core.Program) ([]*Opcode, string) {
	pk := p.Pkg("vm")
	var blocks [][]*Opcode
	for _, f := range pk.Syntax {
		for _, d := range f.Decls {
			gd, ok := d.(*ast.GenDecl)
			if !ok || gd.Tok != token.CONST {
				continue
			}
			usesIota := false
			var ops []*Opcode
			for _, sp := range gd.Specs {
				vs := sp.(*ast.ValueSpec)
				for _, v := range vs.Values {
					ast.Inspect(v, func(n ast.Node) bool {
						if id, ok := n.(*ast.Ident); ok && id.Name == "iota" {
							usesIota = true
						}
						return true
					})
				}
				for _, nm := range vs.Names {
					c, ok := pk.TypesInfo.Defs[nm].(*types.Const)
					if !ok {
						continue
					}
					if b, ok := c.Type().Underlying().(*types.Basic); !ok || b.Kind() != types.Uint8 {
						continue
					}
					v, _ := constant.Int64Val(c.Val())
					ops = append(ops, &Opcode{Name: nm.Name, Value: v, Obj: c})
				}
			}
			if usesIota && len(ops) >= 8 {
				blocks = append(blocks, ops)
			}
		}
	}
	if len(blocks) != 1 {
		return nil, fmt.Sprintf("expected one iota block of byte constants in package vm, found %d", len(blocks))
	}
	return blocks[0], ""
}

// VMEvent is one primitive effect of a handler path.
type VMEvent struct {
	Kind string // arg const pop peek push scope.get scope.open scope.close scopeload scopestore jump panic call loop memadd limitcheck
	Node ast.Node
	// value provenance
	ID          int      // index in the path's event list
	Expr        ast.Expr // push: pushed expression; call: the call
	Callee      string   // call: qualified callee name
	Fn          *types.Func
	Args        []*Origin  // call: origin of every argument
	Assert      types.Type // type asserted on this value where it is used (pop/const/peek)
	Dir         string     // jump: fwd/back
	CondOn      *Origin    // jump: origin of the condition (nil = unconditional)
	CondNeg     bool       // jump taken when the condition value is false
	Count       string     // loop: iteration count expression ("call.Size", "size")
	CountOrigin *Origin
	Body        [][]VMEvent // loop: events of each non-panicking body path
	Key         *Origin     // scope load/store: key
	Val         *Origin
	Amount      ast.Expr // memadd
}

// Origin says where a value comes from.
type Origin struct {
	Kind   string // pop peek const arg call param env lit other scopeload field
	Event  int    // index of the producing event (pop/peek/const/arg/call)
	PopIdx int    // pop: 1 = top of stack
	Expr   ast.Expr
	Assert types.Type // outermost type assertion applied
	Field  string     // field selected from the origin (call.Size)
	Base   *Origin
	KeyO   *Origin // scopeload: origin of the key
}

func (o *Origin) String() string {
	if o == nil {
		return "?"
	}
	s := o.Kind
	switch o.Kind {
	case "pop":
		s = fmt.Sprintf("pop#%d", o.PopIdx)
	case "field":
		s = o.Base.String() + "." + o.Field
	case "lit", "other", "param", "env":
		s = o.Kind + ":" + ExprStr(o.Expr)
	case "call":
		s = "call:" + ExprStr(o.Expr)
	}
	if o.Assert != nil {
		s += ".(" + types.TypeString(o.Assert, shortQual) + ")"
	}
	return s
}

func shortQual(p *types.Package) string { return p.Name() }

type HandlerPath struct {
	Events []VMEvent
	Term   string // fall panic return
	Conds  []string
}

type Handler struct {
	Op     *Opcode
	Clause *ast.CaseClause
	Paths  []HandlerPath
}

type VMModel struct {
	Prog                      *core.Program
	Run                       *ast.FuncDecl
	Switch                    *ast.SwitchStmt
	Opcodes                   []*Opcode
	ByName                    map[string]*Opcode
	Handlers                  map[string]*Handler
	HasDefault, DefaultPanics bool
	Prims                     map[*types.Func]string // *VM methods recognised as primitives: push pop peek arg const scope
	VMType                    *types.Named
	Fields                    map[string]*types.Var
	Nested                    map[*types.Var]*types.Var // field of a record-typed VM field -> that VM field
	Problems                  []string
	EnvParam, ProgParam       types.Object
	Defs                      *LocalDefs // single-definition locals of package vm (matchers look through them)
	roles                     map[string]*types.Var
}

// stack/bytecode/... field roles of the VM struct, found by type and use.
type vmRoles struct {
	stack, bytecode, constants, ip, scopes string
}

// BuildVMModel locates the dispatch loop and extracts the events of every handler.
func BuildVMModel(p *core.Program) (*VMModel, string) {
	pk := p.Pkg("vm")
	info := pk.TypesInfo
	ops, msg := FindOpcodes(p)
	if ops == nil {
		return nil, msg
	}
	m := &VMModel{Prog: p, Opcodes: ops, ByName: map[string]*Opcode{}, Handlers: map[string]*Handler{}, Prims: map[*types.Func]string{}, Fields: map[string]*types.Var{}}
	byObj := map[types.Object]*Opcode{}
	for _, o := range ops {
		m.ByName[o.Name] = o
		byObj[o.Obj] = o
	}
	vmObj, _ := pk.Types.Scope().Lookup("VM").(*types.TypeName)
	if vmObj == nil {
		return nil, "type vm.VM not found"
	}
	m.VMType = vmObj.Type().(*types.Named)
	st, ok := m.VMType.Underlying().(*types.Struct)
	if !ok {
		return nil, "vm.VM is not a struct"
	}
	for i := 0; i < st.NumFields(); i++ {
		m.Fields[st.Field(i).Name()] = st.Field(i)
		// the fields of a record kept in a field (`budget allocBudget{used, limit}`) belong to
		// the machine's state like its own
		if nt, ok := st.Field(i).Type().(*types.Named); ok && nt.Obj().Pkg() == m.Prog.Pkg("vm").Types {
			if ns, ok := nt.Underlying().(*types.Struct); ok {
				if m.Nested == nil {
					m.Nested = map[*types.Var]*types.Var{}
				}
				for j := 0; j < ns.NumFields(); j++ {
					m.Nested[ns.Field(j)] = st.Field(i)
				}
			}
		}
	}
	m.Run = p.FuncDecl("vm", "VM", "Run")
	if m.Run == nil || m.Run.Body == nil {
		return nil, "(*vm.VM).Run not found"
	}
	if ps := m.Run.Type.Params; ps != nil {
		var names []*ast.Ident
		for _, f := range ps.List {
			names = append(names, f.Names...)
		}
		if len(names) == 2 {
			m.ProgParam, m.EnvParam = info.Defs[names[0]], info.Defs[names[1]]
		}
	}
	// dispatch switch: the switch of Run with the most opcode-constant case labels
	best := 0
	ast.Inspect(m.Run.Body, func(n ast.Node) bool {
		sw, ok := n.(*ast.SwitchStmt)
		if !ok || sw.Tag == nil {
			return true
		}
		cnt := 0
		for _, c := range sw.Body.List {
			for _, e := range c.(*ast.CaseClause).List {
				if id, ok := Unparen(e).(*ast.Ident); ok && byObj[info.Uses[id]] != nil {
					cnt++
				}
			}
		}
		if cnt > best {
			best, m.Switch = cnt, sw
		}
		return true
	})
	if m.Switch == nil || best < 8 {
		return nil, "dispatch switch over opcodes not found in (*VM).Run"
	}
	var files []ast.Node
	for _, f := range pk.Syntax {
		files = append(files, f)
	}
	m.Defs = SingleDefsOf(info, files...)
	m.classifyPrims()

	vmMethods := map[*types.Func]*ast.FuncDecl{}
	for _, fd := range p.FuncDecls("vm") {
		if core.RecvName(fd) == "VM" && fd.Body != nil && fd != m.Run {
			if f, ok := info.Defs[fd.Name].(*types.Func); ok {
				// a value receiver works on a copy: its writes to the machine are lost, so its
				// body is not part of the handler that calls it
				if len(fd.Recv.List) == 1 {
					if _, isPtr := fd.Recv.List[0].Type.(*ast.StarExpr); !isPtr {
						writes := false
						ast.Inspect(fd.Body, func(n ast.Node) bool {
							if as, ok := n.(*ast.AssignStmt); ok {
								for _, l := range as.Lhs {
									if sel, ok := Unparen(l).(*ast.SelectorExpr); ok {
										if s := info.Selections[sel]; s != nil && s.Kind() == types.FieldVal {
											writes = true
										}
									}
								}
							}
							return true
						})
						if writes {
							m.Problems = append(m.Problems, "method "+fd.Name.Name+" has a value receiver and assigns fields of the machine: the assignments are lost")
							continue
						}
					}
				}
				vmMethods[f] = fd
			}
		}
	}
	for _, c := range m.Switch.Body.List {
		cc := c.(*ast.CaseClause)
		if cc.List == nil {
			m.HasDefault = true
			m.DefaultPanics = bodyPanics(cc.Body)
			continue
		}
		for _, e := range cc.List {
			id, ok := Unparen(e).(*ast.Ident)
			if !ok {
				continue
			}
			op := byObj[info.Uses[id]]
			if op == nil {
				continue
			}
			w := &Walker{Info: info, MaxDepth: 3}
			w.Inline = func(call *ast.CallExpr, depth int) (*ast.BlockStmt, *ast.FuncDecl) {
				fn := CalleeOf(info, call)
				if fn == nil || m.Prims[fn] != "" {
					return nil, nil
				}
				if fd := vmMethods[fn]; fd != nil {
					return fd.Body, fd
				}
				return nil, nil
			}
			paths := w.list(cc.Body, []Path{{}}, 0)
			if w.Overflow {
				m.Problems = append(m.Problems, "path overflow in handler "+op.Name)
			}
			h := &Handler{Op: op, Clause: cc}
			for _, path := range paths {
				if path.Term == "" {
					path.Term = "fall"
				}
				hp := m.interpretFor(path, op)
				if hp.Term == "infeasible" {
					continue // a test of the dispatch variable against another opcode of a shared clause
				}
				h.Paths = append(h.Paths, hp)
			}
			m.Handlers[op.Name] = h
		}
	}
	return m, ""
}

// classifyPrims recognises the primitive *VM methods by what their bodies do.
func (m *VMModel) classifyPrims() {
	p := m.Prog
	info := p.Pkg("vm").TypesInfo
	for round := 0; round < 2; round++ {
		for _, fd := range p.FuncDecls("vm") {
			if core.RecvName(fd) != "VM" || fd.Body == nil || fd == m.Run {
				continue
			}
			fn, _ := info.Defs[fd.Name].(*types.Func)
			if fn == nil || m.Prims[fn] != "" {
				continue
			}
			var appendStack, shrinkStack, readTop, ipAdd2, readBytecode, readConstants, readScopes, other int
			var callsArg bool
			ast.Inspect(fd.Body, func(n ast.Node) bool {
				switch s := n.(type) {
				case *ast.AssignStmt:
					if len(s.Lhs) == 1 && len(s.Rhs) == 1 && m.isField(info, s.Lhs[0], "stack") {
						if c, ok := s.Rhs[0].(*ast.CallExpr); ok {
							if id, ok := c.Fun.(*ast.Ident); ok && id.Name == "append" && len(c.Args) == 2 && m.isField(info, c.Args[0], "stack") {
								appendStack++
							}
						}
						if sl, ok := s.Rhs[0].(*ast.SliceExpr); ok && m.isField(info, sl.X, "stack") && sl.Low == nil && m.isLenMinus(info, sl.High, "stack", 1) {
							shrinkStack++
						}
					}
					if len(s.Lhs) == 1 && m.isField(info, s.Lhs[0], "ip") && s.Tok == token.ADD_ASSIGN {
						if tv, ok := info.Types[s.Rhs[0]]; ok && tv.Value != nil && tv.Value.ExactString() == "2" {
							ipAdd2++
						}
					}
				case *ast.IndexExpr:
					if m.isField(info, s.X, "stack") && m.isLenMinus(info, s.Index, "stack", 1) {
						readTop++
					}
					if m.isField(info, s.X, "bytecode") {
						readBytecode++
					}
					if m.isField(info, s.X, "constants") {
						readConstants++
						if c, ok := m.Defs.Resolve(s.Index).(*ast.CallExpr); ok {
							if f := CalleeOf(info, c); f != nil && m.Prims[f] == "arg" {
								callsArg = true
							}
						}
					}
					if m.isField(info, s.X, "scopes") {
						readScopes++
					}
				case *ast.CallExpr:
					// the top read through the peek primitive (`value := m.current()`)
					if f := CalleeOf(info, s); f != nil && m.Prims[f] == "peek" {
						readTop++
					}
				case *ast.SendStmt, *ast.GoStmt:
					other++
				}
				return true
			})
			switch {
			case appendStack == 1 && shrinkStack == 0 && readTop == 0:
				m.Prims[fn] = "push"
			case shrinkStack == 1 && readTop == 1 && appendStack == 0:
				m.Prims[fn] = "pop"
			case readTop == 1 && shrinkStack == 0 && appendStack == 0 && fd.Type.Results != nil:
				m.Prims[fn] = "peek"
			case ipAdd2 == 1 && readBytecode == 2:
				m.Prims[fn] = "arg"
			case readConstants == 1 && callsArg:
				m.Prims[fn] = "const"
			case readScopes >= 1 && appendStack+shrinkStack+readTop == 0 && fd.Type.Results != nil && fd.Type.Results.NumFields() == 1:
				if t := info.TypeOf(fd.Type.Results.List[0].Type); t != nil {
					if _, isMap := t.Underlying().(*types.Map); isMap {
						m.Prims[fn] = "scope"
					}
				}
			}
		}
	}
}

func (m *VMModel) isField(info *types.Info, e ast.Expr, field string) bool {
	sel, ok := Unparen(e).(*ast.SelectorExpr)
	if !ok {
		return false
	}
	s := info.Selections[sel]
	if s == nil || s.Kind() != types.FieldVal {
		return false
	}
	return s.Obj() == types.Object(m.roleField(field))
}

// roleField maps a role to the VM field: by name, else by type (the only []interface{} … ).
func (m *VMModel) roleField(role string) *types.Var {
	if f := m.Fields[role]; f != nil {
		return f
	}
	if m.roles == nil {
		m.inferRoles()
	}
	return m.roles[role]
}

// RoleField is roleField for clients.
func (m *VMModel) RoleField(role string) *types.Var { return m.roleField(role) }

// inferRoles finds, when the fields are not called `limit` and `memory`, the budget pair by
// use: the limit is the int field assigned from a package-level variable in a *VM method; the
// counter is the other int field compared with it in a condition.
func (m *VMModel) inferRoles() {
	m.roles = map[string]*types.Var{}
	info := m.Prog.Pkg("vm").TypesInfo
	fieldOf := func(e ast.Expr) *types.Var {
		sel, ok := Unparen(e).(*ast.SelectorExpr)
		if !ok {
			return nil
		}
		s := info.Selections[sel]
		if s == nil || s.Kind() != types.FieldVal {
			return nil
		}
		f, _ := s.Obj().(*types.Var)
		for _, mf := range m.Fields {
			if mf == f {
				return f
			}
		}
		if m.Nested[f] != nil {
			return f
		}
		return nil
	}
	isInt := func(f *types.Var) bool {
		b, ok := f.Type().Underlying().(*types.Basic)
		return ok && b.Kind() == types.Int
	}
	var limit *types.Var
	for _, fd := range m.Prog.FuncDecls("vm") {
		if fd.Body == nil || core.RecvName(fd) != m.VMType.Obj().Name() {
			continue
		}
		ast.Inspect(fd.Body, func(n ast.Node) bool {
			as, ok := n.(*ast.AssignStmt)
			if !ok || len(as.Lhs) != len(as.Rhs) || as.Tok != token.ASSIGN {
				return true
			}
			pkgVar := func(e ast.Expr) bool {
				id, ok := Unparen(e).(*ast.Ident)
				if !ok {
					return false
				}
				v, ok := info.Uses[id].(*types.Var)
				return ok && v.Parent() == m.Prog.Pkg("vm").Types.Scope()
			}
			for i, l := range as.Lhs {
				f := fieldOf(l)
				if f == nil {
					continue
				}
				// vm.budget = allocBudget{limit: MemoryBudget}: the record's field that receives
				// the package-level variable
				if cl, ok := Unparen(as.Rhs[i]).(*ast.CompositeLit); ok {
					if st, ok := f.Type().Underlying().(*types.Struct); ok {
						for k, el := range cl.Elts {
							var nf *types.Var
							val := el
							if kv, ok := el.(*ast.KeyValueExpr); ok {
								val = kv.Value
								if kid, ok := kv.Key.(*ast.Ident); ok {
									for j := 0; j < st.NumFields(); j++ {
										if st.Field(j).Name() == kid.Name {
											nf = st.Field(j)
										}
									}
								}
							} else if k < st.NumFields() {
								nf = st.Field(k)
							}
							if nf != nil && m.Nested[nf] == f && isInt(nf) && pkgVar(val) {
								limit = nf
							}
						}
					}
					continue
				}
				if !isInt(f) {
					continue
				}
				if pkgVar(as.Rhs[i]) {
					limit = f
				}
			}
			return true
		})
	}
	if limit == nil {
		return
	}
	m.roles["limit"] = limit
	for _, fd := range m.Prog.FuncDecls("vm") {
		if fd.Body == nil || core.RecvName(fd) != m.VMType.Obj().Name() {
			continue
		}
		ast.Inspect(fd.Body, func(n ast.Node) bool {
			is, ok := n.(*ast.IfStmt)
			if !ok {
				return true
			}
			hasLimit := false
			var others []*types.Var
			ast.Inspect(is.Cond, func(c ast.Node) bool {
				if e, ok := c.(ast.Expr); ok {
					if f := fieldOf(e); f != nil {
						if f == limit {
							hasLimit = true
						} else if isInt(f) {
							others = append(others, f)
						}
					}
				}
				return true
			})
			if hasLimit && len(others) == 1 && m.roles["memory"] == nil {
				m.roles["memory"] = others[0]
			}
			return true
		})
	}
}

func (m *VMModel) isLenMinus(info *types.Info, e ast.Expr, field string, k int) bool {
	if e == nil {
		return false
	}
	be, ok := m.Defs.Resolve(e).(*ast.BinaryExpr)
	if !ok || be.Op != token.SUB {
		return false
	}
	c, ok := m.Defs.Resolve(be.X).(*ast.CallExpr)
	if !ok || len(c.Args) != 1 {
		return false
	}
	if id, ok := c.Fun.(*ast.Ident); !ok || id.Name != "len" {
		return false
	}
	if !m.isField(info, c.Args[0], field) {
		return false
	}
	tv, ok := info.Types[be.Y]
	return ok && tv.Value != nil && tv.Value.ExactString() == fmt.Sprint(k)
}

// interpret turns a syntactic path into VM events with value provenance.
func (m *VMModel) interpret(path Path) HandlerPath { return m.interpretFor(path, nil) }

// interpretFor interprets a path of a clause for one of its opcode labels: tests of the dispatch
// variable against opcode constants are decided (a clause shared by two opcodes that differ in
// one such test is read once per opcode).
func (m *VMModel) interpretFor(path Path, op *Opcode) HandlerPath {
	info := m.Prog.Pkg("vm").TypesInfo
	hp := HandlerPath{Term: path.Term}
	it := &vmInterp{m: m, info: info, callEv: map[*ast.CallExpr]int{}, vars: map[types.Object]*Origin{}, op: op, bools: map[types.Object]bool{}}
	if id, ok := Unparen(m.Switch.Tag).(*ast.Ident); ok {
		it.tag = info.Uses[id]
	}
	it.run(path.Atoms, &hp)
	if it.infeasible {
		hp.Term = "infeasible"
	}
	return hp
}

// boolConst: the truth value of e when it is decided by the opcode being interpreted.
func (it *vmInterp) boolConst(e ast.Expr) (bool, bool) {
	e = Unparen(e)
	switch x := e.(type) {
	case *ast.Ident:
		if v, ok := it.bools[it.info.Uses[x]]; ok {
			return v, true
		}
		if tv, ok := it.info.Types[e]; ok && tv.Value != nil && tv.Value.Kind() == constant.Bool {
			return constant.BoolVal(tv.Value), true
		}
	case *ast.UnaryExpr:
		if x.Op == token.NOT {
			if v, ok := it.boolConst(x.X); ok {
				return !v, true
			}
		}
	case *ast.BinaryExpr:
		if (x.Op == token.EQL || x.Op == token.NEQ) && it.op != nil && it.tag != nil {
			for _, side := range [][2]ast.Expr{{x.X, x.Y}, {x.Y, x.X}} {
				tid, ok1 := Unparen(side[0]).(*ast.Ident)
				cid, ok2 := Unparen(side[1]).(*ast.Ident)
				if ok1 && ok2 && it.info.Uses[tid] == it.tag {
					if o := it.m.opByObj(it.info.Uses[cid]); o != nil {
						return (o == it.op) == (x.Op == token.EQL), true
					}
				}
			}
		}
	}
	return false, false
}

// normCond reduces a condition to (base, negated): `!X`, `X == true|false` and `X == <decided>`
// are tests of X.
func (it *vmInterp) normCond(e ast.Expr) (ast.Expr, bool) {
	neg := false
	for i := 0; i < 6; i++ {
		e = Unparen(e)
		if u, ok := e.(*ast.UnaryExpr); ok && u.Op == token.NOT {
			e, neg = u.X, !neg
			continue
		}
		if b, ok := e.(*ast.BinaryExpr); ok && (b.Op == token.EQL || b.Op == token.NEQ) {
			if v, ok := it.boolConst(b.Y); ok {
				e = b.X
				if v != (b.Op == token.EQL) {
					neg = !neg
				}
				continue
			}
			if v, ok := it.boolConst(b.X); ok {
				e = b.Y
				if v != (b.Op == token.EQL) {
					neg = !neg
				}
				continue
			}
		}
		break
	}
	return e, neg
}

func (m *VMModel) opByObj(obj types.Object) *Opcode {
	for _, o := range m.Opcodes {
		if types.Object(o.Obj) == obj {
			return o
		}
	}
	return nil
}

type vmInterp struct {
	m      *VMModel
	info   *types.Info
	callEv map[*ast.CallExpr]int
	vars   map[types.Object]*Origin
	pops   int
	retVal map[*ast.CallExpr]*Origin
	frames []*ast.CallExpr
	conds  []condInfo
	loadEv map[ast.Expr]bool
	// per-opcode specialisation
	op         *Opcode
	tag        types.Object
	bools      map[types.Object]bool
	infeasible bool
}

func (it *vmInterp) emit(hp *HandlerPath, e VMEvent) int {
	e.ID = len(hp.Events)
	hp.Events = append(hp.Events, e)
	return e.ID
}

func (it *vmInterp) origin(hp *HandlerPath, e ast.Expr) *Origin {
	e = Unparen(e)
	switch x := e.(type) {
	case *ast.Ident:
		obj := it.info.Uses[x]
		if obj == nil {
			obj = it.info.Defs[x]
		}
		if o, ok := it.vars[obj]; ok {
			return o
		}
		if obj != nil && obj == it.m.EnvParam {
			return &Origin{Kind: "env", Expr: e}
		}
		if tv, ok := it.info.Types[e]; ok && tv.Value != nil {
			return &Origin{Kind: "lit", Expr: e}
		}
		if x.Name == "nil" || x.Name == "true" || x.Name == "false" {
			return &Origin{Kind: "lit", Expr: e}
		}
		return &Origin{Kind: "other", Expr: e}
	case *ast.BasicLit:
		return &Origin{Kind: "lit", Expr: e}
	case *ast.CallExpr:
		if id, ok := it.callEv[x]; ok {
			ev := hp.Events[id]
			switch ev.Kind {
			case "pop":
				return &Origin{Kind: "pop", Event: id, PopIdx: popIndex(hp, id), Expr: e}
			case "peek", "const", "arg", "scope.get":
				return &Origin{Kind: ev.Kind, Event: id, Expr: e, Assert: ev.Assert}
			case "call":
				return &Origin{Kind: "call", Event: id, Expr: e}
			}
		}
		if it.retVal != nil {
			if o, ok := it.retVal[x]; ok && o != nil {
				return o
			}
		}
		// conversion T(x)
		if tv, ok := it.info.Types[x.Fun]; ok && tv.IsType() && len(x.Args) == 1 {
			o := it.origin(hp, x.Args[0])
			return &Origin{Kind: "conv", Base: o, Expr: e, Event: -1}
		}
		return &Origin{Kind: "other", Expr: e}
	case *ast.TypeAssertExpr:
		o := it.origin(hp, x.X)
		c := *o
		if x.Type != nil {
			c.Assert = it.info.TypeOf(x.Type)
			if o.Event >= 0 && o.Event < len(hp.Events) && (o.Kind == "pop" || o.Kind == "const" || o.Kind == "peek" || o.Kind == "scopeload") {
				hp.Events[o.Event].Assert = c.Assert
			}
		}
		return &c
	case *ast.SelectorExpr:
		if sel := it.info.Selections[x]; sel != nil && sel.Kind() == types.FieldVal {
			return &Origin{Kind: "field", Base: it.origin(hp, x.X), Field: x.Sel.Name, Expr: e}
		}
		return &Origin{Kind: "other", Expr: e}
	case *ast.IndexExpr:
		// scope[key]
		if b := it.origin(hp, x.X); b.Kind == "scope.get" {
			if it.loadEv == nil {
				it.loadEv = map[ast.Expr]bool{}
			}
			ko := it.origin(hp, x.Index)
			if !it.loadEv[e] {
				it.loadEv[e] = true
				it.emit(hp, VMEvent{Kind: "scopeload", Node: e, Key: ko})
			}
			return &Origin{Kind: "scopeload", Base: b, Expr: e, Event: -1, KeyO: ko}
		}
		// vm.constants[vm.arg()]
		if it.m.isField(it.info, x.X, "constants") {
			if a := it.origin(hp, x.Index); a.Kind == "arg" {
				hp.Events[a.Event].Kind = "const"
				return &Origin{Kind: "const", Event: a.Event, Expr: e}
			}
		}
		return &Origin{Kind: "other", Expr: e}
	case *ast.UnaryExpr:
		if x.Op == token.NOT {
			o := it.origin(hp, x.X)
			return &Origin{Kind: "not", Base: o, Expr: e, Event: -1}
		}
	case *ast.BinaryExpr:
		// operands are evaluated (their loads are events); X + 1 / X - 1 is an increment of X
		l := it.origin(hp, x.X)
		r := it.origin(hp, x.Y)
		isOne := func(y ast.Expr) bool {
			tv, ok := it.info.Types[y]
			return ok && tv.Value != nil && tv.Value.ExactString() == "1"
		}
		switch {
		case x.Op == token.ADD && isOne(x.Y):
			return &Origin{Kind: "incr", Base: l, Expr: e, Event: -1, Field: "++"}
		case x.Op == token.ADD && isOne(x.X):
			return &Origin{Kind: "incr", Base: r, Expr: e, Event: -1, Field: "++"}
		case x.Op == token.SUB && isOne(x.Y):
			return &Origin{Kind: "incr", Base: l, Expr: e, Event: -1, Field: "--"}
		}
	}
	return &Origin{Kind: "other", Expr: e}
}

func popIndex(hp *HandlerPath, id int) int {
	n := 0
	for i := 0; i <= id && i < len(hp.Events); i++ {
		if hp.Events[i].Kind == "pop" {
			n++
		}
	}
	return n
}

func (it *vmInterp) run(atoms []Atom, hp *HandlerPath) {
	info := it.info
	m := it.m
	for _, a := range atoms {
		switch a.Kind {
		case "enter":
			// bind parameters of the inlined *VM method
			if a.Callee != nil && a.Callee.Type.Params != nil {
				i := 0
				for _, f := range a.Callee.Type.Params.List {
					for _, nm := range f.Names {
						if i < len(a.Call.Args) {
							it.vars[info.Defs[nm]] = it.origin(hp, a.Call.Args[i])
						}
						i++
					}
				}
			}
			it.frames = append(it.frames, a.Call)
		case "leave":
			if len(it.frames) > 0 {
				it.frames = it.frames[:len(it.frames)-1]
			}
		case "return":
			if len(it.frames) > 0 {
				rs := a.Node.(*ast.ReturnStmt)
				if len(rs.Results) == 1 {
					if it.retVal == nil {
						it.retVal = map[*ast.CallExpr]*Origin{}
					}
					it.retVal[it.frames[len(it.frames)-1]] = it.origin(hp, rs.Results[0])
				}
			}
		case "cond":
			hp.Conds = append(hp.Conds, fmt.Sprintf("%s=%v", ExprStr(a.Node), a.Taken))
			// memory limit check: a comparison that mentions vm.limit
			c := a.Node.(ast.Expr)
			if v, ok := it.boolConst(c); ok && v != a.Taken {
				it.infeasible = true
			}
			if be, ok := Unparen(c).(*ast.BinaryExpr); ok {
				if mentionsField(m, info, be, "limit") {
					it.emit(hp, VMEvent{Kind: "limitcheck", Node: be, Expr: be, Dir: fmt.Sprint(a.Taken)})
				}
			}
			it.conds = append(it.conds, condInfo{expr: c, taken: a.Taken, owner: a.Owner})
		case "join":
			for len(it.conds) > 0 && it.conds[len(it.conds)-1].owner == a.Owner {
				it.conds = it.conds[:len(it.conds)-1]
			}
		case "case":
			if a.Case != nil {
				lab := "<none>"
				if a.Case.Clause != nil {
					var ls []string
					for _, e := range a.Case.Clause.List {
						ls = append(ls, ExprStr(e))
					}
					lab = strings.Join(ls, ",")
					if a.Case.Default {
						lab = "default"
					}
				}
				hp.Conds = append(hp.Conds, ExprStr(a.Case.Tag)+"~"+lab)
			}
		case "panic":
			it.emit(hp, VMEvent{Kind: "panic", Node: a.Node, Expr: a.Call})
		case "call":
			call := a.Call
			fn := CalleeOf(info, call)
			switch m.Prims[fn] {
			case "push":
				if len(call.Args) == 1 {
					o := it.origin(hp, call.Args[0])
					it.emit(hp, VMEvent{Kind: "push", Node: call, Expr: call.Args[0], Val: o})
				}
				continue
			case "pop":
				it.callEv[call] = it.emit(hp, VMEvent{Kind: "pop", Node: call})
				continue
			case "peek":
				it.callEv[call] = it.emit(hp, VMEvent{Kind: "peek", Node: call})
				continue
			case "arg":
				it.callEv[call] = it.emit(hp, VMEvent{Kind: "arg", Node: call})
				continue
			case "const":
				ev := VMEvent{Kind: "const", Node: call}
				// a typed operand decoder (`func (vm *VM) call() Call`) asserts inside
				if t := info.TypeOf(call); t != nil && !isEmptyInterface(t) {
					ev.Assert = t
				}
				it.callEv[call] = it.emit(hp, ev)
				continue
			case "scope":
				it.callEv[call] = it.emit(hp, VMEvent{Kind: "scope.get", Node: call})
				continue
			}
			// builtins make/append/len etc. are not events, except append to vm.scopes (handled in assign)
			if id, ok := call.Fun.(*ast.Ident); ok {
				if _, isB := info.Uses[id].(*types.Builtin); isB {
					continue
				}
			}
			if tv, ok := info.Types[call.Fun]; ok && tv.IsType() {
				continue // conversion
			}
			ev := VMEvent{Kind: "call", Node: call, Expr: call, Fn: fn}
			if fn != nil {
				ev.Callee = fn.FullName()
			} else {
				ev.Callee = ExprStr(call.Fun)
			}
			for _, arg := range call.Args {
				ev.Args = append(ev.Args, it.origin(hp, arg))
			}
			// method value receiver, e.g. FetchFn(env, name).Call(in): receiver origin first
			if sel, ok := call.Fun.(*ast.SelectorExpr); ok {
				if s := info.Selections[sel]; s != nil {
					ev.Key = it.origin(hp, sel.X)
				}
			}
			it.callEv[call] = it.emit(hp, ev)
		case "assign":
			as := a.Node.(*ast.AssignStmt)
			it.assign(hp, as)
		case "decl":
			ds := a.Node.(*ast.DeclStmt)
			if gd, ok := ds.Decl.(*ast.GenDecl); ok {
				for _, sp := range gd.Specs {
					if vs, ok := sp.(*ast.ValueSpec); ok {
						for i, nm := range vs.Names {
							if i < len(vs.Values) {
								it.vars[info.Defs[nm]] = it.origin(hp, vs.Values[i])
							} else if len(vs.Values) == 0 {
								// `var result interface{}`: the zero value until assigned on this path
								it.vars[info.Defs[nm]] = &Origin{Kind: "zero", Event: -1, Expr: nm}
							}
						}
					}
				}
			}
		case "incdec":
			ids := a.Node.(*ast.IncDecStmt)
			if id, ok := ids.X.(*ast.Ident); ok {
				obj := info.Uses[id]
				if o, ok := it.vars[obj]; ok {
					it.vars[obj] = &Origin{Kind: "incr", Base: o, Expr: ids.X, Event: -1, Field: ids.Tok.String()}
				}
			}
		case "loop":
			it.loop(hp, a)
		}
	}
}

type condInfo struct {
	expr  ast.Expr
	taken bool
	owner ast.Stmt
}

func mentionsField(m *VMModel, info *types.Info, e ast.Expr, field string) bool {
	found := false
	ast.Inspect(e, func(n ast.Node) bool {
		if x, ok := n.(ast.Expr); ok && m.isField(info, x, field) {
			found = true
		}
		return !found
	})
	return found
}

func (it *vmInterp) assign(hp *HandlerPath, as *ast.AssignStmt) {
	info, m := it.info, it.m
	// vm.ip += int(offset) / vm.ip -= int(offset)
	if len(as.Lhs) == 1 && m.isField(info, as.Lhs[0], "ip") && (as.Tok == token.ADD_ASSIGN || as.Tok == token.SUB_ASSIGN) {
		o := it.origin(hp, as.Rhs[0])
		base := o
		for base != nil && base.Kind == "conv" {
			base = base.Base
		}
		if base != nil && base.Kind == "arg" {
			ev := VMEvent{Kind: "jump", Node: as, Dir: "fwd"}
			if as.Tok == token.SUB_ASSIGN {
				ev.Dir = "back"
			}
			if n := len(it.conds); n > 0 {
				// the innermost enclosing condition decides the jump
				lc := it.conds[n-1]
				base, neg := it.normCond(lc.expr)
				ev.CondOn = it.origin(hp, base)
				ev.CondNeg = neg == lc.taken
				if n > 1 {
					ev.Dir += "?nested"
				}
			}
			it.emit(hp, ev)
			return
		}
		it.emit(hp, VMEvent{Kind: "ipwrite", Node: as})
		return
	}
	// vm.memory += X
	if len(as.Lhs) == 1 && m.isField(info, as.Lhs[0], "memory") {
		it.emit(hp, VMEvent{Kind: "memadd", Node: as, Amount: as.Rhs[0], Dir: as.Tok.String(), Val: it.origin(hp, as.Rhs[0])})
		return
	}
	// vm.scopes = append(vm.scopes, scope) / vm.scopes = vm.scopes[:len-1]
	if len(as.Lhs) == 1 && m.isField(info, as.Lhs[0], "scopes") {
		if c, ok := as.Rhs[0].(*ast.CallExpr); ok {
			if id, ok := c.Fun.(*ast.Ident); ok && id.Name == "append" {
				it.emit(hp, VMEvent{Kind: "scope.open", Node: as})
				return
			}
		}
		if sl, ok := as.Rhs[0].(*ast.SliceExpr); ok && m.isLenMinus(info, sl.High, "scopes", 1) && sl.Low == nil {
			it.emit(hp, VMEvent{Kind: "scope.close", Node: as})
			return
		}
		it.emit(hp, VMEvent{Kind: "scope.other", Node: as})
		return
	}
	// vm.stack direct manipulation inside a handler
	if len(as.Lhs) == 1 && m.isField(info, as.Lhs[0], "stack") {
		if c, ok := as.Rhs[0].(*ast.CallExpr); ok {
			if id, ok := c.Fun.(*ast.Ident); ok && id.Name == "append" && len(c.Args) == 2 {
				it.emit(hp, VMEvent{Kind: "push", Node: as, Expr: c.Args[1], Val: it.origin(hp, c.Args[1])})
				return
			}
		}
		if sl, ok := as.Rhs[0].(*ast.SliceExpr); ok && m.isLenMinus(info, sl.High, "stack", 1) && sl.Low == nil {
			it.emit(hp, VMEvent{Kind: "pop", Node: as})
			return
		}
		it.emit(hp, VMEvent{Kind: "stack.other", Node: as})
		return
	}
	// scope[key] = value
	if len(as.Lhs) == 1 {
		if ix, ok := as.Lhs[0].(*ast.IndexExpr); ok {
			if b := it.origin(hp, ix.X); b.Kind == "scope.get" {
				it.emit(hp, VMEvent{Kind: "scopestore", Node: as, Key: it.origin(hp, ix.Index), Val: it.origin(hp, as.Rhs[0])})
				return
			}
		}
	}
	// v += 1 / v -= 1 on a local
	if as.Tok != token.ASSIGN && as.Tok != token.DEFINE {
		if len(as.Lhs) == 1 && len(as.Rhs) == 1 {
			if id, ok := as.Lhs[0].(*ast.Ident); ok {
				obj := info.Uses[id]
				cur := it.vars[obj]
				it.origin(hp, as.Rhs[0])
				tv, isC := info.Types[as.Rhs[0]]
				if cur != nil && isC && tv.Value != nil && tv.Value.ExactString() == "1" && (as.Tok == token.ADD_ASSIGN || as.Tok == token.SUB_ASSIGN) {
					f := "++"
					if as.Tok == token.SUB_ASSIGN {
						f = "--"
					}
					it.vars[obj] = &Origin{Kind: "incr", Base: cur, Expr: as.Lhs[0], Event: -1, Field: f}
				} else {
					it.vars[obj] = &Origin{Kind: "other", Expr: as.Lhs[0]}
				}
			}
		}
		return
	}
	// plain variable bindings
	if len(as.Lhs) == len(as.Rhs) {
		for i, l := range as.Lhs {
			if id, ok := l.(*ast.Ident); ok && id.Name != "_" {
				obj := info.Defs[id]
				if obj == nil {
					obj = info.Uses[id]
				}
				if v, ok := it.boolConst(as.Rhs[i]); ok && it.bools != nil {
					it.bools[obj] = v
				} else if it.bools != nil {
					delete(it.bools, obj)
				}
				o := it.origin(hp, as.Rhs[i])
				it.vars[obj] = o
			}
		}
	} else if len(as.Rhs) == 1 {
		o := it.origin(hp, as.Rhs[0])
		for i, l := range as.Lhs {
			if id, ok := l.(*ast.Ident); ok && id.Name != "_" {
				obj := info.Defs[id]
				if obj == nil {
					obj = info.Uses[id]
				}
				if i == 0 {
					it.vars[obj] = o
				} else {
					it.vars[obj] = &Origin{Kind: "other", Expr: l}
				}
			}
		}
	}
}

func stripAssert(e ast.Expr) ast.Expr {
	e = Unparen(e)
	if ta, ok := e.(*ast.TypeAssertExpr); ok {
		return ta.X
	}
	return e
}

func stripNot(e ast.Expr) ast.Expr {
	e = Unparen(e)
	if u, ok := e.(*ast.UnaryExpr); ok && u.Op == token.NOT {
		return u.X
	}
	return e
}

func isNot(e ast.Expr) bool {
	u, ok := Unparen(e).(*ast.UnaryExpr)
	return ok && u.Op == token.NOT
}

// loop: counted loops `for i := N - 1; i >= 0; i--` and `for i := 0; i < N; i++`.
func (it *vmInterp) loop(hp *HandlerPath, a Atom) {
	ev := VMEvent{Kind: "loop", Node: a.Node}
	// trip count: whatever the loop's idiom, when it is one opaque quantity (a popped count,
	// the Size field of the call constant, the length of a slice made with it)
	symExpr := map[string]ast.Expr{}
	env := &AffEnv{Info: it.info, Vars: map[types.Object]Aff{}}
	env.Sym = func(e ast.Expr) (string, bool) {
		switch x := Unparen(e).(type) {
		case *ast.SelectorExpr:
			if sel := it.info.Selections[x]; sel != nil && sel.Kind() == types.FieldVal {
				k := ExprStr(x)
				symExpr[k] = x
				return k, true
			}
		case *ast.Ident:
			if v, ok := it.info.Uses[x].(*types.Var); ok && v != nil {
				symExpr[x.Name] = x
				return x.Name, true
			}
		}
		return "", false
	}
	lenOf := func(e ast.Expr) (Aff, bool) {
		if id, ok := Unparen(e).(*ast.Ident); ok {
			if o := it.vars[it.info.Uses[id]]; o != nil && o.Expr != nil {
				if c, ok := Unparen(o.Expr).(*ast.CallExpr); ok && len(c.Args) >= 2 {
					if fid, ok := c.Fun.(*ast.Ident); ok && fid.Name == "make" {
						return env.Eval(c.Args[1])
					}
				}
			}
		}
		return Aff{}, false
	}
	if cl := AnalyseCountedLoop(it.info, env, a.Loop, lenOf); cl.OK && cl.Trips.C == 0 && len(cl.Trips.T) == 1 {
		for sym, c := range cl.Trips.T {
			if ex := symExpr[sym]; c == 1 && ex != nil {
				ev.Count = ExprStr(ex)
				ev.CountOrigin = it.origin(hp, ex)
			}
		}
	}
	for _, bp := range a.Body {
		sub := HandlerPath{Term: bp.Term}
		// loop-local interpreter shares variable bindings (conservatively copied)
		it2 := &vmInterp{m: it.m, info: it.info, callEv: map[*ast.CallExpr]int{}, vars: map[types.Object]*Origin{}, op: it.op, tag: it.tag, bools: map[types.Object]bool{}}
		for k, v := range it.vars {
			it2.vars[k] = v
		}
		it2.run(bp.Atoms, &sub)
		if bp.Term == "panic" {
			continue
		}
		ev.Body = append(ev.Body, sub.Events)
	}
	it.emit(hp, ev)
}

// ---------------------------------------------------------------------------------------
// Derived signature

type OpSig struct {
	Op        *Opcode
	Operand   string     // none | u16 | const
	ConstType types.Type // type asserted on the constant operand
	Pop       int        // fixed number of pops (maximum over paths)
	SymPop    string     // "" | "callsize" | "top"  (value-dependent pops)
	SymFactor int        // pops per unit of the symbolic count
	Push      int
	Net       int    // pushes - fixed pops, equal on all non-panicking paths
	Peek      bool   // reads the top of stack before popping
	Jump      string // "" fwd back fwd-if-true fwd-if-false
	Scope     string // "" open close load store inc
	MayPanic  bool
	Problems  []string
	// Scope == "inc": the stored value is the loaded value of the same key plus one
	IncOK  bool
	IncWhy string
}

// Signature derives the signature of one opcode; Problems non-empty = undecided.
func (m *VMModel) Signature(name string) *OpSig {
	h := m.Handlers[name]
	if h == nil {
		return nil
	}
	s := &OpSig{Op: h.Op, Operand: "none"}
	first := true
	for _, hp := range h.Paths {
		pops, pushes, sym, symFactor := 0, 0, "", 0
		operand := "none"
		var ctype types.Type
		peekFirst := false
		jump, scope := "", ""
		panics := hp.Term == "panic"
		popTopAssertInt := false
		for _, e := range hp.Events {
			switch e.Kind {
			case "arg":
				if operand != "none" {
					s.Problems = append(s.Problems, "two operand reads on one path")
				}
				operand = "u16"
			case "const":
				if operand != "none" {
					s.Problems = append(s.Problems, "two operand reads on one path")
				}
				operand = "const"
				ctype = e.Assert
			case "pop":
				pops++
				if pops == 1 && e.Assert != nil && types.Identical(e.Assert, types.Typ[types.Int]) {
					popTopAssertInt = true
				}
			case "peek":
				if pops == 0 {
					peekFirst = true
				}
			case "push":
				pushes++
			case "jump":
				jump = e.Dir
				if e.CondOn != nil {
					if e.CondNeg {
						jump += "-if-false"
					} else {
						jump += "-if-true"
					}
				}
			case "scope.open":
				scope = "open"
			case "scope.close":
				scope = "close"
			case "scopestore":
				if scope == "load" {
					scope = "inc"
					s.IncOK, s.IncWhy = false, "the stored value is `"+ExprStr(exprOfOrigin(e.Val))+"`"
					if v := e.Val; v != nil && v.Kind == "incr" && v.Field == "++" && v.Base != nil && v.Base.Kind == "scopeload" {
						if sameOrigin(v.Base.KeyO, e.Key) {
							s.IncOK, s.IncWhy = true, "stores (loaded value of the same key) + 1"
						} else {
							s.IncWhy = "the incremented value is loaded under another key than the one stored"
						}
					} else if v != nil && v.Kind == "incr" && v.Field == "--" {
						s.IncWhy = "the variable is decremented"
					}
				} else {
					scope = "store"
				}
			case "scopeload":
				scope = "load"
			case "panic":
				panics = true
			case "loop":
				per := -1
				for _, b := range e.Body {
					n := 0
					for _, be := range b {
						if be.Kind == "pop" {
							n++
						}
						if be.Kind == "push" {
							s.Problems = append(s.Problems, "push inside a counted loop")
						}
					}
					if per >= 0 && per != n {
						s.Problems = append(s.Problems, "loop body paths pop different counts")
					}
					per = n
				}
				if per > 0 {
					if e.CountOrigin == nil {
						s.Problems = append(s.Problems, "pops inside a loop whose trip count is not recognised")
					} else {
						co := e.CountOrigin
						switch {
						case co.Kind == "field" && co.Base != nil && co.Base.Kind == "const":
							sym = "callsize:" + co.Field
						case co.Kind == "pop" && co.PopIdx == 1 && popTopAssertInt:
							sym = "top"
						default:
							s.Problems = append(s.Problems, "loop trip count of unknown origin "+co.String())
						}
						symFactor = per
					}
				}
			case "stack.other", "scope.other", "ipwrite":
				s.Problems = append(s.Problems, "unrecognised manipulation: "+e.Kind)
			}
		}
		if panics {
			s.MayPanic = true
			// operand width must still agree so that the VM and Disassemble stay in step: only
			// checked on completing paths
			continue
		}
		if first {
			s.Operand, s.ConstType, s.Pop, s.Push, s.Net, s.SymPop, s.SymFactor, s.Peek, s.Jump, s.Scope = operand, ctype, pops, pushes, pushes-pops, sym, symFactor, peekFirst, jump, scope
			first = false
			continue
		}
		if operand != s.Operand {
			s.Problems = append(s.Problems, "paths read different operands")
		}
		if pushes-pops != s.Net || sym != s.SymPop || symFactor != s.SymFactor {
			s.Problems = append(s.Problems, fmt.Sprintf("paths have different net stack effects (%d vs %d)", pushes-pops, s.Net))
		}
		if pops > s.Pop {
			s.Pop, s.Push = pops, pushes
		}
		s.Peek = s.Peek || peekFirst
		if jump != "" {
			if s.Jump != "" && s.Jump != jump {
				s.Problems = append(s.Problems, "paths jump differently")
			}
			s.Jump = jump
		}
		if scope != s.Scope {
			if s.Scope == "" {
				s.Scope = scope
			} else if scope != "" {
				s.Problems = append(s.Problems, "paths have different scope effects")
			}
		}
		if s.ConstType == nil {
			s.ConstType = ctype
		}
	}
	if first {
		s.Problems = append(s.Problems, "no completing path")
	}
	return s
}

// sameOrigin: two origins denote the same value (the same variable binding, or the same
// operand read).
func sameOrigin(a, b *Origin) bool {
	if a == nil || b == nil {
		return false
	}
	if a == b {
		return true
	}
	return a.Kind == b.Kind && a.Event >= 0 && a.Event == b.Event && (a.Kind == "const" || a.Kind == "arg" || a.Kind == "pop" || a.Kind == "peek")
}

func exprOfOrigin(o *Origin) ast.Node {
	if o == nil || o.Expr == nil {
		return nil
	}
	return o.Expr
}

func (s *OpSig) String() string {
	t := ""
	if s.ConstType != nil {
		t = ":" + types.TypeString(s.ConstType, shortQual)
	}
	sym := ""
	if s.SymPop != "" {
		sym = fmt.Sprintf("+%d*%s", s.SymFactor, s.SymPop)
	}
	return fmt.Sprintf("%-18s operand=%s%s pop=%d%s push=%d peek=%v jump=%s scope=%s panic=%v %v", s.Op.Name, s.Operand, t, s.Pop, sym, s.Push, s.Peek, s.Jump, s.Scope, s.MayPanic, s.Problems)
}

func (m *VMModel) SortedNames() []string {
	var ns []string
	for _, o := range m.Opcodes {
		ns = append(ns, o.Name)
	}
	sort.SliceStable(ns, func(i, j int) bool { return m.ByName[ns[i]].Value < m.ByName[ns[j]].Value })
	return ns
}
